(* C07 — model of api/resmap/reswrangler.go (resWrangler) and of the identity-relevant part of the
   transformers that run on it, at the level of resource identities and build annotations.
   Definitions only (proofs: Res/ResMapProofs.v).

   A resource is (CurId, metadata.annotations, IsNilOrEmpty, opaque payload tag).  The previous-id
   bookkeeping lives, as in the code, in CSV build annotations whose keys are the GENERATED constants
   of Gen/Annotations.v.  Outcomes follow the code: Err where the Go function returns an error, Panic
   where it panics (Resource.PrevIds on unequal CSV lengths, Factory.FromResourceSlice on an id clash). *)
From KV Require Import Base.Prelude Res.HygieneTypes Gen.Annotations Res.Hygiene.
Open Scope list_scope.   (* ++ is list append here; string appends are written (_ ++ _)%string *)

(* ---------- kyaml/resid ---------- *)

Record gvk := mkGvk { g_group : string; g_version : string; g_kind : string;
                      g_cs : bool (* isClusterScoped, computed from the openapi data by resid.NewGvk *) }.
Record resid := mkId { i_gvk : gvk; i_name : string; i_ns : string }.

Definition totally_not_a_namespace : string := "_non_namespaceable_".
Definition default_namespace : string := "default".

(* ResId.EffectiveNamespace *)
Definition eff_ns (i : resid) : string :=
  if g_cs (i_gvk i) then totally_not_a_namespace
  else if String.eqb (i_ns i) "" || String.eqb (i_ns i) default_namespace then default_namespace
  else i_ns i.

(* Gvk.Equals: the scope flag is not compared *)
Definition gvk_equals (a b : gvk) : bool :=
  String.eqb (g_group a) (g_group b) && String.eqb (g_version a) (g_version b) && String.eqb (g_kind a) (g_kind b).

(* ResId.Equals = IsNsEquals && GvknEquals *)
Definition id_equals (a b : resid) : bool :=
  String.eqb (eff_ns a) (eff_ns b) && (String.eqb (i_name a) (i_name b) && gvk_equals (i_gvk a) (i_gvk b)).

(* Go's == on the ResId struct (used by Remove, IdSet.Contains, Intersection) *)
Definition id_same (a b : resid) : bool :=
  gvk_equals (i_gvk a) (i_gvk b) && Bool.eqb (g_cs (i_gvk a)) (g_cs (i_gvk b))
  && String.eqb (i_name a) (i_name b) && String.eqb (i_ns a) (i_ns b).

(* the key ResId.Equals compares *)
Definition id_key (i : resid) : string * string * string * string * string :=
  (g_group (i_gvk i), g_version (i_gvk i), g_kind (i_gvk i), i_name i, eff_ns i).

(* Gvk.IsSelected / the Gvk part of ResId.IsSelectedBy, selector given as (group, version, kind) *)
Definition gvk_selected (sel : string * string * string) (x : gvk) : bool :=
  let '(g, v, k) := sel in
  (String.eqb g "" || String.eqb (g_group x) g)
  && (String.eqb v "" || String.eqb (g_version x) v)
  && (String.eqb k "" || String.eqb (g_kind x) k).

(* ---------- api/resource ---------- *)

Record mres := mkRes {
  m_id : resid;          (* Resource.CurId() *)
  m_ann : annmap;        (* metadata.annotations *)
  m_empty : bool;        (* RNode.IsNilOrEmpty() *)
  m_tag : string         (* opaque payload: identifies which object this is *)
}.
Definition rmap := list mres.

Definition cur (r : mres) : resid := m_id r.
(* writing an annotation into an empty node creates metadata.annotations: the node is no longer empty *)
Definition set_ann (a : annmap) (r : mres) : mres :=
  mkRes (m_id r) a (m_empty r && match a with [] => true | _ => false end) (m_tag r).
Definition set_name (n : string) (r : mres) : mres :=
  mkRes (mkId (i_gvk (m_id r)) n (i_ns (m_id r))) (m_ann r) (m_empty r) (m_tag r).
Definition set_ns (n : string) (r : mres) : mres :=
  mkRes (mkId (i_gvk (m_id r)) (i_name (m_id r)) n) (m_ann r) (m_empty r) (m_tag r).
(* a kind change re-evaluates the scope flag (resid.NewGvk asks the openapi data) *)
Definition set_kind (k : string) (cs : bool) (r : mres) : mres :=
  let g := i_gvk (m_id r) in
  mkRes (mkId (mkGvk (g_group g) (g_version g) k cs) (i_name (m_id r)) (i_ns (m_id r)))
        (m_ann r) (m_empty r) (m_tag r).

Definition comma : ascii := ","%char.
Definition opt_default (o : option string) : string := match o with Some s => s | None => "" end.

(* Resource.getCsvAnnotation *)
Definition csv_get (k : string) (a : annmap) : list string :=
  match ann_get k a with None => [] | Some s => split_on comma s end.

(* Resource.appendCsvAnnotation *)
Definition append_csv (k v : string) (a : annmap) : annmap :=
  if String.eqb v "" then a else ann_set k (join_with "," (csv_get k a ++ [v])) a.

Fixpoint zip3 (a b c : list string) : list (string * string * string) :=
  match a, b, c with
  | x :: a', y :: b', z :: c' => (x, y, z) :: zip3 a' b' c'
  | _, _, _ => []
  end.

(* utils.PrevIds + Resource.PrevIds (which panics when utils.PrevIds reports an error) *)
Definition prev_ids (r : mres) : res (list resid) :=
  let a := m_ann r in
  match ann_get K_utils_BuildAnnotationPreviousNames a with
  | None => Ok []
  | Some names =>
      let ns := split_on comma names in
      let nss := split_on comma (opt_default (ann_get K_utils_BuildAnnotationPreviousNamespaces a)) in
      let ks := split_on comma (opt_default (ann_get K_utils_BuildAnnotationPreviousKinds a)) in
      if Nat.eqb (List.length ns) (List.length nss) && Nat.eqb (List.length ns) (List.length ks) then
        let g := i_gvk (cur r) in
        Ok (map (fun t => let '(n, s, k) := t in mkId (mkGvk (g_group g) (g_version g) k false) n s)
                (zip3 ns nss ks))
      else Panic
  end.

(* Resource.OrgId *)
Definition org_id (r : mres) : res resid :=
  do ps <- prev_ids r;
  Ok (match ps with p :: _ => p | [] => cur r end).

(* Resource.StorePreviousId = setPreviousId(EffectiveNamespace, Name, Kind) *)
Definition store_prev (r : mres) : mres :=
  let id := cur r in
  let a1 := append_csv K_utils_BuildAnnotationPreviousNames (i_name id) (m_ann r) in
  let a2 := append_csv K_utils_BuildAnnotationPreviousNamespaces (eff_ns id) a1 in
  let a3 := append_csv K_utils_BuildAnnotationPreviousKinds (g_kind (i_gvk id)) a2 in
  set_ann a3 r.

(* Resource.Behavior: only merge / replace are distinguished by the callers *)
Definition behavior_of (r : mres) : string := opt_default (ann_get K_utils_BuildAnnotationsGenBehavior (m_ann r)).
Definition merge_or_replace (r : mres) : bool :=
  String.eqb (behavior_of r) "merge" || String.eqb (behavior_of r) "replace".

(* Resource.NeedHashSuffix *)
Definition needs_hash (r : mres) : bool :=
  match ann_get K_utils_BuildAnnotationsGenAddHashSuffix (m_ann r) with
  | Some v => String.eqb v K_utils_Enabled
  | None => false
  end.

(* mergeStringMaps(old, new): later maps win *)
Definition ann_union (old new : annmap) : annmap := fold_left (fun acc kv => ann_set (fst kv) (snd kv) acc) new old.

(* mergeStringMapsWithBuildAnnotations(other, ra) followed by the needsHashSuffix rule of
   Resource.CopyMergeMetaDataFieldsFrom *)
Definition merge_annotations (other ra : annmap) : annmap :=
  let merged := ann_union other ra in
  let merged := fold_left (fun acc k => match ann_get k other with
                                        | Some v => ann_set k v acc
                                        | None => ann_remove k acc
                                        end) (map snd gen_build_annotations) merged in
  if ann_has K_utils_BuildAnnotationsGenAddHashSuffix ra then merged
  else ann_remove K_utils_BuildAnnotationsGenAddHashSuffix merged.

(* Resource.CopyMergeMetaDataFieldsFrom(old), as far as identity and annotations go:
   name and namespace come from old, group/version/kind stay *)
Definition copy_merge (r old : mres) : mres :=
  mkRes (mkId (i_gvk (cur r)) (i_name (cur old)) (i_ns (cur old)))
        (merge_annotations (m_ann old) (m_ann r)) false (m_tag r).

(* ---------- resWrangler ---------- *)

(* Append *)
Definition append (r : mres) (m : rmap) : res rmap :=
  if existsb (fun x => id_equals (cur r) (cur x)) m then Err else Ok (m ++ [r]).

(* appendAll *)
Fixpoint append_all (rs : list mres) (m : rmap) : res rmap :=
  match rs with
  | [] => Ok m
  | r :: t => do m' <- append r m; append_all t m'
  end.

(* Remove: Go compares with != on the struct and demands that exactly one entry went away *)
Definition remove (id : resid) (m : rmap) : res rmap :=
  let m' := filter (fun r => negb (id_same (cur r) id)) m in
  if Nat.eqb (S (List.length m')) (List.length m) then Ok m' else Err.

Fixpoint last_index {A} (f : A -> bool) (l : list A) (i : nat) (acc : option nat) : option nat :=
  match l with
  | [] => acc
  | x :: t => last_index f t (S i) (if f x then Some i else acc)
  end.

(* GetIndexOfCurrentId: error when more than one entry matches *)
Definition index_of_cur_id (id : resid) (m : rmap) : res (option nat) :=
  let f := fun x => id_equals id (cur x) in
  if Nat.ltb 1 (List.length (filter f m)) then Err else Ok (last_index f m 0 None).

(* Replace *)
Definition replace_res (r : mres) (m : rmap) : res (nat * rmap) :=
  do oi <- index_of_cur_id (cur r) m;
  match oi with
  | None => Err
  | Some i => Ok (i, replace_nth i r m)
  end.

(* GetMatchingResourcesByAnyId(id.Equals): indices of the matches; empty resources are skipped before
   their PrevIds are looked at *)
Fixpoint matching_any_id (id : resid) (m : rmap) (i : nat) : res (list nat) :=
  match m with
  | [] => Ok []
  | x :: t =>
      if m_empty x then matching_any_id id t (S i)
      else
        do ps <- prev_ids x;
        do rest <- matching_any_id id t (S i);
        Ok (if existsb (id_equals id) (ps ++ [cur x]) then i :: rest else rest)
  end.

(* appendReplaceOrMerge *)
Definition absorb_one (r : mres) (m : rmap) : res rmap :=
  do idxs <- matching_any_id (cur r) m 0;
  match idxs with
  | [] => if merge_or_replace r then Err else append r m
  | [i] =>
      match nth_error m i with
      | None => Err
      | Some old =>
          if merge_or_replace r then
            let r' := copy_merge r old in
            do ir <- replace_res r' m;
            if Nat.eqb (fst ir) i then Ok (snd ir) else Err
          else Err
      end
  | _ => Err
  end.

(* AbsorbAll *)
Fixpoint absorb_all (rs : list mres) (m : rmap) : res rmap :=
  match rs with
  | [] => Ok m
  | r :: t => do m' <- absorb_one r m; absorb_all t m'
  end.

(* DropEmpties *)
Definition drop_empties (m : rmap) : rmap := filter (fun r => negb (m_empty r)) m.

(* ---------- transformers, as far as identity goes ---------- *)

Definition skipped (tab : list (string * string * string)) (o : resid) : bool :=
  existsb (fun sel => gvk_selected sel (i_gvk o)) tab.

(* PrefixTransformerPlugin.Transform with the default field spec metadata/name *)
Definition prefix_one (p : string) (r : mres) : res mres :=
  do o <- org_id r;
  if skipped gen_prefix_skip o then Ok r
  else
    let r1 := set_ann (append_csv K_utils_BuildAnnotationPrefixes p (m_ann r)) r in
    let r2 := if String.eqb p "" then r1 else store_prev r1 in
    Ok (if String.eqb (i_name (cur r2)) "" then r2 else set_name (p ++ i_name (cur r2))%string r2).

Definition suffix_one (s : string) (r : mres) : res mres :=
  do o <- org_id r;
  if skipped gen_suffix_skip o then Ok r
  else
    let r1 := set_ann (append_csv K_utils_BuildAnnotationSuffixes s (m_ann r)) r in
    let r2 := if String.eqb s "" then r1 else store_prev r1 in
    Ok (if String.eqb (i_name (cur r2)) "" then r2 else set_name (i_name (cur r2) ++ s)%string r2).

Definition prefix_all (p : string) (m : rmap) : res rmap := mapM (prefix_one p) m.
Definition suffix_all (s : string) (m : rmap) : res rmap := mapM (suffix_one s) m.

(* NamespaceTransformerPlugin.Transform: resources are rewritten one after the other and each is
   re-checked against the map as it is at that moment *)
(* [unset] = the plugin's unsetOnly option: the namespace filter then only fills in a blank namespace
   (filtersutil.SetEntryIfEmpty); the id-conflict test is made either way *)
Definition ns_one (ns : string) (unset : bool) (r : mres) : mres :=
  let r1 := store_prev r in
  if g_cs (i_gvk (cur r1)) then r1
  else if unset && negb (String.eqb (i_ns (cur r1)) "") then r1
  else set_ns ns r1.

Fixpoint ns_go (ns : string) (unset : bool) (done todo : rmap) : res rmap :=
  match todo with
  | [] => Ok done
  | r :: t =>
      if m_empty r then ns_go ns unset (done ++ [r]) t
      else
        let r' := ns_one ns unset r in
        let now := done ++ r' :: t in
        if Nat.eqb (List.length (filter (fun x => id_equals (cur r') (cur x)) now)) 1
        then ns_go ns unset (done ++ [r']) t
        else Err
  end.

Definition ns_all (ns : string) (unset : bool) (m : rmap) : res rmap :=
  if String.eqb ns "" then Ok m else ns_go ns unset [] m.

(* HashTransformerPlugin.Transform; the content hash is an oracle table tag -> hash
   (a missing entry stands for an error of Resource.Hash) *)
Fixpoint assoc (k : string) (l : list (string * string)) : option string :=
  match l with
  | [] => None
  | (k', v) :: t => if String.eqb k' k then Some v else assoc k t
  end.

Definition hash_one (h : list (string * string)) (r : mres) : res mres :=
  if needs_hash r then
    match assoc (m_tag r) h with
    | None => Err
    | Some hv => let r1 := store_prev r in Ok (set_name (i_name (cur r1) ++ "-" ++ hv)%string r1)
    end
  else Ok r.

(* ... followed by the re-check (fix "HashTransformer checks that the hash-suffixed names do not collide"): the id of every
   renamed resource must occur exactly once in the map *)
Definition hash_conflict_free (m : rmap) : bool :=
  forallb (fun r => negb (needs_hash r)
                    || Nat.eqb (List.length (filter (fun x => id_equals (cur r) (cur x)) m)) 1) m.

Definition hash_all (h : list (string * string)) (m : rmap) : res rmap :=
  do m' <- mapM (hash_one h) m;
  if hash_conflict_free m' then Ok m' else Err.

(* ---------- legacy order (SortOrderTransformer.go) ---------- *)

Fixpoint last_pos (k : string) (l : list string) (i : Z) (acc : option Z) : option Z :=
  match l with
  | [] => acc
  | x :: t => last_pos k t (i + 1)%Z (if String.eqb x k then Some i else acc)
  end.

(* typeOrders[kind]; a kind in both lists gets the orderLast value (written second), missing = 0 *)
Definition type_order (k : string) : Z :=
  match last_pos k gen_order_last 0%Z None with
  | Some i => (1 + i)%Z
  | None => match last_pos k gen_order_first 0%Z None with
            | Some i => (i - Z.of_nat (List.length gen_order_first))%Z
            | None => 0%Z
            end
  end.

Definition or_default (s d : string) : string := if String.eqb s "" then d else s.

Definition legacy_gvk_string (x : gvk) : string :=
  join_with "_" [or_default (g_group x) "~G"; or_default (g_version x) "~V"; or_default (g_kind x) "~K"].

(* Gvk.String *)
Definition gvk_string (x : gvk) : string :=
  join_with "." [or_default (g_kind x) "[noKind]"; or_default (g_version x) "[noVer]"; or_default (g_group x) "[noGrp]"].

Definition legacy_id_string (i : resid) : string :=
  join_with "|" [gvk_string (i_gvk i); or_default (i_ns i) "~X"; or_default (i_name i) "~N"].

Definition gvk_less (a b : gvk) : bool :=
  let ia := type_order (g_kind a) in
  let ib := type_order (g_kind b) in
  if negb (Z.eqb ia ib) then Z.ltb ia ib
  else if (String.eqb (g_kind a) "Namespace" && String.eqb (g_kind b) "Namespace")
          && (String.eqb (g_group a) "" || String.eqb (g_group b) "")
  then String.ltb (legacy_gvk_string b) (legacy_gvk_string a)
  else String.ltb (legacy_gvk_string a) (legacy_gvk_string b).

(* legacyIDSorter.Less *)
Definition legacy_less (a b : resid) : bool :=
  if negb (gvk_equals (i_gvk a) (i_gvk b)) then gvk_less (i_gvk a) (i_gvk b)
  else String.ltb (legacy_id_string a) (legacy_id_string b).

(* sort.Sort is modelled by insertion sort; both compute THE sorted permutation whenever Less is a strict
   total order on the ids present (assumption S1 of DESIGN section 4; the generator keeps to such ids) *)
Fixpoint insert_by (lt : mres -> mres -> bool) (x : mres) (l : rmap) : rmap :=
  match l with
  | [] => [x]
  | y :: t => if lt y x then y :: insert_by lt x t else x :: y :: t
  end.
Fixpoint isort_by (lt : mres -> mres -> bool) (l : rmap) : rmap :=
  match l with
  | [] => []
  | x :: t => insert_by lt x (isort_by lt t)
  end.

Definition res_less (a b : mres) : bool := legacy_less (cur a) (cur b).

(* SortOrderTransformerPlugin.Transform, legacy order: sort, Clear, re-Append one by one *)
Definition sort_legacy (m : rmap) : res rmap := append_all (isort_by res_less m) [].

(* ---------- resWrangler.ApplySmPatch, for patches that only touch identity ----------
   The patch is (metadata.name, kind, allowNameChange, allowKindChange, `$patch: delete`).
   [scope] is the openapi oracle for the patch's kind: (group, version) -> is (group, version, pkind)
   cluster scoped; a missing entry means namespaced. *)
Fixpoint scope_of (scope : list (string * string * bool)) (g v : string) : bool :=
  match scope with
  | [] => false
  | (g', v', b) :: t => if String.eqb g' g && String.eqb v' v then b else scope_of t g v
  end.

Definition patch_annotations (allowN allowK : bool) : annmap :=
  (if allowN then [(K_utils_BuildAnnotationAllowNameChange, K_utils_Enabled)] else [])
  ++ (if allowK then [(K_utils_BuildAnnotationAllowKindChange, K_utils_Enabled)] else []).

Definition sm_patch_one (scope : list (string * string * bool)) (pname pkind : string) (allowN allowK del : bool) (r : mres) : mres :=
  if del then mkRes (m_id r) (m_ann r) true (m_tag r)
  else
    let r1 := if allowN || allowK then store_prev r else r in
    let r2 := set_ann (ann_union (m_ann r1) (patch_annotations allowN allowK)) r1 in
    let g := i_gvk (cur r2) in
    let r3 := if allowK then set_kind pkind (scope_of scope (g_group g) (g_version g)) r2 else r2 in
    if allowN then set_name pname r3 else r3.

Definition sm_patch (scope : list (string * string * bool)) (sel : list resid) (pname pkind : string)
           (allowN allowK del : bool) (m : rmap) : res rmap :=
  let patched := map (fun r => if existsb (id_same (cur r)) sel
                               then sm_patch_one scope pname pkind allowN allowK del r else r) m in
  append_all (filter (fun r => negb (m_empty r)) patched) [].

(* ---------- KustTarget.IgnoreLocal + ResAccumulator.Intersection ---------- *)

(* RNode.GetValidatedMetadata: kind required; name required unless the kind ends in "List" *)
Definition validated (r : mres) : bool :=
  negb (String.eqb (g_kind (i_gvk (cur r))) "")
  && (has_suffix "List" (g_kind (i_gvk (cur r))) || negb (String.eqb (i_name (cur r)) "")).

(* Factory.DropLocalNodes keeps a node unless it carries local-config with a value other than "false" *)
Definition is_local (r : mres) : bool :=
  match ann_get K_konfig_IgnoredByKustomizeAnnotation (m_ann r) with
  | None => false
  | Some v => negb (String.eqb v "false")
  end.

Fixpoint intersect (ids other : list resid) (m : rmap) : res rmap :=
  match ids with
  | [] => Ok m
  | id :: t =>
      if existsb (id_same id) other then intersect t other m
      else do m' <- remove id m; intersect t other m'
  end.

Definition ignore_local (m : rmap) : res rmap :=
  let nodes := filter (fun r => negb (m_empty r)) m in
  if negb (forallb validated nodes) then Err
  else
    let remain := filter (fun r => negb (is_local r)) nodes in
    match append_all remain [] with
    | Ok other => intersect (map cur m) (map cur other) m
    | _ => Err                 (* the kept resources are Appended to a fresh ResMap: an id clash is an error
                                  (fix 66fde0c; Factory.FromResourceSlice used to panic here) *)
    end.

(* ---------- the tail of krusty.Run on the accumulated map ---------- *)

(* Resource.RemoveBuildAnnotations returns early when there are no annotations; SetOrigin(nil) and
   ClearTransformations always write metadata.annotations back, which creates `metadata: {}` in an
   empty node (it is not empty afterwards) *)
Definition rewrites_metadata (bm : list string) : bool :=
  existsb (fun c => guard_active bm (snd c) && negb (String.eqb (fst c) "RemoveBuildAnnotations")) gen_run_strips.
Definition strip_res (bm : list string) (r : mres) : mres :=
  mkRes (m_id r) (strip_run bm (m_ann r)) (m_empty r && negb (rewrites_metadata bm)) (m_tag r).
Definition strip_all (bm : list string) (m : rmap) : rmap := map (strip_res bm) m.

(* hash names -> IgnoreLocal -> sort (legacy unless fifo) -> remove build/origin/transformer annotations.
   FixBackReferences / ResolveVars / the managed-by label do not touch identity or annotations. *)
Definition finalize (h : list (string * string)) (legacy : bool) (bm : list string) (m : rmap) : res rmap :=
  do m1 <- hash_all h m;
  do m2 <- ignore_local m1;
  do m3 <- (if legacy then sort_legacy m2 else Ok m2);
  Ok (strip_all bm m3).

(* ---------- operations and traces ---------- *)

Inductive op :=
| OAppend (r : mres)
| OAppendAll (rs : list mres)
| OReplace (r : mres)
| ORemove (id : resid)
| OAbsorbAll (rs : list mres)
| ODropEmpties
| OClear
| OPrefix (p : string)
| OSuffix (s : string)
| ONamespace (ns : string) (unset_only : bool)
| OHash (h : list (string * string))
| OSortLegacy
| OSmPatch (scope : list (string * string * bool)) (sel : list resid) (pname pkind : string) (allowN allowK del : bool)
| ORawRename (tag newname : string)    (* what an unchecked write to metadata.name does (JSON patch, replacement) *)
| OIgnoreLocal
| OStrip (bm : list string).

Definition raw_rename (tag n : string) (m : rmap) : rmap :=
  map (fun r => if String.eqb (m_tag r) tag then set_name n r else r) m.

Definition step (o : op) (m : rmap) : res rmap :=
  match o with
  | OAppend r => append r m
  | OAppendAll rs => append_all rs m
  | OReplace r => do ir <- replace_res r m; Ok (snd ir)
  | ORemove id => remove id m
  | OAbsorbAll rs => absorb_all rs m
  | ODropEmpties => Ok (drop_empties m)
  | OClear => Ok []
  | OPrefix p => prefix_all p m
  | OSuffix s => suffix_all s m
  | ONamespace ns u => ns_all ns u m
  | OHash h => hash_all h m
  | OSortLegacy => sort_legacy m
  | OSmPatch sc sel pn pk an ak del => sm_patch sc sel pn pk an ak del m
  | ORawRename tag n => Ok (raw_rename tag n m)
  | OIgnoreLocal => ignore_local m
  | OStrip bm => Ok (strip_all bm m)
  end.

Fixpoint run (ops : list op) (m : rmap) : res rmap :=
  match ops with
  | [] => Ok m
  | o :: t => do m' <- step o m; run t m'
  end.

(* ---------- the properties' vocabulary ---------- *)

(* no two resources have ids that ResId.Equals identifies *)
Definition Inv (m : rmap) : Prop := NoDup (map (fun r => id_key (cur r)) m).

(* what the property text calls identity: (apiVersion, kind, namespace, name) as written in the document;
   apiVersion determines group and version (resid.ParseGroupVersion) *)
Definition raw_identity (r : mres) : string * string * string * string * string :=
  let i := cur r in (g_group (i_gvk i), g_version (i_gvk i), g_kind (i_gvk i), i_ns i, i_name i).

(* the scope flag is a function of group/version/kind (one openapi schema per build) *)
Definition scope_consistent (m : rmap) : Prop :=
  forall a b, In a m -> In b m -> gvk_equals (i_gvk (cur a)) (i_gvk (cur b)) = true ->
              g_cs (i_gvk (cur a)) = g_cs (i_gvk (cur b)).

(* a resource has a kind and a name (name not demanded for kinds ending in "List", as the code does) *)
Definition wellformed (r : mres) : Prop :=
  g_kind (i_gvk (cur r)) <> "" /\ (has_suffix "List" (g_kind (i_gvk (cur r))) = true \/ i_name (cur r) <> "").
Definition has_kind_and_name (r : mres) : Prop :=
  g_kind (i_gvk (cur r)) <> "" /\ i_name (cur r) <> "".

(* ---------- accumulation over kustomization layers (KustTarget.accumulateTarget) ----------
   A layer first merges the accumulators of its bases into an empty accumulator with AppendAll
   (accumulateResources -> MergeAccumulator), then runs its own operations (files appended, generators
   absorbed, transformers). Files and bases may interleave in the real resources list; that only affects
   the order of the resources. *)
Inductive layer := Layer (bases : list layer) (ops : list op).

Definition merge_with (acc : layer -> res rmap) : list layer -> rmap -> res rmap :=
  fix merge (bs : list layer) (m : rmap) {struct bs} : res rmap :=
    match bs with
    | [] => Ok m
    | b :: t => do mb <- acc b; do m' <- append_all mb m; merge t m'
    end.

Fixpoint accumulate (l : layer) : res rmap :=
  match l with
  | Layer bases ops =>
      do m <- (fix merge (bs : list layer) (m : rmap) {struct bs} : res rmap :=
                 match bs with
                 | [] => Ok m
                 | b :: t => do mb <- accumulate b; do m' <- append_all mb m; merge t m'
                 end) bases [];
      run ops m
  end.
