(* Model of the legacy resource order (property C11):
     kyaml/resid/gvk.go        Gvk, Gvk.Equals, Gvk.String, Gvk.IsSelected
     kyaml/resid/resid.go      ResId, EffectiveNamespace, Equals
     api/internal/builtins/SortOrderTransformer.go
                               newLegacyIDSorter (typeOrders), legacyIDSorter.Less, gvkLessThan,
                               legacyGVKSortString, legacyResIDSortString, Transform (legacy branch)
   Definitions only.  Go's [<] on strings is [sltb] (byte-wise); Go's sort.Sort enters the theorems as a
   Section hypothesis ([sort_spec] of Base/SortFacts.v); the executable model sorts by insertion. *)
From KV Require Export Base.Prelude Base.StrOrder Base.SortFacts Yaml.FieldSpecTypes.
Open Scope string_scope.

(* resid.Gvk (the unexported isClusterScoped flag is carried separately: see [id_equals]) *)
Record gvk := mkGvk { g_group : string; g_version : string; g_kind : string }.

(* resid.ResId *)
Record rid := mkId { id_gvk : gvk; id_ns : string; id_name : string }.

(* Gvk.Equals *)
Definition gvk_eqb (a b : gvk) : bool :=
  String.eqb (g_group a) (g_group b) && String.eqb (g_version a) (g_version b) &&
  String.eqb (g_kind a) (g_kind b).

Definition rid_eqb (a b : rid) : bool :=
  gvk_eqb (id_gvk a) (id_gvk b) && String.eqb (id_ns a) (id_ns b) && String.eqb (id_name a) (id_name b).

Definition or_default (d s : string) : string := if String.eqb s "" then d else s.

(* Gvk.String(): kind.version.group with the [noXxx] place holders *)
Definition gvk_string (x : gvk) : string :=
  or_default "[noKind]" (g_kind x) ++ "." ++ or_default "[noVer]" (g_version x) ++ "." ++
  or_default "[noGrp]" (g_group x).

(* legacyGVKSortString *)
Definition legacy_gvk_sort_string (x : gvk) : string :=
  or_default "~G" (g_group x) ++ "_" ++ or_default "~V" (g_version x) ++ "_" ++ or_default "~K" (g_kind x).

(* legacyResIDSortString *)
Definition legacy_resid_sort_string (i : rid) : string :=
  gvk_string (id_gvk i) ++ "|" ++ or_default "~X" (id_ns i) ++ "|" ++ or_default "~N" (id_name i).

(* the string constants above, in the shape the translator prints them (obligation Gen_legacy_strings) *)
Definition model_legacy_gvk_strings : list (string * string) :=
  [("legacyNoGroup", "~G"); ("legacyNoVersion", "~V"); ("legacyNoKind", "~K"); ("legacyFieldSeparator", "_")].
Definition model_legacy_resid_strings : list (string * string) :=
  [("legacyNoNamespace", "~X"); ("legacyNoName", "~N"); ("legacySeparator", "|")].
Definition model_gvk_string_consts : list (string * string) :=
  [("noGroup", "[noGrp]"); ("noVersion", "[noVer]"); ("noKind", "[noKind]"); ("fieldSep", ".")].
Definition namespace_kind : string := "Namespace".       (* types.NamespaceKind *)

Section Order.
  (* LegacySortOptions.OrderFirst / OrderLast *)
  Variable first last : list string.

  (* index of the LAST occurrence of k in l, counting from i (a later map assignment overwrites) *)
  Fixpoint last_index (k : string) (l : list string) (i : Z) : option Z :=
    match l with
    | [] => None
    | x :: t =>
        match last_index k t (i + 1)%Z with
        | Some j => Some j
        | None => if String.eqb x k then Some i else None
        end
    end.

  (* typeOrders[k]: OrderFirst entries get -len+i, OrderLast entries 1+i (written later, so they win),
     a kind in neither list reads the map's zero value *)
  Definition type_order (k : string) : Z :=
    match last_index k last 0%Z with
    | Some i => (1 + i)%Z
    | None =>
        match last_index k first 0%Z with
        | Some i => (- Z.of_nat (List.length first) + i)%Z
        | None => 0%Z
        end
    end.

  (* gvkLessThan *)
  Definition gvk_less_than (a b : gvk) : bool :=
    let i1 := type_order (g_kind a) in
    let i2 := type_order (g_kind b) in
    if negb (Z.eqb i1 i2) then Z.ltb i1 i2
    else if (String.eqb (g_kind a) namespace_kind && String.eqb (g_kind b) namespace_kind) &&
            (String.eqb (g_group a) "" || String.eqb (g_group b) "")
         then sltb (legacy_gvk_sort_string b) (legacy_gvk_sort_string a)
         else sltb (legacy_gvk_sort_string a) (legacy_gvk_sort_string b).

  (* legacyIDSorter.Less *)
  Definition legacy_less (a b : rid) : bool :=
    if negb (gvk_eqb (id_gvk a) (id_gvk b)) then gvk_less_than (id_gvk a) (id_gvk b)
    else sltb (legacy_resid_sort_string a) (legacy_resid_sort_string b).

  (* the executable stand-in for sort.Sort(legacyIDSorter) *)
  Definition sort_legacy (l : list rid) : list rid := isort legacy_less l.

  (* Is [legacy_less] a strict total order on these ids?  (decidable check used by the correspondence:
     outside it sort.Sort promises nothing about the order.)  Quadratic: sort, then every ordered pair of
     the sorted list must be strictly increasing; LegacySortProofs.total_on_b_sound shows that this
     implies [total_on]. *)
  Fixpoint pairs_increasing (l : list rid) : bool :=
    match l with
    | [] => true
    | x :: t => negb (legacy_less x x) &&
                forallb (fun y => legacy_less x y && negb (legacy_less y x)) t && pairs_increasing t
    end.
  Definition total_on_b (l : list rid) : bool := pairs_increasing (sort_legacy l).
End Order.

(* ---------- exact guards on an id set (LegacyExact.v) ---------- *)

Section Guards.
  Variable first last : list string.

  (* the reversed comparison of gvkLessThan applies to this pair *)
  Definition ns_special (a b : gvk) : bool :=
    (String.eqb (g_kind a) namespace_kind && String.eqb (g_kind b) namespace_kind) &&
    (String.eqb (g_group a) "" || String.eqb (g_group b) "").

  (* o is a kind other than Namespace that shares Namespace's rank and whose sort string lies strictly
     between those of a reversed pair x, y: then x < y < o < x *)
  Definition straddles (x y o : gvk) : bool :=
    ns_special x y && negb (String.eqb (g_kind o) namespace_kind) &&
    Z.eqb (type_order first last (g_kind o)) (type_order first last namespace_kind) &&
    sltb (legacy_gvk_sort_string y) (legacy_gvk_sort_string o) &&
    sltb (legacy_gvk_sort_string o) (legacy_gvk_sort_string x).

  Definition straddle_free_b (l : list rid) : bool :=
    forallb (fun x => forallb (fun y => forallb (fun o =>
      negb (straddles (id_gvk x) (id_gvk y) (id_gvk o))) l) l) l.
End Guards.

(* ---------- the comparator with the rank guard of the proposed repair ----------
   gvkLessThan with `index1 != 0 &&` in front of the Namespace test (fix L-legacy-namespace-reversal-rank):
   the reversal applies only when "Namespace" is on one of the lists.  [guarded = false] is the code without
   the guard, i.e. [legacy_less]; which of the two the source contains is read by the translator
   (Gen/LegacyOrder.gen_ns_reversal_guarded). *)
Section OrderG.
  Variable guarded : bool.
  Variable first last : list string.

  Definition gvk_less_than_g (a b : gvk) : bool :=
    let i1 := type_order first last (g_kind a) in
    let i2 := type_order first last (g_kind b) in
    if negb (Z.eqb i1 i2) then Z.ltb i1 i2
    else if (negb guarded || negb (Z.eqb i1 0%Z)) &&
            ((String.eqb (g_kind a) namespace_kind && String.eqb (g_kind b) namespace_kind) &&
             (String.eqb (g_group a) "" || String.eqb (g_group b) ""))
         then sltb (legacy_gvk_sort_string b) (legacy_gvk_sort_string a)
         else sltb (legacy_gvk_sort_string a) (legacy_gvk_sort_string b).

  Definition legacy_less_g (a b : rid) : bool :=
    if negb (gvk_eqb (id_gvk a) (id_gvk b)) then gvk_less_than_g (id_gvk a) (id_gvk b)
    else sltb (legacy_resid_sort_string a) (legacy_resid_sort_string b).

  Definition sort_legacy_g (l : list rid) : list rid := isort legacy_less_g l.

  Fixpoint pairs_increasing_g (l : list rid) : bool :=
    match l with
    | [] => true
    | x :: t => negb (legacy_less_g x x) &&
                forallb (fun y => legacy_less_g x y && negb (legacy_less_g y x)) t && pairs_increasing_g t
    end.
  (* the exact guard: is the comparator a strict total order on this id set? *)
  Definition total_on_g_b (l : list rid) : bool := pairs_increasing_g (sort_legacy_g l).
End OrderG.

(* ---------- identity of resources in a ResMap ---------- *)

Section Ident.
  (* openapi.IsCertainlyClusterScoped of the Gvk (Gvk.isClusterScoped); supplied per case by the harness *)
  Variable cluster_scoped : gvk -> bool.

  (* ResId.EffectiveNamespace *)
  Definition effective_ns (i : rid) : string :=
    if cluster_scoped (id_gvk i) then "_non_namespaceable_"
    else if String.eqb (id_ns i) "" || String.eqb (id_ns i) "default" then "default"
    else id_ns i.

  (* ResId.Equals *)
  Definition id_equals (a b : rid) : bool :=
    String.eqb (effective_ns a) (effective_ns b) &&
    (String.eqb (id_name a) (id_name b) && gvk_eqb (id_gvk a) (id_gvk b)).
End Ident.

(* Gvk.IsSelected(selector): empty selector fields are wild cards *)
Definition gvk_selected (sel : fieldspec) (x : gvk) : bool :=
  (String.eqb (fs_group sel) "" || String.eqb (g_group x) (fs_group sel)) &&
  (String.eqb (fs_version sel) "" || String.eqb (g_version x) (fs_version sel)) &&
  (String.eqb (fs_kind sel) "" || String.eqb (g_kind x) (fs_kind sel)).

(* ---------- the domain of the total-order theorem ---------- *)

(* Group/version/kind/namespace/name never collide with the place holders or separators of the sort
   strings.  Every Kubernetes name (DNS labels/subdomains, CamelCase kinds, vN versions) satisfies this. *)
Definition valid_groups (x : gvk) : bool :=
  no_byte "_" (g_group x) && first_below "~" (g_group x) &&
  no_byte "_" (g_version x) && negb (String.eqb (g_version x) "~V") &&
  negb (String.eqb (g_kind x) "~K").

Definition valid_id (i : rid) : bool :=
  valid_groups (id_gvk i) &&
  no_byte "|" (id_ns i) && negb (String.eqb (id_ns i) "~X") &&
  negb (String.eqb (id_name i) "~N").

(* condition on the rank table: no other kind shares the rank of "Namespace" (the reversed
   comparison of gvkLessThan is consistent only then); a generated obligation for the default table *)
Definition namespace_isolated (first last : list string) : bool :=
  negb (Z.eqb (type_order first last namespace_kind) 0%Z) &&
  forallb (fun k => String.eqb k namespace_kind ||
                    negb (Z.eqb (type_order first last k) (type_order first last namespace_kind)))
          (first ++ last).
