(* Per-rule progress lifted through the whole name reference transformer:
   a reference to a resource whose old name is unambiguous ends up holding that resource's current name,
   whatever the other rule rows do in between (C03_refs_follow_transform_partial). *)
From KV Require Import Res.NameRef Res.FsFacts Res.NameRefProofs Res.RewriteProofs.
From Coq Require Import Lia.

Section Progress.
  Variable cs : string -> string -> bool.
  Variable nonstr : string -> bool.

  (* ---------- things that only depend on what a resource is called ---------- *)

  Lemma cur_id_ext r r' : same_identity r r' -> cur_id cs r' = cur_id cs r.
  Proof.
    intros [Hi _]. unfold ident in Hi. inversion Hi as [[Ha Hk Hn Hns]].
    unfold cur_id, cur_gvk. rewrite Ha, Hk, Hn, Hns. reflexivity.
  Qed.

  Lemma select_by_Forall2 {A} (R : A -> A -> Prop) flags l l' :
    Forall2 R l l' -> Forall2 R (select_by flags l) (select_by flags l').
  Proof.
    intros H. revert flags. induction H as [|x y l l' Hxy Hl IH]; intros [|[|] flags]; cbn; try constructor; auto.
  Qed.

  Lemma referencable_ext l l' r :
    Forall2 same_identity l l' -> referencable cs l' r = referencable cs l r.
  Proof.
    intros H. unfold referencable.
    assert (E1: map (fun _ : resource => true) l' = map (fun _ : resource => true) l).
    { induction H; cbn; congruence. }
    rewrite E1. clear E1. destruct (id_cluster_scoped (cur_id cs r)); [reflexivity|].
    destruct (rolebinding_namespaces (r_node r)) as [rbns| | |]; cbn [bind]; try reflexivity.
    f_equal. induction H as [|x y l l' Hxy Hl IH]; [reflexivity|]. cbn [map].
    rewrite IH, (cur_id_ext _ _ Hxy). f_equal.
    destruct Hxy as [Hi _]. unfold ident in Hi. inversion Hi as [[Ha Hk Hn Hns]].
    rewrite Hns. reflexivity.
  Qed.

  Lemma namespace_sieve_ext r r' path tg c :
    same_identity r r' ->
    namespace_sieve (make_ctx cs r' path tg) c = namespace_sieve (make_ctx cs r path tg) c.
  Proof. intros H. unfold namespace_sieve, make_ctx. cbn [x_cur]. now rewrite (cur_id_ext _ _ H). Qed.

  Lemma roleref_sieve_off r path tg c :
    has_suffix "roleRef/name" path = false -> roleref_sieve (make_ctx cs r path tg) c = true.
  Proof. intros H. unfold roleref_sieve, make_ctx. cbn [x_path]. now rewrite H. Qed.

  Section WithC.
    (* every resource of the map, as selectReferral sees it *)
    Variable C : list cand.
    Hypothesis no_empty_name : forall c, In c C -> prev_name_matches "" c = false.

    (* the reference: old text, and the current name [new] of the resource it designates *)
    Variables (old new : string).
    (* closed pair: everything ever called [old] is called [new] now, and so is everything ever called [new] *)
    Hypothesis closed_old : forall c, In c C -> prev_name_matches old c = true -> c_name c = new.
    Hypothesis closed_new : forall c, In c C -> prev_name_matches new c = true -> c_name c = new.

    Lemma chain_from_new v : chain C new v -> v = new.
    Proof. intros H. destruct (chain_closed C new new v closed_new closed_new H); assumption. Qed.

    Lemma chain_from_old v : chain C old v -> v = old \/ v = new.
    Proof. apply chain_closed; assumption. Qed.

    (* ---------- the roleRef of a binding is stable when nothing was ever called like its apiGroup / kind ---------- *)
    Definition external (v : string) : Prop := forall c, In c C -> prev_name_matches v c = false.

    Lemma lookup_key_some n name x :
      lookup [PKey name] n = Ok (Some x) -> exists kvs, n = Map kvs /\ find_field name kvs = Some x.
    Proof.
      unfold lookup. cbn [walk]. destruct n as [t s v|kvs|es]; try (destruct (is_null _); cbn; discriminate).
      destruct (find_field name kvs) as [y|] eqn:E; cbn; intros H; inv H. eauto.
    Qed.

    Lemma lookup_key_map kvs name x : find_field name kvs = Some x -> lookup [PKey name] (Map kvs) = Ok (Some x).
    Proof. intros H. unfold lookup. cbn [walk]. rewrite H. reflexivity. Qed.

    Lemma node_value_rw n n' : rw (chain C) n n' -> external (node_value n) -> node_value n' = node_value n.
    Proof.
      intros H He. destruct n as [t s v|kvs|es]; destruct n' as [t' s' v'|kvs'|es']; cbn in H; try contradiction;
        try reflexivity; try (destruct kvs as [|[? ?] ?]; contradiction); try (destruct es; contradiction).
      destruct H as [H _]. cbn [node_value] in *. apply (chain_external C v v' He H).
    Qed.

    Lemma roleref_rw n n' g :
      rw (chain C) n n' -> roleref_gvk n = Some g -> external (g_group g) -> external (g_kind g) ->
      roleref_gvk n' = Some g.
    Proof.
      intros Hrw Hg Eg Ek. unfold roleref_gvk in Hg.
      destruct (lookup [PKey "roleRef"] n) as [[rr|]| | |] eqn:L1; try discriminate.
      destruct (lookup [PKey "apiGroup"] rr) as [[gn|]| | |] eqn:L2; try discriminate.
      destruct (lookup [PKey "kind"] rr) as [[kn|]| | |] eqn:L3; try discriminate. inv Hg.
      cbn [g_group g_kind gvk_lit] in Eg, Ek.
      destruct (lookup_key_some _ _ _ L1) as (kvs & -> & F1).
      destruct (lookup_key_some _ _ _ L2) as (rkvs & -> & F2).
      destruct (lookup_key_some _ _ _ L3) as (rkvs0 & E0 & F3). inv E0.
      destruct n' as [| kvs' |]; try (cbn in Hrw; destruct kvs as [|[? ?] ?]; contradiction).
      rewrite rw_map_eq in Hrw.
      destruct (rw_kvs_find _ _ _ _ _ Hrw F1) as (rr' & F1' & [Hrr|Hx]); [|discriminate].
      destruct rr' as [| rkvs' |]; try (cbn in Hrr; destruct rkvs0 as [|[? ?] ?]; contradiction).
      rewrite rw_map_eq in Hrr.
      destruct (rw_kvs_find _ _ _ _ _ Hrr F2) as (gn' & F2' & [Hgn|Hx]); [|discriminate].
      destruct (rw_kvs_find _ _ _ _ _ Hrr F3) as (kn' & F3' & [Hkn|Hx]); [|discriminate].
      unfold roleref_gvk. rewrite (lookup_key_map _ _ _ F1'), (lookup_key_map _ _ _ F2'), (lookup_key_map _ _ _ F3').
      rewrite (node_value_rw _ _ Hgn Eg), (node_value_rw _ _ Hkn Ek). reflexivity.
    Qed.

    Variable a : list astep.
    Hypothesis a_no_ns : no_ns_key a.

    (* one rule of an admissible table: the text at [a] moves along the chain *)
    Lemma rule_step cands fs tg r r1 t s v :
      rule_ok fs -> incl cands C ->
      apply_rule cs nonstr cands fs tg r = Ok r1 ->
      get_addr a (r_node r) = Some (Scalar t s v) ->
      exists t' s' v', get_addr a (r_node r1) = Some (Scalar t' s' v') /\ chain C v v' /\ (t' = TNull -> t = TNull).
    Proof.
      intros [Hp _] Hin H Hg.
      pose proof (apply_rule_rw cs nonstr C no_empty_name _ _ _ _ _ Hp Hin H) as Hrw.
      eapply rw_at; eauto using chain_refl.
    Qed.

    Section OneReferrer.
      (* the referrer as it enters the transformer, the rest of the map around it, what it may refer to *)
      Variables (mb ma : list resource) (r0 : resource) (flags : list bool) (cands : list cand).
      Hypothesis views_all : mapM (view cs) (mb ++ r0 :: ma)%list = Ok C.
      Hypothesis views_sub : mapM (view cs) (select_by flags (mb ++ r0 :: ma)%list) = Ok cands.

      (* the rule row that is about the referent, and the referent as a candidate *)
      Variables (fs : fieldspec) (tg : gvk) (b : cand).
      (* the roleRef kind sieve accepts the referent; for a roleRef/name field the referrer's roleRef
         (apiGroup, kind) consists of texts nothing was ever called *)
      Hypothesis b_roleref : roleref_sieve (make_ctx cs r0 (fs_path fs) tg) b = true.
      Hypothesis roleref_ok :
        has_suffix "roleRef/name" (fs_path fs) = false \/
        exists g, roleref_gvk (r_node r0) = Some g /\ external (g_group g) /\ external (g_kind g).
      Hypothesis b_unique : filter (name_kind_match (make_ctx cs r0 (fs_path fs) tg) old) cands = [b].
      Hypothesis b_visible : namespace_sieve (make_ctx cs r0 (fs_path fs) tg) b = true.
      Hypothesis b_name : c_name b = new.

      Lemma cands_now r : same_identity r0 r ->
        mapM (view cs) (select_by flags (mb ++ r :: ma)%list) = Ok cands.
      Proof.
        intros H. rewrite (mapM_view_ext cs _ _ (select_by_Forall2 _ flags _ _ (Forall2_mid mb ma r0 r H))).
        exact views_sub.
      Qed.

      Lemma roleref_now r : rw (chain C) (r_node r0) (r_node r) ->
        roleref_sieve (make_ctx cs r (fs_path fs) tg) b = true.
      Proof.
        intros Hrw. destruct roleref_ok as [Hoff|(g & Hg & E1 & E2)]; [apply roleref_sieve_off; exact Hoff|].
        pose proof (roleref_rw _ _ g Hrw Hg E1 E2) as Hg'.
        unfold roleref_sieve, make_ctx in *. cbn [x_path x_roleref] in *. rewrite Hg'. rewrite Hg in b_roleref.
        exact b_roleref.
      Qed.

      Lemma cands_incl : incl cands C.
      Proof. eapply mapM_select_incl; eauto. Qed.

      (* once the field says [new], it says [new] for good *)
      Lemma stays_new fl : Forall (fun p => rule_ok (fst p)) fl ->
        forall r r' t s, same_identity r0 r ->
          apply_rules cs nonstr mb ma flags fl r = Ok r' ->
          get_addr a (r_node r) = Some (Scalar t s new) ->
          exists t' s', get_addr a (r_node r') = Some (Scalar t' s' new).
      Proof.
        induction fl as [|[fs0 tg0] fl IH]; intros Hok r r' t s Hid H Hg; cbn [apply_rules] in H.
        - inv H. eauto.
        - pose proof (Forall_inv Hok) as H1. pose proof (Forall_inv_tail Hok) as H2. cbn [fst] in H1.
          rewrite (cands_now r Hid) in H. cbn [bind] in H.
          destruct (apply_rule cs nonstr cands fs0 tg0 r) as [r1| | |] eqn:E; cbn [bind] in H; try discriminate.
          destruct (rule_step _ _ _ _ _ _ _ _ H1 cands_incl E Hg) as (t1 & s1 & v1 & Hg1 & Hc & _).
          apply chain_from_new in Hc. subst v1.
          pose proof (apply_rule_identity cs nonstr _ _ _ _ _ H1 E) as I1.
          exact (IH H2 r1 r' t1 s1 (same_identity_trans _ _ _ Hid I1) H Hg1).
      Qed.

      (* while it still says [old] and the rule of the referent's row is still to come, it ends as [new] *)
      Lemma reaches_new fl : Forall (fun p => rule_ok (fst p)) fl ->
        forall r r' t s, same_identity r0 r -> rw (chain C) (r_node r0) (r_node r) ->
          apply_rules cs nonstr mb ma flags fl r = Ok r' ->
          In (fs, tg) fl ->
          reaches (path_splitter (fs_path fs)) a (r_node r) = true ->
          get_addr a (r_node r) = Some (Scalar t s old) -> is_null (Scalar t s old) = false ->
          exists t' s', get_addr a (r_node r') = Some (Scalar t' s' new).
      Proof.
        induction fl as [|[fs0 tg0] fl IH]; intros Hok r r' t s Hid Hrw0 H Hin Hr Hg Hnn; [contradiction|].
        cbn [apply_rules] in H.
        pose proof (Forall_inv Hok) as H1. pose proof (Forall_inv_tail Hok) as H2. cbn [fst] in H1.
        rewrite (cands_now r Hid) in H. cbn [bind] in H.
        destruct (apply_rule cs nonstr cands fs0 tg0 r) as [r1| | |] eqn:E; cbn [bind] in H; try discriminate.
        pose proof (apply_rule_identity cs nonstr _ _ _ _ _ H1 E) as I1.
        assert (Hid1: same_identity r0 r1) by (eapply same_identity_trans; eauto).
        destruct Hin as [Heq|Hin].
        - (* this is the referent's rule *)
          assert (Ef: fs0 = fs) by congruence. assert (Et: tg0 = tg) by congruence.
          rewrite Ef, Et in E. rewrite Ef in H1. clear Heq Ef Et.
          assert (Hu: filter (name_kind_match (make_ctx cs r (fs_path fs) tg) old) cands = [b]) by exact b_unique.
          assert (Hv: namespace_sieve (make_ctx cs r (fs_path fs) tg) b = true)
            by (rewrite (namespace_sieve_ext r0 r _ _ _ Hid); exact b_visible).
          destruct (refs_follow_rule cs nonstr cands fs tg r r1 a t s old b (proj1 H1) Hr Hg Hnn Hu
                                     (roleref_now r Hrw0) Hv E) as (t1 & Hg1).
          rewrite b_name in Hg1. eapply stays_new; eauto.
        - destruct (rule_step _ _ _ _ _ _ _ _ H1 cands_incl E Hg) as (t1 & s1 & v1 & Hg1 & Hc & Htag).
          destruct (chain_from_old _ Hc) as [-> | ->].
          + (* still old: the address is still reached, go on *)
            assert (Hrw: rw (chain C) (r_node r) (r_node r1))
              by (eapply apply_rule_rw; eauto using cands_incl; exact (proj1 H1)).
            pose proof (rw_reaches (chain C) a _ _ _ Hrw a_no_ns Hr) as Hr1.
            assert (Hnn1: is_null (Scalar t1 s1 old) = false).
            { destruct t1; try reflexivity. rewrite (Htag eq_refl) in Hnn. discriminate. }
            eapply IH; eauto. eapply (rw_trans (chain C) (chain_trans C)); eauto.
          + eapply stays_new; eauto.
      Qed.
    End OneReferrer.
  End WithC.

  (* ---------- where one referrer is visited inside the loop ---------- *)

  Lemma Forall2_len {A B} (R : A -> B -> Prop) l l' : Forall2 R l l' -> List.length l = List.length l'.
  Proof. induction 1; cbn; congruence. Qed.

  Lemma Forall2_same_trans l1 l2 l3 :
    Forall2 same_identity l1 l2 -> Forall2 same_identity l2 l3 -> Forall2 same_identity l1 l3.
  Proof.
    intros H. revert l3. induction H as [|x y l l' Hxy Hl IH]; intros l3 H3; inversion H3; subst; constructor.
    - eapply same_identity_trans; eauto.
    - auto.
  Qed.

  (* what the loop does to the referrer [r] standing after [pre]: its rules are applied with the already
     visited resources [done'] (same identities as [done ++ pre]) before it and [post] after it *)
  Definition visit (done' : list resource) (r : resource) (post : list resource)
             (fl : list (fieldspec * gvk)) (r' : resource) : Prop :=
    match fl with
    | [] => r' = r
    | _ => exists flags, referencable cs (done' ++ r :: post)%list r = Ok flags /\
                         apply_rules cs nonstr done' post flags fl r = Ok r'
    end.

  Lemma transform_loop_split pre : forall fpre fl fpost done r post out,
    List.length fpre = List.length pre ->
    Forall (Forall (fun p => rule_ok (fst p))) (fpre ++ fl :: fpost)%list ->
    transform_loop cs nonstr (fpre ++ fl :: fpost)%list done (pre ++ r :: post)%list = Ok out ->
    exists done' r' tail,
      Forall2 same_identity (done ++ pre)%list done' /\ out = (done' ++ r' :: tail)%list /\
      visit done' r post fl r'.
  Proof.
    induction pre as [|p pre IH]; intros fpre fl fpost done r post out Hlen Hok H.
    - destruct fpre; [|discriminate]. cbn [app] in *. rewrite app_nil_r.
      pose proof (Forall_inv Hok) as Hfl. pose proof (Forall_inv_tail Hok) as Hrest.
      cbn [transform_loop] in H. destruct fl as [|f0 fl'].
      + destruct (transform_loop_identity cs nonstr _ Hrest _ _ _ H) as (tail & -> & _).
        exists done, r, tail. split; [apply Forall2_same_refl|]. split; [now rewrite <- app_assoc|reflexivity].
      + destruct (referencable cs (done ++ r :: post)%list r) as [flags| | |] eqn:Ef; cbn [bind] in H; try discriminate.
        destruct (apply_rules cs nonstr done post flags (f0 :: fl') r) as [r'| | |] eqn:E; cbn [bind] in H; try discriminate.
        destruct (transform_loop_identity cs nonstr _ Hrest _ _ _ H) as (tail & -> & _).
        exists done, r', tail. split; [apply Forall2_same_refl|]. split; [now rewrite <- app_assoc|].
        cbn [visit]. eauto.
    - destruct fpre as [|f fpre]; [discriminate|]. cbn [app] in *.
      pose proof (Forall_inv Hok) as Hf. pose proof (Forall_inv_tail Hok) as Hrest.
      cbn [transform_loop] in H.
      assert (Hstep: exists p', same_identity p p' /\
                transform_loop cs nonstr (fpre ++ fl :: fpost)%list (done ++ [p'])%list (pre ++ r :: post)%list = Ok out).
      { destruct f as [|f0 f'].
        - exists p. split; [apply same_identity_refl|assumption].
        - destruct (referencable cs _ p) as [flags| | |]; cbn [bind] in H; try discriminate.
          destruct (apply_rules cs nonstr done (pre ++ r :: post)%list flags (f0 :: f') p) as [p'| | |] eqn:E;
            cbn [bind] in H; try discriminate.
          exists p'. split; [eapply apply_rules_identity; eauto|assumption]. }
      destruct Hstep as (p' & Hpp & H').
      assert (Hl: List.length fpre = List.length pre) by (cbn in Hlen; congruence).
      destruct (IH fpre fl fpost (done ++ [p'])%list r post out Hl Hrest H') as (done' & r' & tail & HF & -> & Hv).
      exists done', r', tail. split; [|split; [reflexivity|assumption]].
      eapply Forall2_same_trans; [|exact HF].
      rewrite <- app_assoc. cbn [app]. apply Forall2_mid. assumption.
  Qed.

  (* ---------- the whole transformer ---------- *)

  Section Main.
    Variables (rules : list nbr) (m m' : list resource) (C : list cand).
    Hypothesis rules_ok : forall b f, In b rules -> In f (nb_referrers b) -> rule_ok f.
    Hypothesis views : mapM (view cs) m = Ok C.
    Hypothesis no_empty_name : forall c, In c C -> prev_name_matches "" c = false.
    Hypothesis run : nameref_transform cs nonstr rules m = Ok m'.

    (* the referrer, the rule row that is about the referent's kind, the referent as a candidate *)
    Variables (i : nat) (r r' : resource) (org : resid) (row : nbr) (fs : fieldspec)
              (flags : list bool) (cands : list cand) (b : cand).
    Hypothesis r_at : nth_error m i = Some r.
    Hypothesis r'_at : nth_error m' i = Some r'.
    Hypothesis r_org : org_id cs r = Ok org.
    Hypothesis row_in : In row rules.
    Hypothesis fs_in : In fs (nb_referrers row).
    Hypothesis fs_selects : gvk_is_selected (id_gvk org) (fs_gvk fs) = true.
    Hypothesis r_flags : referencable cs m r = Ok flags.
    Hypothesis r_cands : mapM (view cs) (select_by flags m) = Ok cands.

    (* the field *)
    Variables (a : list astep) (t : tag) (s : style) (old : string).
    Hypothesis a_no_ns : no_ns_key a.
    Hypothesis a_reached : reaches (path_splitter (fs_path fs)) a (r_node r) = true.
    Hypothesis a_holds : get_addr a (r_node r) = Some (Scalar t s old).
    Hypothesis a_not_null : is_null (Scalar t s old) = false.

    (* unambiguity *)
    Hypothesis b_unique : filter (name_kind_match (make_ctx cs r (fs_path fs) (nb_gvk row)) old) cands = [b].
    Hypothesis b_visible : namespace_sieve (make_ctx cs r (fs_path fs) (nb_gvk row)) b = true.
    Hypothesis b_roleref : roleref_sieve (make_ctx cs r (fs_path fs) (nb_gvk row)) b = true.
    Hypothesis roleref_ok :
      has_suffix "roleRef/name" (fs_path fs) = false \/
      exists g, roleref_gvk (r_node r) = Some g /\ external C (g_group g) /\ external C (g_kind g).
    Hypothesis closed_old : forall c, In c C -> prev_name_matches old c = true -> c_name c = c_name b.
    Hypothesis closed_new : forall c, In c C -> prev_name_matches (c_name b) c = true -> c_name c = c_name b.

    Lemma split_at {A} (l : list A) j x : nth_error l j = Some x ->
      exists pre post, l = (pre ++ x :: post)%list /\ List.length pre = j.
    Proof. apply nth_error_split. Qed.

    Theorem refs_follow_transform :
      exists t' s', get_addr a (r_node r') = Some (Scalar t' s' (c_name b)).
    Proof.
      unfold nameref_transform in run.
      destruct (mapM (org_id cs) m) as [orgs| | |] eqn:Eo; cbn [bind] in run; try discriminate.
      destruct (split_at m i r r_at) as (pre & post & Em & Hlen).
      (* the filter lists split in the same way *)
      assert (Hsplit: exists fpre fpost, map (filters_for rules) orgs = (fpre ++ filters_for rules org :: fpost)%list /\
                                         List.length fpre = List.length pre).
      { clear -Eo Em r_org. subst m. revert orgs Eo. induction pre as [|p pre IH]; intros orgs Eo; cbn [app mapM] in Eo.
        - rewrite r_org in Eo. cbn [bind] in Eo.
          destruct (mapM (org_id cs) post) as [os| | |]; cbn [bind] in Eo; try discriminate. inv Eo.
          exists [], (map (filters_for rules) os). split; reflexivity.
        - destruct (org_id cs p) as [o| | |]; cbn [bind] in Eo; try discriminate.
          destruct (mapM (org_id cs) (pre ++ r :: post)%list) as [os| | |] eqn:E2; cbn [bind] in Eo; try discriminate.
          inv Eo. destruct (IH os eq_refl) as (fpre & fpost & E & L).
          exists (filters_for rules o :: fpre), fpost. cbn [map app]. rewrite E. split; [reflexivity|cbn; congruence]. }
      destruct Hsplit as (fpre & fpost & Ef & Hfl).
      assert (HF: Forall (Forall (fun p => rule_ok (fst p))) (map (filters_for rules) orgs)).
      { apply Forall_forall. intros fl Hin. apply in_map_iff in Hin as (o & <- & _).
        apply filters_for_ok. assumption. }
      rewrite Ef in run, HF. rewrite Em in run.
      destruct (transform_loop_split pre fpre (filters_for rules org) fpost [] r post m' Hfl HF run)
        as (done' & r1 & tail & Hsame & Eout & Hvisit).
      cbn [app] in Hsame.
      (* r1 is r' *)
      assert (Hr1: r1 = r').
      { pose proof (Forall2_len _ _ _ Hsame) as Hl. rewrite Eout in r'_at.
        rewrite nth_error_app2 in r'_at by lia. replace (i - List.length done') with 0 in r'_at by lia.
        cbn in r'_at. now inv r'_at. }
      subst r1.
      (* the rule of the referent's row is among the referrer's rules *)
      assert (Hin: In (fs, nb_gvk row) (filters_for rules org)).
      { unfold filters_for. apply in_flat_map. exists row. split; [assumption|].
        apply in_flat_map. exists fs. split; [assumption|]. rewrite fs_selects. left. reflexivity. }
      unfold visit in Hvisit.
      destruct (filters_for rules org) as [|f0 fl'] eqn:Efl; [contradiction|].
      destruct Hvisit as (flags' & Hflags & Happly).
      (* the map around the referrer has the identities of the original map *)
      assert (Hmid: Forall2 same_identity m (done' ++ r :: post)%list).
      { rewrite Em. clear -Hsame. induction Hsame; cbn; [apply Forall2_same_refl|constructor; assumption]. }
      rewrite (referencable_ext _ _ r Hmid) in Hflags. rewrite r_flags in Hflags. inv Hflags.
      assert (HC': mapM (view cs) (done' ++ r :: post)%list = Ok C)
        by (rewrite (mapM_view_ext cs _ _ Hmid); exact views).
      assert (Hsub: mapM (view cs) (select_by flags' (done' ++ r :: post)%list) = Ok cands)
        by (rewrite (mapM_view_ext cs _ _ (select_by_Forall2 _ flags' _ _ Hmid)); exact r_cands).
      assert (Hokfl: Forall (fun p => rule_ok (fst p)) (f0 :: fl')).
      { rewrite <- Efl. apply filters_for_ok. assumption. }
      eapply (reaches_new C no_empty_name old (c_name b) closed_old closed_new a a_no_ns
                          done' post r flags' cands HC' Hsub fs (nb_gvk row) b b_roleref roleref_ok b_unique b_visible eq_refl
                          (f0 :: fl') Hokfl r r' t s (same_identity_refl r) (rw_refl (chain C) (chain_refl C) _)
                          Happly Hin a_reached a_holds a_not_null).
    Qed.
  End Main.
End Progress.
