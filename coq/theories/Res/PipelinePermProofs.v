(* C11 (documents): permuting the entries of `resources:` lists, at any depth, permutes what the build
   accumulates - for whole documents with prefixes, suffixes, labels, annotations, generated ConfigMaps /
   Secrets and hash suffixes.  Partial: layers with a `namespace:` directive (its id-conflict loop looks at the
   not-yet-visited resources) and the name-reference pass (candidate order) are not covered here. *)
From KV Require Import Res.Pipeline Res.PipelineProofs Res.PipelineFrameProofs.
From KV Require Res.Labels Res.LabelsDefaults Res.Generators Res.GeneratorsProofs.
From Coq Require Import Sorting.Permutation.
Local Open Scope string_scope.

Ltac inv H := inversion H; subst; clear H.

(* ---------- list facts ---------- *)

Lemma distinct_ids_perm m m' : Permutation m m' -> distinct_ids m -> distinct_ids m'.
Proof.
  induction 1 as [|x l l' HP IH|x y l|l1 l2 l3 _ IH1 _ IH2]; cbn [distinct_ids].
  - auto.
  - intros [H1 H2]. split; [|auto]. intros z Hz. apply H1. eapply Permutation_in; [apply Permutation_sym; exact HP|exact Hz].
  - intros [H1 [H2 H3]]. split; [|split; [|exact H3]].
    + intros z [<-|Hz]; [rewrite id_equals_sym; apply H1; left; reflexivity|apply H2; exact Hz].
    + intros z Hz. apply H1. right. exact Hz.
  - auto.
Qed.

Lemma distinct_ids_app_l a b : distinct_ids (a ++ b) -> distinct_ids a.
Proof.
  induction a as [|y u IH]; cbn; [auto|]. intros [H1 H2]. split; [|auto].
  intros x Hx. apply H1. apply in_or_app. left. exact Hx.
Qed.

Lemma Forall2_perm_l {A B} (R : A -> B -> Prop) l l' :
  Permutation l l' -> forall s, Forall2 R l s -> exists s', Forall2 R l' s' /\ Permutation s s'.
Proof.
  induction 1 as [|x l l' _ IH|x y l|l1 l2 l3 _ IH1 _ IH2]; intros s HF.
  - inv HF. exists []. split; constructor.
  - inv HF. destruct (IH _ H3) as (s' & F & P). eexists (_ :: s'). split; constructor; eauto.
  - inv HF. inv H3. eexists (_ :: _ :: _). split; [constructor; [eassumption|constructor; eassumption]|apply perm_swap].
  - destruct (IH1 _ HF) as (s1 & F1 & P1). destruct (IH2 _ F1) as (s2 & F2 & P2).
    exists s2. split; [exact F2|eapply perm_trans; eauto].
Qed.

Lemma concat_perm {A} (s s' : list (list A)) : Permutation s s' -> Permutation (List.concat s) (List.concat s').
Proof.
  induction 1; cbn [List.concat]; auto.
  - apply Permutation_app_head. assumption.
  - rewrite !app_assoc. apply Permutation_app_tail. apply Permutation_app_comm.
  - eapply perm_trans; eauto.
Qed.

Lemma concat_Forall2_perm {A} (s s' : list (list A)) :
  Forall2 (@Permutation A) s s' -> Permutation (List.concat s) (List.concat s').
Proof. induction 1; cbn [List.concat]; [constructor|apply Permutation_app; assumption]. Qed.

Lemma filter_perm {A} (f : A -> bool) l l' : Permutation l l' -> Permutation (filter f l) (filter f l').
Proof.
  induction 1; cbn; auto.
  - destruct (f x); auto.
  - destruct (f x), (f y); auto. apply perm_swap.
  - eapply perm_trans; eauto.
Qed.

Lemma mapM_of_Forall2 {A B} (f : A -> res B) l x : Forall2 (fun a b => f a = Ok b) l x -> mapM f l = Ok x.
Proof. induction 1 as [|a b l x Hab _ IH]; cbn; [reflexivity|]. now rewrite Hab, IH. Qed.

Lemma mapM_perm {A B} (f : A -> res B) l l' x :
  Permutation l l' -> mapM f l = Ok x -> exists x', mapM f l' = Ok x' /\ Permutation x x'.
Proof.
  intros HP H. apply mapM_Forall2P in H. destruct (Forall2_perm_l _ _ _ HP _ H) as (x' & F & P).
  exists x'. split; [apply mapM_of_Forall2; exact F|exact P].
Qed.

(* ---------- accumulateResources as a whole ---------- *)

Lemma acc_list_char f ents : forall acc m,
  acc_list f ents acc = Ok m ->
  exists subs, Forall2 (fun e s => f e = Ok s) ents subs /\ m = (acc ++ List.concat subs)%list /\
               (distinct_ids acc -> distinct_ids m).
Proof.
  induction ents as [|e t IH]; intros acc m H.
  - cbn in H. inv H. exists []. cbn. rewrite app_nil_r. auto.
  - rewrite acc_list_cons in H. destruct (f e) as [s| | |] eqn:EA; cbn [bind] in H; try discriminate.
    destruct (append_all pipe_cs acc s) as [a1| | |] eqn:EP; cbn [bind] in H; try discriminate.
    apply append_all_spec in EP as [-> Hd]. destruct (IH _ _ H) as (subs & F & -> & Hd2).
    exists (s :: subs). split; [constructor; auto|]. split; [cbn [List.concat]; now rewrite app_assoc|auto].
Qed.

Lemma acc_list_ok f ents : forall subs acc,
  Forall2 (fun e s => f e = Ok s) ents subs -> distinct_ids (acc ++ List.concat subs) ->
  acc_list f ents acc = Ok (acc ++ List.concat subs)%list.
Proof.
  induction ents as [|e t IH]; intros subs acc HF Hd; inv HF.
  - cbn. now rewrite app_nil_r.
  - rewrite acc_list_cons, H1. cbn [bind]. cbn [List.concat] in Hd. rewrite app_assoc in Hd.
    rewrite (append_all_ok y acc) by (eapply distinct_ids_app_l; exact Hd). cbn [bind].
    rewrite (IH l' _ H3 Hd). cbn [List.concat]. now rewrite app_assoc.
Qed.

(* ---------- the permutation relation on trees and its domain ---------- *)

(* entries rewritten recursively, then permuted *)
Inductive tperm : ptree -> ptree -> Prop :=
| tp_file docs : tperm (PFile docs) (PFile docs)
| tp_dir n d ents ents1 ents' :
    Forall2 tperm ents ents1 -> Permutation ents1 ents' -> tperm (PDir n d ents) (PDir n d ents').

(* no namespace directive, no replicas / images / patches entries, generators only create *)
Inductive perm_ok : ptree -> Prop :=
| po_file docs : perm_ok (PFile docs)
| po_dir n d ents : pd_ns d = "" -> pd_replicas d = [] -> pd_images d = [] /\ pd_patches d = [] -> gens_create d -> Forall perm_ok ents -> perm_ok (PDir n d ents).

Section Perm.
  Variable nonstr : string -> bool.
  Notation cs := pipe_cs.

  (* ----- generators ----- *)

  Lemma matching_any_shift id m : forall i j ms,
    matching_any id i m = Ok ms -> exists ms', matching_any id j m = Ok ms' /\ List.length ms' = List.length ms.
  Proof.
    induction m as [|r t IH]; intros i j ms H; cbn [matching_any] in *.
    - inv H. exists []. auto.
    - destruct (nil_or_empty (r_node r)); [eapply IH; eauto|].
      destruct (prev_ids r) as [p| | |]; cbn [bind] in *; try discriminate.
      destruct (matching_any id (S i) t) as [rest| | |] eqn:E; cbn [bind] in H; try discriminate. inv H.
      destruct (IH _ (S j) _ E) as (rest' & E' & L). eexists. rewrite E'. cbn [bind]. split; [reflexivity|].
      destruct (existsb _ _); cbn; congruence.
  Qed.

  Lemma matching_any_perm id m m' :
    Permutation m m' -> forall i j ms,
    matching_any id i m = Ok ms -> exists ms', matching_any id j m' = Ok ms' /\ List.length ms' = List.length ms.
  Proof.
    induction 1 as [|x l l' _ IH|x y l|l1 l2 l3 _ IH1 _ IH2]; intros i j ms H.
    - cbn in *. inv H. exists []. auto.
    - cbn [matching_any] in *. destruct (nil_or_empty (r_node x)); [eapply IH; eauto|].
      destruct (prev_ids x) as [p| | |]; cbn [bind] in *; try discriminate.
      destruct (matching_any id (S i) l) as [rest| | |] eqn:E; cbn [bind] in H; try discriminate. inv H.
      destruct (IH _ (S j) _ E) as (rest' & E' & L). eexists. rewrite E'. cbn [bind]. split; [reflexivity|].
      destruct (existsb _ _); cbn; congruence.
    - cbn [matching_any] in *.
      destruct (nil_or_empty (r_node y)) eqn:Ny; destruct (nil_or_empty (r_node x)) eqn:Nx.
      + eapply matching_any_shift; eauto.
      + destruct (prev_ids x) as [px| | |]; cbn [bind] in *; try discriminate.
        destruct (matching_any id (S (S i)) l) as [rest| | |] eqn:E; cbn [bind] in H; try discriminate. inv H.
        destruct (matching_any_shift _ _ _ (S (S j)) _ E) as (rest' & E' & L). eexists. rewrite E'. cbn [bind].
        split; [reflexivity|]. destruct (existsb _ _); cbn; congruence.
      + destruct (prev_ids y) as [py| | |]; cbn [bind] in *; try discriminate.
        destruct (matching_any id (S (S i)) l) as [rest| | |] eqn:E; cbn [bind] in H; try discriminate. inv H.
        destruct (matching_any_shift _ _ _ (S (S j)) _ E) as (rest' & E' & L). eexists. rewrite E'. cbn [bind].
        split; [reflexivity|]. destruct (existsb _ _); cbn; congruence.
      + destruct (prev_ids y) as [py| | |]; cbn [bind] in *; try discriminate.
        destruct (prev_ids x) as [px| | |]; cbn [bind] in *; try discriminate.
        destruct (matching_any id (S (S i)) l) as [rest| | |] eqn:E; cbn [bind] in H; try discriminate. inv H.
        destruct (matching_any_shift _ _ _ (S (S j)) _ E) as (rest' & E' & L). eexists. rewrite E'. cbn [bind].
        split; [reflexivity|].
        destruct (existsb _ (py ++ _)), (existsb _ (px ++ _)); cbn; congruence.
    - destruct (IH1 _ j _ H) as (ms1 & E1 & L1). destruct (IH2 _ j _ E1) as (ms2 & E2 & L2).
      exists ms2. split; [exact E2|congruence].
  Qed.

  Lemma absorb_create_perm m m' b r x :
    b = Generators.BUnspecified \/ b = Generators.BCreate ->
    Permutation m m' -> absorb nonstr m b r = Ok x ->
    x = (m ++ [r])%list /\ absorb nonstr m' b r = Ok (m' ++ [r])%list.
  Proof.
    intros Hb HP H. pose proof (absorb_create_spec nonstr _ _ _ _ Hb H) as ->. split; [reflexivity|].
    unfold absorb in *.
    destruct (matching_any (cur_id cs r) 0 m) as [ms| | |] eqn:EM; cbn [bind] in H; try discriminate.
    destruct (matching_any_perm _ _ _ HP _ 0 _ EM) as (ms' & EM' & L). rewrite EM'. cbn [bind]. rewrite L.
    destruct (create_action (List.length ms) b Hb) as [E|E]; rewrite E in H |- *; [|discriminate].
    apply append_one_spec in H as [_ Hn]. apply append_one_spec. split; [reflexivity|].
    intros y Hy. apply Hn. eapply Permutation_in; [apply Permutation_sym; exact HP|exact Hy].
  Qed.

  Lemma run_gens_perm go secret gens : forall m m' x,
    Forall creates gens -> Permutation m m' -> run_gens nonstr go secret gens m = Ok x ->
    exists x', run_gens nonstr go secret gens m' = Ok x' /\ Permutation x x'.
  Proof.
    induction gens as [|g t IH]; intros m m' x Hc HP H; cbn [run_gens] in *.
    - inv H. eauto.
    - inversion Hc as [|? ? Hg Ht]; subst.
      destruct (gen_resource secret (merge_genopts go g)) as [r| | |]; cbn [bind] in *; try discriminate.
      destruct (absorb nonstr m _ r) as [m1| | |] eqn:EA; cbn [bind] in H; try discriminate.
      destruct (absorb_create_perm _ _ _ _ _ Hg HP EA) as [-> EA']. rewrite EA'. cbn [bind].
      eapply IH; [exact Ht| |exact H]. apply Permutation_app_tail. exact HP.
  Qed.

  Lemma run_generators_perm d m m' x :
    gens_create d -> Permutation m m' -> run_generators nonstr d m = Ok x ->
    exists x', run_generators nonstr d m' = Ok x' /\ Permutation x x'.
  Proof.
    intros [Hc1 Hc2]. unfold run_generators. generalize gen_generator_order. intros ks. revert m m' x.
    induction ks as [|k t IH]; intros m m' x HP H; cbn [run_generator_kinds] in *.
    - inv H. eauto.
    - match type of H with bind ?E _ = _ => destruct E as [mm| | |] eqn:E1 end; cbn [bind] in H; try discriminate.
      assert (exists mm', (if String.eqb k "ConfigMapGenerator" then run_gens nonstr (pd_genopts d) false (pd_cmgens d) m'
                           else if String.eqb k "SecretGenerator" then run_gens nonstr (pd_genopts d) true (pd_secgens d) m'
                           else Ok m') = Ok mm' /\ Permutation mm mm') as (mm' & E2 & P2).
      { destruct (String.eqb k "ConfigMapGenerator"); [exact (run_gens_perm _ _ _ _ _ _ Hc1 HP E1)|].
        destruct (String.eqb k "SecretGenerator"); [exact (run_gens_perm _ _ _ _ _ _ Hc2 HP E1)|].
        inv E1. eauto. }
      rewrite E2. cbn [bind]. eapply IH; eauto.
  Qed.

  (* ----- transformers (without a namespace directive) ----- *)

  Lemma drop_empties_perm m m' : Permutation m m' -> Permutation (drop_empties m) (drop_empties m').
  Proof. apply filter_perm. Qed.

  Lemma label_transform_perm labels fss m m' x :
    Permutation m m' -> label_transform nonstr labels fss m = Ok x ->
    exists x', label_transform nonstr labels fss m' = Ok x' /\ Permutation x x'.
  Proof.
    intros HP. unfold label_transform. destruct labels; [intros H; inv H; eauto|].
    unfold map_nodes. apply mapM_perm. exact HP.
  Qed.

  Lemma label_transforms_perm lts : forall m m' x,
    Permutation m m' -> label_transforms nonstr lts m = Ok x ->
    exists x', label_transforms nonstr lts m' = Ok x' /\ Permutation x x'.
  Proof.
    induction lts as [|[p fss] t IH]; intros m m' x HP H; cbn [label_transforms] in *; [inv H; eauto|].
    destruct (label_transform nonstr p fss m) as [m1| | |] eqn:E; cbn [bind] in H; try discriminate.
    destruct (label_transform_perm _ _ _ _ _ HP E) as (m1' & E' & P1). rewrite E'. cbn [bind].
    eapply IH; [apply drop_empties_perm; exact P1|exact H].
  Qed.

  Lemma run_kind_perm k d m m' x :
    pd_ns d = "" /\ pd_replicas d = [] /\ pd_images d = [] /\ pd_patches d = [] -> Permutation m m' -> run_kind nonstr k d m = Ok x ->
    exists x', run_kind nonstr k d m' = Ok x' /\ Permutation x x'.
  Proof.
    intros (Hns & Hrp & Him & Hpp) HP. unfold run_kind. rewrite Hns, Hrp, Him, Hpp.
    destruct (String.eqb k "PatchTransformer"); [cbn; intros H; inv H; eauto|].
    destruct (String.eqb k "NamespaceTransformer"); [cbn; intros H; inv H; eauto|].
    destruct (String.eqb k "PrefixTransformer").
    { unfold prefix_transform. destruct (String.eqb (pd_prefix d) ""); [intros H; inv H; eauto|]. apply mapM_perm; exact HP. }
    destruct (String.eqb k "SuffixTransformer").
    { unfold suffix_transform. destruct (String.eqb (pd_suffix d) ""); [intros H; inv H; eauto|]. apply mapM_perm; exact HP. }
    destruct (String.eqb k "LabelTransformer").
    { destruct (Labels.label_transformers LabelsDefaults.default_tc (label_dirs d)) as [lts| | |]; cbn [bind]; try discriminate.
      apply label_transforms_perm; exact HP. }
    destruct (String.eqb k "AnnotationsTransformer"); [apply label_transform_perm; exact HP|].
    destruct (String.eqb k "ReplicaCountTransformer"); [cbn; intros H; inv H; eauto|].
    destruct (String.eqb k "ImageTagTransformer"); cbn; intros H; inv H; eauto.
  Qed.

  Lemma run_order_perm ks d : forall m m' x,
    pd_ns d = "" /\ pd_replicas d = [] /\ pd_images d = [] /\ pd_patches d = [] -> Permutation m m' -> run_order nonstr ks d m = Ok x ->
    exists x', run_order nonstr ks d m' = Ok x' /\ Permutation x x'.
  Proof.
    induction ks as [|k t IH]; intros m m' x Hns HP H; cbn [run_order] in *; [inv H; eauto|].
    destruct (run_kind nonstr k d m) as [m1| | |] eqn:E; cbn [bind] in H; try discriminate.
    destruct (run_kind_perm _ _ _ _ _ Hns HP E) as (m1' & E' & P1). rewrite E'. cbn [bind].
    eapply IH; [exact Hns|apply drop_empties_perm; exact P1|exact H].
  Qed.

  Lemma run_transformers_perm d m m' x :
    pd_ns d = "" /\ pd_replicas d = [] /\ pd_images d = [] /\ pd_patches d = [] -> Permutation m m' -> run_transformers nonstr d m = Ok x ->
    exists x', run_transformers nonstr d m' = Ok x' /\ Permutation x x'.
  Proof.
    intros Hns HP. unfold run_transformers.
    destruct (Labels.label_transformers _ _); cbn [bind]; try discriminate.
    apply run_order_perm; assumption.
  Qed.

  (* ----- accumulation ----- *)

  Lemma is_empty_kust_perm d (ents ents' : list ptree) :
    List.length ents = List.length ents' -> is_empty_kust d ents' = is_empty_kust d ents.
  Proof. destruct ents, ents'; cbn; intros H; try discriminate; reflexivity. Qed.

  Lemma accumulate_perm t : forall t' m,
    tperm t t' -> perm_ok t -> accumulate nonstr t = Ok m ->
    exists m', accumulate nonstr t' = Ok m' /\ Permutation m m'.
  Proof.
    induction t as [docs|n d ents IH] using ptree_ind'; intros t' m HT Hok H.
    - inv HT. eauto.
    - inversion HT as [|? ? ? ents1 ents' HF HP]; subst. inversion Hok as [|? ? ? Hns0 Hrp Him Hg He]; subst. assert (Hns := conj Hns0 (conj Hrp Him)).
      rewrite accumulate_dir in *.
      assert (HL : List.length ents = List.length ents').
      { rewrite <- (Permutation_length HP). clear -HF. induction HF; cbn; congruence. }
      rewrite (is_empty_kust_perm d ents ents' HL).
      destruct (is_empty_kust d ents); [discriminate|].
      destruct (acc_list (accumulate nonstr) ents []) as [m0| | |] eqn:E0; cbn [bind] in H; try discriminate.
      destruct (acc_list_char _ _ _ _ E0) as (subs & F0 & -> & Hd0). cbn [app] in *.
      (* the rewritten entries accumulate to permuted lists *)
      assert (exists subs1, Forall2 (fun e s => accumulate nonstr e = Ok s) ents1 subs1 /\
                            Forall2 (@Permutation resource) subs subs1) as (subs1 & F1 & P1).
      { clear -IH He HF F0. revert subs F0. induction HF as [|e e1 te te1 Hee1 _ IHf]; intros subs F0.
        - inv F0. exists []. split; constructor.
        - inv F0. inversion IH as [|? ? IHe IHt]; subst. inversion He as [|? ? Hoe Hot]; subst.
          destruct (IHe _ _ Hee1 Hoe H1) as (s1 & Es1 & Ps1).
          destruct (IHf IHt Hot _ H3) as (subs1 & F1 & P1).
          exists (s1 :: subs1). split; constructor; auto. }
      destruct (Forall2_perm_l _ _ _ HP _ F1) as (subs' & F' & P').
      assert (PC : Permutation (List.concat subs) (List.concat subs')).
      { eapply perm_trans; [apply concat_Forall2_perm; exact P1|apply concat_perm; exact P']. }
      rewrite (acc_list_ok _ _ _ [] F') by (cbn [app]; eapply distinct_ids_perm; [exact PC|apply Hd0; exact I]).
      cbn [bind app].
      destruct (run_generators nonstr d (List.concat subs)) as [m1| | |] eqn:E1; cbn [bind] in H; try discriminate.
      destruct (run_generators_perm _ _ _ _ Hg PC E1) as (m1' & E1' & PM). rewrite E1'. cbn [bind].
      eapply run_transformers_perm; eauto.
  Qed.

  (* PIPE_permute_multiset_partial: ... and through the hash suffixes *)
  Theorem accumulate_hash_perm t t' m1 :
    tperm t t' -> perm_ok t ->
    (do m <- accumulate nonstr t; mapM (hash_res nonstr) m) = Ok m1 ->
    exists m1', (do m <- accumulate nonstr t'; mapM (hash_res nonstr) m) = Ok m1' /\ Permutation m1 m1'.
  Proof.
    intros HT Hok H. destruct (accumulate nonstr t) as [m| | |] eqn:EA; cbn [bind] in H; try discriminate.
    destruct (accumulate_perm _ _ _ HT Hok EA) as (m' & EA' & PM). rewrite EA'. cbn [bind].
    eapply mapM_perm; eauto.
  Qed.
End Perm.

(* non-vacuity: swapping a file and a base *)
Example tperm_example :
  tperm (PDir "top" (mkPDirs "" "p-" "" [] [("a", "b")] [] [] []) [PFile []; PDir "base" no_dirs [PFile []; PFile []]])
        (PDir "top" (mkPDirs "" "p-" "" [] [("a", "b")] [] [] []) [PDir "base" no_dirs [PFile []; PFile []]; PFile []]).
Proof.
  eapply tp_dir; [|apply perm_swap].
  constructor; [constructor|]. constructor; [|constructor].
  eapply tp_dir; [|apply Permutation_refl]. repeat constructor.
Qed.
