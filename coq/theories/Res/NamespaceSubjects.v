
(* C09_subjects (full statement): ServiceAccount subjects of role bindings follow the account they designate
   through the name-reference pass (api/filters/nameref setMapping, model Res/NameRef.v of C03). *)
From KV Require Import Res.Pipeline Res.FsFacts Res.NameRefProofs Res.RewriteProofs Res.C03Facts.
From KV Require Res.Namespace.

Ltac inv H := inversion H; subst; clear H.

(* a string field of a subject ("" when absent) *)
Definition subj_str (f : string) (e : node) : string :=
  match e with
  | Map kvs => match find_field f kvs with Some x => node_value x | None => "" end
  | _ => ""
  end.

Lemma find_set_first_same name (v : node) kvs x :
  find_field name kvs = Some x -> find_field name (set_first name v kvs) = Some v.
Proof.
  induction kvs as [|[k y] t IH]; cbn; intros H; [discriminate|].
  destruct (String.eqb k name) eqn:E; cbn; rewrite E; auto.
Qed.
Lemma find_set_first_other' name q (v : node) kvs :
  q <> name -> find_field q (set_first name v kvs) = find_field q kvs.
Proof.
  intros Hn. induction kvs as [|[k y] t IH]; cbn; [reflexivity|].
  destruct (String.eqb k name) eqn:E; cbn.
  - apply String.eqb_eq in E; subst k.
    destruct (String.eqb name q) eqn:E2; [apply String.eqb_eq in E2; congruence|reflexivity].
  - destruct (String.eqb k q); auto.
Qed.
Lemma find_app_new name q (v : node) kvs :
  find_field q (kvs ++ [(name, v)]) =
  match find_field q kvs with Some x => Some x | None => if String.eqb name q then Some v else None end.
Proof. induction kvs as [|[k y] t IH]; cbn; [reflexivity|]. destruct (String.eqb k q); auto. Qed.

Section Elem.
  Variable nonstr : string -> bool.

  (* FieldSetter{Name: f, StringValue: v} on a mapping: the field reads v afterwards, other fields are kept *)
  Lemma set_string_field_spec f v kvs n' :
    v <> "" -> set_string_field nonstr f v (Map kvs) = Ok n' ->
    exists kvs', n' = Map kvs' /\
      (exists x, find_field f kvs' = Some x /\ node_value x = v) /\
      (forall q, q <> f -> find_field q kvs' = find_field q kvs).
  Proof.
    intros Hv H. unfold set_string_field in H.
    destruct (String.eqb v "") eqn:E; [apply String.eqb_eq in E; contradiction|].
    unfold set_field, str_scalar in H. cbn [is_null andb] in H.
    destruct (find_field f kvs) as [old|] eqn:Ff; inv H; eexists; (split; [reflexivity|]); split.
    - eexists. split; [eapply find_set_first_same; eauto|]. destruct old; reflexivity.
    - intros q Hq. apply find_set_first_other'; auto.
    - eexists. split; [rewrite find_app_new, Ff, String.eqb_refl; reflexivity|].
      unfold quote11. destruct (nonstr v); reflexivity.
    - intros q Hq. rewrite find_app_new. destruct (find_field q kvs); [reflexivity|].
      destruct (String.eqb f q) eqn:E2; [apply String.eqb_eq in E2; congruence|reflexivity].
  Qed.

  (* setMapping on one subject: when exactly one candidate (among those of the subject's namespace, if it names
     one) ever had the subject's name with the target kind, and that candidate is visible and has a namespace,
     the subject carries that candidate's CURRENT name and namespace afterwards *)
  Lemma set_mapping_follows x cands kvs name_node b n' :
    find_field "name" kvs = Some name_node ->
    filter (name_kind_match x (node_value name_node)) (mapping_cands kvs cands) = [b] ->
    roleref_sieve x b && namespace_sieve x b = true ->
    c_name b <> "" -> c_ns b <> "" ->
    nr_set_mapping nonstr x cands (Map kvs) = Ok n' ->
    subj_str "name" n' = c_name b /\ subj_str "namespace" n' = c_ns b /\
    (forall q, q <> "name" -> q <> "namespace" -> subj_str q n' = subj_str q (Map kvs)).
  Proof.
    intros Hname Huniq Hvis Hn Hns H. unfold nr_set_mapping in H. rewrite Hname in H.
    rewrite (select_unique _ _ _ _ _ Huniq), Hvis in H. cbn [bind] in H.
    assert (E1 : String.eqb (c_ns b) "" = false).
    { destruct (String.eqb (c_ns b) "") eqn:E; [apply String.eqb_eq in E; contradiction|reflexivity]. }
    rewrite E1, andb_false_r in H.
    destruct (set_string_field nonstr "name" (c_name b) (Map kvs)) as [n1| | |] eqn:S1; cbn [bind] in H; try discriminate.
    destruct (set_string_field_spec _ _ _ _ Hn S1) as (kvs1 & -> & (x1 & Hx1 & Hv1) & Hfr1).
    destruct (set_string_field_spec _ _ _ _ Hns H) as (kvs2 & -> & (x2 & Hx2 & Hv2) & Hfr2).
    cbn [subj_str]. split; [|split].
    - rewrite (Hfr2 "name") by discriminate. rewrite Hx1. exact Hv1.
    - rewrite Hx2. exact Hv2.
    - intros q Hq1 Hq2. rewrite (Hfr2 q Hq2), (Hfr1 q Hq1). reflexivity.
  Qed.
End Elem.

(* ---------- the visit of one referrer inside nameReferenceTransformer.Transform ---------- *)
Section Whole.
  Variable cs : string -> string -> bool.
  Variable nonstr : string -> bool.

  Lemma F2_same_trans l1 l2 l3 :
    Forall2 same_identity l1 l2 -> Forall2 same_identity l2 l3 -> Forall2 same_identity l1 l3.
  Proof.
    intros H. revert l3. induction H; intros l3 H3; inversion H3; subst; constructor; eauto using same_identity_trans.
  Qed.

  Lemma transform_loop_at filters :
    Forall (Forall (fun p => rule_ok (fst p))) filters ->
    forall done todo out i r fl,
      transform_loop cs nonstr filters done todo = Ok out ->
      nth_error todo i = Some r -> nth_error filters i = Some fl ->
      exists done_i r',
        nth_error out (List.length done + i) = Some r' /\
        Forall2 same_identity (done ++ firstn i todo)%list done_i /\
        ((fl = [] /\ r' = r) \/
         exists flags, referencable cs (done_i ++ r :: skipn (S i) todo)%list r = Ok flags /\
                       apply_rules cs nonstr done_i (skipn (S i) todo) flags fl r = Ok r').
  Proof.
    induction filters as [|fl0 filters IH]; intros Hok done todo out i r fl H Hr Hfl.
    - destruct i; discriminate.
    - inversion Hok as [|? ? Hfl0 Hrest]; subst.
      destruct todo as [|r0 t]; [destruct i; discriminate|].
      cbn [transform_loop] in H.
      destruct i as [|i'].
      + cbn in Hr, Hfl. inv Hr. inv Hfl. cbn [firstn skipn]. rewrite app_nil_r, Nat.add_0_r.
        exists done. destruct fl as [|f0 fl'].
        * destruct (transform_loop_identity cs nonstr _ Hrest _ _ _ H) as (tail & -> & _).
          exists r. split; [rewrite <- app_assoc; cbn; rewrite nth_error_app2, Nat.sub_diag by lia; reflexivity|].
          split; [apply Forall2_same_refl|left; auto].
        * destruct (referencable cs (done ++ r :: t) r) as [flags| | |] eqn:ER; cbn [bind] in H; try discriminate.
          destruct (apply_rules cs nonstr done t flags (f0 :: fl') r) as [r'| | |] eqn:EA; cbn [bind] in H; try discriminate.
          destruct (transform_loop_identity cs nonstr _ Hrest _ _ _ H) as (tail & -> & _).
          exists r'. split; [rewrite <- app_assoc; cbn; rewrite nth_error_app2, Nat.sub_diag by lia; reflexivity|].
          split; [apply Forall2_same_refl|right; eauto].
      + cbn in Hr, Hfl.
        assert (Hstep : exists r0', same_identity r0 r0' /\
                  transform_loop cs nonstr filters (done ++ [r0'])%list t = Ok out).
        { destruct fl0 as [|f0 fl'].
          - exists r0. split; [apply same_identity_refl|exact H].
          - destruct (referencable cs (done ++ r0 :: t) r0) as [flags| | |]; cbn [bind] in H; try discriminate.
            destruct (apply_rules cs nonstr done t flags (f0 :: fl') r0) as [r0'| | |] eqn:EA; cbn [bind] in H; try discriminate.
            exists r0'. split; [eapply apply_rules_identity; eauto|exact H]. }
        destruct Hstep as (r0' & Hid & H').
        destruct (IH Hrest _ _ _ _ _ _ H' Hr Hfl) as (done_i & r' & Hn & HF & Hcase).
        exists done_i, r'. split; [rewrite app_length in Hn; cbn in Hn; rewrite <- Hn; f_equal; lia|].
        split; [|exact Hcase].
        cbn [firstn]. eapply F2_same_trans; [|exact HF].
        rewrite <- app_assoc. cbn [app]. apply Forall2_mid. exact Hid.
  Qed.

  Lemma select_view_ext : forall flags l l',
    Forall2 same_identity l l' -> mapM (view cs) (select_by flags l') = mapM (view cs) (select_by flags l).
  Proof.
    induction flags as [|b flags IH]; intros l l' H; [reflexivity|].
    destruct H as [|r r' t t' Hr Ht]; [destruct b; reflexivity|].
    destruct b; cbn [select_by]; [|apply IH; exact Ht].
    cbn [mapM]. rewrite (view_ext cs _ _ Hr), (IH _ _ Ht). reflexivity.
  Qed.

  Lemma ident_cur_id r r' : same_identity r r' -> cur_id cs r' = cur_id cs r.
  Proof.
    intros [Hi _]. unfold ident in Hi. injection Hi as Ha Hk Hn Hns.
    unfold cur_id, cur_gvk. rewrite Ha, Hk, Hn, Hns. reflexivity.
  Qed.

  Lemma referencable_ext l l' r :
    Forall2 same_identity l l' -> referencable cs l' r = referencable cs l r.
  Proof.
    intros H. unfold referencable. destruct (id_cluster_scoped (cur_id cs r)).
    - f_equal. induction H; cbn; [reflexivity|f_equal; auto].
    - destruct (rolebinding_namespaces (r_node r)) as [rbns| | |]; cbn [bind]; try reflexivity. f_equal.
      induction H as [|a a' t t' Ha Ht IH]; cbn [map]; [reflexivity|]. rewrite IH. f_equal.
      rewrite (ident_cur_id _ _ Ha). destruct Ha as [Hi _]. unfold ident in Hi. injection Hi as _ _ _ Hns.
      rewrite Hns. reflexivity.
  Qed.
End Whole.

Section Binding.
  Variable cs : string -> string -> bool.
  Variable nonstr : string -> bool.

  Lemma mapM_F2' {A B} (f : A -> res B) : forall l l', mapM f l = Ok l' -> Forall2 (fun a b => f a = Ok b) l l'.
  Proof.
    induction l as [|a t IH]; intros l' H; cbn in H.
    - inv H. constructor.
    - destruct (f a) as [b| | |] eqn:E; cbn in H; try discriminate.
      destruct (mapM f t) as [t'| | |] eqn:E2; cbn in H; try discriminate. inv H. constructor; auto.
  Qed.

  (* the rule whose path is `subjects`: every element goes through setMapping / setScalar *)
  Lemma rule_subjects cands fs tg r kvs es r1 :
    fs_path fs = "subjects" -> r_node r = Map kvs -> find_field "subjects" kvs = Some (Seq es) ->
    apply_rule cs nonstr cands fs tg r = Ok r1 ->
    exists es', r_node r1 = Map (set_first "subjects" (Seq es') kvs) /\ same_bookkeeping r r1 /\
                Forall2 (fun e e' => nr_set_elem nonstr (make_ctx cs r "subjects" tg) cands e = Ok e') es es'.
  Proof.
    intros Hp Hn Hs H. unfold apply_rule in H. rewrite Hp, Hn in H.
    change (path_splitter "subjects") with ["subjects"] in H.
    rewrite fs_filter_map_nocreate in H by (auto; reflexivity). rewrite Hs in H.
    rewrite fs_filter_nil in H. unfold nr_set in H. cbn [is_null] in H.
    destruct (mapM (nr_set_elem nonstr (make_ctx cs r "subjects" tg) cands) es) as [es'| | |] eqn:EM;
      cbn [bind] in H; try discriminate. inv H.
    exists es'. split; [reflexivity|]. split; [repeat split|]. apply mapM_F2'; exact EM.
  Qed.

  Definition other_rule_ok (p : fieldspec * gvk) : bool :=
    match path_splitter (fs_path (fst p)) with
    | s :: _ => plain_key s && negb (String.eqb s "subjects")
    | [] => false
    end.

  (* the rules that come after it leave `subjects` alone *)
  Lemma rules_keep_subjects mb ma flags : forall rest r1 kvs1 r',
    forallb other_rule_ok rest = true -> r_node r1 = Map kvs1 ->
    apply_rules cs nonstr mb ma flags rest r1 = Ok r' ->
    exists kvs', r_node r' = Map kvs' /\ find_field "subjects" kvs' = find_field "subjects" kvs1.
  Proof.
    induction rest as [|[fs tg] t IH]; intros r1 kvs1 r' Hok Hn H; cbn [apply_rules] in H.
    - inv H. eauto.
    - cbn [forallb] in Hok. apply andb_true_iff in Hok as [H1 Hok].
      destruct (mapM (view cs) _) as [cands| | |]; cbn [bind] in H; try discriminate.
      destruct (apply_rule cs nonstr cands fs tg r1) as [r2| | |] eqn:EA; cbn [bind] in H; try discriminate.
      unfold apply_rule in EA. rewrite Hn in EA. unfold other_rule_ok in H1. cbn [fst] in H1.
      destruct (path_splitter (fs_path fs)) as [|s rest']; [discriminate|].
      apply andb_true_iff in H1 as [Hpk Hne].
      match type of EA with (do n' <- ?e; _) = _ => destruct e as [n'| | |] eqn:EF end; cbn [bind] in EA; try discriminate.
      inv EA.
      destruct (RenameProofs.fs_filter_root_frame _ _ _ _ _ _ _ _ Hpk EF) as (kvs2 & -> & Hfr).
      destruct (IH (with_node r1 (Map kvs2)) kvs2 r' Hok eq_refl H) as (kvs' & Hn' & Hf').
      exists kvs'. split; [exact Hn'|]. rewrite Hf'. apply Hfr.
      intros E. subst s. cbn in Hne. discriminate.
  Qed.
End Binding.

Section Follow.
  Variable cs : string -> string -> bool.
  Variable nonstr : string -> bool.

  (* the candidates every rule applied to the referrer at position i sees (they do not depend on the documents
     the pass rewrites, only on identities and rename history) *)
  Definition cands_at (m : list resource) (i : nat) : res (list cand) :=
    match nth_error m i with
    | Some r => do flags <- referencable cs m r; mapM (view cs) (select_by flags m)
    | None => Err
    end.

  Definition binding_rules_ok (fl : list (fieldspec * gvk)) : bool :=
    match fl with
    | (fs0, _) :: rest => String.eqb (fs_path fs0) "subjects" && forallb other_rule_ok rest
    | [] => false
    end.

  Lemma mapM_nth {A B} (f : A -> res B) : forall l l' i a,
    mapM f l = Ok l' -> nth_error l i = Some a -> exists b, f a = Ok b /\ nth_error l' i = Some b.
  Proof.
    induction l as [|x t IH]; intros l' i a H Hn; [destruct i; discriminate|]. cbn [mapM] in H.
    destruct (f x) as [y| | |] eqn:E; cbn [bind] in H; try discriminate.
    destruct (mapM f t) as [t'| | |] eqn:E2; cbn [bind] in H; try discriminate. inv H.
    destruct i; cbn in *; [inv Hn; eauto|eapply IH; eauto].
  Qed.

  Lemma F2_nth {A B} (P : A -> B -> Prop) : forall l l' k a,
    Forall2 P l l' -> nth_error l k = Some a -> exists a', nth_error l' k = Some a' /\ P a a'.
  Proof.
    intros l l' k a H. revert k. induction H; intros k Hk; [destruct k; discriminate|].
    destruct k; cbn in *; [inv Hk; eauto|auto].
  Qed.

  Lemma split_at {A} (l : list A) i a : nth_error l i = Some a -> l = (firstn i l ++ a :: skipn (S i) l)%list.
  Proof.
    revert i. induction l as [|x t IH]; intros [|i] H; cbn in *; try discriminate.
    - inv H. reflexivity.
    - f_equal. apply IH. exact H.
  Qed.

  Theorem subjects_follow :
    forall rules m m' i r org fs0 tg0 rest kvs es k ekvs name_node cands b,
      (forall b f, In b rules -> In f (nb_referrers b) -> rule_ok f) ->
      nameref_transform cs nonstr rules m = Ok m' ->
      nth_error m i = Some r -> org_id cs r = Ok org ->
      filters_for rules org = (fs0, tg0) :: rest -> binding_rules_ok ((fs0, tg0) :: rest) = true ->
      r_node r = Map kvs -> find_field "subjects" kvs = Some (Seq es) ->
      cands_at m i = Ok cands ->
      nth_error es k = Some (Map ekvs) -> find_field "name" ekvs = Some name_node ->
      let x := make_ctx cs r "subjects" tg0 in
      filter (name_kind_match x (node_value name_node)) (mapping_cands ekvs cands) = [b] ->
      roleref_sieve x b && namespace_sieve x b = true ->
      c_name b <> "" -> c_ns b <> "" ->
      exists r' kvs' es' e',
        nth_error m' i = Some r' /\ r_node r' = Map kvs' /\ find_field "subjects" kvs' = Some (Seq es') /\
        nth_error es' k = Some e' /\ subj_str "name" e' = c_name b /\ subj_str "namespace" e' = c_ns b.
  Proof.
    intros rules m m' i r org fs0 tg0 rest kvs es k ekvs name_node cands b Hok Hrun Hr Horg Hfl Hbr Hn Hs Hc He Hname x Hu Hvis Hcn Hcns.
    unfold nameref_transform in Hrun.
    destruct (mapM (org_id cs) m) as [orgs| | |] eqn:EO; cbn [bind] in Hrun; try discriminate.
    destruct (mapM_nth _ _ _ _ _ EO Hr) as (org' & Ho' & Hno). rewrite Horg in Ho'. inv Ho'.
    assert (HF : Forall (Forall (fun p => rule_ok (fst p))) (map (filters_for rules) orgs)).
    { apply Forall_forall. intros fl Hin. apply in_map_iff in Hin as (o & <- & _). apply filters_for_ok. assumption. }
    destruct (transform_loop_at cs nonstr _ HF [] m m' i r (filters_for rules org') Hrun Hr
                (map_nth_error _ _ _ Hno)) as (done_i & r' & Hn' & HF2 & Hcase).
    cbn [app List.length Nat.add] in Hn', HF2. rewrite Hfl in Hcase.
    destruct Hcase as [[Hnil _]|(flags & Hflags & Happ)]; [discriminate|].
    assert (Hall : Forall2 same_identity m (done_i ++ r :: skipn (S i) m)%list).
    { rewrite (split_at m i r Hr) at 1. apply Forall2_app; [exact HF2|apply Forall2_same_refl]. }
    rewrite (referencable_ext cs _ _ r Hall) in Hflags.
    unfold cands_at in Hc. rewrite Hr, Hflags in Hc. cbn [bind] in Hc.
    cbn [apply_rules] in Happ. rewrite (select_view_ext cs flags _ _ Hall), Hc in Happ. cbn [bind] in Happ.
    destruct (apply_rule cs nonstr cands fs0 tg0 r) as [r1| | |] eqn:EA; cbn [bind] in Happ; try discriminate.
    cbn [binding_rules_ok] in Hbr. apply andb_true_iff in Hbr as [Hp Hrest]. apply String.eqb_eq in Hp.
    destruct (rule_subjects cs nonstr cands fs0 tg0 r kvs es r1 Hp Hn Hs EA) as (es' & Hn1 & _ & HFe).
    destruct (rules_keep_subjects cs nonstr done_i (skipn (S i) m) flags rest r1 _ r' Hrest Hn1 Happ) as (kvs' & Hn2 & Hf2).
    destruct (F2_nth _ _ _ _ _ HFe He) as (e' & He' & Hset).
    unfold nr_set_elem in Hset. cbn [is_null] in Hset.
    destruct (set_mapping_follows nonstr x cands ekvs name_node b e' Hname Hu Hvis Hcn Hcns Hset) as (S1 & S2 & _).
    exists r', kvs', es', e'. repeat split; auto.
    rewrite Hf2. eapply find_set_first_same; eauto.
  Qed.
End Follow.

(* ---------- after the namespace transformer ---------- *)
From KV Require Import Res.NamespaceProofs Res.NamespaceGen.

Lemma meta_str_eq f n : Namespace.meta_str f n = meta_string f n.
Proof.
  unfold Namespace.meta_str, meta_string, get_meta. destruct n as [| kvs |]; try reflexivity.
  destruct (find_field "metadata" kvs) as [md|]; [|reflexivity].
  destruct md as [t s v| mk |es].
  - destruct t; reflexivity.
  - destruct mk as [|kv mk']; [reflexivity|]. cbn [nil_or_empty].
    destruct (find_field f (kv :: mk')) as [x|]; [|reflexivity].
    destruct x as [t s v|l|l]; [destruct t; reflexivity|destruct l; reflexivity|destruct l; reflexivity].
  - destruct es; reflexivity.
Qed.

Section AfterNamespace.
  Variable nonstr : string -> bool.

  Lemma pipe_ns_loop_spec ns : forall todo done out,
    ns_loop ns done todo = Ok out ->
    exists imgs, out = (done ++ imgs)%list /\
      Forall2 (fun r0 r1 => (nil_or_empty (r_node r0) = true /\ r1 = r0) \/ ns_one ns r0 = Ok r1) todo imgs.
  Proof.
    induction todo as [|r t IH]; intros done out H; cbn [ns_loop] in H.
    - inv H. exists []. rewrite app_nil_r. split; [reflexivity|constructor].
    - destruct (nil_or_empty (r_node r)) eqn:En.
      + destruct (IH _ _ H) as (imgs & -> & HF). exists (r :: imgs). rewrite <- app_assoc. split; [reflexivity|].
        constructor; auto.
      + destruct (ns_one ns r) as [r2| | |] eqn:E1; cbn [bind] in H; try discriminate.
        destruct (Nat.eqb _ 1); [|discriminate].
        destruct (IH _ _ H) as (imgs & -> & HF). exists (r2 :: imgs). rewrite <- app_assoc. split; [reflexivity|].
        constructor; auto.
  Qed.

  (* C09_subjects, full statement. m0: the accumulated resources of a kustomization with directive
     `namespace: ns`; m1 after the namespace transformer (which also leaves the rename bookkeeping); m2 after the
     name-reference pass with the generated rule table.  A subject (position k of the binding at position i)
     whose name, among the candidates of the namespace it names (all of them if it names none), was ever
     borne by exactly one ServiceAccount - the account at position j - carries that account's output name and
     namespace afterwards; the namespace is the directive's. *)
  Theorem subjects_follow_account :
    forall (ns : string) (m0 m1 m2 : list resource) (rules : list nbr)
           (i j k : nat) (r a0 a : resource) (org : resid) (fs0 : fieldspec) (tg0 : gvk) (rest : list (fieldspec * gvk))
           (kvs ekvs : list (string * node)) (es : list node) (name_node : node) (cands : list cand) (b : cand),
      ns <> "" ->
      namespace_transform ns m0 = Ok m1 -> pipe_rules = Ok rules ->
      nameref_transform pipe_cs nonstr rules m1 = Ok m2 ->
      (* the binding *)
      nth_error m1 i = Some r -> org_id pipe_cs r = Ok org ->
      filters_for rules org = (fs0, tg0) :: rest -> binding_rules_ok ((fs0, tg0) :: rest) = true ->
      r_node r = Map kvs -> find_field "subjects" kvs = Some (Seq es) ->
      nth_error es k = Some (Map ekvs) -> find_field "name" ekvs = Some name_node ->
      (* the account: a namespaced resource of the map the transformer moved *)
      nth_error m0 j = Some a0 -> nth_error m1 j = Some a -> nil_or_empty (r_node a0) = false ->
      meta_not_seq (r_node a0) = true -> Namespace.obj_cluster_scoped gen_ns_scope (r_node a0) = false ->
      view pipe_cs a = Ok b -> c_name b <> "" ->
      (* it is the one the subject designates *)
      cands_at pipe_cs m1 i = Ok cands ->
      let x := make_ctx pipe_cs r "subjects" tg0 in
      filter (name_kind_match x (node_value name_node)) (mapping_cands ekvs cands) = [b] ->
      roleref_sieve x b && namespace_sieve x b = true ->
      exists r' a' kvs' es' e',
        nth_error m2 i = Some r' /\ nth_error m2 j = Some a' /\
        r_node r' = Map kvs' /\ find_field "subjects" kvs' = Some (Seq es') /\ nth_error es' k = Some e' /\
        subj_str "name" e' = get_name (r_node a') /\
        subj_str "namespace" e' = get_namespace (r_node a') /\
        get_namespace (r_node a') = ns.
  Proof.
    intros ns m0 m1 m2 rules i j k r a0 a org fs0 tg0 rest kvs ekvs es name_node cands b
           Hns Hnt Hrules Hrun Hr Horg Hfl Hbr Hn Hs He Hname Ha0 Ha Hne Hms Hcs Hview Hcn Hc x Hu Hvis.
    (* the account after the namespace transformer *)
    assert (Hmoved : get_namespace (r_node a) = ns).
    { unfold namespace_transform in Hnt.
      destruct (String.eqb ns "") eqn:E; [apply String.eqb_eq in E; contradiction|].
      destruct (pipe_ns_loop_spec ns m0 [] m1 Hnt) as (imgs & -> & HF). cbn [app] in *.
      destruct (F2_nth _ _ _ _ _ HF Ha0) as (a1 & Ha1 & Hrel). rewrite Ha in Ha1. inv Ha1.
      destruct Hrel as [[Hn0 _]|Hone]; [congruence|].
      unfold ns_one in Hone.
      destruct (Namespace.ns_filter gen_ns_scope (ns_config ns) (r_node (store_previous_id pipe_cs a0))) as [n'| | |] eqn:EF;
        cbn [bind] in Hone; try discriminate. inv Hone. cbn [r_node with_node].
      change (r_node (store_previous_id pipe_cs a0)) with (r_node a0) in EF.
      destruct (moved_default ns (r_node a0) n' Hms Hcs EF) as [Hm _].
      unfold get_namespace. rewrite <- meta_str_eq. exact Hm. }
    assert (Hb : c_name b = get_name (r_node a) /\ c_ns b = get_namespace (r_node a)).
    { unfold view in Hview. destruct (prev_ids a); cbn [bind] in Hview; try discriminate. inv Hview. auto. }
    destruct Hb as [Hbn Hbns].
    assert (Hcns : c_ns b <> "") by (rewrite Hbns, Hmoved; exact Hns).
    assert (Hok : forall b0 f, In b0 rules -> In f (nb_referrers b0) -> rule_ok f).
    { intros b0 f Hb0 Hf. unfold pipe_rules in Hrules. eapply gen_rule_ok; eauto. }
    destruct (subjects_follow pipe_cs nonstr rules m1 m2 i r org fs0 tg0 rest kvs es k ekvs name_node cands b
                Hok Hrun Hr Horg Hfl Hbr Hn Hs Hc He Hname Hu Hvis Hcn Hcns)
      as (r' & kvs' & es' & e' & H1 & H2 & H3 & H4 & H5 & H6).
    pose proof (nameref_transform_identity pipe_cs nonstr rules m1 m2 Hok Hrun) as Hid.
    destruct (F2_nth _ _ _ _ _ Hid Ha) as (a' & Ha' & [Hi _]).
    unfold ident in Hi. injection Hi as _ _ Hin Hins.
    exists r', a', kvs', es', e'. repeat split; auto; congruence.
  Qed.
End AfterNamespace.

(* ---------- the generated rule table: what applies to rbac bindings ---------- *)
Definition pipe_rule_list : list nbr := match pipe_rules with Ok r => r | _ => [] end.

Lemma gen_binding_rules_ok :
  forall (kind name ns version : string),
    kind = "RoleBinding" \/ kind = "ClusterRoleBinding" ->
    version = "v1" \/ version = "v1beta1" ->
    binding_rules_ok (filters_for pipe_rule_list (mkId (gvk_lit "rbac.authorization.k8s.io" version kind) name ns)) = true.
Proof. intros kind name ns version [-> | ->] [-> | ->]; vm_compute; reflexivity. Qed.

(* ---------- example: non-vacuity, and the empty-namespace subject ---------- *)
Definition sj_sc (s : string) : node := Scalar TStr SPlain s.
Definition sj_sa (name : string) : resource :=
  load (Map [("apiVersion", sj_sc "v1"); ("kind", sj_sc "ServiceAccount"); ("metadata", Map [("name", sj_sc name)])]).
Definition sj_rb (subjects : list node) : resource :=
  load (Map [("apiVersion", sj_sc "rbac.authorization.k8s.io/v1"); ("kind", sj_sc "RoleBinding");
             ("metadata", Map [("name", sj_sc "rb")]);
             ("roleRef", Map [("apiGroup", sj_sc "rbac.authorization.k8s.io"); ("kind", sj_sc "Role"); ("name", sj_sc "r")]);
             ("subjects", Seq subjects)]).
Definition sj_nq (_ : string) : bool := false.

Definition sj_run (m0 : list resource) : res (list resource) :=
  do m1 <- namespace_transform "prod" m0; nameref_transform pipe_cs sj_nq pipe_rule_list m1.

Definition sj_subjects (r : resource) : option node := map_field_value "subjects" (r_node r).

(* a subject without namespace and one naming the account's original (default) namespace both follow the account *)
Example subjects_follow_example :
  exists m2 r',
    sj_run [sj_sa "sa1"; sj_rb [Map [("kind", sj_sc "ServiceAccount"); ("name", sj_sc "sa1")];
                               Map [("kind", sj_sc "ServiceAccount"); ("name", sj_sc "sa1"); ("namespace", sj_sc "default")]]] = Ok m2 /\
    nth_error m2 1 = Some r' /\
    option_map (fun s => match s with Seq es => map (fun e => (subj_str "name" e, subj_str "namespace" e)) es | _ => [] end)
               (sj_subjects r') = Some [("sa1", "prod"); ("sa1", "prod")].
Proof. eexists. eexists. split; [vm_compute; reflexivity|]. split; [reflexivity|vm_compute; reflexivity]. Qed.

(* the hypotheses of subjects_follow_account hold for the first subject of that example *)
Example subjects_follow_account_nonvacuous :
  let m0 := [sj_sa "sa1"; sj_rb [Map [("kind", sj_sc "ServiceAccount"); ("name", sj_sc "sa1")]]] in
  exists m1 r a b cands org fl,
    namespace_transform "prod" m0 = Ok m1 /\ nth_error m1 1 = Some r /\ nth_error m1 0 = Some a /\
    org_id pipe_cs r = Ok org /\ filters_for pipe_rule_list org = fl /\ binding_rules_ok fl = true /\
    view pipe_cs a = Ok b /\ c_name b = "sa1" /\ c_ns b = "prod" /\
    cands_at pipe_cs m1 1 = Ok cands /\
    match fl with
    | (_, tg0) :: _ =>
        let x := make_ctx pipe_cs r "subjects" tg0 in
        filter (name_kind_match x "sa1") (mapping_cands [("kind", sj_sc "ServiceAccount"); ("name", sj_sc "sa1")] cands) = [b] /\
        roleref_sieve x b && namespace_sieve x b = true
    | [] => False
    end.
Proof.
  cbv zeta. do 7 eexists. split; [vm_compute; reflexivity|]. split; [reflexivity|]. split; [reflexivity|].
  split; [vm_compute; reflexivity|]. split; [vm_compute; reflexivity|]. split; [vm_compute; reflexivity|].
  split; [vm_compute; reflexivity|]. split; [reflexivity|]. split; [reflexivity|].
  split; [vm_compute; reflexivity|]. split; vm_compute; reflexivity.
Qed.

(* A subject that spells the namespace as the EMPTY STRING.  Before the repair
   R-nameref-empty-namespace-subject filterMapCandidatesByNamespace keyed the candidates by the literal text, no
   resource has the effective namespace "", and the subject kept `namespace: ""` while the account moved to prod
   (former lemma subjects_empty_namespace_refuted, finding C09/subjects/empty-namespace-subject).  After the repair
   the empty spelling is treated like an absent namespace and the subject follows the account. *)
Lemma subjects_empty_namespace_follow :
  exists m2 r' a',
    sj_run [sj_sa "sa1"; sj_rb [Map [("kind", sj_sc "ServiceAccount"); ("name", sj_sc "sa1"); ("namespace", sj_sc "")]]] = Ok m2 /\
    nth_error m2 0 = Some a' /\ nth_error m2 1 = Some r' /\
    get_namespace (r_node a') = "prod" /\
    option_map (fun s => match s with Seq es => map (fun e => (subj_str "name" e, subj_str "namespace" e)) es | _ => [] end)
               (sj_subjects r') = Some [("sa1", "prod")].
Proof. do 3 eexists. split; [vm_compute; reflexivity|]. repeat split; vm_compute; reflexivity. Qed.

(* the designation hypothesis of subjects_follow_account holds for the empty spelling *)
Example subjects_empty_namespace_designates :
  let m0 := [sj_sa "sa1"; sj_rb [Map [("kind", sj_sc "ServiceAccount"); ("name", sj_sc "sa1"); ("namespace", sj_sc "")]]] in
  exists m1 r b cands org fl,
    namespace_transform "prod" m0 = Ok m1 /\ nth_error m1 1 = Some r /\
    org_id pipe_cs r = Ok org /\ filters_for pipe_rule_list org = fl /\
    cands_at pipe_cs m1 1 = Ok cands /\
    match fl with
    | (_, tg0) :: _ =>
        let x := make_ctx pipe_cs r "subjects" tg0 in
        filter (name_kind_match x "sa1")
               (mapping_cands [("kind", sj_sc "ServiceAccount"); ("name", sj_sc "sa1"); ("namespace", sj_sc "")] cands) = [b]
    | [] => False
    end /\ c_name b = "sa1" /\ c_ns b = "prod".
Proof.
  cbv zeta. do 6 eexists. split; [vm_compute; reflexivity|]. split; [reflexivity|].
  split; [vm_compute; reflexivity|]. split; [vm_compute; reflexivity|]. split; [vm_compute; reflexivity|].
  split; [vm_compute; reflexivity|]. split; reflexivity.
Qed.
