(* C12 (whole build): totality of the integrated pipeline model.
   Part 1: [build] never returns Diverge - for ALL trees, ill-formed documents included (no function of the
   pipeline is fuelled; the statement composes the totality lemmas of the kyaml core, Yaml/TotalityProofs.v,
   with one lemma per function of the build).
   Part 2: where Panic can come from. *)
From KV Require Import Res.Pipeline Res.PipelineProofs Yaml.TotalityProofs.
From KV Require Res.Labels Res.LabelsDefaults Res.Namespace Res.Hygiene Res.Generators Res.Hash Res.LegacySort Res.Replica Res.Image.
From KV Require Res.Selector Yaml.Merge2Identity Yaml.Merge2Proofs.
Local Open Scope string_scope.

Definition nd {A} (r : res A) : Prop := r <> Diverge.

Lemma nd_bind {A B} (w : res A) (g : A -> res B) :
  nd w -> (forall a, w = Ok a -> nd (g a)) -> nd (bind w g).
Proof. unfold nd. destruct w; cbn; intros H1 H2; try discriminate; auto. Qed.

Lemma nd_mapM {A B} (f : A -> res B) l : (forall x, nd (f x)) -> nd (mapM f l).
Proof.
  intros Hf. induction l as [|x t IH]; cbn [mapM]; [discriminate|].
  apply nd_bind; [apply Hf|]. intros y _. apply nd_bind; [exact IH|]. intros; discriminate.
Qed.

(* closes a goal [e <> Diverge] where e is built from if / match / literal outcomes *)
Ltac nd_case :=
  unfold nd;
  repeat match goal with
         | |- Ok _ <> Diverge => discriminate
         | |- Err <> Diverge => discriminate
         | |- Panic <> Diverge => discriminate
         | |- (if ?c then _ else _) <> Diverge => destruct c
         | |- (match ?x with _ => _ end) <> Diverge => destruct x
         end.

(* ================= kyaml core instances ================= *)

Lemma nd_walk {A} cr ps (k : node -> res (node * A)) n : (forall x, nd (k x)) -> nd (walk cr ps k n).
Proof. intros H. apply walk_never_diverges. exact H. Qed.

Lemma nd_set_field nonstr name v keep n : nd (set_field nonstr name v keep n).
Proof. apply set_field_total. Qed.
Lemma nd_set_scalar v n : nd (set_scalar v n).
Proof. apply set_scalar_total. Qed.
Lemma nd_clear_field name n : nd (clear_field name n).
Proof. apply clear_field_total. Qed.

Lemma nd_put nonstr ps name v n : nd (put nonstr ps name v n).
Proof.
  unfold put. apply nd_walk. intros x. unfold k_set_field. apply nd_bind; [apply nd_set_field|]. intros; discriminate.
Qed.
Lemma nd_clear_at ps name n : nd (clear_at ps name n).
Proof.
  unfold clear_at. apply nd_walk. intros x. unfold k_clear. apply nd_bind; [apply nd_clear_field|]. intros; discriminate.
Qed.
Lemma nd_lookup ps n : nd (lookup ps n).
Proof. apply lookup_never_diverges. Qed.

Lemma nd_fs_filter ck ct set create path obj : (forall n, nd (set n)) -> nd (fs_filter ck ct set create path obj).
Proof. intros H. apply fs_filter_no_diverge. exact H. Qed.
Lemma nd_fs_apply ck ct set fs obj : (forall n, nd (set n)) -> nd (fs_apply ck ct set fs obj).
Proof. intros H. apply fs_apply_no_diverge. exact H. Qed.
Lemma nd_fsslice ck ct set l obj : (forall n, nd (set n)) -> nd (fsslice_apply ck ct set l obj).
Proof. intros H. apply fsslice_apply_no_diverge. exact H. Qed.

(* ================= resources, rename history ================= *)

Lemma nd_prev_ids r : nd (prev_ids r).
Proof. unfold prev_ids. nd_case. Qed.

Lemma nd_org_id cs r : nd (org_id cs r).
Proof. unfold org_id. apply nd_bind; [apply nd_prev_ids|]. intros p _. nd_case. Qed.

Lemma nd_view cs r : nd (view cs r).
Proof. unfold view. apply nd_bind; [apply nd_prev_ids|]. intros; discriminate. Qed.

Lemma nd_append_one m r : nd (append_one pipe_cs m r).
Proof. unfold append_one. nd_case. Qed.

Lemma nd_append_all l : forall acc, nd (append_all pipe_cs acc l).
Proof.
  induction l as [|r t IH]; intros acc; cbn [append_all]; [discriminate|].
  apply nd_bind; [apply nd_append_one|]. intros; apply IH.
Qed.

(* ================= generators ================= *)

Lemma nd_validated_map l : forall acc, nd (Generators.validated_map l acc).
Proof. induction l as [|[k v] t IH]; intros acc; cbn; [discriminate|]. destruct (Generators.dict_get k acc); [discriminate|apply IH]. Qed.

Lemma nd_parse_literal s : nd (Generators.parse_literal s).
Proof. unfold Generators.parse_literal. nd_case. Qed.

Lemma nd_env_lines ls : forall first, nd (Generators.env_lines first ls).
Proof.
  induction ls as [|l t IH]; intros first; cbn [Generators.env_lines]; [discriminate|].
  apply nd_bind; [unfold Generators.env_line; nd_case|]. intros p _.
  apply nd_bind; [apply IH|]. intros; discriminate.
Qed.

Lemma nd_concat_res {A} (l : list (res (list A))) : Forall nd l -> nd (Generators.concat_res l).
Proof.
  induction 1 as [|r t Hr _ IH]; cbn [Generators.concat_res]; [discriminate|].
  apply nd_bind; [exact Hr|]. intros x _. apply nd_bind; [exact IH|]. intros; discriminate.
Qed.

Lemma nd_gen_pairs g : nd (gen_pairs g).
Proof.
  unfold gen_pairs. apply nd_bind.
  - apply nd_concat_res. apply Forall_forall. intros r Hr. apply in_map_iff in Hr as (c & <- & _). apply nd_env_lines.
  - intros e _. apply nd_bind; [apply nd_mapM; intros; apply nd_parse_literal|]. intros l _.
    apply nd_bind; [|intros; discriminate]. apply nd_mapM. intros sc.
    apply nd_bind; [unfold Generators.parse_file_source; nd_case|]. intros; discriminate.
Qed.

Lemma nd_gen_node secret g : nd (gen_node secret g).
Proof.
  unfold gen_node. destruct (String.eqb (pg_name g) ""); [discriminate|].
  apply nd_bind; [apply nd_gen_pairs|]. intros kvs _.
  apply nd_bind; [apply nd_validated_map|]. intros m _. discriminate.
Qed.

Lemma nd_gen_resource secret g : nd (gen_resource secret g).
Proof. unfold gen_resource. apply nd_bind; [apply nd_gen_node|]. intros; discriminate. Qed.

Lemma nd_matching_any id m : forall i, nd (matching_any id i m).
Proof.
  induction m as [|r t IH]; intros i; cbn [matching_any]; [discriminate|].
  destruct (nil_or_empty (r_node r)); [apply IH|].
  apply nd_bind; [apply nd_prev_ids|]. intros p _. apply nd_bind; [apply IH|]. intros; discriminate.
Qed.

Lemma nd_set_meta_map f m n : nd (set_meta_map f m n).
Proof. unfold set_meta_map. nd_case. Qed.
Lemma nd_set_top_map f m n : nd (set_top_map f m n).
Proof. unfold set_top_map. nd_case. Qed.

Lemma nd_set_name nonstr v n : nd (set_name nonstr v n).
Proof. unfold set_name. apply nd_bind; [apply nd_put|]. intros; discriminate. Qed.

Lemma nd_set_namespace nonstr ns n : nd (set_namespace nonstr ns n).
Proof.
  unfold set_namespace. destruct (String.eqb ns "").
  - apply nd_bind; [apply nd_clear_at|]. intros; discriminate.
  - apply nd_bind; [apply nd_put|]. intros; discriminate.
Qed.

Lemma nd_copy_merge_meta nonstr r old : nd (copy_merge_meta nonstr r old).
Proof.
  unfold copy_merge_meta.
  apply nd_bind; [apply nd_set_meta_map|]. intros n1 _.
  apply nd_bind; [apply nd_set_meta_map|]. intros n2 _.
  apply nd_bind; [apply nd_set_name|]. intros n3 _.
  apply nd_bind; [apply nd_set_namespace|]. intros; discriminate.
Qed.

Lemma nd_merge_data_from r old : nd (merge_data_from r old).
Proof.
  unfold merge_data_from. apply nd_bind; [apply nd_set_top_map|]. intros n1 _.
  apply nd_bind; [apply nd_set_top_map|]. intros; discriminate.
Qed.

Lemma nd_index_of_cur id m : nd (index_of_cur id m).
Proof. unfold index_of_cur. nd_case. Qed.

Lemma nd_absorb nonstr m b r : nd (absorb nonstr m b r).
Proof.
  unfold absorb. apply nd_bind; [apply nd_matching_any|]. intros ms _.
  destruct (Generators.absorb_action (List.length ms) b); try discriminate; try apply nd_append_one.
  all: destruct ms as [|i [|j t]]; try discriminate.
  all: destruct (nth_error m i); try discriminate.
  all: apply nd_bind; [apply nd_copy_merge_meta|]; intros r1 _.
  all: apply nd_bind; [first [apply nd_merge_data_from|discriminate]|]; intros r2 _.
  all: apply nd_bind; [apply nd_index_of_cur|]; intros j _; nd_case.
Qed.

Lemma nd_run_gens nonstr go secret gens : forall m, nd (run_gens nonstr go secret gens m).
Proof.
  induction gens as [|g t IH]; intros m; cbn [run_gens]; [discriminate|].
  apply nd_bind; [apply nd_gen_resource|]. intros r _.
  apply nd_bind; [apply nd_absorb|]. intros; apply IH.
Qed.

Lemma nd_run_generators nonstr d m : nd (run_generators nonstr d m).
Proof.
  unfold run_generators. generalize gen_generator_order. intros ks. revert m.
  induction ks as [|k t IH]; intros m; cbn [run_generator_kinds]; [discriminate|].
  apply nd_bind; [|intros; apply IH].
  destruct (String.eqb k "ConfigMapGenerator"); [apply nd_run_gens|].
  destruct (String.eqb k "SecretGenerator"); [apply nd_run_gens|discriminate].
Qed.

(* ================= transformers ================= *)

Lemma nd_ns_setter c n : nd (Namespace.ns_setter c n).
Proof. unfold Namespace.ns_setter. destruct (_ && _); [discriminate|apply nd_set_scalar]. Qed.

Lemma nd_visit_subject c field value o : nd (Namespace.visit_subject c field value o).
Proof.
  unfold Namespace.visit_subject. apply nd_bind; [apply nd_walk; intros; discriminate|]. intros r _.
  destruct (snd r) as [x|]; [|discriminate]. destruct (is_null x); [discriminate|].
  destruct x; try discriminate. destruct (String.eqb v value); [|discriminate].
  apply nd_bind; [|intros; discriminate]. apply nd_walk. intros n.
  apply nd_bind; [apply nd_ns_setter|]. intros; discriminate.
Qed.

Lemma nd_role_binding_hack c obj : nd (Namespace.role_binding_hack c obj).
Proof.
  unfold Namespace.role_binding_hack. destruct (Namespace.ns_mode c); try discriminate.
  all: apply nd_bind; [|intros; discriminate]; apply nd_walk; intros subj.
  all: destruct (is_null subj); [discriminate|]; destruct subj; try discriminate.
  all: apply nd_bind; [apply nd_mapM; intros; apply nd_visit_subject|]; intros; discriminate.
Qed.

Lemma nd_ns_filter c obj : nd (Namespace.ns_filter gen_ns_scope c obj).
Proof.
  unfold Namespace.ns_filter. apply nd_bind.
  - destruct (Namespace.obj_cluster_scoped gen_ns_scope obj); [discriminate|]. apply nd_fsslice. apply nd_ns_setter.
  - intros o1 _. destruct (Namespace.is_role_binding (obj_kind obj)).
    + apply nd_bind; [apply nd_role_binding_hack|]. intros o2 _. apply nd_fsslice. apply nd_ns_setter.
    + apply nd_fsslice. apply nd_ns_setter.
Qed.

Lemma nd_ns_one ns r : nd (ns_one ns r).
Proof. unfold ns_one. apply nd_bind; [apply nd_ns_filter|]. intros; discriminate. Qed.

Lemma nd_ns_loop ns todo : forall done, nd (ns_loop ns done todo).
Proof.
  induction todo as [|r t IH]; intros done; cbn [ns_loop]; [discriminate|].
  destruct (nil_or_empty (r_node r)); [apply IH|].
  apply nd_bind; [apply nd_ns_one|]. intros r2 _. destruct (Nat.eqb _ 1); [apply IH|discriminate].
Qed.

Lemma nd_namespace_transform ns m : nd (namespace_transform ns m).
Proof. unfold namespace_transform. destruct (String.eqb ns ""); [discriminate|apply nd_ns_loop]. Qed.

Lemma nd_set_scalar_to v n : nd (set_scalar_to v n).
Proof. unfold set_scalar_to. apply nd_set_scalar. Qed.

Lemma nd_affix_step affix add newv org r fs : nd (affix_step pipe_cs affix add newv org r fs).
Proof.
  unfold affix_step. destruct (negb _); [discriminate|].
  apply nd_bind; [|intros; discriminate]. apply nd_fs_apply. intros n. apply nd_set_scalar_to.
Qed.

Lemma nd_affix_steps affix add newv org fss : forall r, nd (affix_steps pipe_cs affix add newv org fss r).
Proof.
  induction fss as [|fs t IH]; intros r; cbn [affix_steps]; [discriminate|].
  apply nd_bind; [apply nd_affix_step|]. intros; apply IH.
Qed.

Lemma nd_prefix_transform p m : nd (prefix_transform pipe_cs gen_name_prefix_fs gen_prefix_skip p m).
Proof.
  unfold prefix_transform. destruct (String.eqb p ""); [discriminate|]. apply nd_mapM. intros r.
  unfold prefix_one. apply nd_bind; [apply nd_org_id|]. intros org _.
  destruct (should_skip _ org); [discriminate|apply nd_affix_steps].
Qed.

Lemma nd_suffix_transform s m : nd (suffix_transform pipe_cs gen_name_suffix_fs gen_suffix_skip s m).
Proof.
  unfold suffix_transform. destruct (String.eqb s ""); [discriminate|]. apply nd_mapM. intros r.
  unfold suffix_one. apply nd_bind; [apply nd_org_id|]. intros org _.
  destruct (should_skip _ org); [discriminate|apply nd_affix_steps].
Qed.

Lemma nd_keys_pass nonstr fss kvs : forall obj, nd (Labels.keys_pass nonstr fss kvs obj).
Proof.
  induction kvs as [|kv t IH]; intros obj; cbn [Labels.keys_pass]; [discriminate|].
  apply nd_bind; [|intros; apply IH]. unfold Labels.key_pass. apply nd_fsslice. intros n.
  unfold Labels.set_entry. apply nd_set_field.
Qed.

Lemma nd_map_nodes f m : (forall n, nd (f n)) -> nd (map_nodes f m).
Proof.
  intros H. unfold map_nodes. apply nd_mapM. intros r. apply nd_bind; [apply H|]. intros; discriminate.
Qed.

Lemma nd_label_transform nonstr labels fss m : nd (label_transform nonstr labels fss m).
Proof.
  unfold label_transform. destruct labels; [discriminate|]. apply nd_map_nodes. intros n.
  unfold Labels.label_filter. apply nd_keys_pass.
Qed.

Lemma nd_label_transforms nonstr lts : forall m, nd (label_transforms nonstr lts m).
Proof.
  induction lts as [|[p fss] t IH]; intros m; cbn [label_transforms]; [discriminate|].
  apply nd_bind; [apply nd_label_transform|]. intros; apply IH.
Qed.

Lemma nd_merge_one s x : nd (Labels.merge_one s x).
Proof. unfold Labels.merge_one. nd_case. Qed.
Lemma nd_merge_all inc : forall s, nd (Labels.merge_all s inc).
Proof.
  induction inc as [|x t IH]; intros s; cbn [Labels.merge_all]; [discriminate|].
  apply nd_bind; [apply nd_merge_one|]. intros; apply IH.
Qed.

Lemma nd_label_fs tc e : nd (Labels.label_fs tc e).
Proof.
  unfold Labels.label_fs. apply nd_bind; [apply nd_merge_all|]. intros fss _.
  destruct (Labels.ld_selectors e); [apply nd_merge_all|].
  apply nd_bind; [destruct (Labels.ld_templates e); [apply nd_merge_all|discriminate]|]. intros; apply nd_merge_one.
Qed.

Lemma nd_label_transformers tc d : nd (Labels.label_transformers tc d).
Proof.
  unfold Labels.label_transformers.
  assert (G : nd (do l <- mapM (fun e => do fss <- Labels.label_fs tc e; Ok (Labels.ld_pairs e, fss)) (Labels.d_labels d);
                  Ok (l ++ [(Labels.d_common_labels d, Labels.tc_common_labels tc)])%list)).
  { apply nd_bind; [|intros; discriminate]. apply nd_mapM. intros e.
    apply nd_bind; [apply nd_label_fs|]. intros; discriminate. }
  destruct (Labels.d_labels d); destruct (Labels.d_common_labels d); try exact G. discriminate.
Qed.

(* ----- replicas ----- *)

Lemma nd_replica_filter rp fs n : nd (Replica.replica_filter rp fs n).
Proof. unfold Replica.replica_filter. apply nd_fs_apply. intros x. unfold Replica.set_replicas. nd_case. Qed.

Lemma nd_replica_apply rp fs m : forall hits, nd (replica_apply rp fs m hits).
Proof.
  induction m as [|r t IH]; intros hits; cbn [replica_apply]; [discriminate|].
  destruct hits as [|h ht]; [discriminate|].
  apply nd_bind.
  - destruct h; [|discriminate]. apply nd_bind; [apply nd_replica_filter|]. intros; discriminate.
  - intros r' _. apply nd_bind; [apply IH|]. intros; discriminate.
Qed.

Lemma nd_replica_loop rp fss : forall found m, nd (replica_loop rp fss found m).
Proof.
  induction fss as [|fs t IH]; intros found m; cbn [replica_loop]; [discriminate|].
  apply nd_bind.
  - apply nd_mapM. intros r. unfold replica_hits. destruct (nil_or_empty (r_node r)); [discriminate|].
    apply nd_bind; [apply nd_prev_ids|]. intros; discriminate.
  - intros hits _. apply nd_bind; [apply nd_replica_apply|]. intros; apply IH.
Qed.

Lemma nd_replicas_transform rps : forall m, nd (replicas_transform rps m).
Proof.
  induction rps as [|rp t IH]; intros m; cbn [replicas_transform]; [discriminate|].
  apply nd_bind; [|intros; apply IH]. unfold replica_transform.
  apply nd_bind; [apply nd_replica_loop|]. intros r _. nd_case.
Qed.

(* ----- images ----- *)

Lemma nd_set_image_value parse im n : nd (Image.set_image_value parse im n).
Proof.
  unfold Image.set_image_value. destruct n as [t s v|kvs|es]; try discriminate.
  apply nd_bind; [|intros r _; nd_case]. unfold Image.update_value.
  apply nd_bind; [unfold Image.is_matched; nd_case|]. intros b _. nd_case.
Qed.

Lemma nd_legacy_callback parse im v : nd (Image.legacy_callback parse im v).
Proof.
  unfold Image.legacy_callback. destruct v as [t s x|kvs|es]; try discriminate.
  apply nd_bind; [|intros; discriminate]. apply nd_mapM. intros e. unfold Image.legacy_elem.
  destruct (is_null e); [discriminate|]. destruct e as [t s x|kvs|l]; try discriminate.
  destruct (find_field "image" kvs); [|discriminate].
  apply nd_bind; [apply nd_set_image_value|]. intros; discriminate.
Qed.

Lemma nd_legacy_walk parse im n : nd (Image.legacy_walk parse im n).
Proof.
  induction n as [t s v|kvs IH|es IH] using node_ind'.
  - discriminate.
  - cbn [Image.legacy_walk]. apply nd_bind; [|intros; discriminate].
    induction IH as [|[k v] t Hv _ IHt]; [discriminate|]. cbn [snd] in Hv.
    apply nd_bind; [exact Hv|]. intros v1 _.
    apply nd_bind; [destruct (str_in k _); [apply nd_legacy_callback|discriminate]|]. intros v2 _.
    apply nd_bind; [exact IHt|]. intros; discriminate.
  - cbn [Image.legacy_walk]. apply nd_bind; [|intros; discriminate].
    induction IH as [|e t He _ IHt]; [discriminate|].
    apply nd_bind; [exact He|]. intros e' _. apply nd_bind; [exact IHt|]. intros; discriminate.
Qed.

Lemma nd_images_transform ims : forall m, nd (images_transform ims m).
Proof.
  induction ims as [|im t IH]; intros m; cbn [images_transform]; [discriminate|].
  apply nd_bind; [|intros; apply IH]. unfold image_transform.
  apply nd_bind.
  - apply nd_map_nodes. intros n. unfold Image.legacy_filter. destruct (str_in _ _); [discriminate|apply nd_legacy_walk].
  - intros m1 _. apply nd_map_nodes. intros n. unfold Image.image_fs_filter. destruct (str_in _ _); [discriminate|].
    apply nd_fsslice. intros x. apply nd_set_image_value.
Qed.

(* ----- patches: ----- *)
Lemma nd_apply_sm nonstr sch patch r : nd (apply_sm nonstr sch patch r).
Proof.
  unfold apply_sm, Merge2Identity.apply_sm_patch.
  apply nd_bind; [apply nd_bind; [apply Merge2Proofs.merge2_no_diverge|]; intros o _; nd_case|].
  intros o _. nd_case.
Qed.

Lemma nd_apply_selected nonstr sch ids patch m : nd (apply_selected nonstr sch ids patch m).
Proof.
  induction m as [|r t IH]; cbn [apply_selected]; [discriminate|].
  apply nd_bind; [destruct (existsb _ ids); [apply nd_apply_sm|discriminate]|]. intros r' _.
  apply nd_bind; [exact IH|]. intros; discriminate.
Qed.

Lemma nd_patch_by_id nonstr sch docs : forall m, nd (patch_by_id nonstr sch docs m).
Proof.
  induction docs as [|p t IH]; intros m; cbn [patch_by_id]; [discriminate|].
  apply nd_bind; [apply nd_matching_any|]. intros ms _.
  destruct ms as [|i [|]]; try discriminate. destruct (nth_error m i); [|discriminate].
  apply nd_bind; [apply nd_apply_sm|]. intros; apply IH.
Qed.

Lemma nd_select parse cs lsel s rs : nd (Selector.select parse cs lsel s rs).
Proof.
  unfold Selector.select. apply nd_bind.
  - unfold Selector.new_selector_regex, Selector.compile_anchored.
    repeat (apply nd_bind; [nd_case|]; intros ? _). discriminate.
  - intros rx _. generalize 0. induction rs as [|r t IH]; intros i; cbn [Selector.select_from]; [discriminate|].
    apply nd_bind.
    + unfold Selector.select_one. cbv zeta. apply nd_bind.
      * unfold Selector.org_id. apply nd_bind; [unfold Selector.resource_prev_ids; nd_case|intros; discriminate].
      * intros; nd_case.
    + intros keep _. apply nd_bind; [apply IH|]. intros; discriminate.
Qed.

Lemma nd_patch_transform nonstr p m : nd (patch_transform nonstr p m).
Proof.
  unfold patch_transform. destruct (pp_target p); [|apply nd_patch_by_id].
  destruct (pp_docs p) as [|patch [|]]; try discriminate.
  apply nd_bind; [apply nd_select|]. intros idx _. unfold apply_to_set.
  apply nd_bind; [apply nd_apply_selected|]. intros; apply nd_append_all.
Qed.

Lemma nd_patches_transform nonstr ps : forall m, nd (patches_transform nonstr ps m).
Proof.
  induction ps as [|p t IH]; intros m; cbn [patches_transform]; [discriminate|].
  apply nd_bind; [apply nd_patch_transform|]. intros; apply IH.
Qed.

Lemma nd_run_kind nonstr k d m : nd (run_kind nonstr k d m).
Proof.
  unfold run_kind.
  destruct (String.eqb k "PatchTransformer"); [apply nd_patches_transform|].
  destruct (String.eqb k "NamespaceTransformer"); [apply nd_namespace_transform|].
  destruct (String.eqb k "PrefixTransformer"); [apply nd_prefix_transform|].
  destruct (String.eqb k "SuffixTransformer"); [apply nd_suffix_transform|].
  destruct (String.eqb k "LabelTransformer").
  { apply nd_bind; [apply nd_label_transformers|]. intros; apply nd_label_transforms. }
  destruct (String.eqb k "AnnotationsTransformer"); [apply nd_label_transform|].
  destruct (String.eqb k "ReplicaCountTransformer"); [apply nd_replicas_transform|].
  destruct (String.eqb k "ImageTagTransformer"); [apply nd_images_transform|discriminate].
Qed.

Lemma nd_run_order nonstr ks d : forall m, nd (run_order nonstr ks d m).
Proof.
  induction ks as [|k t IH]; intros m; cbn [run_order]; [discriminate|].
  apply nd_bind; [apply nd_run_kind|]. intros; apply IH.
Qed.

Lemma nd_run_transformers nonstr d m : nd (run_transformers nonstr d m).
Proof.
  unfold run_transformers. apply nd_bind; [apply nd_label_transformers|]. intros; apply nd_run_order.
Qed.

(* ================= accumulation ================= *)

Lemma nd_acc_list (f : ptree -> res (list resource)) ents :
  Forall (fun e => nd (f e)) ents -> forall acc, nd (acc_list f ents acc).
Proof.
  induction 1 as [|e t He _ IH]; intros acc; [discriminate|].
  rewrite acc_list_cons. apply nd_bind; [exact He|]. intros sub _.
  apply nd_bind; [apply nd_append_all|]. intros; apply IH.
Qed.

Lemma nd_accumulate nonstr t : nd (accumulate nonstr t).
Proof.
  induction t as [docs|n d ents IH] using ptree_ind'.
  - cbn [accumulate]. apply nd_append_all.
  - rewrite accumulate_dir. destruct (is_empty_kust d ents); [discriminate|].
    apply nd_bind; [apply nd_acc_list; exact IH|]. intros m0 _.
    apply nd_bind; [apply nd_run_generators|]. intros; apply nd_run_transformers.
Qed.

(* ================= top ================= *)

Lemma nd_hash_content c : nd (Hash.hash_content c).
Proof. unfold Hash.hash_content, Hash.encode_suffix. nd_case. Qed.

Lemma nd_hash_res nonstr r : nd (hash_res nonstr r).
Proof.
  unfold hash_res. destruct (r_needs_hash r); [|discriminate]. destruct (_ || _); [|discriminate].
  apply nd_bind; [apply nd_hash_content|]. intros h _. unfold hash_one.
  destruct (r_needs_hash r); [|discriminate]. apply nd_bind; [apply nd_set_name|]. intros; discriminate.
Qed.

Lemma nd_select_referral x old l ident : nd (select_referral x old l ident).
Proof. unfold select_referral. nd_case. Qed.

Lemma nd_set_string_scalar v n : nd (set_string_scalar v n).
Proof. unfold set_string_scalar. destruct (String.eqb v ""); [discriminate|apply nd_set_scalar]. Qed.
Lemma nd_set_string_field nonstr name v n : nd (set_string_field nonstr name v n).
Proof. unfold set_string_field. destruct (String.eqb v ""); [discriminate|apply nd_set_field]. Qed.

Lemma nd_nr_set_scalar x cands n : nd (nr_set_scalar x cands n).
Proof.
  unfold nr_set_scalar. apply nd_bind; [apply nd_select_referral|]. intros r _.
  destruct r as [c|]; [|discriminate]. destruct (String.eqb _ _); [discriminate|apply nd_set_string_scalar].
Qed.

Lemma nd_nr_set_mapping nonstr x cands n : nd (nr_set_mapping nonstr x cands n).
Proof.
  unfold nr_set_mapping. destruct n as [t s v|kvs|es]; try discriminate.
  destruct (find_field "name" kvs); [|discriminate].
  apply nd_bind; [apply nd_select_referral|]. intros r _. destruct r as [c|]; [|discriminate].
  destruct (_ && _); [discriminate|].
  apply nd_bind; [apply nd_set_string_field|]. intros n1 _.
  destruct (String.eqb (c_ns c) ""); [discriminate|apply nd_set_string_field].
Qed.

Lemma nd_nr_set nonstr x cands n : nd (nr_set nonstr x cands n).
Proof.
  unfold nr_set. destruct (is_null n); [discriminate|]. destruct n as [t s v|kvs|es].
  - apply nd_nr_set_scalar.
  - apply nd_nr_set_mapping.
  - apply nd_bind; [|intros; discriminate]. apply nd_mapM. intros e. unfold nr_set_elem.
    destruct (is_null e); [discriminate|]. destruct e; [apply nd_nr_set_scalar|apply nd_nr_set_mapping|discriminate].
Qed.

Lemma nd_apply_rule nonstr cands fs tg r : nd (apply_rule pipe_cs nonstr cands fs tg r).
Proof.
  unfold apply_rule. apply nd_bind; [|intros; discriminate]. apply nd_fs_filter. intros n. apply nd_nr_set.
Qed.

Lemma nd_apply_rules nonstr mb ma flags fl : forall r, nd (apply_rules pipe_cs nonstr mb ma flags fl r).
Proof.
  induction fl as [|[fs tg] t IH]; intros r; cbn [apply_rules]; [discriminate|].
  apply nd_bind; [apply nd_mapM; intros; apply nd_view|]. intros cands _.
  apply nd_bind; [apply nd_apply_rule|]. intros; apply IH.
Qed.

Lemma nd_rb_subject_namespaces es : nd (rb_subject_namespaces es).
Proof.
  induction es as [|e t IH]; cbn [rb_subject_namespaces]; [discriminate|].
  destruct e as [tg s v|kvs|l]; try discriminate.
  apply nd_bind; [nd_case|]. intros here _. apply nd_bind; [exact IH|]. intros; discriminate.
Qed.

Lemma nd_referencable m r : nd (referencable pipe_cs m r).
Proof.
  unfold referencable. destruct (id_cluster_scoped _); [discriminate|].
  apply nd_bind; [|intros; discriminate]. unfold rolebinding_namespaces.
  destruct (negb _); [discriminate|]. destruct (map_field_value "subjects" (r_node r)) as [[| |es]|]; try discriminate.
  apply nd_rb_subject_namespaces.
Qed.

Lemma nd_transform_loop nonstr filters : forall done todo, nd (transform_loop pipe_cs nonstr filters done todo).
Proof.
  induction filters as [|fl filters IH]; intros done todo.
  - destruct todo; cbn; discriminate.
  - destruct todo as [|r t]; cbn [transform_loop]; [discriminate|].
    destruct fl as [|f0 fl']; [apply IH|].
    apply nd_bind; [apply nd_referencable|]. intros flags _.
    apply nd_bind; [apply nd_apply_rules|]. intros; apply IH.
Qed.

Lemma nd_nameref_transform nonstr rules m : nd (nameref_transform pipe_cs nonstr rules m).
Proof.
  unfold nameref_transform. apply nd_bind; [apply nd_mapM; intros; apply nd_org_id|]. intros; apply nd_transform_loop.
Qed.

Lemma nd_sort_resources o m : nd (sort_resources o m).
Proof. destruct o; cbn [sort_resources]; try discriminate. apply nd_append_all. Qed.

Lemma nd_remove_loop ids kept : forall cur, nd (remove_loop ids kept cur).
Proof.
  induction ids as [|id t IH]; intros cur; cbn [remove_loop]; [discriminate|].
  destruct (existsb _ kept); [apply IH|]. destruct (Nat.eqb _ _); [apply IH|discriminate].
Qed.

Lemma nd_ignore_local m : nd (ignore_local m).
Proof.
  unfold ignore_local. destruct (negb _); [discriminate|].
  destruct (append_all pipe_cs [] _) eqn:E; try discriminate; [apply nd_remove_loop|].
  exfalso. revert E. apply nd_append_all.
Qed.

(* PIPE_never_diverges *)
Theorem build_never_diverges nonstr o t : build nonstr o t <> Diverge.
Proof.
  unfold build. destruct t as [docs|n d ents]; [discriminate|].
  apply nd_bind; [apply nd_accumulate|]. intros m _.
  apply nd_bind; [apply nd_mapM; intros; apply nd_hash_res|]. intros m1 _.
  apply nd_bind; [unfold hash_check; destruct (forallb _ m1); discriminate|]. intros _ _.
  apply nd_bind; [destruct pipe_rules_ok as [rs E]; rewrite E; discriminate|]. intros rules _.
  apply nd_bind; [apply nd_nameref_transform|]. intros m2 _.
  apply nd_bind; [apply nd_ignore_local|]. intros m2l _.
  apply nd_bind; [apply nd_sort_resources|]. intros; discriminate.
Qed.

(* ================= Part 2: Panic ================= *)

(* the model has the PrevIds panic (finding F7a of C12: CSV lists of unequal length): a name containing ','
   under a namePrefix in two layers - the second prefix transformer reads the rename history *)
Definition comma_doc : node :=
  Map [("apiVersion", Scalar TStr SPlain "v1"); ("kind", Scalar TStr SPlain "ConfigMap");
       ("metadata", Map [("name", Scalar TStr SPlain "a,b")])].

Example build_panic_prev_ids :
  build (fun _ => false) PSortNone
        (PDir "top" (mkPDirs "" "p-" "" [] [] [] [] [])
           [PDir "base" (mkPDirs "" "q-" "" [] [] [] [] []) [PFile [comma_doc]]]) = Panic.
Proof. vm_compute. reflexivity. Qed.

(* ... and PrevIds panics exactly on CSV lists of unequal length *)
Lemma prev_ids_panic_iff r :
  prev_ids r = Panic <->
  exists s, r_pnames r = Some s /\
    (List.length (split_on ","%char s) <> List.length (split_on ","%char (or_empty (r_pnss r))) \/
     List.length (split_on ","%char s) <> List.length (split_on ","%char (or_empty (r_pkinds r)))).
Proof.
  unfold prev_ids. destruct (r_pnames r) as [s|]; [|split; [discriminate|intros (s & H & _); discriminate]].
  destruct (Nat.eqb _ _) eqn:E1; destruct (Nat.eqb (List.length (split_on ","%char s)) (List.length (split_on ","%char (or_empty (r_pkinds r))))) eqn:E2;
    cbn [andb].
  - destruct (parse_group_version _). split; [discriminate|].
    intros (s' & H & [Hn|Hn]); inversion H; subst; [apply Nat.eqb_eq in E1|apply Nat.eqb_eq in E2]; contradiction.
  - split; [|reflexivity]. intros _. exists s. split; [reflexivity|]. right. apply Nat.eqb_neq. exact E2.
  - split; [|reflexivity]. intros _. exists s. split; [reflexivity|]. left. apply Nat.eqb_neq. exact E1.
  - split; [|reflexivity]. intros _. exists s. split; [reflexivity|]. left. apply Nat.eqb_neq. exact E1.
Qed.

(* regression: the id collision after the hash suffix was added used to reach IgnoreLocal, whose FromResourceSlice
   panics; the HashTransformer now reports it as an error *)
Example build_panic_hash_clash :
  build (fun _ => false) PSortNone
        (PDir "t" (mkPDirs "" "" "" [] [] [] [mkPGen "a" "" "" ["k=v"] "" false [] [] false] [])
           [PFile [Map [("apiVersion", Scalar TStr SPlain "v1"); ("kind", Scalar TStr SPlain "ConfigMap");
                        ("metadata", Map [("name", Scalar TStr SPlain "a-bdg947hgcc")])]]]) = Err.
Proof. vm_compute. reflexivity. Qed.
