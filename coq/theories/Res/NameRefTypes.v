(* Types shared by the generated name reference table (Gen/NameRefRules.v) and the models:
   resid.Gvk, resid.ResId and builtinconfig.NameBackReferences. *)
From KV Require Export Base.Prelude Yaml.FieldSpecTypes.

(* resid.Gvk. [g_cs] is the unexported isClusterScoped flag: it is only ever set by resid.NewGvk
   (from the openapi data); a Gvk built as a literal or unmarshalled from YAML has it false. *)
Record gvk := mkGvk {
  g_group : string;
  g_version : string;
  g_kind : string;
  g_cs : bool
}.

(* resid.ResId *)
Record resid := mkId {
  id_gvk : gvk;
  id_name : string;
  id_ns : string
}.

(* builtinconfig.NameBackReferences: referral target Gvk + the referrer field specs *)
Record nbr := mkNbr {
  nb_group : string;
  nb_version : string;
  nb_kind : string;
  nb_referrers : list fieldspec
}.
