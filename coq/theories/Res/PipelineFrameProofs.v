(* C02 (whole build): the build-level frame theorem for the integrated pipeline model.
   Every input document of a successful build appears exactly once in the output (up to the final sort), and
   every location that leaves all builtin field-spec paths, all name-reference rule paths, `subjects` and
   metadata/annotations holds the node it held in the input. *)
From KV Require Import Res.Pipeline Res.PipelineProofs Res.NameRefProofs Res.C03Facts.
From KV Require Import Yaml.FieldSpecSpec Yaml.FieldSpecProofs Yaml.FieldSpecGenProofs.
From KV Require Res.Labels Res.LabelsDefaults Res.Namespace Res.Hygiene Res.LegacySort Base.SortFacts.
From Coq Require Import Sorting.Permutation.
Local Open Scope string_scope.

(* ---------- the locations a modelled directive may write ---------- *)

Definition pipe_rule_list : list nbr := match pipe_rules with Ok l => l | _ => [] end.

(* the rule table, the role-binding hack and the final annotation rewrite as (pseudo) field specs *)
Definition frame_fs : list fieldspec :=
  (gen_all_fs ++ flat_map nb_referrers pipe_rule_list ++
   [Labels.metadata_labels_fs;
    mkFs "" "" "" "metadata/namespace" true;
    mkFs "" "" "" "subjects" false;
    mkFs "" "" "" "metadata/annotations" false])%list.

(* q leaves every one of them *)
Definition untouched (q : jpath) : Prop :=
  Forall (fun fs => fs_diverges (fs_segments fs) q = true) frame_fs.

Definition untouched_b (q : jpath) : bool :=
  forallb (fun fs => fs_diverges (fs_segments fs) q) frame_fs.

Lemma untouched_b_sound q : untouched_b q = true -> untouched q.
Proof. unfold untouched_b, untouched. rewrite forallb_forall, Forall_forall. auto. Qed.

(* obligation over the generated tables: every path is made of plain segments (hypothesis of the frame lemma) *)
Lemma frame_fs_segments_ok : forallb (fun fs => forallb seg_ok (fs_segments fs)) frame_fs = true.
Proof. vm_compute. reflexivity. Qed.

(* obligation: no directive can touch `kind` or `apiVersion` *)
Lemma kind_untouched : untouched [JKey "kind"].
Proof. apply untouched_b_sound. vm_compute. reflexivity. Qed.
Lemma api_version_untouched : untouched [JKey "apiVersion"].
Proof. apply untouched_b_sound. vm_compute. reflexivity. Qed.

(* non-vacuity: plenty of locations are untouched, and targeted ones are not *)
Example untouched_example : untouched [JKey "spec"; JKey "extra"; JKey "v"].
Proof. apply untouched_b_sound. vm_compute. reflexivity. Qed.
Example untouched_data_example : untouched [JKey "data"; JKey "k"].
Proof. apply untouched_b_sound. vm_compute. reflexivity. Qed.
Example touched_example :
  untouched_b [JKey "metadata"; JKey "name"] = false /\
  untouched_b [JKey "spec"; JKey "template"; JKey "spec"; JKey "volumes"; JIdx 0; JKey "configMap"; JKey "name"] = false.
Proof. vm_compute. split; reflexivity. Qed.

Lemma untouched_in q fs :
  untouched q -> In fs frame_fs -> forallb seg_ok (fs_segments fs) = true /\ fs_diverges (fs_segments fs) q = true.
Proof.
  intros HU Hin. split.
  - pose proof frame_fs_segments_ok as H. rewrite forallb_forall in H. apply H. exact Hin.
  - unfold untouched in HU. rewrite Forall_forall in HU. apply HU. exact Hin.
Qed.

Lemma untouched_slice q l :
  untouched q -> incl l frame_fs ->
  Forall (fun fs => forallb seg_ok (fs_segments fs) = true /\ fs_diverges (fs_segments fs) q = true) l.
Proof. intros HU Hi. apply Forall_forall. intros fs Hfs. apply untouched_in; auto. Qed.

Lemma incl_gen_all l : incl l gen_all_fs -> incl l frame_fs.
Proof. intros H x Hx. unfold frame_fs. apply in_or_app. left. auto. Qed.

(* ---------- one resource through one step ---------- *)

(* the step keeps every untouched location and the hash request *)
Definition keeps (r r' : resource) : Prop :=
  (forall q, untouched q -> get_at q (r_node r') = get_at q (r_node r)) /\ r_needs_hash r' = r_needs_hash r.

Lemma keeps_refl r : keeps r r.
Proof. split; auto. Qed.

Lemma keeps_trans a b c : keeps a b -> keeps b c -> keeps a c.
Proof. intros [H1 H2] [H3 H4]. split; [intros q Hq; rewrite H3, H1; auto|congruence]. Qed.

Definition has_kind (r : resource) : Prop := get_at [JKey "kind"] (r_node r) <> None.

Lemma keeps_has_kind r r' : keeps r r' -> has_kind r -> has_kind r'.
Proof. intros [H _] Hk. unfold has_kind. rewrite (H _ kind_untouched). exact Hk. Qed.

Lemma has_kind_not_empty r : has_kind r -> nil_or_empty (r_node r) = false.
Proof.
  unfold has_kind. destruct (r_node r) as [t s v|kvs|es]; cbn; try congruence.
  destruct kvs; cbn; congruence.
Qed.

Lemma drop_empties_has_kind m : Forall has_kind m -> drop_empties m = m.
Proof.
  induction 1 as [|r t Hr _ IH]; [reflexivity|]. unfold drop_empties in *. cbn.
  rewrite (has_kind_not_empty _ Hr). cbn. now rewrite IH.
Qed.

Lemma Forall2_keeps_has_kind m m' : Forall2 keeps m m' -> Forall has_kind m -> Forall has_kind m'.
Proof. induction 1; intros HK; inversion HK; subst; constructor; eauto using keeps_has_kind. Qed.

Lemma Forall2_keeps_refl m : Forall2 keeps m m.
Proof. induction m; constructor; auto using keeps_refl. Qed.

Lemma Forall2_keeps_trans a b c : Forall2 keeps a b -> Forall2 keeps b c -> Forall2 keeps a c.
Proof.
  intros HF. revert c. induction HF; intros c Hc; inversion Hc; subst; constructor; eauto using keeps_trans.
Qed.

Lemma mapM_Forall2P {A B} (f : A -> res B) : forall l l', mapM f l = Ok l' -> Forall2 (fun a b => f a = Ok b) l l'.
Proof.
  induction l as [|a t IH]; intros l' H; cbn in H.
  - inv H. constructor.
  - destruct (f a) as [b| | |] eqn:E; cbn in H; try discriminate.
    destruct (mapM f t) as [t'| | |] eqn:E2; cbn in H; try discriminate. inv H.
    constructor; auto.
Qed.

Lemma Forall2_impl2 {A B} (P Q : A -> B -> Prop) l l' :
  (forall a b, P a b -> Q a b) -> Forall2 P l l' -> Forall2 Q l l'.
Proof. intros H HF. induction HF; constructor; auto. Qed.

(* ---------- prefix / suffix ---------- *)

Section Steps.
  Variable nonstr : string -> bool.
  Notation cs := pipe_cs.

  Lemma store_previous_id_node r :
    r_node (store_previous_id cs r) = r_node r /\ r_needs_hash (store_previous_id cs r) = r_needs_hash r.
  Proof. split; reflexivity. Qed.

  Lemma affix_step_keeps affix (add : string -> resource -> resource) newv org r fs r' :
    (forall a x, r_node (add a x) = r_node x /\ r_needs_hash (add a x) = r_needs_hash x) ->
    In fs frame_fs ->
    affix_step cs affix add newv org r fs = Ok r' -> keeps r r'.
  Proof.
    intros Hadd Hin H. unfold affix_step in H.
    destruct (negb (gvk_is_selected (id_gvk org) (fsgvk fs))); [inv H; apply keeps_refl|].
    match type of H with (do n' <- fs_apply _ _ _ _ (r_node ?R1); _) = _ => set (r1 := R1) in * end.
    assert (H1 : r_node r1 = r_node r /\ r_needs_hash r1 = r_needs_hash r).
    { unfold r1. destruct (String.eqb (fs_path fs) "metadata/name"); [|auto].
      destruct (String.eqb affix ""); [apply Hadd|].
      destruct (store_previous_id_node (add affix r)) as [A B]. rewrite A, B. apply Hadd. }
    destruct H1 as [N1 N2].
    destruct (fs_apply _ _ _ fs (r_node r1)) as [n'| | |] eqn:E; cbn [bind] in H; try discriminate. inv H.
    split; [|cbn; exact N2]. intros q Hq. cbn [r_node with_node]. rewrite <- N1.
    destruct (untouched_in q fs Hq Hin) as [S D]. eapply fs_apply_frame; eauto.
  Qed.

  Lemma affix_steps_keeps affix (add : string -> resource -> resource) newv org fss : forall r r',
    (forall a x, r_node (add a x) = r_node x /\ r_needs_hash (add a x) = r_needs_hash x) ->
    incl fss frame_fs ->
    affix_steps cs affix add newv org fss r = Ok r' -> keeps r r'.
  Proof.
    induction fss as [|fs t IH]; intros r r' Hadd Hi H; cbn [affix_steps] in H; [inv H; apply keeps_refl|].
    destruct (affix_step cs affix add newv org r fs) as [r1| | |] eqn:E; cbn [bind] in H; try discriminate.
    eapply keeps_trans; [eapply affix_step_keeps; eauto; apply Hi; left; reflexivity|].
    eapply IH; eauto. intros x Hx. apply Hi. right. exact Hx.
  Qed.

  Lemma prefix_one_keeps p r r' :
    prefix_one cs gen_name_prefix_fs gen_prefix_skip p r = Ok r' -> keeps r r'.
  Proof.
    unfold prefix_one. destruct (org_id cs r) as [org| | |]; cbn [bind]; try discriminate.
    destruct (should_skip gen_prefix_skip org); [intros H; inv H; apply keeps_refl|].
    apply affix_steps_keeps; [intros a x; split; reflexivity|].
    apply incl_gen_all. unfold gen_all_fs. intros x Hx. apply in_or_app. left. exact Hx.
  Qed.

  Lemma suffix_one_keeps s r r' :
    suffix_one cs gen_name_suffix_fs gen_suffix_skip s r = Ok r' -> keeps r r'.
  Proof.
    unfold suffix_one. destruct (org_id cs r) as [org| | |]; cbn [bind]; try discriminate.
    destruct (should_skip gen_suffix_skip org); [intros H; inv H; apply keeps_refl|].
    apply affix_steps_keeps; [intros a x; split; reflexivity|].
    apply incl_gen_all. unfold gen_all_fs. intros x Hx. apply in_or_app. right. apply in_or_app. left. exact Hx.
  Qed.

  Lemma prefix_transform_keeps p m m' :
    prefix_transform cs gen_name_prefix_fs gen_prefix_skip p m = Ok m' -> Forall2 keeps m m'.
  Proof.
    unfold prefix_transform. destruct (String.eqb p ""); [intros H; inv H; apply Forall2_keeps_refl|].
    intros H. apply mapM_Forall2P in H. eapply Forall2_impl2; [|exact H]. intros a b. apply prefix_one_keeps.
  Qed.

  Lemma suffix_transform_keeps s m m' :
    suffix_transform cs gen_name_suffix_fs gen_suffix_skip s m = Ok m' -> Forall2 keeps m m'.
  Proof.
    unfold suffix_transform. destruct (String.eqb s ""); [intros H; inv H; apply Forall2_keeps_refl|].
    intros H. apply mapM_Forall2P in H. eapply Forall2_impl2; [|exact H]. intros a b. apply suffix_one_keeps.
  Qed.

  (* ---------- labels / annotations ---------- *)

  Lemma keys_pass_frame fss kvs : forall obj obj' q,
    untouched q -> incl fss frame_fs ->
    Labels.keys_pass nonstr fss kvs obj = Ok obj' -> get_at q obj' = get_at q obj.
  Proof.
    induction kvs as [|kv t IH]; intros obj obj' q Hq Hi H; cbn [Labels.keys_pass] in H; [now inv H|].
    destruct (Labels.key_pass nonstr fss kv obj) as [o1| | |] eqn:E; cbn [bind] in H; try discriminate.
    rewrite (IH _ _ _ Hq Hi H). unfold Labels.key_pass in E.
    eapply fsslice_apply_frame; [|exact E]. apply untouched_slice; assumption.
  Qed.

  Lemma map_nodes_keeps (f : node -> res node) m m' :
    (forall n n' q, untouched q -> f n = Ok n' -> get_at q n' = get_at q n) ->
    map_nodes f m = Ok m' -> Forall2 keeps m m'.
  Proof.
    intros Hf H. unfold map_nodes in H. apply mapM_Forall2P in H. eapply Forall2_impl2; [|exact H].
    intros a b Hab. cbv beta in Hab. destruct (f (r_node a)) as [n| | |] eqn:E; cbn [bind] in Hab; try discriminate.
    inv Hab. split; [|reflexivity]. intros q Hq. cbn [r_node with_node]. eapply Hf; eauto.
  Qed.

  Lemma label_transform_keeps labels fss m m' :
    incl fss frame_fs -> label_transform nonstr labels fss m = Ok m' -> Forall2 keeps m m'.
  Proof.
    intros Hi. unfold label_transform. destruct labels; [intros H; inv H; apply Forall2_keeps_refl|].
    apply map_nodes_keeps. intros n n' q Hq H. unfold Labels.label_filter in H.
    eapply keys_pass_frame; eauto.
  Qed.

  Lemma label_transforms_keeps lts : forall m m',
    Forall (fun pf => incl (snd pf) frame_fs) lts -> Forall has_kind m ->
    label_transforms nonstr lts m = Ok m' -> Forall2 keeps m m'.
  Proof.
    induction lts as [|[p fss] t IH]; intros m m' Hl Hk H; cbn [label_transforms] in H; [inv H; apply Forall2_keeps_refl|].
    inversion Hl as [|? ? H1 H2]; subst. cbn [snd] in H1.
    destruct (label_transform nonstr p fss m) as [m1| | |] eqn:E; cbn [bind] in H; try discriminate.
    pose proof (label_transform_keeps _ _ _ _ H1 E) as K1.
    pose proof (Forall2_keeps_has_kind _ _ K1 Hk) as Hk1.
    rewrite (drop_empties_has_kind _ Hk1) in H.
    eapply Forall2_keeps_trans; [exact K1|]. eapply IH; eauto.
  Qed.

  (* the field specs the label configurator hands to the transformers (no custom `fields`) *)
  Lemma merge_one_incl s x s' : Labels.merge_one s x = Ok s' -> incl s' (s ++ [x]).
  Proof.
    unfold Labels.merge_one. destruct (Labels.fs_index s x).
    - destruct (Bool.eqb _ _); [|discriminate]. intros H; inv H. apply incl_appl, incl_refl.
    - intros H; inv H. apply incl_refl.
  Qed.

  Lemma merge_all_incl inc : forall s s', Labels.merge_all s inc = Ok s' -> incl s' (s ++ inc).
  Proof.
    induction inc as [|x t IH]; intros s s' H; cbn [Labels.merge_all] in H.
    - inv H. rewrite app_nil_r. apply incl_refl.
    - destruct (Labels.merge_one s x) as [s1| | |] eqn:E; cbn [bind] in H; try discriminate.
      apply IH in H. apply merge_one_incl in E.
      intros y Hy. apply H in Hy. apply in_app_or in Hy as [Hy|Hy].
      + apply E in Hy. apply in_app_or in Hy as [Hy|[<-|[]]]; apply in_or_app; [left; exact Hy|right; left; reflexivity].
      + apply in_or_app. right. right. exact Hy.
  Qed.

  Lemma common_labels_incl : incl gen_common_labels_fs frame_fs.
  Proof. apply incl_gen_all. unfold gen_all_fs. intros x Hx. do 2 (apply in_or_app; right). apply in_or_app. left. exact Hx. Qed.
  Lemma template_labels_incl : incl gen_template_labels_fs frame_fs.
  Proof. apply incl_gen_all. unfold gen_all_fs. intros x Hx. do 3 (apply in_or_app; right). apply in_or_app. left. exact Hx. Qed.
  Lemma common_annotations_incl : incl gen_common_annotations_fs frame_fs.
  Proof. apply incl_gen_all. unfold gen_all_fs. intros x Hx. do 4 (apply in_or_app; right). apply in_or_app. left. exact Hx. Qed.
  Lemma namespace_fs_incl : incl gen_namespace_fs frame_fs.
  Proof. apply incl_gen_all. unfold gen_all_fs. intros x Hx. do 5 (apply in_or_app; right). apply in_or_app. left. exact Hx. Qed.
  Lemma metadata_labels_in : In Labels.metadata_labels_fs frame_fs.
  Proof. unfold frame_fs. do 2 (apply in_or_app; right). left. reflexivity. Qed.

  Lemma label_fs_incl e fss :
    Labels.ld_fields e = [] -> Labels.label_fs LabelsDefaults.default_tc e = Ok fss -> incl fss frame_fs.
  Proof.
    intros Hf. unfold Labels.label_fs. rewrite Hf. cbn [LabelsDefaults.default_tc Labels.tc_labels Labels.merge_all bind
      Labels.tc_common_labels Labels.tc_template_labels].
    destruct (Labels.ld_selectors e).
    - intros H. apply merge_all_incl in H. intros x Hx. apply H in Hx. cbn [app] in Hx. apply common_labels_incl; exact Hx.
    - destruct (Labels.ld_templates e).
      + destruct (Labels.merge_all [] gen_template_labels_fs) as [f1| | |] eqn:E; cbn [bind]; try discriminate.
        intros H. apply merge_one_incl in H. apply merge_all_incl in E. cbn [app] in E.
        intros x Hx. apply H in Hx. apply in_app_or in Hx as [Hx|[<-|[]]]; [apply template_labels_incl; auto|apply metadata_labels_in].
      + cbn [bind]. intros H. apply merge_one_incl in H. intros x Hx. apply H in Hx. cbn [app] in Hx.
        destruct Hx as [<-|[]]. apply metadata_labels_in.
  Qed.

  (* the directives whose reach the builtin tables do not bound: custom labels[].fields and patches: *)
  Definition no_custom_fields (d : pdirs) : Prop :=
    Forall (fun e => Labels.ld_fields e = []) (pd_labels d) /\ pd_patches d = [].

  Lemma label_transformers_incl d lts :
    no_custom_fields d ->
    Labels.label_transformers LabelsDefaults.default_tc (label_dirs d) = Ok lts ->
    Forall (fun pf => incl (snd pf) frame_fs) lts.
  Proof.
    intros Hn. unfold Labels.label_transformers, label_dirs. cbn [Labels.d_labels Labels.d_common_labels].
    assert (G : forall l0,
      (do l <- mapM (fun e => do fss <- Labels.label_fs LabelsDefaults.default_tc e; Ok (Labels.ld_pairs e, fss)) (pd_labels d);
       Ok (l ++ [(pd_common_labels d, Labels.tc_common_labels LabelsDefaults.default_tc)])%list) = Ok l0 ->
      Forall (fun pf : pairs * list fieldspec => incl (snd pf) frame_fs) l0).
    { intros l0 H. destruct (mapM _ (pd_labels d)) as [l| | |] eqn:E; cbn [bind] in H; try discriminate. inv H.
      apply Forall_app. split; [|constructor; [exact common_labels_incl|constructor]].
      apply mapM_Forall2P in E. destruct Hn as [Hn _].
      clear -E Hn. induction E as [|e pf te tl He _ IH]; [constructor|].
      inversion Hn; subst. constructor; [|auto].
      destruct (Labels.label_fs LabelsDefaults.default_tc e) as [fss| | |] eqn:EF; cbn [bind] in He; try discriminate.
      inv He. cbn [snd]. eapply label_fs_incl; eauto. }
    destruct (pd_labels d) eqn:EL; destruct (pd_common_labels d) eqn:EC; intros H;
      try (apply G; rewrite ?EL, ?EC; exact H).
    inv H. constructor.
  Qed.
End Steps.

(* ---------- namespace ---------- *)

Lemma fs_diverges_single k q :
  fs_diverges [k] q = true ->
  (exists i rest, q = JIdx i :: rest) \/ (exists k' rest, q = JKey k' :: rest /\ k' <> seg_name k).
Proof.
  destruct q as [|[k'|i] rest]; cbn [fs_diverges]; [discriminate| |eauto].
  destruct (String.eqb k' (seg_name k)) eqn:E.
  - rewrite fs_diverges_nil. intros X. discriminate X.
  - intros _. right. exists k', rest. split; [reflexivity|]. apply String.eqb_neq. exact E.
Qed.

Lemma rb_hack_frame_j c obj obj' q :
  Namespace.role_binding_hack c obj = Ok obj' ->
  fs_diverges ["subjects"] q = true -> get_at q obj' = get_at q obj.
Proof.
  intros H D.
  assert (G : forall field value,
    (do r <- walk None [PKey "subjects"]
               (fun subj =>
                  if is_null subj then Ok (subj, tt)
                  else match subj with
                       | Seq es => do es' <- mapM (Namespace.visit_subject c field value) es; Ok (Seq es', tt)
                       | _ => Err
                       end) obj;
     Ok (fst r)) = Ok obj' -> get_at q obj' = get_at q obj).
  { intros field value HW.
    match type of HW with (do r <- ?W; _) = _ => destruct W as [[o r]| | |] eqn:EW end; cbn [bind fst] in HW;
      try discriminate.
    injection HW as ->. cbn [walk] in EW.
    destruct obj as [tg st v|kvs|es].
    - destruct (is_null (Scalar tg st v)); [|discriminate]. injection EW as <- _. reflexivity.
    - destruct (find_field "subjects" kvs) as [x|] eqn:Fs; [|injection EW as <- _; reflexivity].
      match type of EW with (do r <- ?K; _) = _ => destruct K as [[x' u]| | |] end; cbn [bind fst snd] in EW;
        try discriminate.
      injection EW as <- _.
      apply fs_diverges_single in D as [(i & rest & ->)|(k' & rest & -> & Hk)]; [reflexivity|].
      change (seg_name "subjects") with "subjects" in Hk.
      cbn [get_at]. rewrite pp_find_set_first_other by exact Hk. reflexivity.
    - destruct (is_null (Seq es)); [|discriminate]. injection EW as <- _. reflexivity. }
  unfold Namespace.role_binding_hack in H.
  destruct (Namespace.ns_mode c); try discriminate.
  - exact (G _ _ H).
  - exact (G _ _ H).
  - injection H as <-. reflexivity.
Qed.

Lemma filter_incl {A} (f : A -> bool) l : incl (filter f l) l.
Proof. intros x Hx. apply filter_In in Hx. tauto. Qed.

Lemma ns_filter_frame ns obj obj' q :
  untouched q ->
  Namespace.ns_filter gen_ns_scope (ns_config ns) obj = Ok obj' -> get_at q obj' = get_at q obj.
Proof.
  intros Hq H. unfold Namespace.ns_filter in H. cbn [Namespace.ns_fss ns_config] in H.
  set (fss1 := Namespace.prune_meta (obj_api_version obj) gen_namespace_fs) in *.
  assert (I1 : incl fss1 frame_fs).
  { intros x Hx. apply namespace_fs_incl. eapply filter_incl. exact Hx. }
  match type of H with (do o1 <- ?E; _) = _ => destruct E as [o1| | |] eqn:E1 end; cbn [bind] in H; try discriminate.
  assert (F1 : get_at q o1 = get_at q obj).
  { destruct (Namespace.obj_cluster_scoped gen_ns_scope obj); [now inv E1|].
    eapply fsslice_apply_frame; [|exact E1]. apply untouched_slice; [exact Hq|].
    intros x [<-|[]]. unfold frame_fs. do 2 (apply in_or_app; right). right. left. reflexivity. }
  rewrite <- F1. destruct (Namespace.is_role_binding (obj_kind obj)).
  - destruct (Namespace.role_binding_hack _ o1) as [o2| | |] eqn:E2; cbn [bind] in H; try discriminate.
    assert (F2 : get_at q o2 = get_at q o1).
    { eapply rb_hack_frame_j; [exact E2|].
      assert (Hs : In (mkFs "" "" "" "subjects" false) frame_fs)
        by (unfold frame_fs; do 2 (apply in_or_app; right); right; right; left; reflexivity).
      destruct (untouched_in q _ Hq Hs) as [_ D]. exact D. }
    rewrite <- F2. eapply fsslice_apply_frame; [|exact H]. apply untouched_slice; [exact Hq|].
    intros x Hx. apply I1. eapply filter_incl. exact Hx.
  - eapply fsslice_apply_frame; [|exact H]. apply untouched_slice; assumption.
Qed.

Section Transformers.
  Variable nonstr : string -> bool.
  Notation cs := pipe_cs.

  Lemma ns_one_keeps ns r r' : ns_one ns r = Ok r' -> keeps r r'.
  Proof.
    unfold ns_one. destruct (Namespace.ns_filter _ _ _) as [n'| | |] eqn:E; cbn [bind]; try discriminate.
    intros H. inv H. split; [|reflexivity]. intros q Hq. cbn [r_node with_node].
    rewrite (ns_filter_frame _ _ _ _ Hq E). reflexivity.
  Qed.

  Lemma ns_loop_keeps ns : forall todo done out,
    ns_loop ns done todo = Ok out -> exists tail, out = (done ++ tail)%list /\ Forall2 keeps todo tail.
  Proof.
    induction todo as [|r t IH]; intros done out H; cbn [ns_loop] in H.
    - inv H. exists []. split; [now rewrite app_nil_r|constructor].
    - destruct (nil_or_empty (r_node r)).
      + destruct (IH _ _ H) as (tail & -> & HF). exists (r :: tail). split; [now rewrite <- app_assoc|].
        constructor; [apply keeps_refl|exact HF].
      + destruct (ns_one ns r) as [r2| | |] eqn:E; cbn [bind] in H; try discriminate.
        destruct (Nat.eqb _ 1); [|discriminate].
        destruct (IH _ _ H) as (tail & -> & HF). exists (r2 :: tail). split; [now rewrite <- app_assoc|].
        constructor; [eapply ns_one_keeps; eauto|exact HF].
  Qed.

  Lemma namespace_transform_keeps ns m m' : namespace_transform ns m = Ok m' -> Forall2 keeps m m'.
  Proof.
    unfold namespace_transform. destruct (String.eqb ns ""); [intros H; inv H; apply Forall2_keeps_refl|].
    intros H. destruct (ns_loop_keeps _ _ _ _ H) as (tail & -> & HF). exact HF.
  Qed.

  (* replicas: the filter is a field-spec filter over the generated replicas table *)
  Lemma replicas_incl : incl gen_replicas_fs frame_fs.
  Proof. apply incl_gen_all. unfold gen_all_fs. intros x Hx. do 7 (apply in_or_app; right). apply in_or_app. left. exact Hx. Qed.

  Lemma replica_apply_keeps rp fs : In fs frame_fs -> forall m hits m',
    replica_apply rp fs m hits = Ok m' -> Forall2 keeps m m'.
  Proof.
    intros Hin. induction m as [|r t IH]; intros hits m' H; cbn [replica_apply] in H; [inv H; constructor|].
    destruct hits as [|h ht]; [inv H; apply Forall2_keeps_refl|].
    match type of H with bind ?E _ = _ => destruct E as [r'| | |] eqn:E1 end; cbn [bind] in H; try discriminate.
    destruct (replica_apply rp fs t ht) as [t'| | |] eqn:E2; cbn [bind] in H; try discriminate. inv H.
    constructor; [|eapply IH; eauto].
    destruct h; [|inv E1; apply keeps_refl].
    destruct (Replica.replica_filter rp fs (r_node r)) as [n| | |] eqn:EF; cbn [bind] in E1; try discriminate. inv E1.
    split; [|reflexivity]. intros q Hq. cbn [r_node with_node]. unfold Replica.replica_filter in EF.
    destruct (untouched_in q fs Hq Hin) as [S D]. eapply fs_apply_frame; eauto.
  Qed.

  Lemma replica_loop_keeps rp fss : incl fss frame_fs -> forall found m r,
    replica_loop rp fss found m = Ok r -> Forall2 keeps m (snd r).
  Proof.
    intros Hi. induction fss as [|fs t IH]; intros found m r H; cbn [replica_loop] in H; [inv H; apply Forall2_keeps_refl|].
    destruct (mapM (replica_hits rp fs) m) as [hits| | |]; cbn [bind] in H; try discriminate.
    destruct (replica_apply rp fs m hits) as [m1| | |] eqn:E; cbn [bind] in H; try discriminate.
    eapply Forall2_keeps_trans; [eapply replica_apply_keeps; [apply Hi; left; reflexivity|exact E]|].
    eapply IH; [|exact H]. intros x Hx. apply Hi. right. exact Hx.
  Qed.

  Lemma replicas_transform_keeps rps : forall m m',
    Forall has_kind m -> replicas_transform rps m = Ok m' -> Forall2 keeps m m'.
  Proof.
    induction rps as [|rp t IH]; intros m m' Hk H; cbn [replicas_transform] in H; [inv H; apply Forall2_keeps_refl|].
    destruct (replica_transform rp m) as [m1| | |] eqn:E; cbn [bind] in H; try discriminate.
    unfold replica_transform in E. destruct (replica_loop rp gen_replicas_fs false m) as [r| | |] eqn:EL; cbn [bind] in E; try discriminate.
    destruct (fst r); [|discriminate]. inv E.
    pose proof (replica_loop_keeps rp _ replicas_incl _ _ _ EL) as K1.
    pose proof (Forall2_keeps_has_kind _ _ K1 Hk) as Hk1. rewrite (drop_empties_has_kind _ Hk1) in H.
    eapply Forall2_keeps_trans; [exact K1|eapply IH; eauto].
  Qed.

  Lemma run_kind_keeps k d m m' :
    no_custom_fields d -> pd_images d = [] -> Forall has_kind m -> run_kind nonstr k d m = Ok m' -> Forall2 keeps m m'.
  Proof.
    intros Hn Hi Hk. unfold run_kind. rewrite Hi. rewrite (proj2 Hn).
    destruct (String.eqb k "PatchTransformer"); [intros H; inv H; apply Forall2_keeps_refl|].
    destruct (String.eqb k "NamespaceTransformer"); [apply namespace_transform_keeps|].
    destruct (String.eqb k "PrefixTransformer"); [apply prefix_transform_keeps|].
    destruct (String.eqb k "SuffixTransformer"); [apply suffix_transform_keeps|].
    destruct (String.eqb k "LabelTransformer").
    - destruct (Labels.label_transformers LabelsDefaults.default_tc (label_dirs d)) as [lts| | |] eqn:E;
        cbn [bind]; try discriminate.
      apply label_transforms_keeps; [eapply label_transformers_incl; eauto|exact Hk].
    - destruct (String.eqb k "AnnotationsTransformer").
      + apply label_transform_keeps. exact common_annotations_incl.
      + destruct (String.eqb k "ReplicaCountTransformer"); [apply replicas_transform_keeps; exact Hk|].
        destruct (String.eqb k "ImageTagTransformer"); intros H; inv H; apply Forall2_keeps_refl.
  Qed.

  Lemma run_order_keeps ks d : forall m m',
    no_custom_fields d -> pd_images d = [] -> Forall has_kind m -> run_order nonstr ks d m = Ok m' -> Forall2 keeps m m'.
  Proof.
    induction ks as [|k t IH]; intros m m' Hn Hi Hk H; cbn [run_order] in H; [inv H; apply Forall2_keeps_refl|].
    destruct (run_kind nonstr k d m) as [m1| | |] eqn:E; cbn [bind] in H; try discriminate.
    pose proof (run_kind_keeps _ _ _ _ Hn Hi Hk E) as K1.
    pose proof (Forall2_keeps_has_kind _ _ K1 Hk) as Hk1.
    rewrite (drop_empties_has_kind _ Hk1) in H.
    eapply Forall2_keeps_trans; [exact K1|]. eapply IH; eauto.
  Qed.

  Lemma run_transformers_keeps d m m' :
    no_custom_fields d -> pd_images d = [] -> Forall has_kind m -> run_transformers nonstr d m = Ok m' -> Forall2 keeps m m'.
  Proof.
    intros Hn Hi Hk. unfold run_transformers.
    destruct (Labels.label_transformers _ _); cbn [bind]; try discriminate.
    apply run_order_keeps; assumption.
  Qed.

  (* ---------- sources: which input document a resource of the map comes from (None: generated) ---------- *)

  Definition framed (o : option node) (r : resource) : Prop :=
    has_kind r /\
    match o with
    | Some src => (forall q, untouched q -> get_at q (r_node r) = get_at q src) /\ r_needs_hash r = false
    | None => True
    end.

  Fixpoint somes {A} (l : list (option A)) : list A :=
    match l with
    | [] => []
    | Some x :: t => x :: somes t
    | None :: t => somes t
    end.

  Lemma somes_app {A} (a b : list (option A)) : somes (a ++ b) = (somes a ++ somes b)%list.
  Proof. induction a as [|[x|] t IH]; cbn; [reflexivity|now rewrite IH|exact IH]. Qed.

  Lemma somes_map_some {A} (l : list A) : somes (map Some l) = l.
  Proof. induction l; cbn; [reflexivity|now f_equal]. Qed.

  Lemma framed_keeps o r r' : framed o r -> keeps r r' -> framed o r'.
  Proof.
    intros [Hk Ho] K. split; [eapply keeps_has_kind; eauto|].
    destruct o as [src|]; [|exact I]. destruct Ho as [H1 H2]. destruct K as [K1 K2].
    split; [intros q Hq; rewrite K1, H1; auto|congruence].
  Qed.

  Lemma Forall2_framed_keeps srcs m m' : Forall2 framed srcs m -> Forall2 keeps m m' -> Forall2 framed srcs m'.
  Proof.
    intros H. revert m'. induction H; intros m2 K; inversion K; subst; constructor; eauto using framed_keeps.
  Qed.

  Lemma Forall2_framed_has_kind srcs m : Forall2 framed srcs m -> Forall has_kind m.
  Proof. induction 1 as [|o r ? ? [Hk _]]; constructor; auto. Qed.

  (* ---------- generators ---------- *)

  Lemma gen_resource_has_kind secret g r : gen_resource secret g = Ok r -> has_kind r.
  Proof.
    unfold gen_resource, gen_node. destruct (String.eqb (pg_name g) ""); cbn [bind]; try discriminate.
    destruct (gen_pairs g); cbn [bind]; try discriminate.
    destruct (Generators.validated_map a []); cbn [bind]; try discriminate.
    intros H. inv H. unfold has_kind. cbn [r_node get_at app find_field String.eqb Ascii.eqb Bool.eqb]. discriminate.
  Qed.

  (* generators that only create (behaviour unspecified or create): merge / replace rewrite the data of an
     existing resource, which no frame statement can survive *)
  Definition creates (g : pgen) : Prop :=
    Generators.new_behavior (pg_behavior g) = Generators.BUnspecified \/
    Generators.new_behavior (pg_behavior g) = Generators.BCreate.

  Lemma create_action n b :
    b = Generators.BUnspecified \/ b = Generators.BCreate ->
    Generators.absorb_action n b = Generators.AAppend \/ Generators.absorb_action n b = Generators.AError.
  Proof.
    intros [->| ->]; destruct n as [|[|n]]; vm_compute; auto.
  Qed.

  Lemma absorb_create_spec m b r m' :
    b = Generators.BUnspecified \/ b = Generators.BCreate ->
    absorb nonstr m b r = Ok m' -> m' = (m ++ [r])%list.
  Proof.
    intros Hb H. unfold absorb in H.
    destruct (matching_any (cur_id cs r) 0 m) as [ms| | |]; cbn [bind] in H; try discriminate.
    destruct (create_action (List.length ms) b Hb) as [E|E]; rewrite E in H; [|discriminate].
    apply append_one_spec in H as [-> _]. reflexivity.
  Qed.

  Lemma run_gens_framed go secret gens : forall srcs m m',
    Forall creates gens ->
    Forall2 framed srcs m -> run_gens nonstr go secret gens m = Ok m' ->
    exists k, Forall2 framed (srcs ++ repeat None k) m'.
  Proof.
    induction gens as [|g t IH]; intros srcs m m' Hc HF H; cbn [run_gens] in H.
    - inv H. exists 0. cbn. now rewrite app_nil_r.
    - inversion Hc as [|? ? Hg Ht]; subst.
      destruct (gen_resource secret (merge_genopts go g)) as [r| | |] eqn:EG; cbn [bind] in H; try discriminate.
      destruct (absorb nonstr m _ r) as [m1| | |] eqn:EA; cbn [bind] in H; try discriminate.
      apply (absorb_create_spec _ _ _ _ Hg) in EA. subst m1.
      assert (HF1 : Forall2 framed (srcs ++ [None]) (m ++ [r])).
      { apply Forall2_app; [exact HF|]. constructor; [|constructor]. split; [eapply gen_resource_has_kind; eauto|exact I]. }
      destruct (IH _ _ _ Ht HF1 H) as (k & Hk). exists (S k). rewrite <- app_assoc in Hk. exact Hk.
  Qed.

  Definition gens_create (d : pdirs) : Prop := Forall creates (pd_cmgens d) /\ Forall creates (pd_secgens d).

  Lemma run_generators_framed d srcs m m' :
    gens_create d ->
    Forall2 framed srcs m -> run_generators nonstr d m = Ok m' -> exists k, Forall2 framed (srcs ++ repeat None k) m'.
  Proof.
    intros [Hc1 Hc2].
    unfold run_generators. generalize gen_generator_order. intros ks. revert srcs m m'.
    induction ks as [|k t IH]; intros srcs m m' HF H; cbn [run_generator_kinds] in H.
    - inv H. exists 0. cbn. now rewrite app_nil_r.
    - match type of H with bind ?E _ = _ => destruct E as [mm| | |] eqn:E1 end; cbn [bind] in H; try discriminate.
      assert (exists k1, Forall2 framed (srcs ++ repeat None k1) mm) as (k1 & H1).
      { destruct (String.eqb k "ConfigMapGenerator"); [exact (run_gens_framed _ _ _ _ _ _ Hc1 HF E1)|].
        destruct (String.eqb k "SecretGenerator"); [exact (run_gens_framed _ _ _ _ _ _ Hc2 HF E1)|].
        inv E1. exists 0. cbn. now rewrite app_nil_r. }
      destruct (IH _ _ _ H1 H) as (k2 & H2). exists (k1 + k2). rewrite <- app_assoc, <- repeat_app in H2. exact H2.
  Qed.

  Lemma somes_repeat_none {A} k : somes (repeat (@None A) k) = [].
  Proof. induction k; cbn; auto. Qed.
End Transformers.

(* ---------- accumulation ---------- *)

(* the domain of the theorem: every input document has a `kind` (the factory rejects documents without one)
   no `labels` entry carries custom `fields` (those may target anything), no `images:` entry (the legacy image
   filter rewrites every `image` under any `containers` / `initContainers` list), and every generator creates
   (behaviour merge / replace rewrites the data of an existing resource) *)
Inductive tree_ok : ptree -> Prop :=
| ok_file docs : Forall (fun o => get_at [JKey "kind"] o <> None) docs -> tree_ok (PFile docs)
| ok_dir n d ents : no_custom_fields d -> pd_images d = [] -> gens_create d -> Forall tree_ok ents -> tree_ok (PDir n d ents).

Section Accumulate.
  Variable nonstr : string -> bool.
  Notation cs := pipe_cs.

  Lemma load_framed docs :
    Forall (fun o => get_at [JKey "kind"] o <> None) docs -> Forall2 framed (map Some docs) (map load docs).
  Proof.
    induction 1 as [|o t Ho _ IH]; cbn; constructor; [|exact IH].
    split; [exact Ho|]. split; [reflexivity|reflexivity].
  Qed.

  Lemma acc_list_framed ents :
    Forall (fun e => forall m, tree_ok e -> accumulate nonstr e = Ok m ->
                     exists srcs, Forall2 framed srcs m /\ somes srcs = inputs e) ents ->
    Forall tree_ok ents ->
    forall acc sa m0, Forall2 framed sa acc -> acc_list (accumulate nonstr) ents acc = Ok m0 ->
    exists srcs, Forall2 framed srcs m0 /\ somes srcs = (somes sa ++ flat_map inputs ents)%list.
  Proof.
    induction 1 as [|e t He _ IH]; intros Hok acc sa m0 HF H.
    - cbn in H. inv H. exists sa. split; [exact HF|]. cbn. now rewrite app_nil_r.
    - inversion Hok as [|? ? Hoe Hot]; subst. rewrite acc_list_cons in H.
      destruct (accumulate nonstr e) as [sub| | |] eqn:EA; cbn [bind] in H; try discriminate.
      destruct (append_all cs acc sub) as [acc'| | |] eqn:EP; cbn [bind] in H; try discriminate.
      apply append_all_spec in EP as [-> _].
      destruct (He _ Hoe eq_refl) as (ss & HFs & Hs).
      destruct (IH Hot _ (sa ++ ss)%list _ (Forall2_app HF HFs) H) as (srcs & HFr & Hr).
      exists srcs. split; [exact HFr|]. rewrite Hr, somes_app, Hs. cbn [flat_map]. now rewrite app_assoc.
  Qed.

  Lemma accumulate_framed t : forall m,
    tree_ok t -> accumulate nonstr t = Ok m ->
    exists srcs, Forall2 framed srcs m /\ somes srcs = inputs t.
  Proof.
    induction t as [docs|n d ents IH] using ptree_ind'; intros m Hok H.
    - inversion Hok as [? Hk|]; subst. cbn [accumulate] in H. apply append_all_spec in H as [-> _]. cbn [app].
      exists (map Some docs). split; [apply load_framed; exact Hk|apply somes_map_some].
    - inversion Hok as [|? ? ? Hn Hi Hg He]; subst. rewrite accumulate_dir in H.
      destruct (is_empty_kust d ents); [discriminate|].
      destruct (acc_list (accumulate nonstr) ents []) as [m0| | |] eqn:E0; cbn [bind] in H; try discriminate.
      destruct (run_generators nonstr d m0) as [m1| | |] eqn:E1; cbn [bind] in H; try discriminate.
      destruct (acc_list_framed ents IH He [] [] m0 (Forall2_nil _) E0) as (s0 & HF0 & Hs0).
      destruct (run_generators_framed nonstr d s0 m0 m1 Hg HF0 E1) as (k & HF1).
      exists (s0 ++ repeat None k)%list. split.
      + eapply Forall2_framed_keeps; [exact HF1|].
        eapply run_transformers_keeps; [exact Hn|exact Hi|eapply Forall2_framed_has_kind; exact HF1|exact H].
      + rewrite somes_app, somes_repeat_none, app_nil_r, Hs0. reflexivity.
  Qed.
End Accumulate.

(* ---------- the steps at the top ---------- *)

(* after accumulation only the frame facts matter *)
Definition framed' (o : option node) (r : resource) : Prop :=
  match o with
  | Some src => (forall q, untouched q -> get_at q (r_node r) = get_at q src) /\ r_needs_hash r = false
  | None => True
  end.

Lemma framed_weaken srcs m : Forall2 framed srcs m -> Forall2 framed' srcs m.
Proof. apply Forall2_impl2. intros o r [_ H]. exact H. Qed.

Lemma framed'_keeps o r r' : framed' o r -> keeps r r' -> framed' o r'.
Proof.
  destruct o as [src|]; [|auto]. intros [H1 H2] [K1 K2]. split; [intros q Hq; rewrite K1, H1; auto|congruence].
Qed.

Lemma Forall2_framed'_keeps srcs m m2 : Forall2 framed' srcs m -> Forall2 keeps m m2 -> Forall2 framed' srcs m2.
Proof.
  intros H. revert m2. induction H; intros m2 K; inversion K; subst; constructor; eauto using framed'_keeps.
Qed.

(* a relation between a list and a list obtained by dropping elements (IgnoreLocal) *)
Inductive subrel {A B} (R : A -> B -> Prop) : list A -> list B -> Prop :=
| sr_nil : subrel R [] []
| sr_keep a b t t' : R a b -> subrel R t t' -> subrel R (a :: t) (b :: t')
| sr_drop a t t' : subrel R t t' -> subrel R (a :: t) t'.

Lemma subrel_filter {A} (f : A -> bool) l : subrel eq l (filter f l).
Proof. induction l as [|x t IH]; cbn; [constructor|]. destruct (f x); [constructor; auto|constructor; exact IH]. Qed.

Lemma subrel_trans_eq {A} (l1 l2 l3 : list A) : subrel eq l1 l2 -> subrel eq l2 l3 -> subrel eq l1 l3.
Proof.
  intros H. revert l3. induction H as [|a b t t' -> _ IH|a t t' _ IH]; intros l3 H2.
  - exact H2.
  - inversion H2; subst; [constructor; [reflexivity|auto]|apply sr_drop; auto].
  - apply sr_drop. auto.
Qed.

Lemma Forall2_subrel {A B} (R : A -> B -> Prop) srcs m m' :
  Forall2 R srcs m -> subrel eq m m' -> subrel R srcs m'.
Proof.
  intros HF. revert m'. induction HF as [|s r ts tm Hsr _ IH]; intros m' H; inversion H; subst.
  - constructor.
  - constructor; [exact Hsr|auto].
  - apply sr_drop. auto.
Qed.

Lemma subrel_map {A B C} (R : A -> B -> Prop) (Q : A -> C -> Prop) (g : B -> C) l l' :
  (forall a b, R a b -> Q a (g b)) -> subrel R l l' -> subrel Q l (map g l').
Proof. intros H HS. induction HS; cbn; [constructor|constructor; auto|apply sr_drop; auto]. Qed.

Lemma remove_loop_subrel ids kept : forall cur out, remove_loop ids kept cur = Ok out -> subrel eq cur out.
Proof.
  induction ids as [|id t IH]; intros cur out H; cbn [remove_loop] in H.
  - inv H. clear. induction out; constructor; auto.
  - destruct (existsb (resid_raw_eqb id) kept); [eauto|].
    destruct (Nat.eqb _ _); [|discriminate]. eapply subrel_trans_eq; [apply subrel_filter|eauto].
Qed.

Lemma ignore_local_subrel m m' : ignore_local m = Ok m' -> subrel eq m m'.
Proof.
  unfold ignore_local. destruct (negb _); [discriminate|].
  destruct (append_all pipe_cs [] _); try discriminate. apply remove_loop_subrel.
Qed.

Section Top.
  Variable nonstr : string -> bool.
  Notation cs := pipe_cs.

  (* the hash suffix only goes to generated resources *)
  Lemma hash_framed srcs m : forall m1,
    Forall2 framed' srcs m -> mapM (hash_res nonstr) m = Ok m1 -> Forall2 framed' srcs m1.
  Proof.
    intros m1 HF. revert m1. induction HF as [|o r so sm Hor _ IH]; intros m1 H; cbn [mapM] in H; [inv H; constructor|].
    destruct (hash_res nonstr r) as [r1| | |] eqn:E; cbn [bind] in H; try discriminate.
    destruct (mapM (hash_res nonstr) sm) as [t1| | |]; cbn [bind] in H; try discriminate. inv H.
    constructor; [|apply IH; reflexivity].
    destruct o as [src|]; [|exact I]. destruct Hor as [H1 H2]. unfold hash_res in E. rewrite H2 in E. inv E. split; assumption.
  Qed.

  (* name references *)
  Lemma apply_rule_keeps cands fs tg r r' :
    In fs frame_fs -> apply_rule cs nonstr cands fs tg r = Ok r' -> keeps r r'.
  Proof.
    intros Hin H. unfold apply_rule in H.
    match type of H with bind ?E _ = _ => destruct E as [n'| | |] eqn:HF end; cbn [bind] in H; try discriminate.
    inv H. split; [|reflexivity]. intros q Hq. cbn [r_node with_node].
    destruct (untouched_in q fs Hq Hin) as [S D]. unfold fs_segments in *.
    eapply fs_filter_frame; eauto.
  Qed.

  Lemma apply_rules_keeps mb ma flags fl : forall r r',
    Forall (fun p => In (fst p) frame_fs) fl ->
    apply_rules cs nonstr mb ma flags fl r = Ok r' -> keeps r r'.
  Proof.
    induction fl as [|[fs tg] t IH]; intros r r' Hok H; cbn [apply_rules] in H; [inv H; apply keeps_refl|].
    inversion Hok as [|? ? H1 H2]; subst. cbn [fst] in H1.
    destruct (mapM (view cs) _) as [cands| | |]; cbn [bind] in H; try discriminate.
    destruct (apply_rule cs nonstr cands fs tg r) as [r1| | |] eqn:E; cbn [bind] in H; try discriminate.
    eapply keeps_trans; [eapply apply_rule_keeps; eauto|eauto].
  Qed.

  Lemma transform_loop_keeps filters :
    Forall (Forall (fun p => In (fst p) frame_fs)) filters ->
    forall done todo out,
      transform_loop cs nonstr filters done todo = Ok out ->
      exists tail, out = (done ++ tail)%list /\ Forall2 keeps todo tail.
  Proof.
    induction filters as [|fl filters IH]; intros Hok done todo out H.
    - destruct todo; cbn in H; inv H.
      + exists []. split; [now rewrite app_nil_r|constructor].
      + eexists. split; [reflexivity|]. apply Forall2_keeps_refl.
    - inversion Hok as [|? ? Hfl Hrest]; subst.
      destruct todo as [|r t]; cbn [transform_loop] in H.
      + inv H. exists []. split; [now rewrite app_nil_r|constructor].
      + destruct fl as [|f0 fl'].
        * destruct (IH Hrest _ _ _ H) as (tail & -> & HF).
          exists (r :: tail). split; [now rewrite <- app_assoc|].
          constructor; [apply keeps_refl|assumption].
        * destruct (referencable cs _ r) as [flags| | |]; cbn [bind] in H; try discriminate.
          destruct (apply_rules cs nonstr done t flags (f0 :: fl') r) as [r'| | |] eqn:E;
            cbn [bind] in H; try discriminate.
          destruct (IH Hrest _ _ _ H) as (tail & -> & HF).
          exists (r' :: tail). split; [now rewrite <- app_assoc|].
          constructor; [eapply apply_rules_keeps; eauto|assumption].
  Qed.

  Lemma filters_for_in rules org :
    Forall (fun p => In (fst p) (flat_map nb_referrers rules)) (filters_for rules org).
  Proof.
    apply Forall_forall. intros [fs tg] Hin. cbn [fst].
    unfold filters_for in Hin. apply in_flat_map in Hin as (b & Hb & Hin).
    apply in_flat_map in Hin as (f & Hf & Hin).
    destruct (gvk_is_selected _ _); [|contradiction].
    destruct Hin as [E|[]]. inv E. apply in_flat_map. eauto.
  Qed.

  Lemma rule_in_frame fs : In fs (flat_map nb_referrers pipe_rule_list) -> In fs frame_fs.
  Proof. intros H. unfold frame_fs. apply in_or_app. right. apply in_or_app. left. exact H. Qed.

  Lemma nameref_keeps rules m m' :
    pipe_rules = Ok rules -> nameref_transform cs nonstr rules m = Ok m' -> Forall2 keeps m m'.
  Proof.
    intros HR H. assert (ER : rules = pipe_rule_list) by (unfold pipe_rule_list; rewrite HR; reflexivity).
    unfold nameref_transform in H.
    destruct (mapM (org_id cs) m) as [orgs| | |]; cbn [bind] in H; try discriminate.
    assert (HF : Forall (Forall (fun p => In (fst p) frame_fs)) (map (filters_for rules) orgs)).
    { apply Forall_forall. intros fl Hin. apply in_map_iff in Hin as (org & <- & _).
      eapply Forall_impl; [|apply filters_for_in]. intros p Hp. apply rule_in_frame. rewrite <- ER. exact Hp. }
    destruct (transform_loop_keeps _ HF [] m m' H) as (tail & -> & H2). exact H2.
  Qed.

  (* sort *)
  Lemma sort_perm o m m' : sort_resources o m = Ok m' -> Permutation m' m.
  Proof.
    destruct o; cbn [sort_resources]; try (intros H; inv H; apply Permutation_refl).
    intros H. apply append_all_spec in H as [-> _]. cbn [app]. apply SortFacts.isort_perm.
  Qed.

  (* strip *)
  Lemma strip_node_frame n q : untouched q -> get_at q (strip_node n) = get_at q n.
  Proof.
    intros Hq.
    assert (Hs : In (mkFs "" "" "" "metadata/annotations" false) frame_fs)
      by (unfold frame_fs; do 2 (apply in_or_app; right); right; right; right; left; reflexivity).
    destruct (untouched_in q _ Hq Hs) as [_ D]. change (fs_segments _) with ["metadata"; "annotations"] in D.
    unfold strip_node. destruct (annos_of n) as [|a0 at_] eqn:EA; [reflexivity|].
    destruct n as [t s v|kvs|es]; try reflexivity.
    destruct (find_field "metadata" kvs) as [md|] eqn:EM; [|reflexivity].
    destruct md as [t s v|mkvs|es]; try reflexivity.
    destruct q as [|[k|i] rest]; [discriminate| |reflexivity].
    cbn [fs_diverges] in D. change (seg_name "metadata") with "metadata" in D.
    cbn [get_at]. destruct (String.eqb k "metadata") eqn:Ek.
    - apply String.eqb_eq in Ek. subst k. rewrite (pp_find_set_first_same _ _ _ _ EM), EM.
      destruct rest as [|[k2|i2] rest2]; [discriminate| |reflexivity].
      cbn [fs_diverges] in D. change (seg_name "annotations") with "annotations" in D.
      destruct (String.eqb k2 "annotations") eqn:Ek2; [rewrite fs_diverges_nil in D; discriminate|].
      apply String.eqb_neq in Ek2. cbn [get_at].
      rewrite pp_find_app, pp_find_remove_first_other by exact Ek2.
      destruct (find_field k2 mkvs); [reflexivity|].
      unfold meta_map_field. destruct (Hygiene.strip_run [] (a0 :: at_)); [reflexivity|].
      cbn [find_field]. destruct (String.eqb "annotations" k2) eqn:E3; [apply String.eqb_eq in E3; congruence|reflexivity].
    - apply String.eqb_neq in Ek. rewrite pp_find_set_first_other by exact Ek. reflexivity.
  Qed.

  (* ---------- PIPE_build_frame ---------- *)
  Theorem build_frame o t outs :
    tree_ok t -> build nonstr o t = Ok outs ->
    exists (srcs : list (option node)) (outs0 : list node),
      Permutation outs outs0 /\ somes srcs = inputs t /\
      subrel (fun s out => match s with
                           | Some src => forall q, untouched q -> get_at q out = get_at q src
                           | None => True
                           end) srcs outs0.
  Proof.
    intros Hok H. unfold build in H. destruct t as [docs|n d ents]; [discriminate|].
    destruct (accumulate nonstr (PDir n d ents)) as [m| | |] eqn:EA; cbn [bind] in H; try discriminate.
    destruct (mapM (hash_res nonstr) m) as [m1| | |] eqn:EH; cbn [bind] in H; try discriminate.
    destruct (hash_check m1) as [[]| | |]; cbn [bind] in H; try discriminate.
    destruct pipe_rules as [rules| | |] eqn:ER; cbn [bind] in H; try discriminate.
    destruct (nameref_transform cs nonstr rules m1) as [m2| | |] eqn:EN; cbn [bind] in H; try discriminate.
    destruct (ignore_local m2) as [m2l| | |] eqn:EL; cbn [bind] in H; try discriminate.
    destruct (sort_resources o m2l) as [m3| | |] eqn:ES; cbn [bind] in H; try discriminate.
    inv H.
    destruct (accumulate_framed nonstr _ _ Hok EA) as (srcs & HF & Hs).
    pose proof (hash_framed _ _ _ (framed_weaken _ _ HF) EH) as HF1.
    pose proof (Forall2_framed'_keeps _ _ _ HF1 (nameref_keeps _ _ _ ER EN)) as HF2.
    pose proof (Forall2_subrel _ _ _ _ HF2 (ignore_local_subrel _ _ EL)) as HS.
    exists srcs, (map (fun r => strip_node (r_node r)) m2l). split; [|split; [exact Hs|]].
    - apply Permutation_map. apply sort_perm with (o := o). exact ES.
    - eapply subrel_map; [|exact HS]. intros o0 r Hor. cbv beta.
      destruct o0 as [src|]; [|exact I]. destruct Hor as [H1 _]. intros q Hq.
      rewrite strip_node_frame by exact Hq. auto.
  Qed.

  (* nothing is dropped when no resource carries the local-config annotation at the end of the build *)
  Lemma subrel_same_length {A B} (R : A -> B -> Prop) l l' :
    subrel R l l' -> List.length l' = List.length l -> Forall2 R l l'.
  Proof.
    intros H. induction H as [|a b t t' Hab HS IH|a t t' HS IH]; cbn; intros HL.
    - constructor.
    - constructor; [exact Hab|apply IH; congruence].
    - exfalso. assert (X : List.length t' <= List.length t).
      { clear -HS. induction HS; cbn; lia. }
      lia.
  Qed.
End Top.

(* the number of outputs: at most one per input document plus one per generated resource (nothing is doubled;
   IgnoreLocal may drop resources), and exactly that many when nothing was dropped *)
Corollary build_frame_count nonstr o t outs :
  tree_ok t -> build nonstr o t = Ok outs ->
  exists srcs, List.length outs <= List.length srcs /\ somes srcs = inputs t.
Proof.
  intros Hok H. destruct (build_frame nonstr o t outs Hok H) as (srcs & outs0 & HP & Hs & HF).
  exists srcs. split; [|exact Hs]. rewrite (Permutation_length HP).
  clear -HF. induction HF; cbn; lia.
Qed.

Corollary build_frame_exact nonstr o t outs :
  tree_ok t -> build nonstr o t = Ok outs ->
  exists (srcs : list (option node)) (outs0 : list node),
    Permutation outs outs0 /\ somes srcs = inputs t /\
    (List.length outs = List.length srcs ->
     Forall2 (fun s out => match s with
                           | Some src => forall q, untouched q -> get_at q out = get_at q src
                           | None => True
                           end) srcs outs0).
Proof.
  intros Hok H. destruct (build_frame nonstr o t outs Hok H) as (srcs & outs0 & HP & Hs & HF).
  exists srcs, outs0. split; [exact HP|split; [exact Hs|]]. intros HL.
  apply subrel_same_length; [exact HF|]. rewrite <- HL. symmetry. apply Permutation_length. exact HP.
Qed.

(* non-vacuity: a two-layer tree inside the domain of the theorem *)
Example tree_ok_example :
  tree_ok (PDir "top" (mkPDirs "ns" "p-" "" [Labels.mkLD [("a", "b")] true false []] [("c", "d")] [] [] [])
             [PDir "base" no_dirs [PFile [Map [("kind", Scalar TStr SPlain "ConfigMap")]]]]).
Proof.
  constructor; [split; [repeat constructor|reflexivity]|reflexivity|split; constructor|]. constructor; [|constructor].
  constructor; [split; [constructor|reflexivity]|reflexivity|split; constructor|]. constructor; [|constructor]. constructor. constructor; [cbn; discriminate|constructor].
Qed.
