(* Proofs about KV.Res.Selector: resWrangler.Select keeps exactly the resources its specification names. *)
From KV Require Import Base.Regex Base.RegexProofs Res.Selector.

Ltac inv H := inversion H; subst; clear H.

(* ---------- obligations over the generated source facts ---------- *)
Lemma gen_anchor_shape :
  gen_anchor_empty_guard = true /\ gen_anchor_pattern = [PLit "^(?:"; PVar "pattern"; PLit ")$"].
Proof. split; reflexivity. Qed.

Lemma anchor_text_spec p :
  anchor_text p = Some (if String.eqb p "" then "" else "^(?:" ++ p ++ ")$").
Proof.
  unfold anchor_text. destruct gen_anchor_shape as [-> ->]. cbn.
  destruct (String.eqb p "") eqn:E.
  - apply String.eqb_eq in E; subst; reflexivity.
  - cbn. reflexivity.
Qed.

Fixpoint indices_where (f : node -> bool) (i : nat) (rs : list node) : list nat :=
  match rs with
  | [] => []
  | r :: t => if f r then i :: indices_where f (S i) t else indices_where f (S i) t
  end.

Lemma indices_where_spec f : forall rs i j,
  In j (indices_where f i rs) <-> exists obj, nth_error rs (j - i) = Some obj /\ i <= j /\ f obj = true.
Proof.
  induction rs as [|r t IH]; intros i j; cbn.
  - split; [intros []|]. intros (o & H & _). destruct (j - i); discriminate.
  - destruct (f r) eqn:F; cbn; rewrite IH; split.
    + intros [<-|(o & H & L & Fo)].
      * exists r. rewrite Nat.sub_diag. auto.
      * exists o. replace (j - i) with (S (j - S i)) by lia. cbn. repeat split; auto; lia.
    + intros (o & H & L & Fo). destruct (Nat.eq_dec i j) as [->|N]; [left; auto|right].
      exists o. replace (j - i) with (S (j - S i)) in H by lia. cbn in H. repeat split; auto; lia.
    + intros (o & H & L & Fo). exists o. replace (j - i) with (S (j - S i)) by lia. cbn. repeat split; auto; lia.
    + intros (o & H & L & Fo). destruct (Nat.eq_dec i j) as [->|N].
      * rewrite Nat.sub_diag in H; cbn in H. inv H. congruence.
      * exists o. replace (j - i) with (S (j - S i)) in H by lia. cbn in H. repeat split; auto; lia.
Qed.

Section SelectExact.
  Variable parse : string -> option re.
  Variable cluster_scoped : gvk -> bool.
  Variable lsel : string -> list (string * string) -> option bool.
  Variable s : selector.
  (* the AST of each (unanchored) pattern text of the selector, as Go's parser reads it *)
  Variable ast : string -> re.

  Definition sel_patterns : list string :=
    [g_group (id_gvk (sel_id s)); g_version (id_gvk (sel_id s)); g_kind (id_gvk (sel_id s));
     id_name (sel_id s); id_ns (sel_id s)].

  (* regexp.Compile("") succeeds; the anchored text of a pattern compiles to the anchored AST *)
  Hypothesis parse_empty : parse "" = Some Eps.
  Hypothesis parse_anchored : forall p, In p sel_patterns -> p <> "" ->
    parse ("^(?:" ++ p ++ ")$") = Some (anchor (ast p)).

  (* one pattern against one subject: an empty pattern accepts everything, otherwise the WHOLE subject must match *)
  Definition pat_ok (p subj : string) : bool := String.eqb p "" || matches (anchor (ast p)) subj.

  Lemma pat_ok_spec p subj : pat_ok p subj = true <-> p = "" \/ full_match (ast p) subj.
  Proof.
    unfold pat_ok. rewrite orb_true_iff, String.eqb_eq, anchor_exact. tauto.
  Qed.

  Definition org_of (obj : node) : resid * bool :=
    match prev_ids_opt obj with
    | Some (x :: _) => (x, false)
    | _ => (cur_id obj, cluster_scoped (gvk_of obj))
    end.
  Definition lsel_true (text : string) (m : list (string * string)) : bool :=
    match lsel text m with Some b => b | None => false end.

  (* the specification of Select for one resource *)
  Definition sel_keep (obj : node) : bool :=
    let org := fst (org_of obj) in
    let cur := cur_id obj in
    let g := gvk_of obj in
    let sg := id_gvk (sel_id s) in
    (pat_ok (id_ns (sel_id s)) (effective_ns (snd (org_of obj)) org) ||
     pat_ok (id_ns (sel_id s)) (effective_ns (cluster_scoped g) cur)) &&
    (pat_ok (id_name (sel_id s)) (id_name org) || pat_ok (id_name (sel_id s)) (id_name cur)) &&
    (pat_ok (g_group sg) (g_group g) && pat_ok (g_version sg) (g_version g) && pat_ok (g_kind sg) (g_kind g)) &&
    lsel_true (sel_lab s) (meta_map "labels" obj) &&
    lsel_true (sel_ann s) (meta_map "annotations" obj).

  Definition compiled (p : string) : re := if String.eqb p "" then Eps else anchor (ast p).

  Lemma compile_anchored_ok p : In p sel_patterns -> compile_anchored parse p = Ok (compiled p).
  Proof.
    intros Hin. unfold compile_anchored, compiled. rewrite anchor_text_spec.
    destruct (String.eqb p "") eqn:E.
    - rewrite parse_empty; auto.
    - apply String.eqb_neq in E. rewrite parse_anchored; auto.
  Qed.

  Definition the_rx : selrx :=
    mkSelRx (compiled (g_group (id_gvk (sel_id s)))) (compiled (g_version (id_gvk (sel_id s))))
            (compiled (g_kind (id_gvk (sel_id s)))) (compiled (id_name (sel_id s))) (compiled (id_ns (sel_id s))).

  Lemma new_selector_regex_ok : new_selector_regex parse s = Ok the_rx.
  Proof.
    unfold new_selector_regex, the_rx.
    rewrite !compile_anchored_ok; cbn; auto 10.
  Qed.

  Lemma match_opt_compiled p subj : match_opt p (compiled p) subj = pat_ok p subj.
  Proof.
    unfold match_opt, compiled, pat_ok. destruct (String.eqb p ""); auto.
  Qed.

  Lemma select_one_ok obj :
    prev_ids_opt obj <> None ->
    lsel (sel_lab s) (meta_map "labels" obj) <> None ->
    lsel (sel_ann s) (meta_map "annotations" obj) <> None ->
    select_one cluster_scoped lsel s the_rx obj = Ok (sel_keep obj).
  Proof.
    intros Hp Hl Ha. unfold select_one, sel_keep, org_id, resource_prev_ids, org_of, lsel_true, match_gvk.
    destruct (prev_ids_opt obj) as [l|]; [|congruence]. cbn [bind].
    cbn [the_rx rx_ns rx_name rx_group rx_version rx_kind].
    rewrite !match_opt_compiled.
    destruct (lsel (sel_lab s) (meta_map "labels" obj)) as [lb|]; [|congruence].
    destruct (lsel (sel_ann s) (meta_map "annotations" obj)) as [ab|]; [|congruence].
    set (orgc := match l with x :: _ => (x, false) | [] => (cur_id obj, cluster_scoped (gvk_of obj)) end).
    generalize (pat_ok (id_ns (sel_id s)) (effective_ns (snd orgc) (fst orgc))),
               (pat_ok (id_ns (sel_id s)) (effective_ns (cluster_scoped (gvk_of obj)) (cur_id obj))),
               (pat_ok (id_name (sel_id s)) (id_name (fst orgc))),
               (pat_ok (id_name (sel_id s)) (id_name (cur_id obj))),
               (pat_ok (g_group (id_gvk (sel_id s))) (g_group (gvk_of obj))),
               (pat_ok (g_version (id_gvk (sel_id s))) (g_version (gvk_of obj))),
               (pat_ok (g_kind (id_gvk (sel_id s))) (g_kind (gvk_of obj))).
    intros [] [] [] [] [] [] []; destruct lb, ab; reflexivity.
  Qed.

  Definition well_formed (obj : node) : Prop :=
    prev_ids_opt obj <> None /\
    lsel (sel_lab s) (meta_map "labels" obj) <> None /\
    lsel (sel_ann s) (meta_map "annotations" obj) <> None.

  Lemma select_from_ok : forall rs i,
    (forall obj, In obj rs -> well_formed obj) ->
    select_from cluster_scoped lsel s the_rx i rs = Ok (indices_where sel_keep i rs).
  Proof.
    induction rs as [|r t IH]; intros i H; cbn; auto.
    destruct (H r (or_introl eq_refl)) as (A & B & C).
    rewrite select_one_ok; auto. cbn. rewrite IH; [|intros; apply H; right; auto]. cbn.
    destruct (sel_keep r); auto.
  Qed.

  (* Select returns exactly the resources that satisfy the specification, in order *)
  Theorem select_exact rs :
    (forall obj, In obj rs -> well_formed obj) ->
    select parse cluster_scoped lsel s rs = Ok (indices_where sel_keep 0 rs).
  Proof.
    intros H. unfold select. rewrite new_selector_regex_ok. cbn. apply select_from_ok; auto.
  Qed.

  Corollary select_exact_iff rs l :
    (forall obj, In obj rs -> well_formed obj) ->
    select parse cluster_scoped lsel s rs = Ok l ->
    forall j, In j l <-> exists obj, nth_error rs j = Some obj /\ sel_keep obj = true.
  Proof.
    intros H E j. rewrite select_exact in E; auto. inv E.
    rewrite indices_where_spec, Nat.sub_0_r. split; intros (o & A & B); [destruct B|]; eauto.
    exists o. repeat split; auto; lia.
  Qed.

End SelectExact.

(* a selector pattern that does not compile is an error, whatever the resources *)
Lemma compile_anchored_cases parse q :
  compile_anchored parse q = Err \/ exists r, compile_anchored parse q = Ok r.
Proof.
  unfold compile_anchored. destruct (anchor_text q) as [t|]; auto.
  destruct (parse t) as [r|]; [right; exists r; reflexivity|left; reflexivity].
Qed.

Lemma select_bad_pattern parse cs lsel s rs p :
  In p (sel_patterns s) -> compile_anchored parse p = Err ->
  select parse cs lsel s rs = Err.
Proof.
  intros Hin Hp. unfold select, new_selector_regex. unfold sel_patterns in Hin. cbn in Hin.
  destruct (compile_anchored_cases parse (g_group (id_gvk (sel_id s)))) as [E1|[r1 E1]]; rewrite E1; cbn; auto.
  destruct (compile_anchored_cases parse (g_version (id_gvk (sel_id s)))) as [E2|[r2 E2]]; rewrite E2; cbn; auto.
  destruct (compile_anchored_cases parse (g_kind (id_gvk (sel_id s)))) as [E3|[r3 E3]]; rewrite E3; cbn; auto.
  destruct (compile_anchored_cases parse (id_name (sel_id s))) as [E4|[r4 E4]]; rewrite E4; cbn; auto.
  destruct (compile_anchored_cases parse (id_ns (sel_id s))) as [E5|[r5 E5]]; rewrite E5; cbn; auto.
  exfalso. destruct Hin as [<-|[<-|[<-|[<-|[<-|[]]]]]]; congruence.
Qed.

(* non-vacuity: the selector name pattern x-1|ax over the near-miss names *)
Example select_example :
  let tab := parse_of [("", Some Eps); ("^(?:x-1|ax)$", Some (anchor (Alt (lit "x-1") (lit "ax"))))] in
  let mk n := Map [("kind", Scalar TStr SPlain "Pod"); ("metadata", Map [("name", Scalar TStr SPlain n)])] in
  select tab (fun _ => false) simple_lsel (mkSel (mkId (mkGvk "" "" "") "x-1|ax" "") "" "")
         [mk "x"; mk "x-1"; mk "ax"; mk "x-1x"; mk "aax"] = Ok [1; 2].
Proof. vm_compute. reflexivity. Qed.
