(* C11 / C07: the bridge between the integrated pipeline (documents) and the compositional id-level model of
   accumulation (Res/Compose.v): on the common fragment - kustomizations with namePrefix / nameSuffix only, over
   well-formed documents - the ids of what the pipeline accumulates, IN ORDER, are exactly what Compose.accumulate
   computes on the projected tree, with the same outcome class.  Every theorem C11 proved about Compose
   (closed form, wrap, permutation, prefix nesting, distinct ids, legacy order) therefore speaks about the
   documents of the pipeline. *)
From KV Require Import Res.Pipeline Res.PipelineProofs Res.PipelineFrameProofs Res.PipelineWfProofs
                       Res.RenameProofs Res.C03Facts Res.NameRefProofs Res.CsvFacts Base.StrOrder.
From KV Require Res.Compose Res.ComposeProofs Res.C11Gen Res.LegacySort Res.LegacySortProofs Gen.LegacyOrder Res.Labels Res.LabelsDefaults.
From Coq Require Import Sorting.Permutation.
Local Open Scope string_scope.

Ltac inv H := inversion H; subst; clear H.
Notation cs := pipe_cs.

(* ---------- projection ---------- *)

Definition lrid_of_node (n : node) : LegacySort.rid :=
  let (g, v) := parse_group_version (get_api_version n) in
  LegacySort.mkId (LegacySort.mkGvk g v (get_kind n)) (get_namespace n) (get_name n).

Fixpoint proj (t : ptree) : Compose.tree :=
  match t with
  | PFile docs => Compose.File (map lrid_of_node docs)
  | PDir _ d ents => Compose.Dir (map proj ents) (pd_prefix d) (pd_suffix d)
  end.

(* openapi cluster scope on the ids of Compose *)
Definition csL (x : LegacySort.gvk) : bool :=
  pipe_cs (gvk_api_version (LegacySort.g_group x) (LegacySort.g_version x)) (LegacySort.g_kind x).

Lemma rid_of_node r : rid_of r = lrid_of_node (r_node r).
Proof.
  unfold rid_of, lrid_of_node, cur_id, cur_gvk. destruct (parse_group_version (get_api_version (r_node r))). reflexivity.
Qed.

(* the common fragment: prefix / suffix only *)
Definition frag_dirs (d : pdirs) : Prop :=
  pd_ns d = "" /\ pd_labels d = [] /\ pd_common_labels d = [] /\ pd_common_annos d = [] /\
  pd_cmgens d = [] /\ pd_secgens d = [] /\ pd_genopts d = None /\ (pd_replicas d = [] /\ pd_images d = [] /\ pd_patches d = []) /\
  no_char ","%char (pd_prefix d) = true /\ no_char ","%char (pd_suffix d) = true.

Inductive frag : ptree -> Prop :=
| fr_file docs : Forall wf_node docs -> frag (PFile docs)
| fr_dir n d ents : frag_dirs d -> Forall frag ents -> frag (PDir n d ents).

(* ---------- ids and collisions ---------- *)

Lemma id_equals_bridge a b :
  id_equals (cur_id cs a) (cur_id cs b) = LegacySort.id_equals csL (rid_of a) (rid_of b).
Proof.
  unfold rid_of, cur_id, cur_gvk.
  destruct (parse_group_version (get_api_version (r_node a))) as [ga va].
  destruct (parse_group_version (get_api_version (r_node b))) as [gb vb].
  reflexivity.
Qed.

(* a pipeline resource and its Compose counterpart: same current id; the original gvk is the current one *)
Definition Rel (r : resource) (c : Compose.resource) : Prop :=
  rid_of r = Compose.r_cur c /\
  LegacySort.id_gvk (Compose.r_org c) = LegacySort.id_gvk (Compose.r_cur c).

Lemma Rel_load n : Rel (load n) (Compose.load (lrid_of_node n)).
Proof. split; [apply rid_of_node|reflexivity]. Qed.

Lemma count_vs_exists r c acc cacc :
  Rel r c -> Forall2 Rel acc cacc ->
  Nat.eqb (count_id cs (cur_id cs r) acc) 0 =
  negb (existsb (fun x => LegacySort.id_equals csL (Compose.r_cur c) (Compose.r_cur x)) cacc).
Proof.
  intros [Hr _] HF. unfold count_id. induction HF as [|a ca ta tca [Ha _] _ IH]; [reflexivity|].
  cbn [filter existsb]. rewrite id_equals_bridge, Hr, Ha.
  destruct (LegacySort.id_equals csL (Compose.r_cur c) (Compose.r_cur ca)); cbn; [reflexivity|exact IH].
Qed.

Definition sim {A B} (R : A -> B -> Prop) (x : res A) (y : res B) : Prop :=
  match x, y with
  | Ok a, Ok b => R a b
  | Err, Err => True
  | _, _ => False
  end.

Lemma append_all_sim l : forall cl acc cacc,
  Forall2 Rel acc cacc -> Forall2 Rel l cl ->
  sim (Forall2 Rel) (append_all cs acc l) (Compose.append_all csL cacc cl).
Proof.
  induction l as [|r t IH]; intros cl acc cacc Ha Hl; inv Hl; cbn [append_all Compose.append_all]; [exact Ha|].
  unfold append_one. rewrite (count_vs_exists r y acc cacc H1 Ha).
  destruct (existsb _ cacc); cbn [negb bind]; [exact I|].
  apply IH; [|exact H3]. apply Forall2_app; [exact Ha|constructor; [exact H1|constructor]].
Qed.

(* ---------- the skip lists: two generated copies of the same table ---------- *)

Lemma skip_tables :
  map (fun fs => gvk_lit (fs_group fs) (fs_version fs) (fs_kind fs)) LegacyOrder.gen_prefix_skip = gen_prefix_skip /\
  map (fun fs => gvk_lit (fs_group fs) (fs_version fs) (fs_kind fs)) LegacyOrder.gen_suffix_skip = gen_suffix_skip.
Proof. split; reflexivity. Qed.

Lemma skip_bridge (tbl : list fieldspec) r c :
  Rel r c ->
  Compose.should_skip tbl (Compose.r_org c) =
  skip_of (map (fun fs => gvk_lit (fs_group fs) (fs_version fs) (fs_kind fs)) tbl) r.
Proof.
  intros [Hr Ho]. unfold Compose.should_skip, skip_of, skipf. rewrite Ho, <- Hr. unfold rid_of, cur_id, cur_gvk.
  destruct (parse_group_version (get_api_version (r_node r))) as [g v]. cbn [LegacySort.id_gvk id_gvk g_group g_version g_kind].
  induction tbl as [|fs t IH]; [reflexivity|]. cbn [existsb map]. rewrite IH. reflexivity.
Qed.

(* ---------- prefix / suffix ---------- *)

Lemma wf_name_apply_ok (f : string -> string) n :
  wf_node n ->
  exists n', fs_apply (Some KScalar) TStr (fun x => set_scalar_to (f (node_value x)) x)
                      (mkFs "" "" "" "metadata/name" false) n = Ok n'.
Proof.
  intros (kvs & mkvs & tn & sn & name & kn & -> & Hm & Hn & Ht & _).
  unfold fs_apply. rewrite match_any_gvk. cbn [fs_path fs_create]. rewrite path_meta_name.
  rewrite (fs_filter_meta_name _ _ _ _ kvs mkvs tn sn name Hm Hn Ht). cbn [node_value]. unfold set_scalar_to.
  rewrite set_scalar_on_name by (auto; discriminate). cbn [bind]. eauto.
Qed.

Lemma affix_total affix (add : string -> resource -> resource) (newv : string -> string) skip r :
  (forall r0, r_node (add affix r0) = r_node r0) -> W r ->
  exists r', (do org <- org_id cs r;
              if should_skip skip org then Ok r else affix_steps cs affix add newv org name_fs r) = Ok r'.
Proof.
  intros Hadd [[Hh Hw] _]. destruct (prev_ids_triples r Hh) as (p & Ep & _).
  unfold org_id. rewrite Ep. cbn [bind].
  set (org := match p with x :: _ => x | [] => cur_id cs r end).
  assert (Eorg : match p with x :: _ => Ok x | [] => Ok (cur_id cs r) end = Ok org) by (unfold org; destruct p; reflexivity).
  rewrite Eorg. cbn [bind]. destruct (should_skip skip org); [eauto|].
  cbn [affix_steps name_fs]. unfold affix_step.
  assert (Hsel: gvk_is_selected (id_gvk org) (fsgvk (mkFs "" "" "" "metadata/name" false)) = true) by reflexivity.
  rewrite Hsel. cbn [negb fs_path]. change (String.eqb "metadata/name" "metadata/name") with true. cbv iota.
  match goal with |- context [fs_apply _ _ _ _ (r_node ?R1)] => assert (HN : r_node R1 = r_node r) end.
  { destruct (String.eqb affix ""); [apply Hadd|]. rewrite store_previous_id_eq. cbn [r_node]. apply Hadd. }
  rewrite HN. destruct (wf_name_apply_ok newv _ Hw) as (n' & E). rewrite E. cbn [bind]. eauto.
Qed.

Lemma set_name_rid (f : string -> string) (skipb : bool) r r' c :
  Rel r c ->
  get_kind (r_node r') = get_kind (r_node r) -> get_api_version (r_node r') = get_api_version (r_node r) ->
  get_namespace (r_node r') = get_namespace (r_node r) ->
  get_name (r_node r') = (if skipb then get_name (r_node r) else f (get_name (r_node r))) ->
  Rel r' (if skipb then c
          else Compose.mkRes (Compose.r_org c) (Compose.set_name (f (LegacySort.id_name (Compose.r_cur c))) (Compose.r_cur c))).
Proof.
  intros [Hr Ho] K A S N. destruct skipb.
  - split; [|exact Ho]. rewrite <- Hr. rewrite (rid_of_node r'), (rid_of_node r). unfold lrid_of_node. rewrite K, A, S, N. reflexivity.
  - split; [|exact Ho]. cbn [Compose.r_cur Compose.r_org]. rewrite <- Hr. rewrite (rid_of_node r'), (rid_of_node r). unfold lrid_of_node, Compose.set_name.
    rewrite K, A, S, N. destruct (parse_group_version (get_api_version (r_node r))). reflexivity.
Qed.

Section Bridge.
  Variable nonstr : string -> bool.

  Lemma prefix_sim p m cm :
    no_char ","%char p = true -> Forall W m -> Forall2 Rel m cm ->
    exists m', prefix_transform cs gen_name_prefix_fs gen_prefix_skip p m = Ok m' /\ Forall W m' /\
      Forall2 Rel m' (if String.eqb p "" then cm
                      else map (Compose.add_prefix FieldSpecs.gen_name_prefix_fs LegacyOrder.gen_prefix_skip p) cm).
  Proof.
    intros Hp HW HR. unfold prefix_transform. destruct (String.eqb p "") eqn:Ep; [eauto|].
    induction HR as [|r c t tc Hrc _ IH]; [exists []; cbn; auto|].
    inversion HW as [|? ? Wr Wt]; subst. destruct (IH Wt) as (t' & Et & Wt' & Rt').
    destruct (affix_total p add_name_prefix (fun v => p ++ v) gen_prefix_skip r (fun r0 => eq_refl) Wr) as (r' & Er).
    assert (Er' : prefix_one cs gen_name_prefix_fs gen_prefix_skip p r = Ok r') by (unfold prefix_one; rewrite gen_prefix_table; exact Er).
    destruct (prefix_one_hist cs _ _ gen_prefix_table p r r' Hp (proj1 Wr) Er') as [Wf _].
    destruct (affix_effect p add_name_prefix (fun v => p ++ v) gen_prefix_skip r r' Ep
                (fun r0 => ltac:(repeat split)) (fun v Hv => good_app_l p v Hp Hv) Wr Er)
      as (Wn & Kc & E1 & E2 & E3 & E4).
    exists (r' :: t'). cbn [mapM map]. rewrite Er'. cbn [bind]. rewrite Et. cbn [bind].
    split; [reflexivity|]. split; [constructor; [split; assumption|exact Wt']|]. constructor; [|exact Rt'].
    unfold Compose.add_prefix. rewrite (skip_bridge LegacyOrder.gen_prefix_skip r c Hrc), (proj1 skip_tables).
    rewrite C11Gen.gen_prefix_single_hit. cbn [Compose.iter_prefix].
    exact (set_name_rid (fun v => p ++ v) (skip_of gen_prefix_skip r) r r' c Hrc E1 E2 E3 E4).
  Qed.

  Lemma suffix_sim s m cm :
    no_char ","%char s = true -> Forall W m -> Forall2 Rel m cm ->
    exists m', suffix_transform cs gen_name_suffix_fs gen_suffix_skip s m = Ok m' /\ Forall W m' /\
      Forall2 Rel m' (if String.eqb s "" then cm
                      else map (Compose.add_suffix FieldSpecs.gen_name_suffix_fs LegacyOrder.gen_suffix_skip s) cm).
  Proof.
    intros Hp HW HR. unfold suffix_transform. destruct (String.eqb s "") eqn:Ep; [eauto|].
    induction HR as [|r c t tc Hrc _ IH]; [exists []; cbn; auto|].
    inversion HW as [|? ? Wr Wt]; subst. destruct (IH Wt) as (t' & Et & Wt' & Rt').
    destruct (affix_total s add_name_suffix (fun v => v ++ s) gen_suffix_skip r (fun r0 => eq_refl) Wr) as (r' & Er).
    assert (Er' : suffix_one cs gen_name_suffix_fs gen_suffix_skip s r = Ok r') by (unfold suffix_one; rewrite gen_suffix_table; exact Er).
    destruct (suffix_one_hist cs _ _ gen_suffix_table s r r' Hp (proj1 Wr) Er') as [Wf _].
    destruct (affix_effect s add_name_suffix (fun v => v ++ s) gen_suffix_skip r r' Ep
                (fun r0 => ltac:(repeat split)) (fun v Hv => good_app_r v s Hv Hp) Wr Er)
      as (Wn & Kc & E1 & E2 & E3 & E4).
    exists (r' :: t'). cbn [mapM map]. rewrite Er'. cbn [bind]. rewrite Et. cbn [bind].
    split; [reflexivity|]. split; [constructor; [split; assumption|exact Wt']|]. constructor; [|exact Rt'].
    unfold Compose.add_suffix. rewrite (skip_bridge LegacyOrder.gen_suffix_skip r c Hrc), (proj2 skip_tables).
    rewrite C11Gen.gen_suffix_single_hit. cbn [Compose.iter_suffix].
    exact (set_name_rid (fun v => v ++ s) (skip_of gen_suffix_skip r) r r' c Hrc E1 E2 E3 E4).
  Qed.

  (* the transformers of a fragment layer: only prefix and suffix do anything *)
  Lemma run_kind_frag k d m :
    frag_dirs d ->
    run_kind nonstr k d m =
    if String.eqb k "PrefixTransformer" then prefix_transform cs gen_name_prefix_fs gen_prefix_skip (pd_prefix d) m
    else if String.eqb k "SuffixTransformer" then suffix_transform cs gen_name_suffix_fs gen_suffix_skip (pd_suffix d) m
    else Ok m.
  Proof.
    intros (Hns & Hl & Hcl & Hca & _ & _ & _ & (Hrp & Him & Hpp) & _). unfold run_kind, label_dirs. rewrite Hns, Hl, Hcl, Hca, Hrp, Him, Hpp.
    destruct (String.eqb k "PatchTransformer") eqn:E0.
    { apply String.eqb_eq in E0. subst k. reflexivity. }
    destruct (String.eqb k "NamespaceTransformer") eqn:E1.
    { apply String.eqb_eq in E1. subst k. reflexivity. }
    destruct (String.eqb k "PrefixTransformer"); [reflexivity|].
    destruct (String.eqb k "SuffixTransformer"); [reflexivity|].
    destruct (String.eqb k "LabelTransformer"); [reflexivity|].
    destruct (String.eqb k "AnnotationsTransformer"); [reflexivity|].
    destruct (String.eqb k "ReplicaCountTransformer"); [reflexivity|].
    destruct (String.eqb k "ImageTagTransformer"); reflexivity.
  Qed.

  Lemma run_transformers_frag d m cm :
    frag_dirs d -> Forall W m -> Forall2 Rel m cm ->
    exists m', run_transformers nonstr d m = Ok m' /\ Forall W m' /\
      Forall2 Rel m' (Compose.run_transformers FieldSpecs.gen_name_prefix_fs FieldSpecs.gen_name_suffix_fs
                        LegacyOrder.gen_prefix_skip LegacyOrder.gen_suffix_skip (pd_prefix d) (pd_suffix d) cm).
  Proof.
    intros Hd HW HR. pose proof Hd as (Hns & Hl & Hcl & Hca & _ & _ & _ & _ & Hp & Hs).
    destruct (prefix_sim _ _ _ Hp HW HR) as (m1 & E1 & W1 & R1).
    destruct (suffix_sim _ _ _ Hs W1 R1) as (m2 & E2 & W2 & R2).
    exists m2. split; [|split; [exact W2|exact R2]].
    unfold run_transformers, label_dirs. rewrite Hl, Hcl, Hca. cbn [Labels.label_transformers Labels.d_labels Labels.d_common_labels bind].
    unfold gen_transformer_order.
    repeat (cbn [run_order]; rewrite (run_kind_frag _ d _ Hd); cbn [String.eqb Ascii.eqb Bool.eqb];
            rewrite ?E1, ?E2; cbn [bind];
            rewrite ?(drop_empties_W _ HW), ?(drop_empties_W _ W1), ?(drop_empties_W _ W2)).
    reflexivity.
  Qed.

  Lemma run_generators_frag d m : frag_dirs d -> run_generators nonstr d m = Ok m.
  Proof.
    intros (_ & _ & _ & _ & Hc & Hs & _). unfold run_generators. generalize gen_generator_order. intros ks. revert m.
    induction ks as [|k t IH]; intros m; cbn [run_generator_kinds]; [reflexivity|]. rewrite Hc, Hs.
    destruct (String.eqb k "ConfigMapGenerator"); [cbn; apply IH|]. destruct (String.eqb k "SecretGenerator"); cbn; apply IH.
  Qed.

  Lemma frag_empty d (ents : list ptree) :
    frag_dirs d -> is_empty_kust d ents = Compose.is_empty_kust (Compose.Dir (map proj ents) (pd_prefix d) (pd_suffix d)).
  Proof.
    intros (Hns & Hl & Hcl & Hca & Hc & Hs & Hg & (Hrp & Him & Hpp) & _). destruct ents; [|reflexivity].
    unfold is_empty_kust, dirs_empty. rewrite Hns, Hl, Hcl, Hca, Hc, Hs, Hg, Hrp, Him, Hpp. cbn. rewrite !andb_true_r. reflexivity.
  Qed.

  Definition acc_sim (m : list resource) (c : list Compose.resource) : Prop := Forall W m /\ Forall2 Rel m c.

  (* the bridge *)
  Theorem accumulate_bridge t :
    frag t -> sim acc_sim (accumulate nonstr t) (C11Gen.accumulate_gen csL (proj t)).
  Proof.
    induction t as [docs|n d ents IH] using ptree_ind'; intros Hf.
    - inversion Hf as [? Hd|]; subst. cbn [accumulate proj]. unfold C11Gen.accumulate_gen. cbn [Compose.accumulate].
      rewrite map_map.
      assert (HR : Forall2 Rel (map load docs) (map (fun x => Compose.load (lrid_of_node x)) docs))
        by (clear; induction docs; constructor; auto using Rel_load).
      pose proof (append_all_sim _ _ [] [] (Forall2_nil _) HR) as S.
      destruct (append_all cs [] (map load docs)) as [m| | |] eqn:E;
        destruct (Compose.append_all csL [] _) as [c| | |]; cbn in S |- *; try contradiction; try exact I.
      split; [|exact S]. apply append_all_spec in E as [-> _]. cbn [app]. clear -Hd. induction Hd; cbn; constructor; auto using W_load.
    - inversion Hf as [|? ? ? Hd He]; subst. rewrite accumulate_dir. cbn [proj]. unfold C11Gen.accumulate_gen.
      cbn [Compose.accumulate]. rewrite <- (frag_empty d ents Hd).
      destruct (is_empty_kust d ents); [exact I|].
      (* the resources lists *)
      assert (HL : forall acc cacc, acc_sim acc cacc ->
                sim acc_sim (acc_list (accumulate nonstr) ents acc)
                    (Compose.acc_list csL (Compose.accumulate csL FieldSpecs.gen_name_prefix_fs FieldSpecs.gen_name_suffix_fs
                                             LegacyOrder.gen_prefix_skip LegacyOrder.gen_suffix_skip) (map proj ents) cacc)).
      { clear -IH He. induction ents as [|e t IHe]; intros acc cacc HS; [exact HS|].
        inversion IH as [|? ? IH1 IH2]; subst. inversion He as [|? ? He1 He2]; subst.
        rewrite acc_list_cons. cbn [map Compose.acc_list].
        specialize (IH1 He1). unfold C11Gen.accumulate_gen in IH1.
        destruct (accumulate nonstr e) as [sub| | |]; destruct (Compose.accumulate csL _ _ _ _ (proj e)) as [csub| | |];
          cbn in IH1 |- *; try contradiction; try exact I.
        destruct HS as [Wa Ra]. destruct IH1 as [Ws Rs].
        pose proof (append_all_sim _ _ _ _ Ra Rs) as S.
        destruct (append_all cs acc sub) as [a1| | |] eqn:E; destruct (Compose.append_all csL cacc csub) as [c1| | |];
          cbn in S |- *; try contradiction; try exact I.
        apply IHe; auto. split; [|exact S]. apply append_all_spec in E as [-> _]. apply Forall_app. auto. }
      specialize (HL [] [] (conj (Forall_nil _) (Forall2_nil _))).
      destruct (acc_list (accumulate nonstr) ents []) as [m0| | |];
        destruct (Compose.acc_list csL _ (map proj ents) []) as [c0| | |]; cbn [bind sim] in HL |- *; try contradiction; try exact I.
      rewrite (run_generators_frag d m0 Hd). cbn [bind]. destruct HL as [W0 R0].
      destruct (run_transformers_frag d m0 c0 Hd W0 R0) as (m' & E & W' & R'). rewrite E. cbn [sim]. split; assumption.
  Qed.

  (* ids in order *)
  Corollary accumulate_bridge_ids t m :
    frag t -> accumulate nonstr t = Ok m ->
    exists c, C11Gen.accumulate_gen csL (proj t) = Ok c /\ map rid_of m = map Compose.r_cur c.
  Proof.
    intros Hf H. pose proof (accumulate_bridge t Hf) as S. rewrite H in S.
    destruct (C11Gen.accumulate_gen csL (proj t)) as [c| | |]; cbn in S; try contradiction.
    exists c. split; [reflexivity|]. destruct S as [_ R]. clear -R. induction R as [|? ? ? ? [Hr _]]; cbn; [reflexivity|]. now f_equal.
  Qed.

  Corollary accumulate_bridge_err t :
    frag t -> (accumulate nonstr t = Err <-> C11Gen.accumulate_gen csL (proj t) = Err).
  Proof.
    intros Hf. pose proof (accumulate_bridge t Hf) as S.
    destruct (accumulate nonstr t); destruct (C11Gen.accumulate_gen csL (proj t)); cbn in S; try contradiction;
      split; intros X; try discriminate; reflexivity.
  Qed.
End Bridge.

(* ---------- C11's laws, transferred to the documents of the pipeline ---------- *)

Section Transfer.
  Variable nonstr : string -> bool.

  (* prefix nesting at document level: the id of every accumulated document is the id of an input document of the
     projected tree with the name P_outer..P_inner ++ name ++ S_inner..S_outer (unless the kind is skipped) *)
  Theorem bridge_prefix_nesting t m r :
    frag t -> accumulate nonstr t = Ok m -> In r m ->
    exists d layers, ComposeProofs.occurs (proj t) d layers /\
                     rid_of r = Compose.set_name (C11Gen.out_name_gen d layers) d.
  Proof.
    intros Hf H Hin. destruct (accumulate_bridge_ids nonstr t m Hf H) as (c & Ec & Em).
    assert (Hc : In (rid_of r) (map Compose.r_cur c)) by (rewrite <- Em; apply in_map; exact Hin).
    apply in_map_iff in Hc as (c0 & E0 & Hc0).
    destruct (C11Gen.prefix_nesting_gen csL (proj t) c c0 Ec Hc0) as (d & layers & Ho & _ & Hcur).
    exists d, layers. split; [exact Ho|]. rewrite <- E0. exact Hcur.
  Qed.

  (* permuting resources lists (C11's tperm on the projected trees): same outcome class, and on success the ids of
     the accumulated documents are permutations of each other *)
  Theorem bridge_permute t t' :
    frag t -> frag t' -> ComposeProofs.tperm (proj t) (proj t') ->
    match accumulate nonstr t, accumulate nonstr t' with
    | Ok m, Ok m' => Permutation (map rid_of m) (map rid_of m')
    | Err, Err => True
    | _, _ => False
    end.
  Proof.
    intros Hf Hf' HT.
    pose proof (ComposeProofs.permute_multiset csL FieldSpecs.gen_name_prefix_fs FieldSpecs.gen_name_suffix_fs
                  LegacyOrder.gen_prefix_skip LegacyOrder.gen_suffix_skip _ _ HT) as HP.
    pose proof (accumulate_bridge nonstr t Hf) as S. pose proof (accumulate_bridge nonstr t' Hf') as S'.
    unfold C11Gen.accumulate_gen in S, S'.
    destruct (accumulate nonstr t) as [m| | |]; destruct (Compose.accumulate csL _ _ _ _ (proj t)) as [c| | |];
      cbn [sim] in S; try contradiction;
      destruct (accumulate nonstr t') as [m'| | |]; destruct (Compose.accumulate csL _ _ _ _ (proj t')) as [c'| | |];
      cbn [sim] in S'; try contradiction; try exact HP; try exact I.
    assert (E : forall x y, acc_sim x y -> map rid_of x = map Compose.r_cur y).
    { intros x y [_ R]. induction R as [|? ? ? ? [Hr _]]; cbn; [reflexivity|]. now f_equal. }
    rewrite (E _ _ S), (E _ _ S'). apply Permutation_map. exact HP.
  Qed.

  (* the accumulated ids are pairwise different (C11_output_ids_distinct through the bridge is subsumed by
     PIPE_accumulate_ids_distinct); with the legacy order the sorted ids do not depend on the order of the
     resources lists *)
  Theorem bridge_permute_legacy t t' m m' :
    frag t -> frag t' -> ComposeProofs.tperm (proj t) (proj t') ->
    accumulate nonstr t = Ok m -> accumulate nonstr t' = Ok m' ->
    LegacySortProofs.valid_ids (map rid_of m) -> NoDup (map rid_of m) ->
    LegacySort.sort_legacy LegacyOrder.gen_order_first LegacyOrder.gen_order_last (map rid_of m) =
    LegacySort.sort_legacy LegacyOrder.gen_order_first LegacyOrder.gen_order_last (map rid_of m').
  Proof.
    intros Hf Hf' HT H H' V N. pose proof (bridge_permute t t' Hf Hf' HT) as HP. rewrite H, H' in HP.
    apply (C11Gen.legacy_canonical_default (LegacySort.sort_legacy LegacyOrder.gen_order_first LegacyOrder.gen_order_last));
      auto using LegacySortProofs.sort_legacy_sort_spec.
  Qed.
End Transfer.

(* non-vacuity: a two-layer prefix / suffix tree of the fragment, and what the bridge says about it *)
Definition frag_example : ptree :=
  PDir "top" (mkPDirs "" "p-" "" [] [] [] [] [])
    [PDir "base" (mkPDirs "" "q-" "-s" [] [] [] [] [])
       [PFile [Map [("apiVersion", Scalar TStr SPlain "v1"); ("kind", Scalar TStr SPlain "ConfigMap");
                    ("metadata", Map [("name", Scalar TStr SPlain "cfg")])]]];
     PFile [Map [("apiVersion", Scalar TStr SPlain "v1"); ("kind", Scalar TStr SPlain "Namespace");
                 ("metadata", Map [("name", Scalar TStr SPlain "ns")])]]].

Example frag_example_frag : frag frag_example.
Proof.
  constructor; [unfold frag_dirs; cbn; repeat split; reflexivity|].
  constructor; [|constructor; [|constructor]].
  - constructor; [unfold frag_dirs; cbn; repeat split; reflexivity|]. constructor; [|constructor].
    constructor. constructor; [solve_wf_node|constructor].
  - constructor. constructor; [solve_wf_node|constructor].
Qed.

Example frag_example_names :
  match accumulate (fun _ => false) frag_example with
  | Ok m => map (fun r => LegacySort.id_name (rid_of r)) m
  | _ => []
  end = ["p-q-cfg-s"; "ns"].
Proof. vm_compute. reflexivity. Qed.
