(* Proofs about KV.Res.Labels (the label / annotation filter over the field-spec filter model). *)
From KV Require Import Res.Labels.
From Coq Require Import Permutation.

Ltac inv H := inversion H; subst; clear H.

(* ------------------------------------------------------------------ *)
(* association lists                                                    *)
(* ------------------------------------------------------------------ *)

Lemma find_field_set_first_same name v kvs x :
  find_field name kvs = Some x -> find_field name (set_first name v kvs) = Some v.
Proof.
  induction kvs as [|[k y] t IH]; cbn; intros H; [discriminate|].
  destruct (String.eqb k name) eqn:E; cbn; rewrite E; auto.
Qed.

Lemma find_field_set_first_other name q v kvs :
  q <> name -> find_field q (set_first name v kvs) = find_field q kvs.
Proof.
  intros Hn. induction kvs as [|[k y] t IH]; cbn; [reflexivity|].
  destruct (String.eqb k name) eqn:E; cbn.
  - apply String.eqb_eq in E; subst k.
    destruct (String.eqb name q) eqn:E2; [apply String.eqb_eq in E2; congruence|reflexivity].
  - destruct (String.eqb k q); auto.
Qed.

Lemma find_field_app_new name q v kvs :
  find_field q (kvs ++ [(name, v)]) =
  match find_field q kvs with
  | Some x => Some x
  | None => if String.eqb name q then Some v else None
  end.
Proof.
  induction kvs as [|[k y] t IH]; cbn; [reflexivity|].
  destruct (String.eqb k q); auto.
Qed.

Lemma set_first_same name kvs x :
  find_field name kvs = Some x -> set_first name x kvs = kvs.
Proof.
  induction kvs as [|[k v] t IH]; cbn; intros H; [discriminate|].
  destruct (String.eqb k name) eqn:E.
  - inversion H; subst; reflexivity.
  - rewrite IH; auto.
Qed.

(* ------------------------------------------------------------------ *)
(* label maps read through lmap: lookup / upd / sub                     *)
(* ------------------------------------------------------------------ *)

Lemma lookup_upd_same k v m : lookup k (upd k v m) = Some v.
Proof.
  induction m as [|[k' v'] t IH]; cbn.
  - rewrite String.eqb_refl; reflexivity.
  - destruct (String.eqb k' k) eqn:E; cbn; rewrite E; auto.
Qed.

Lemma lookup_upd_other k k2 v m : k2 <> k -> lookup k2 (upd k v m) = lookup k2 m.
Proof.
  intros Hn. induction m as [|[k' v'] t IH]; cbn.
  - destruct (String.eqb k k2) eqn:E; [apply String.eqb_eq in E; congruence|reflexivity].
  - destruct (String.eqb k' k) eqn:E; cbn.
    + apply String.eqb_eq in E; subst k'.
      destruct (String.eqb k k2) eqn:E2; [apply String.eqb_eq in E2; congruence|reflexivity].
    + destruct (String.eqb k' k2); auto.
Qed.

Lemma upd_idem k v m : upd k v (upd k v m) = upd k v m.
Proof.
  induction m as [|[k' v'] t IH]; cbn.
  - rewrite String.eqb_refl; reflexivity.
  - destruct (String.eqb k' k) eqn:E; cbn; rewrite E; [reflexivity|f_equal; auto].
Qed.

Lemma sub_nil l : sub [] l.
Proof. intros k v H; discriminate. Qed.

Lemma sub_upd_both k v s l : sub s l -> sub (upd k v s) (upd k v l).
Proof.
  intros H k2 v2 H2.
  destruct (String.eqb k2 k) eqn:E.
  - apply String.eqb_eq in E; subst k2.
    rewrite lookup_upd_same in H2; rewrite lookup_upd_same; auto.
  - apply String.eqb_neq in E.
    rewrite lookup_upd_other in H2 by auto. rewrite lookup_upd_other by auto. auto.
Qed.

(* the key is not required by the selector, or it is required with the very value being set *)
Definition compat (k v : string) (s : pairs) : Prop :=
  lookup k s = None \/ lookup k s = Some v.

Lemma sub_upd_right k v s l : sub s l -> compat k v s -> sub s (upd k v l).
Proof.
  intros H Hc k2 v2 H2.
  destruct (String.eqb k2 k) eqn:E.
  - apply String.eqb_eq in E; subst k2. rewrite lookup_upd_same.
    destruct Hc as [Hc|Hc]; congruence.
  - apply String.eqb_neq in E. rewrite lookup_upd_other by auto. auto.
Qed.

Lemma subb_sub s l : subb s l = true <-> sub s l.
Proof.
  unfold subb, sub. rewrite forallb_forall. split.
  - intros H k v Hk.
    assert (Hin : exists v0, In (k, v0) s).
    { clear H. induction s as [|[k' v'] t IH]; cbn in Hk; [discriminate|].
      destruct (String.eqb k' k) eqn:E.
      - apply String.eqb_eq in E; subst. eexists; left; reflexivity.
      - destruct (IH Hk) as [v0 ?]. exists v0; right; auto. }
    destruct Hin as [v0 Hin]. specialize (H _ Hin). cbn in H. rewrite Hk in H.
    destruct (lookup k l) as [v'|]; [|discriminate].
    apply String.eqb_eq in H; subst; reflexivity.
  - intros H [k v0] Hin. cbn.
    destruct (lookup k s) as [v|] eqn:Hk; [|reflexivity].
    rewrite (H _ _ Hk). apply String.eqb_refl.
Qed.

(* ------------------------------------------------------------------ *)
(* path segments                                                        *)
(* ------------------------------------------------------------------ *)

Definition seg_name (p : string) : string := fst (is_sequence_field p).
Definition seg_seq (p : string) : bool := snd (is_sequence_field p).

(* the segment names a mapping field in PathGetter's eyes (not an index, selector, wildcard, blank) *)
Definition seg_ok (p : string) : bool :=
  negb (String.eqb (seg_name p) "") &&
  match parse_path [seg_name p] with
  | [PKey n] => String.eqb n (seg_name p)
  | _ => false
  end.

Lemma seg_ok_spec p :
  seg_ok p = true ->
  String.eqb (seg_name p) "" = false /\ parse_path [seg_name p] = [PKey (seg_name p)].
Proof.
  unfold seg_ok. intros H. apply andb_true_iff in H as [H1 H2].
  split; [destruct (String.eqb (seg_name p) ""); [discriminate|reflexivity]|].
  destruct (parse_path [seg_name p]) as [|[n| | | | | | ] [|? ?]]; try discriminate.
  apply String.eqb_eq in H2; subst; reflexivity.
Qed.

Lemma is_sequence_field_eta p : is_sequence_field p = (seg_name p, seg_seq p).
Proof. unfold seg_name, seg_seq. destruct (is_sequence_field p); reflexivity. Qed.

(* relation of a field-spec path (segments as written in the table) to a read path (field names) *)
Inductive rel := RExact | RDiverge | RBad.

Fixpoint path_rel (ps qs : list string) : rel :=
  match ps, qs with
  | [], [] => RExact
  | p :: ps', q :: qs' =>
      if String.eqb (seg_name p) q
      then (if seg_seq p then RBad else path_rel ps' qs')
      else RDiverge
  | _, _ => RBad
  end.

Definition rel_eqb (a b : rel) : bool :=
  match a, b with
  | RExact, RExact | RDiverge, RDiverge | RBad, RBad => true
  | _, _ => false
  end.

(* no sequence on the way to (and at) the read path; missing or null parts are fine *)
Fixpoint no_seq_along (qs : list string) (obj : node) : bool :=
  match obj with
  | Seq _ => false
  | Scalar _ _ _ => true
  | Map kvs =>
      match qs with
      | [] => true
      | q :: rest =>
          match find_field q kvs with
          | Some x => no_seq_along rest x
          | None => true
          end
      end
  end.

(* does a field spec with this create flag reach a mapping at the read path? *)
Fixpoint reach (create : bool) (qs : list string) (obj : node) : bool :=
  match qs with
  | [] => is_map obj
  | q :: rest =>
      match obj with
      | Map kvs =>
          match find_field q kvs with
          | Some x => reach create rest (if create && is_null x then Map [] else x)
          | None => create
          end
      | _ => false
      end
  end.

Lemma labels_at_nil_of_nonmap qs obj :
  is_map obj = false -> qs <> [] -> labels_at qs obj = [].
Proof.
  intros Hm Hq. destruct qs as [|q rest]; [congruence|].
  unfold labels_at. cbn. destruct obj; try reflexivity; discriminate.
Qed.

Lemma labels_at_empty_map qs : labels_at qs (Map []) = [].
Proof. destruct qs; reflexivity. Qed.

Lemma reach_empty_map qs : reach true qs (Map []) = true.
Proof. destruct qs; reflexivity. Qed.

Lemma no_seq_empty_map qs : no_seq_along qs (Map []) = true.
Proof. destruct qs; reflexivity. Qed.

(* a non-empty label map at the read path is reached whatever the create flag *)
Lemma reach_of_labels c qs : forall obj, labels_at qs obj <> [] -> reach c qs obj = true.
Proof.
  induction qs as [|q rest IH]; intros obj H.
  - unfold labels_at in H; cbn in H. destruct obj; cbn; auto; cbn in H; congruence.
  - unfold labels_at in H; cbn in H. destruct obj as [t s v|kvs|es]; try (cbn in H; congruence).
    cbn. destruct (find_field q kvs) as [x|] eqn:F; [|cbn in H; congruence].
    assert (Hx : labels_at rest x <> []) by exact H.
    destruct (c && is_null x) eqn:E; [|apply IH; exact Hx].
    apply andb_true_iff in E as [_ E]. destruct x as [[] ? ?| |]; try discriminate.
    exfalso; apply Hx. destruct rest; reflexivity.
Qed.

Lemma labels_nil_of_unreached qs : forall obj, reach false qs obj = false -> labels_at qs obj = [].
Proof.
  intros obj H. destruct (labels_at qs obj) eqn:E; [reflexivity|].
  rewrite (reach_of_labels false qs obj) in H; [discriminate|congruence].
Qed.

(* ------------------------------------------------------------------ *)
(* one field spec with SetEntry(k,v) as the setter                      *)
(* ------------------------------------------------------------------ *)

Arguments seg_name : simpl never.
Arguments seg_seq : simpl never.
Section F.
  Variable nonstr : string -> bool.
  Variables k v : string.
  Notation F := (fs_filter (Some KMap) TOther (set_entry nonstr k v)).

  Definition promo (create isq : bool) (x : node) : node :=
    if negb create || isq then (if isq then promote KSeq TNone x else x) else promote KMap TOther x.

  Lemma F_nil create obj : F create [] obj = set_entry nonstr k v obj.
  Proof. reflexivity. Qed.

  Lemma F_null create p rest obj : is_null obj = true -> F create (p :: rest) obj = Ok obj.
  Proof. intros H. destruct obj; cbn in *; try discriminate. rewrite H. reflexivity. Qed.

  Lemma F_map_step create p rest kvs :
    seg_ok p = true ->
    F create (p :: rest) (Map kvs) =
    match find_field (seg_name p) kvs with
    | Some x => do f' <- F create rest (promo create (seg_seq p) x); Ok (Map (set_first (seg_name p) f' kvs))
    | None => if negb create || seg_seq p then Ok (Map kvs)
              else do f' <- F create rest (Map []); Ok (Map (kvs ++ [(seg_name p, f')])%list)
    end.
  Proof.
    intros Hs. apply seg_ok_spec in Hs as [Hne Hpp].
    cbn [fs_filter]. cbn [is_null]. rewrite is_sequence_field_eta. rewrite Hne. rewrite Hpp.
    rewrite orb_false_r.
    assert (Hr : match rest with [] | _ => Some KMap end = Some KMap) by (destruct rest; reflexivity).
    assert (Hr2 : match rest with [] | _ => Some (KMap, TOther) end = Some (KMap, TOther)) by (destruct rest; reflexivity).
    rewrite Hr, Hr2. clear Hr Hr2.
    unfold promo.
    destruct (negb create || seg_seq p) eqn:Enc; cbn [walk].
    - destruct (find_field (seg_name p) kvs) as [x|] eqn:Ff; [|reflexivity].
      destruct (seg_seq p) eqn:Eq;
      (match goal with |- context [F create rest ?y] => destruct (F create rest y) as [f'| | |] eqn:EF end; reflexivity).
    - destruct (find_field (seg_name p) kvs) as [x|] eqn:Ff.
      + match goal with |- context [F create rest ?y] => destruct (F create rest y) as [f'| | |] eqn:EF end; reflexivity.
      + cbn. match goal with |- context [F create rest ?y] => destruct (F create rest y) as [f'| | |] eqn:EF end; reflexivity.
  Qed.

  Lemma F_seq create p rest es obj' :
    F create (p :: rest) (Seq es) = Ok obj' -> exists es', obj' = Seq es'.
  Proof.
    cbn [fs_filter is_null]. intros H.
    match type of H with (do es' <- ?X; _) = _ => destruct X as [es'| | |] end; cbn in H; inv H.
    eexists; reflexivity.
  Qed.

  Lemma F_scalar create p rest t s x :
    is_null (Scalar t s x) = false -> F create (p :: rest) (Scalar t s x) = Err.
  Proof. intros H. cbn [fs_filter]. rewrite H. reflexivity. Qed.

  (* ---- SetEntry on the node found ---- *)
  Definition lm (kvs : list (string * node)) : pairs := map (fun kv => (fst kv, node_value (snd kv))) kvs.

  Lemma lm_set_first kvs old new :
    find_field k kvs = Some old -> lm (set_first k new kvs) = upd k (node_value new) (lm kvs).
  Proof.
    induction kvs as [|[k' x] t IH]; cbn; intros H; [discriminate|].
    destruct (String.eqb k' k) eqn:E; cbn; [reflexivity|]. f_equal; auto.
  Qed.

  Lemma lm_app_new kvs new :
    find_field k kvs = None -> lm (kvs ++ [(k, new)]) = upd k (node_value new) (lm kvs).
  Proof.
    induction kvs as [|[k' x] t IH]; cbn; intros H; [reflexivity|].
    destruct (String.eqb k' k) eqn:E; [discriminate|]. f_equal; auto.
  Qed.

  Lemma set_entry_map kvs n' :
    set_entry nonstr k v (Map kvs) = Ok n' ->
    exists kvs', n' = Map kvs' /\ lm kvs' = upd k v (lm kvs).
  Proof.
    unfold set_entry, set_field. cbn [is_null andb].
    destruct (find_field k kvs) as [old|] eqn:Ff; intros H; inv H; eexists; (split; [reflexivity|]).
    - rewrite (lm_set_first _ old) by auto. reflexivity.
    - rewrite lm_app_new by auto. f_equal. unfold quote11. destruct (nonstr v); reflexivity.
  Qed.

  Lemma set_entry_nonmap n n' :
    is_map n = false -> set_entry nonstr k v n = Ok n' -> n' = n /\ is_null n = true.
  Proof.
    unfold set_entry, set_field. cbn [is_null andb]. intros Hm H.
    destruct n; try discriminate; destruct (is_null _) eqn:E; inv H; auto.
  Qed.

  Lemma F_map_is_map create ps : forall kvs obj',
    forallb seg_ok ps = true -> F create ps (Map kvs) = Ok obj' -> is_map obj' = true.
  Proof.
    destruct ps as [|p rest]; intros kvs obj' Hs H.
    - rewrite F_nil in H. apply set_entry_map in H as (kvs' & -> & _). reflexivity.
    - cbn in Hs. apply andb_true_iff in Hs as [Hp _]. rewrite F_map_step in H by auto.
      destruct (find_field (seg_name p) kvs).
      + match type of H with (do f' <- ?X; _) = _ => destruct X end; cbn in H; inv H. reflexivity.
      + destruct (negb create || seg_seq p); [inv H; reflexivity|].
        match type of H with (do f' <- ?X; _) = _ => destruct X end; cbn in H; inv H. reflexivity.
  Qed.

  Lemma labels_at_cons q rest kvs :
    labels_at (q :: rest) (Map kvs) =
    match find_field q kvs with Some x => labels_at rest x | None => [] end.
  Proof. unfold labels_at; cbn; destruct (find_field q kvs); reflexivity. Qed.

  Lemma get_at_promo create isq x q rest :
    get_at (q :: rest) (promo create isq x) = get_at (q :: rest) x.
  Proof.
    unfold promo. destruct x as [t s y| |]; try (destruct create, isq; reflexivity).
    destruct t; destruct create, isq; reflexivity.
  Qed.

  Lemma path_rel_diverge_nonempty ps qs : path_rel ps qs = RDiverge -> qs <> [].
  Proof. destruct ps, qs; cbn; congruence. Qed.

  (* a field spec whose path leaves the read path at some field does not change what is read *)
  Lemma F_frame : forall ps qs create obj obj',
    forallb seg_ok ps = true -> path_rel ps qs = RDiverge ->
    F create ps obj = Ok obj' -> get_at qs obj' = get_at qs obj.
  Proof.
    induction ps as [|p rest IH]; intros qs create obj obj' Hs Hr H.
    - destruct qs; discriminate.
    - destruct qs as [|q qrest]; [discriminate|].
      cbn in Hs; apply andb_true_iff in Hs as [Hp Hs].
      destruct (is_null obj) eqn:En; [rewrite F_null in H by auto; inv H; reflexivity|].
      destruct obj as [t s x|kvs|es].
      + rewrite F_scalar in H by auto; discriminate.
      + rewrite F_map_step in H by auto. cbn [path_rel] in Hr.
        destruct (String.eqb (seg_name p) q) eqn:Eq.
        * apply String.eqb_eq in Eq; subst q. destruct (seg_seq p) eqn:Esq; [discriminate|].
          pose proof (path_rel_diverge_nonempty _ _ Hr) as Hne.
          destruct qrest as [|q2 qrest]; [congruence|].
          destruct (find_field (seg_name p) kvs) as [x|] eqn:Ff.
          -- destruct (F create rest (promo create false x)) as [f'| | |] eqn:EF; cbn in H; inv H.
             cbn [get_at]. rewrite (find_field_set_first_same _ _ _ x) by auto. rewrite Ff.
             change (get_at (q2 :: qrest) f' = get_at (q2 :: qrest) x).
             rewrite (IH _ _ _ _ Hs Hr EF). apply get_at_promo.
          -- rewrite orb_false_r in H. destruct create; cbn [negb] in H.
             ++ destruct (F true rest (Map [])) as [f'| | |] eqn:EF; cbn in H; inv H.
                cbn [get_at]. rewrite find_field_app_new, Ff, String.eqb_refl.
                change (get_at (q2 :: qrest) f' = None).
                rewrite (IH _ _ _ _ Hs Hr EF). reflexivity.
             ++ inv H. reflexivity.
        * apply String.eqb_neq in Eq.
          destruct (find_field (seg_name p) kvs) as [x|] eqn:Ff.
          -- match type of H with (do f' <- ?X; _) = _ => destruct X as [f'| | |] end; cbn in H; inv H.
             cbn [get_at]. rewrite find_field_set_first_other by (intros E3; apply Eq; auto). reflexivity.
          -- destruct (negb create || seg_seq p); [inv H; reflexivity|].
             match type of H with (do f' <- ?X; _) = _ => destruct X as [f'| | |] end; cbn in H; inv H.
             cbn [get_at]. rewrite find_field_app_new.
             destruct (find_field q kvs); [reflexivity|].
             destruct (String.eqb (seg_name p) q) eqn:E2; [apply String.eqb_eq in E2; congruence|reflexivity].
      + apply F_seq in H as [es' ->]. reflexivity.
  Qed.

  Lemma promo_eq create x : promo create false x = if create && is_null x then Map [] else x.
  Proof. unfold promo. destruct create; cbn; [|reflexivity]. destruct x as [[] ? ?| |]; reflexivity. Qed.

  Lemma labels_at_scalar qs t s x : labels_at qs (Scalar t s x) = [].
  Proof. destruct qs; reflexivity. Qed.

  Lemma labels_at_promo create x qs : labels_at qs (promo create false x) = labels_at qs x.
  Proof.
    rewrite promo_eq. destruct (create && is_null x) eqn:E; [|reflexivity].
    apply andb_true_iff in E as [_ E]. destruct x as [[] ? ?| |]; try discriminate.
    rewrite labels_at_empty_map, labels_at_scalar. reflexivity.
  Qed.

  Lemma no_seq_promo create x qs :
    no_seq_along qs x = true -> no_seq_along qs (promo create false x) = true.
  Proof.
    rewrite promo_eq. destruct (create && is_null x); [intros _; apply no_seq_empty_map|auto].
  Qed.

  (* ... nor does it put a sequence on the read path *)
  Lemma F_noseq : forall ps qs create obj obj',
    forallb seg_ok ps = true -> path_rel ps qs <> RBad -> no_seq_along qs obj = true ->
    F create ps obj = Ok obj' -> no_seq_along qs obj' = true.
  Proof.
    induction ps as [|p rest IH]; intros qs create obj obj' Hs Hr Hn H.
    - destruct qs; [|cbn in Hr; congruence]. rewrite F_nil in H.
      destruct (is_map obj) eqn:Em.
      + destruct obj; try discriminate. apply set_entry_map in H as (kvs' & -> & _). reflexivity.
      + apply set_entry_nonmap in H as [-> _]; auto.
    - destruct qs as [|q qrest]; [cbn in Hr; congruence|].
      cbn in Hs; apply andb_true_iff in Hs as [Hp Hs].
      destruct (is_null obj) eqn:En; [rewrite F_null in H by auto; inv H; auto|].
      destruct obj as [t s x|kvs|es].
      + rewrite F_scalar in H by auto; discriminate.
      + rewrite F_map_step in H by auto. cbn [path_rel] in Hr. cbn [no_seq_along] in Hn.
        destruct (String.eqb (seg_name p) q) eqn:Eq.
        * apply String.eqb_eq in Eq; subst q. destruct (seg_seq p) eqn:Esq; [congruence|].
          destruct (find_field (seg_name p) kvs) as [x|] eqn:Ff.
          -- destruct (F create rest (promo create false x)) as [f'| | |] eqn:EF; cbn in H; inv H.
             cbn [no_seq_along]. rewrite (find_field_set_first_same _ _ _ x) by auto.
             apply (IH qrest create (promo create false x) f'); auto. apply no_seq_promo; auto.
          -- rewrite orb_false_r in H. destruct create; cbn [negb] in H.
             ++ destruct (F true rest (Map [])) as [f'| | |] eqn:EF; cbn in H; inv H.
                cbn [no_seq_along]. rewrite find_field_app_new, Ff, String.eqb_refl.
                apply (IH qrest true (Map []) f'); auto. apply no_seq_empty_map.
             ++ inv H. cbn [no_seq_along]. rewrite Ff. reflexivity.
        * apply String.eqb_neq in Eq.
          assert (Hsame : forall kvs', find_field q kvs' = find_field q kvs ->
                                       no_seq_along (q :: qrest) (Map kvs') = true).
          { intros kvs' E. cbn [no_seq_along]. rewrite E. exact Hn. }
          destruct (find_field (seg_name p) kvs) as [x|] eqn:Ff.
          -- match type of H with (do f' <- ?X; _) = _ => destruct X as [f'| | |] end; cbn in H; inv H.
             apply Hsame. apply find_field_set_first_other. intros E3; apply Eq; auto.
          -- destruct (negb create || seg_seq p); [inv H; apply Hsame; reflexivity|].
             match type of H with (do f' <- ?X; _) = _ => destruct X as [f'| | |] end; cbn in H; inv H.
             apply Hsame. rewrite find_field_app_new.
             destruct (find_field q kvs); [reflexivity|].
             destruct (String.eqb (seg_name p) q) eqn:E2; [apply String.eqb_eq in E2; congruence|reflexivity].
      + discriminate.
  Qed.

  (* a field spec whose path IS the read path adds (k,v) there when it reaches it, else changes nothing *)
  Lemma F_hit : forall ps qs create obj obj',
    forallb seg_ok ps = true -> path_rel ps qs = RExact ->
    F create ps obj = Ok obj' ->
    labels_at qs obj' = if reach create qs obj then upd k v (labels_at qs obj) else labels_at qs obj.
  Proof.
    induction ps as [|p rest IH]; intros qs create obj obj' Hs Hr H.
    - destruct qs; [|discriminate]. rewrite F_nil in H. cbn [reach].
      destruct (is_map obj) eqn:Em.
      + destruct obj; try discriminate. apply set_entry_map in H as (kvs' & -> & E). exact E.
      + apply set_entry_nonmap in H as [-> _]; auto.
    - destruct qs as [|q qrest]; [discriminate|].
      cbn in Hs; apply andb_true_iff in Hs as [Hp Hs].
      destruct (is_null obj) eqn:En.
      { rewrite F_null in H by auto; inv H. destruct obj'; try discriminate. reflexivity. }
      destruct obj as [t s x|kvs|es].
      + rewrite F_scalar in H by auto; discriminate.
      + rewrite F_map_step in H by auto. cbn [path_rel] in Hr.
        destruct (String.eqb (seg_name p) q) eqn:Eq; [|discriminate].
        apply String.eqb_eq in Eq; subst q. destruct (seg_seq p) eqn:Esq; [discriminate|].
        cbn [reach]. rewrite labels_at_cons.
        destruct (find_field (seg_name p) kvs) as [x|] eqn:Ff.
        * destruct (F create rest (promo create false x)) as [f'| | |] eqn:EF; cbn in H; inv H.
          rewrite labels_at_cons, (find_field_set_first_same _ _ _ x) by auto.
          rewrite (IH _ _ _ _ Hs Hr EF). rewrite <- promo_eq. rewrite labels_at_promo. reflexivity.
        * rewrite orb_false_r in H. destruct create; cbn [negb] in H.
          -- destruct (F true rest (Map [])) as [f'| | |] eqn:EF; cbn in H; inv H.
             rewrite labels_at_cons, find_field_app_new, Ff, String.eqb_refl.
             rewrite (IH _ _ _ _ Hs Hr EF). rewrite reach_empty_map, labels_at_empty_map. reflexivity.
          -- inv H. rewrite labels_at_cons, Ff. reflexivity.
      + apply F_seq in H as [es' ->]. reflexivity.
  Qed.

  (* with create=true a mapping at the top is always reached (unless the filter fails or meets a sequence) *)
  Lemma reach_create : forall ps qs obj obj',
    forallb seg_ok ps = true -> path_rel ps qs = RExact -> no_seq_along qs obj = true ->
    is_map obj = true -> F true ps obj = Ok obj' -> reach true qs obj = true.
  Proof.
    induction ps as [|p rest IH]; intros qs obj obj' Hs Hr Hn Hm H.
    - destruct qs; [|discriminate]. exact Hm.
    - destruct qs as [|q qrest]; [discriminate|].
      cbn in Hs; apply andb_true_iff in Hs as [Hp Hs].
      destruct obj as [|kvs|]; try discriminate.
      rewrite F_map_step in H by auto. cbn [path_rel] in Hr. cbn [no_seq_along] in Hn.
      destruct (String.eqb (seg_name p) q) eqn:Eq; [|discriminate].
      apply String.eqb_eq in Eq; subst q. destruct (seg_seq p) eqn:Esq; [discriminate|].
      cbn [reach]. destruct (find_field (seg_name p) kvs) as [x|] eqn:Ff; [|reflexivity].
      destruct (F true rest (promo true false x)) as [f'| | |] eqn:EF; cbn in H; inv H.
      rewrite <- promo_eq. apply (IH qrest (promo true false x) f'); auto.
      + apply no_seq_promo; auto.
      + rewrite promo_eq. cbn [andb]. destruct (is_null x) eqn:Enx; [reflexivity|].
        destruct x as [t s y| |es]; [|reflexivity|destruct qrest; cbn in Hn; discriminate].
        rewrite promo_eq in EF. cbn [andb] in EF. rewrite Enx in EF.
        destruct rest.
        * rewrite F_nil in EF. unfold set_entry, set_field in EF. cbn [is_null andb] in EF.
          change (is_null (Scalar t s y)) with (is_null (Scalar t s y)) in Enx.
          cbn in EF. cbn in Enx. rewrite Enx in EF. discriminate.
        * rewrite F_scalar in EF by auto. discriminate.
  Qed.
End F.

(* ------------------------------------------------------------------ *)
(* field-spec lists: one pass per key, all keys                         *)
(* ------------------------------------------------------------------ *)

Definition row_path (fs : fieldspec) : list string := path_splitter (fs_path fs).

Definition row_ok (qs : list string) (fs : fieldspec) : bool :=
  forallb seg_ok (row_path fs) &&
  negb (rel_eqb (path_rel (row_path fs) qs) RBad) &&
  rel_eqb (path_rel (row_path fs) ["kind"]) RDiverge &&
  rel_eqb (path_rel (row_path fs) ["apiVersion"]) RDiverge.

Definition gvk_same (obj obj' : node) : Prop :=
  get_at ["kind"] obj' = get_at ["kind"] obj /\ get_at ["apiVersion"] obj' = get_at ["apiVersion"] obj.

Lemma rel_eqb_eq a b : rel_eqb a b = true <-> a = b.
Proof. destruct a, b; cbn; split; congruence. Qed.

Lemma map_field_value_get_at f obj : map_field_value f obj = get_at [f] obj.
Proof. destruct obj as [| kvs |]; cbn; try reflexivity. destruct (find_field f kvs); reflexivity. Qed.

Lemma gvk_same_match fs obj obj' : gvk_same obj obj' -> is_match_gvk fs obj' = is_match_gvk fs obj.
Proof.
  intros [Hk Ha]. unfold is_match_gvk, obj_kind, obj_api_version.
  rewrite !map_field_value_get_at, Hk, Ha. reflexivity.
Qed.

Lemma gvk_same_refl obj : gvk_same obj obj.
Proof. split; reflexivity. Qed.

Lemma gvk_same_trans a b c : gvk_same a b -> gvk_same b c -> gvk_same a c.
Proof. intros [H1 H2] [H3 H4]; split; congruence. Qed.

Lemma gvk_same_kind obj obj' : gvk_same obj obj' -> obj_kind obj' = obj_kind obj.
Proof. intros [Hk _]. unfold obj_kind. rewrite !map_field_value_get_at, Hk. reflexivity. Qed.

Section Rows.
  Variable nonstr : string -> bool.
  Variables k v : string.
  Notation A := (fs_apply (Some KMap) TOther (set_entry nonstr k v)).
  Notation P := (key_pass nonstr).

  Definition exact_match (qs : list string) (obj : node) (fs : fieldspec) : bool :=
    is_match_gvk fs obj && rel_eqb (path_rel (row_path fs) qs) RExact.

  Lemma row_effect qs fs obj obj' :
    (is_match_gvk fs obj = true -> row_ok qs fs = true) ->
    A fs obj = Ok obj' ->
    gvk_same obj obj' /\ (is_map obj = true -> is_map obj' = true) /\
    (no_seq_along qs obj = true -> no_seq_along qs obj' = true) /\
    labels_at qs obj' =
      (if exact_match qs obj fs && reach (fs_create fs) qs obj
       then upd k v (labels_at qs obj) else labels_at qs obj) /\
    (exact_match qs obj fs = false -> get_at qs obj' = get_at qs obj) /\
    (exact_match qs obj fs = true -> fs_create fs = true -> is_map obj = true ->
     no_seq_along qs obj = true -> reach true qs obj = true).
  Proof.
    intros Hok H. unfold fs_apply in H. unfold exact_match.
    destruct (is_match_gvk fs obj) eqn:Em.
    2:{ inv H. cbn [andb]. repeat split; auto; discriminate. }
    specialize (Hok eq_refl). unfold row_ok in Hok.
    apply andb_true_iff in Hok as [Hok Hav]. apply andb_true_iff in Hok as [Hok Hkd].
    apply andb_true_iff in Hok as [Hseg Hbad].
    apply rel_eqb_eq in Hav, Hkd. fold (row_path fs) in H.
    assert (Hnb : path_rel (row_path fs) qs <> RBad).
    { intros E. rewrite E in Hbad. discriminate. }
    split; [|split; [|split; [|split; [|split]]]].
    - split; eapply F_frame; eauto.
    - intros Hm. destruct obj; try discriminate. eapply F_map_is_map; eauto.
    - intros Hn. eapply F_noseq; eauto.
    - cbn [andb]. destruct (path_rel (row_path fs) qs) eqn:Er; cbn [rel_eqb].
      + eapply F_hit; eauto.
      + unfold labels_at. cbn [andb]. erewrite F_frame; eauto.
      + congruence.
    - cbn [andb]. destruct (path_rel (row_path fs) qs) eqn:Er; cbn [rel_eqb]; intros Hx; try discriminate; try congruence.
      eapply F_frame; eauto.
    - cbn [andb]. intros Hex Hc Hm Hn. apply rel_eqb_eq in Hex. rewrite Hc in H.
      eapply reach_create; eauto.
  Qed.

  Definition rows_okP (qs : list string) (fss : list fieldspec) (obj : node) : Prop :=
    forall fs, In fs fss -> is_match_gvk fs obj = true -> row_ok qs fs = true.

  Lemma exact_match_same qs obj obj' fs : gvk_same obj obj' -> exact_match qs obj' fs = exact_match qs obj fs.
  Proof. intros H. unfold exact_match. rewrite (gvk_same_match _ _ _ H). reflexivity. Qed.

  Lemma pass_effect qs : forall fss obj obj',
    rows_okP qs fss obj -> P fss (k, v) obj = Ok obj' ->
    gvk_same obj obj' /\ (is_map obj = true -> is_map obj' = true) /\
    (no_seq_along qs obj = true -> no_seq_along qs obj' = true) /\
    (labels_at qs obj' = upd k v (labels_at qs obj) \/
      (labels_at qs obj' = labels_at qs obj /\
        (labels_at qs obj = [] \/ forall fs, In fs fss -> exact_match qs obj fs = false))) /\
    ((forall fs, In fs fss -> exact_match qs obj fs = false) -> get_at qs obj' = get_at qs obj) /\
    (is_map obj = true -> no_seq_along qs obj = true ->
     (exists fs, In fs fss /\ exact_match qs obj fs = true /\ fs_create fs = true) ->
     labels_at qs obj' = upd k v (labels_at qs obj)).
  Proof.
    unfold key_pass. cbn [fst snd].
    induction fss as [|fs t IH]; intros obj obj' Hok H.
    - cbn in H. inv H. repeat split; auto.
      + right. split; auto. right. intros fs [].
      + intros _ _ (fs & [] & _).
    - cbn [fsslice_apply] in H.
      destruct (A fs obj) as [o1| | |] eqn:EA; cbn [bind] in H; try discriminate.
      assert (Hok1 : is_match_gvk fs obj = true -> row_ok qs fs = true) by (apply Hok; left; auto).
      destruct (row_effect qs fs obj o1 Hok1 EA) as (Hg1 & Hm1 & Hn1 & Hl1 & Hf1 & Hr1).
      assert (Hokt : rows_okP qs t o1).
      { intros fs' Hin Hma. apply Hok; [right; auto|]. rewrite <- (gvk_same_match _ _ _ Hg1). auto. }
      destruct (IH o1 obj' Hokt H) as (Hg2 & Hm2 & Hn2 & Hl2 & Hf2 & Hr2).
      split; [eapply gvk_same_trans; eauto|].
      split; [auto|]. split; [auto|].
      assert (Hcase : labels_at qs o1 = upd k v (labels_at qs obj) \/
                      (labels_at qs o1 = labels_at qs obj /\
                       (labels_at qs obj = [] \/ exact_match qs obj fs = false))).
      { rewrite Hl1. destruct (exact_match qs obj fs) eqn:Ex; cbn [andb]; [|right; auto].
        destruct (reach (fs_create fs) qs obj) eqn:Er; [left; auto|].
        right; split; auto. left.
        destruct (labels_at qs obj) eqn:El; [reflexivity|].
        rewrite (reach_of_labels (fs_create fs) qs obj) in Er; [discriminate|congruence]. }
      split; [|split].
      + destruct Hcase as [Hc|[Hc Hc2]].
        * left. destruct Hl2 as [Hl2|[Hl2 _]]; rewrite Hl2, Hc; [apply upd_idem|reflexivity].
        * destruct Hl2 as [Hl2|[Hl2 Hl3]].
          -- left. rewrite Hl2, Hc. reflexivity.
          -- right. split; [congruence|].
             destruct Hc2 as [Hc2|Hc2]; [left; auto|].
             destruct Hl3 as [Hl3|Hl3]; [left; congruence|].
             right. intros fs' [<-|Hin]; auto.
             rewrite <- (exact_match_same qs obj o1 fs' Hg1). auto.
      + intros Hall. rewrite Hf2, Hf1; auto.
        * apply Hall; left; auto.
        * intros fs' Hin. rewrite (exact_match_same qs obj o1 fs' Hg1). apply Hall; right; auto.
      + intros Hm Hn (fs' & [<-|Hin] & Hex & Hcr).
        * assert (E1 : labels_at qs o1 = upd k v (labels_at qs obj)).
          { rewrite Hl1, Hex, Hcr, (Hr1 Hex Hcr Hm Hn). reflexivity. }
          destruct Hl2 as [Hl2|[Hl2 _]]; rewrite Hl2, E1; [apply upd_idem|reflexivity].
        * assert (E2 : labels_at qs obj' = upd k v (labels_at qs o1)).
          { apply Hr2; auto. exists fs'. repeat split; auto.
            rewrite (exact_match_same qs obj o1 fs' Hg1). auto. }
          rewrite E2. destruct Hcase as [Hc|[Hc _]]; rewrite Hc; [apply upd_idem|reflexivity].
  Qed.
End Rows.

Section Keys.
  Variable nonstr : string -> bool.
  Notation KP := (keys_pass nonstr).

  Definition has_exact (qs : list string) (fss : list fieldspec) (obj : node) : bool :=
    existsb (exact_match qs obj) fss.
  Definition has_create (qs : list string) (fss : list fieldspec) (obj : node) : bool :=
    existsb (fun fs => exact_match qs obj fs && fs_create fs) fss.

  Lemma has_exact_false qs fss obj :
    has_exact qs fss obj = false -> forall fs, In fs fss -> exact_match qs obj fs = false.
  Proof.
    unfold has_exact. intros H fs Hin.
    destruct (exact_match qs obj fs) eqn:E; [|reflexivity].
    assert (existsb (exact_match qs obj) fss = true) by (apply existsb_exists; eauto). congruence.
  Qed.

  Lemma has_create_true qs fss obj :
    has_create qs fss obj = true ->
    exists fs, In fs fss /\ exact_match qs obj fs = true /\ fs_create fs = true.
  Proof.
    unfold has_create. intros H. apply existsb_exists in H as (fs & Hin & H).
    apply andb_true_iff in H as [H1 H2]. eauto.
  Qed.

  Lemma has_exact_same qs fss obj obj' : gvk_same obj obj' -> has_exact qs fss obj' = has_exact qs fss obj.
  Proof.
    intros H. unfold has_exact. induction fss as [|fs t IH]; cbn; [reflexivity|].
    rewrite IH, (exact_match_same qs obj obj' fs H). reflexivity.
  Qed.

  Lemma has_create_same qs fss obj obj' : gvk_same obj obj' -> has_create qs fss obj' = has_create qs fss obj.
  Proof.
    intros H. unfold has_create. induction fss as [|fs t IH]; cbn; [reflexivity|].
    rewrite IH, (exact_match_same qs obj obj' fs H). reflexivity.
  Qed.

  Lemma rows_okP_same qs fss obj obj' : gvk_same obj obj' -> rows_okP qs fss obj -> rows_okP qs fss obj'.
  Proof. intros H Hok fs Hin Hm. apply Hok; auto. rewrite <- (gvk_same_match _ _ _ H). auto. Qed.

  (* no field spec matching the object ends at the read path: nothing read there changes *)
  Lemma keys_frame qs fss : forall kvs obj obj',
    rows_okP qs fss obj -> has_exact qs fss obj = false -> KP fss kvs obj = Ok obj' ->
    get_at qs obj' = get_at qs obj /\ gvk_same obj obj'.
  Proof.
    induction kvs as [|[k v] t IH]; intros obj obj' Hok Hex H.
    - inv H. split; [reflexivity|apply gvk_same_refl].
    - cbn [keys_pass] in H. destruct (key_pass nonstr fss (k, v) obj) as [o1| | |] eqn:EP; cbn [bind] in H; try discriminate.
      destruct (pass_effect nonstr k v qs fss obj o1 Hok EP) as (Hg & _ & _ & _ & Hf & _).
      destruct (IH o1 obj') as [E1 E2]; auto.
      + eapply rows_okP_same; eauto.
      + rewrite (has_exact_same qs fss obj o1 Hg). auto.
      + split; [|eapply gvk_same_trans; eauto].
        rewrite E1. apply Hf. apply has_exact_false; auto.
  Qed.

  (* a matching create=true field spec ends at the read path: the labels arrive there, in key order *)
  Lemma keys_hit qs fss : forall kvs obj obj',
    rows_okP qs fss obj -> is_map obj = true -> no_seq_along qs obj = true ->
    has_create qs fss obj = true -> KP fss kvs obj = Ok obj' ->
    labels_at qs obj' = upd_all kvs (labels_at qs obj).
  Proof.
    induction kvs as [|[k v] t IH]; intros obj obj' Hok Hm Hn Hc H.
    - inv H. reflexivity.
    - cbn [keys_pass] in H. destruct (key_pass nonstr fss (k, v) obj) as [o1| | |] eqn:EP; cbn [bind] in H; try discriminate.
      destruct (pass_effect nonstr k v qs fss obj o1 Hok EP) as (Hg & Hm1 & Hn1 & _ & _ & Hr).
      rewrite (IH o1 obj'); auto.
      + unfold upd_all. cbn [fold_left fst snd]. f_equal. apply Hr; auto. apply has_create_true; auto.
      + eapply rows_okP_same; eauto.
      + rewrite (has_create_same qs fss obj o1 Hg). auto.
  Qed.

  Theorem selects_preserved_generic sp tp fss : forall kvs s w s' w',
    rows_okP sp fss s -> rows_okP tp fss w -> is_map w = true -> no_seq_along tp w = true ->
    (has_exact sp fss s = true -> has_create tp fss w = true) ->
    (has_exact sp fss s = false ->
     has_exact tp fss w = false \/ forall kv, In kv kvs -> compat (fst kv) (snd kv) (labels_at sp s)) ->
    sub (labels_at sp s) (labels_at tp w) ->
    KP fss kvs s = Ok s' -> KP fss kvs w = Ok w' ->
    sub (labels_at sp s') (labels_at tp w').
  Proof.
    induction kvs as [|[k v] t IH]; intros s w s' w' Hoks Hokw Hm Hn Himp Hcomp Hsub Hs Hw.
    - inv Hs. inv Hw. auto.
    - cbn [keys_pass] in Hs, Hw.
      destruct (key_pass nonstr fss (k, v) s) as [s1| | |] eqn:EPs; cbn [bind] in Hs; try discriminate.
      destruct (key_pass nonstr fss (k, v) w) as [w1| | |] eqn:EPw; cbn [bind] in Hw; try discriminate.
      destruct (pass_effect nonstr k v sp fss s s1 Hoks EPs) as (Hgs & _ & _ & Hls & Hfs & _).
      destruct (pass_effect nonstr k v tp fss w w1 Hokw EPw) as (Hgw & Hmw & Hnw & Hlw & Hfw & Hrw).
      apply (IH s1 w1 s' w'); auto.
      + eapply rows_okP_same; eauto.
      + eapply rows_okP_same; eauto.
      + rewrite (has_exact_same sp fss s s1 Hgs), (has_create_same tp fss w w1 Hgw). auto.
      + rewrite (has_exact_same sp fss s s1 Hgs), (has_exact_same tp fss w w1 Hgw). intros Hex.
        destruct (Hcomp Hex) as [Hc|Hc]; [left; auto|right]. intros kv Hin.
        unfold labels_at. rewrite (Hfs (has_exact_false _ _ _ Hex)). apply Hc; auto. right; auto.
      + destruct (has_exact sp fss s) eqn:Hex.
        * (* a selector row matches: the template receives the label too *)
          assert (Ew : labels_at tp w1 = upd k v (labels_at tp w)).
          { apply Hrw; auto. apply has_create_true; auto. }
          rewrite Ew. destruct Hls as [Hls|[Hls [Hnil|Hno]]].
          -- rewrite Hls. apply sub_upd_both; auto.
          -- rewrite Hls, Hnil. apply sub_nil.
          -- exfalso. unfold has_exact in Hex. apply existsb_exists in Hex as (fs & Hin & Hx).
             rewrite (Hno fs Hin) in Hx. discriminate.
        * (* no selector row: the selector is untouched; the key is compatible with it *)
          assert (Es : labels_at sp s1 = labels_at sp s).
          { unfold labels_at. rewrite (Hfs (has_exact_false _ _ _ Hex)). reflexivity. }
          rewrite Es. destruct (Hcomp eq_refl) as [Hc|Hc].
          -- unfold labels_at at 2. rewrite (Hfw (has_exact_false _ _ _ Hc)). exact Hsub.
          -- destruct Hlw as [Hlw|[Hlw _]]; rewrite Hlw; auto.
             apply sub_upd_right; auto.
             apply (Hc (k, v)). left; auto.
  Qed.
End Keys.
