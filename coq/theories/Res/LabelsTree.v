(* C08: every output resource of a (tree-level) build is the image of an input resource under the
   directive chain from its layer up to the root - the link between [build] (what the correspondence
   runs) and [apply_chain] (what the chain theorems talk about). *)
From KV Require Import Res.Labels Res.LabelsProofs.

Section Tree.
  Variable nonstr : string -> bool.
  Variable tc : tconfig.

  Lemma mapM_F2 {A B} (f : A -> res B) : forall l l', mapM f l = Ok l' -> Forall2 (fun a b => f a = Ok b) l l'.
  Proof.
    induction l as [|a t IH]; intros l' H; cbn in H.
    - inversion H; constructor.
    - destruct (f a) as [b| | |] eqn:E; cbn in H; try discriminate.
      destruct (mapM f t) as [t'| | |] eqn:E2; cbn in H; try discriminate. inversion H; subst.
      constructor; auto.
  Qed.

  Lemma F2_impl {A B} (P Q : A -> B -> Prop) l l' :
    (forall a b, P a b -> Q a b) -> Forall2 P l l' -> Forall2 Q l l'.
  Proof. intros H HF. induction HF; constructor; auto. Qed.

  Lemma F2_comp {A} (P Q R : A -> A -> Prop) l1 l2 l3 :
    (forall a b c, P a b -> Q b c -> R a c) -> Forall2 P l1 l2 -> Forall2 Q l2 l3 -> Forall2 R l1 l3.
  Proof.
    intros H HF. revert l3. induction HF; intros l3 HG; inversion HG; subst; constructor; eauto.
  Qed.

  Lemma F2_refl {A} (P : A -> A -> Prop) l : (forall a, P a a) -> Forall2 P l l.
  Proof. intros H. induction l; constructor; auto. Qed.

  Lemma run_al_pointwise labels fss rs rs' :
    run_label_transformer nonstr labels fss rs = Ok rs' ->
    Forall2 (fun st st' => run_label_transformer nonstr labels fss [st] = Ok [st']) rs rs'.
  Proof.
    unfold run_label_transformer. destruct labels as [|kv0 rest].
    - intros H; inversion H; subst. apply F2_refl. reflexivity.
    - intros H. apply mapM_F2 in H. eapply F2_impl; [|exact H].
      intros a b Hab. cbn [mapM]. rewrite Hab. reflexivity.
  Qed.

  Lemma run_transformers_pointwise : forall lts rs rs',
    run_transformers nonstr lts rs = Ok rs' ->
    Forall2 (fun st st' => run_transformers nonstr lts [st] = Ok [st']) rs rs'.
  Proof.
    induction lts as [|[p fss] t IH]; intros rs rs' H; cbn [run_transformers] in *.
    - inversion H; subst. apply F2_refl. reflexivity.
    - destruct (run_label_transformer nonstr p fss rs) as [rs1| | |] eqn:E1; cbn [bind] in H; try discriminate.
      apply run_al_pointwise in E1. apply IH in H.
      eapply F2_comp; [|exact E1|exact H]. intros a b c Hab Hbc. cbn beta in *. rewrite Hab. cbn [bind]. exact Hbc.
  Qed.

  Lemma apply_dirs_pointwise d rs rs' :
    apply_dirs nonstr tc d rs = Ok rs' ->
    Forall2 (fun st st' => apply_dirs nonstr tc d [st] = Ok [st']) rs rs'.
  Proof.
    unfold apply_dirs. intros H.
    destruct (label_transformers tc d) as [lts| | |]; cbn [bind] in *; try discriminate.
    destruct (run_transformers nonstr lts rs) as [rs1| | |] eqn:E1; cbn [bind] in H; try discriminate.
    apply run_transformers_pointwise in E1. apply run_al_pointwise in H.
    eapply F2_comp; [|exact E1|exact H]. intros a b c Hab Hbc. cbn beta in *. rewrite Hab. cbn [bind]. exact Hbc.
  Qed.

  (* r is a resource of a file of some layer of the tree; ds = the directives from that layer up to the root *)
  Inductive reaches : layer -> node -> list dirs -> Prop :=
  | reach_own d own bases r : In r own -> reaches (Layer d own bases) r [d]
  | reach_base d own bases b r ch : In b bases -> reaches b r ch -> reaches (Layer d own bases) r (ch ++ [d])%list.

  Lemma apply_chain_snoc : forall ch st st1 st2 d,
    apply_chain nonstr tc ch st = Ok st1 -> apply_dirs nonstr tc d [st1] = Ok [st2] ->
    apply_chain nonstr tc (ch ++ [d]) st = Ok st2.
  Proof.
    induction ch as [|d0 t IH]; intros st st1 st2 d H1 H2; cbn [app apply_chain] in *.
    - inversion H1; subst. rewrite H2. reflexivity.
    - destruct (apply_dirs nonstr tc d0 [st]) as [l| | |]; cbn [bind] in *; try discriminate.
      destruct l as [|o [|? ?]]; try discriminate. eapply IH; eauto.
  Qed.

  Fixpoint layer_size (l : layer) : nat :=
    match l with
    | Layer _ _ bases => S (fold_right (fun b acc => layer_size b + acc) 0 bases)
    end.

  Theorem build_is_chain : forall n l out,
    layer_size l <= n ->
    accumulate nonstr tc l = Ok out ->
    Forall (fun st' => exists r ch, reaches l r ch /\ apply_chain nonstr tc ch r = Ok st') out.
  Proof.
    induction n as [|n IH]; intros l out Hn H; [destruct l; cbn in Hn; lia|].
    destruct l as [d own bases]. cbn [accumulate] in H.
    match type of H with (do bs <- ?X; _) = _ => destruct X as [bs| | |] eqn:EB end; cbn [bind] in H; try discriminate.
    (* the accumulated bases: each element is a chain image w.r.t. its base *)
    assert (HB : Forall (fun st => exists b r ch, In b bases /\ reaches b r ch /\
                                    apply_chain nonstr tc ch r = Ok st) bs).
    { cbn [layer_size] in Hn. clear H. revert bs EB Hn. induction bases as [|b t IHt]; intros bs EB Hn.
      - inversion EB; constructor.
      - destruct (accumulate nonstr tc b) as [x| | |] eqn:Ex; cbn [bind] in EB; try discriminate.
        match type of EB with (do y <- ?Y; _) = _ => destruct Y as [y| | |] eqn:Ey end; cbn [bind] in EB; try discriminate.
        inversion EB; subst. cbn [fold_right] in Hn. apply Forall_app. split.
        + assert (Hx := IH b x ltac:(lia) Ex). eapply Forall_impl; [|exact Hx].
          intros st (r & ch & Hr & Hc). exists b, r, ch. split; [left; reflexivity|auto].
        + assert (Hy := IHt y eq_refl ltac:(lia)). eapply Forall_impl; [|exact Hy].
          intros st (b' & r & ch & Hb & Hr & Hc). exists b', r, ch. split; [right; exact Hb|auto]. }
    apply apply_dirs_pointwise in H.
    (* inputs of this layer's transformers *)
    assert (HI : Forall (fun st => (exists b r ch, In b bases /\ reaches b r ch /\
                                      apply_chain nonstr tc ch r = Ok st) \/
                                   (exists r, In r own /\ st = r))
                        (bs ++ own)).
    { apply Forall_app. split.
      - eapply Forall_impl; [|exact HB]. intros; left; auto.
      - apply Forall_forall. intros st Hin. right. exists st; auto. }
    clear HB EB. revert HI. induction H as [|st st' l1 l2 Hst HF IHF]; intros HI; [constructor|].
    inversion HI as [|? ? Hhd Htl]; subst. constructor; [|apply IHF; exact Htl].
    destruct Hhd as [(b & r & ch & Hb & Hr & Hc)|(r & Hr & ->)].
    - exists r, (ch ++ [d])%list. split; [eapply reach_base; eauto|eapply apply_chain_snoc; eauto].
    - exists r, [d]. split; [apply reach_own; exact Hr|]. cbn [apply_chain]. rewrite Hst. reflexivity.
  Qed.

  Corollary build_outputs_are_chain_images : forall l out,
    accumulate nonstr tc l = Ok out ->
    Forall (fun st' => exists r ch, reaches l r ch /\ apply_chain nonstr tc ch r = Ok st') out.
  Proof. intros l out. apply (build_is_chain (layer_size l)). apply le_n. Qed.
End Tree.
