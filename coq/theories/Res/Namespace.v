(* Model of
     api/filters/namespace/namespace.go            (ns_filter: field-spec pruning, metaNamespaceHack guarded
                                                    by IsClusterScoped, roleBindingHack modes, data-driven specs),
     api/internal/builtins/NamespaceTransformer.go (ns_transform: per resource filter + ID collision check),
     kyaml/openapi IsNamespaceScoped / IsCertainlyClusterScoped on the default built-in schema
                                                   (cluster_scoped, over a scope table = Gen/NsScope.v),
     kyaml/resid: ParseGroupVersion, Gvk.ApiVersion, ResId.EffectiveNamespace / Equals (cur_id, id_eqb),
     RNode.GetName / GetNamespace (meta_str),
     resmap AppendAll ID check and the way layers compose (accumulate_ns).
   Definitions only; proofs live in Res/NamespaceProofs.v. *)
From KV Require Export Yaml.FieldSpec.

(* ---------- scope of a type ---------- *)
Definition scope_table := list (string * string * bool).   (* apiVersion, kind, namespace-scoped? *)

Fixpoint scope_lookup (t : scope_table) (av kind : string) : option bool :=
  match t with
  | [] => None
  | (a, k, b) :: rest => if String.eqb a av && String.eqb k kind then Some b else scope_lookup rest av kind
  end.

(* openapi.IsCertainlyClusterScoped: found and not namespace-scoped; unknown types count as namespaced *)
Definition certainly_cluster_scoped (t : scope_table) (av kind : string) : bool :=
  match scope_lookup t av kind with
  | Some false => true
  | _ => false
  end.

(* Gvk.ApiVersion() *)
Definition gvk_api_version (g v : string) : string :=
  if String.eqb g "" then v else g ++ "/" ++ v.

(* resid.GvkFromNode(obj).IsClusterScoped() *)
Definition obj_cluster_scoped (t : scope_table) (obj : node) : bool :=
  let (g, v) := parse_group_version (obj_api_version obj) in
  certainly_cluster_scoped t (gvk_api_version g v) (obj_kind obj).

(* ---------- identity ---------- *)

(* RNode.getMetaStringField: "" when metadata or the field is missing / null / empty *)
Definition meta_str (f : string) (obj : node) : string :=
  match obj with
  | Map kvs =>
      match find_field "metadata" kvs with
      | Some (Map mkvs) =>
          match find_field f mkvs with
          | Some x => if is_null x then "" else node_value x
          | None => ""
          end
      | _ => ""
      end
  | _ => ""
  end.
Definition obj_name (obj : node) : string := meta_str "name" obj.
Definition obj_namespace (obj : node) : string := meta_str "namespace" obj.

(* ResId.EffectiveNamespace *)
Definition effective_ns (t : scope_table) (obj : node) : string :=
  if obj_cluster_scoped t obj then "_non_namespaceable_"
  else let ns := obj_namespace obj in
       if String.eqb ns "" || String.eqb ns "default" then "default" else ns.

(* Resource.CurId(), with the namespace already made effective: group, version, kind, name, namespace *)
Definition cur_id (t : scope_table) (obj : node) : string * string * string * string * string :=
  let (g, v) := parse_group_version (obj_api_version obj) in
  (g, v, obj_kind obj, obj_name obj, effective_ns t obj).

Definition id_eqb (a b : string * string * string * string * string) : bool :=
  let '(g, v, k, n, ns) := a in
  let '(g', v', k', n', ns') := b in
  String.eqb g g' && String.eqb v v' && String.eqb k k' && String.eqb n n' && String.eqb ns ns'.

Definition count_id (t : scope_table) (id : string * string * string * string * string) (l : list node) : nat :=
  List.length (filter (fun r => id_eqb (cur_id t r) id) l).

(* ---------- the filter ---------- *)
Inductive rb_mode := RBDefault | RBAll | RBNone | RBInvalid.

Record ns_config := mkNs {
  ns_value : string;                 (* Namespace *)
  ns_fss : list fieldspec;           (* FsSlice *)
  ns_unset_only : bool;              (* UnsetOnly *)
  ns_mode : rb_mode                  (* SetRoleBindingSubjects *)
}.

Definition is_role_binding (k : string) : bool :=
  String.eqb k "RoleBinding" || String.eqb k "ClusterRoleBinding".

(* filtersutil.hasExistingValue(node, "") on the node a field spec ends at *)
Definition has_existing_value (n : node) : bool :=
  match n with
  | Scalar t _ v => if is_null n then false else negb (String.eqb v "")
  | Map kvs =>
      match kvs with
      | [] => false
      | _ => match find_field "" kvs with
             | Some x => (match x with
                          | Scalar _ _ v => negb (is_null x) && negb (String.eqb v "")
                          | _ => false
                          end)
             | None => false
             end
      end
  | Seq _ => false
  end.

(* Filter.fieldSetter(): SetEntry("", ns, "!!str") or SetEntryIfEmpty *)
Definition ns_setter (c : ns_config) (n : node) : res node :=
  if ns_unset_only c && has_existing_value n then Ok n
  else set_scalar (Some (Scalar TStr SPlain (ns_value c))) n.

(* removeUnneededMetaFieldSpecs *)
Definition prune_meta (av : string) (fss : list fieldspec) : list fieldspec :=
  filter (fun fs => negb (String.eqb (fs_path fs) "metadata/namespace") &&
                    negb (negb (String.eqb av "v1") && String.eqb (fs_path fs) "metadata/name")) fss.

(* removeRoleBindingSubjectFieldSpecs *)
Definition prune_subjects (fss : list fieldspec) : list fieldspec :=
  filter (fun fs => negb (is_role_binding (fs_kind fs) && String.eqb (fs_path fs) "subjects/namespace")) fss.

(* one subject element under setSubjectsNamedDefault (field = "name", value = "default")
   or setServiceAccountNamespaces (field = "kind", value = "ServiceAccount") *)
Definition visit_subject (c : ns_config) (field value : string) (o : node) : res node :=
  do r <- walk None [PKey field] (fun x => Ok (x, x)) o;       (* o.Pipe(Lookup(field)) *)
  match snd r with
  | None => Ok o                                               (* field missing: nothing *)
  | Some x =>
      if is_null x then Ok o                                   (* Match never matches null *)
      else match x with
           | Scalar _ _ v =>
               if String.eqb v value
               then (* setNamespaceField: LookupCreate(ScalarNode, "namespace") then the setter *)
                    do r2 <- walk (Some KScalar) [PKey "namespace"]
                               (fun n => do n' <- ns_setter c n; Ok (n', tt)) o;
                    Ok (fst r2)
               else Ok o
           | _ => Err                                          (* Match on a non-scalar *)
           end
  end.

(* roleBindingHack *)
Definition role_binding_hack (c : ns_config) (obj : node) : res node :=
  match ns_mode c with
  | RBNone => Ok obj
  | RBInvalid => Err
  | m =>
      let '(field, value) := match m with RBAll => ("kind", "ServiceAccount") | _ => ("name", "default") end in
      do r <- walk None [PKey "subjects"]
                (fun subj =>
                   if is_null subj then Ok (subj, tt)
                   else match subj with
                        | Seq es => do es' <- mapM (visit_subject c field value) es; Ok (Seq es', tt)
                        | _ => Err                             (* VisitElements on a non-sequence *)
                        end) obj;
      Ok (fst r)
  end.

Section WithScope.
  Variable t : scope_table.

  (* Filter.run *)
  Definition ns_filter (c : ns_config) (obj : node) : res node :=
    let fss1 := prune_meta (obj_api_version obj) (ns_fss c) in
    do o1 <- (if obj_cluster_scoped t obj then Ok obj
              else fsslice_apply (Some KScalar) TNone (ns_setter c)
                     [mkFs "" "" "" "metadata/namespace" true] obj);
    if is_role_binding (obj_kind obj) then
      do o2 <- role_binding_hack c o1;
      fsslice_apply (Some KScalar) TStr (ns_setter c) (prune_subjects fss1) o2
    else
      fsslice_apply (Some KScalar) TStr (ns_setter c) fss1 o1.

  (* NamespaceTransformerPlugin.Transform: resources one after the other; after each, exactly one
     resource of the whole map may carry its current id *)
  Fixpoint ns_loop (c : ns_config) (done todo : list node) : res (list node) :=
    match todo with
    | [] => Ok done
    | r :: rest =>
        do r' <- ns_filter c r;
        if Nat.eqb (count_id t (cur_id t r') (done ++ r' :: rest)%list) 1
        then ns_loop c (done ++ [r'])%list rest
        else Err
    end.

  Definition ns_transform (c : ns_config) (rs : list node) : res (list node) :=
    if String.eqb (ns_value c) "" then Ok rs else ns_loop c [] rs.

  (* resWrangler.AppendAll: error on an already registered id *)
  Fixpoint append_all (acc l : list node) : res (list node) :=
    match l with
    | [] => Ok acc
    | r :: rest =>
        if Nat.eqb (count_id t (cur_id t r) acc) 0 then append_all (acc ++ [r])%list rest else Err
    end.

  (* a kustomization: its namespace directive ("" = none), own resources, bases (bases listed first) *)
  Inductive nlayer := NLayer (ns : string) (own : list node) (bases : list nlayer).

  Variable fss : list fieldspec.      (* tc.NameSpace *)

  Fixpoint accumulate_ns (l : nlayer) : res (list node) :=
    match l with
    | NLayer ns own bases =>
        do bs <- (fix go (bl : list nlayer) (acc : list node) : res (list node) :=
                    match bl with
                    | [] => Ok acc
                    | b :: rest => do x <- accumulate_ns b; do acc' <- append_all acc x; go rest acc'
                    end) bases [];
        do all <- append_all bs own;
        ns_transform (mkNs ns fss false RBDefault) all
    end.
End WithScope.

(* one resource through the namespace directives of its layer chain, innermost first ("" = no directive) *)
Fixpoint ns_chain (t : scope_table) (fss : list fieldspec) (ds : list string) (obj : node) : res node :=
  match ds with
  | [] => Ok obj
  | d :: rest =>
      if String.eqb d "" then ns_chain t fss rest obj
      else do o <- ns_filter t (mkNs d fss false RBDefault) obj; ns_chain t fss rest o
  end.

(* the last (outermost) non-empty directive of a chain *)
Fixpoint outermost (ds : list string) : string :=
  match ds with
  | [] => ""
  | d :: rest => let o := outermost rest in if String.eqb o "" then d else o
  end.

(* ---------- Kubernetes facts the scope table is judged against (apiVersion, kind) ---------- *)
Definition k8s_cluster_types : list (string * string) := [
  ("v1", "Namespace"); ("v1", "Node"); ("v1", "PersistentVolume");
  ("rbac.authorization.k8s.io/v1", "ClusterRole"); ("rbac.authorization.k8s.io/v1", "ClusterRoleBinding");
  ("apiextensions.k8s.io/v1", "CustomResourceDefinition"); ("apiregistration.k8s.io/v1", "APIService");
  ("storage.k8s.io/v1", "StorageClass"); ("storage.k8s.io/v1", "CSIDriver"); ("storage.k8s.io/v1", "CSINode");
  ("storage.k8s.io/v1", "VolumeAttachment"); ("scheduling.k8s.io/v1", "PriorityClass");
  ("node.k8s.io/v1", "RuntimeClass"); ("networking.k8s.io/v1", "IngressClass");
  ("admissionregistration.k8s.io/v1", "MutatingWebhookConfiguration");
  ("admissionregistration.k8s.io/v1", "ValidatingWebhookConfiguration");
  ("certificates.k8s.io/v1", "CertificateSigningRequest")
].
Definition k8s_namespaced_types : list (string * string) := [
  ("v1", "Pod"); ("v1", "ConfigMap"); ("v1", "Secret"); ("v1", "Service"); ("v1", "ServiceAccount");
  ("v1", "PersistentVolumeClaim"); ("v1", "Endpoints"); ("v1", "ReplicationController");
  ("v1", "ResourceQuota"); ("v1", "LimitRange"); ("v1", "PodTemplate"); ("v1", "Event");
  ("apps/v1", "Deployment"); ("apps/v1", "StatefulSet"); ("apps/v1", "DaemonSet"); ("apps/v1", "ReplicaSet");
  ("apps/v1", "ControllerRevision"); ("batch/v1", "Job"); ("batch/v1", "CronJob");
  ("rbac.authorization.k8s.io/v1", "Role"); ("rbac.authorization.k8s.io/v1", "RoleBinding");
  ("networking.k8s.io/v1", "Ingress"); ("networking.k8s.io/v1", "NetworkPolicy");
  ("policy/v1", "PodDisruptionBudget"); ("autoscaling/v1", "HorizontalPodAutoscaler");
  ("coordination.k8s.io/v1", "Lease"); ("discovery.k8s.io/v1", "EndpointSlice")
].

(* the table answers every listed type the way Kubernetes does, and is a function *)
Fixpoint scope_keys_nodup (t : scope_table) : bool :=
  match t with
  | [] => true
  | (a, k, _) :: rest =>
      match scope_lookup rest a k with None => scope_keys_nodup rest | Some _ => false end
  end.

Definition scope_table_total (t : scope_table) : bool :=
  forallb (fun e : string * string =>
             match scope_lookup t (fst e) (snd e) with Some false => true | _ => false end) k8s_cluster_types &&
  forallb (fun e : string * string =>
             match scope_lookup t (fst e) (snd e) with Some true => true | _ => false end) k8s_namespaced_types &&
  scope_keys_nodup t.
