(* The Gallina regexp parser (Base/RegexParse.v) on the pattern image.IsImageMatched builds:
   for every ASCII entry name t, re_parse ("^" ++ QuoteMeta t ++ suffix) succeeds and its result has
   the normal form of [img_re t].  Hence C10_image_exact without a hypothesis about Go's parser —
   the tie to regexp/syntax is now the comparison of re_parse with Go's AST in the correspondence. *)
From KV Require Import Base.Regex Base.RegexProofs Base.RegexParse Res.Image Res.ImageProofs Res.ImageNormProofs.

Ltac inv H := inversion H; subst; clear H.

(* ---------- the fixed suffix ---------- *)
Definition suffix_items : list re :=
  [Opt (Group (cat_of_list [Chr 58; Star (Cls tag_cls)]));
   Opt (Group (cat_of_list (chars "@sha256:" ++ [Star (Cls tag_cls)])));
   Eol].

Lemma suffix_parse k : parse_seq (12 + k) img_suffix = Some (suffix_items, "").
Proof. vm_compute. reflexivity. Qed.

(* ---------- one literal byte ---------- *)
Lemma not_meta_tests c : is_meta c = false ->
  let n := N_of_ascii c in
  (n =? 41)%N = false /\ (n =? 94)%N = false /\ (n =? 36)%N = false /\ (n =? 46)%N = false /\
  (n =? 92)%N = false /\ (n =? 91)%N = false /\ (n =? 40)%N = false /\ is_postfix c = false.
Proof.
  unfold is_meta, is_postfix. cbn [existsb]. intros H.
  repeat (apply orb_false_iff in H; destruct H as [? H]).
  repeat split; auto. cbv zeta. apply orb_false_iff; split; [apply orb_false_iff; split|]; assumption.
Qed.

Definition no_postfix_head (s : string) : Prop :=
  exists p r, s = String p r /\ is_postfix p = false.

Lemma step_plain f c s1 :
  is_meta c = false -> is_ascii c = true -> no_postfix_head s1 ->
  parse_seq (S f) (String c s1) =
  match parse_seq f s1 with Some (l, rest) => Some (Chr (N_of_ascii c) :: l, rest) | None => None end.
Proof.
  intros Hm Ha (p & r & -> & Hp).
  destruct (not_meta_tests c Hm) as (T1 & T2 & T3 & T4 & T5 & T6 & T7 & _).
  cbn [parse_seq]. cbv zeta. rewrite T1, T2, T3, T4, T5, T6, T7, Hm, Ha. cbn [orb negb].
  cbn [fst snd]. rewrite Hp. cbn [fst snd]. rewrite Hp. reflexivity.
Qed.

Lemma step_escaped f d s2 :
  is_meta d = true -> no_postfix_head s2 ->
  parse_seq (S f) (String "\"%char (String d s2)) =
  match parse_seq f s2 with Some (l, rest) => Some (Chr (N_of_ascii d) :: l, rest) | None => None end.
Proof.
  intros Hm (p & r & -> & Hp).
  cbn [parse_seq]. cbv zeta.
  change (N_of_ascii "\"%char) with 92%N. cbn [N.eqb Pos.eqb]. rewrite Hm.
  cbn [fst snd]. rewrite Hp. cbn [fst snd]. rewrite Hp. reflexivity.
Qed.

Lemma quote_head_no_postfix t rest : no_postfix_head rest -> no_postfix_head (quote_meta t ++ rest).
Proof.
  intros Hr. destruct t as [|c t]; [cbn; auto|].
  cbn [quote_meta]. destruct (is_meta c) eqn:Hm.
  - exists "\"%char, (String c (quote_meta t) ++ rest). split; reflexivity.
  - exists c, (quote_meta t ++ rest). split; [reflexivity|]. apply not_meta_tests; auto.
Qed.

(* a quoted literal is read back as its bytes *)
Lemma quoted_prefix : forall t f rest items r,
  ascii_text t = true -> no_postfix_head rest ->
  parse_seq f rest = Some (items, r) ->
  parse_seq (String.length t + f) (quote_meta t ++ rest) = Some ((chars t ++ items)%list, r).
Proof.
  induction t as [|c t IH]; intros f rest items r Ha Hr P; cbn [String.length Nat.add quote_meta chars List.app]; auto.
  cbn in Ha. apply andb_prop in Ha. destruct Ha as [Hc Ht].
  destruct (is_meta c) eqn:Hm.
  - change (String "\"%char (String c (quote_meta t)) ++ rest) with (String "\"%char (String c (quote_meta t ++ rest))).
    rewrite step_escaped; auto using quote_head_no_postfix.
    rewrite (IH f rest items r); auto.
  - change (String c (quote_meta t) ++ rest) with (String c (quote_meta t ++ rest)).
    rewrite step_plain; auto using quote_head_no_postfix.
    rewrite (IH f rest items r); auto.
Qed.

Lemma step_bol f s1 : no_postfix_head s1 ->
  parse_seq (S f) (String "^"%char s1) =
  match parse_seq f s1 with Some (l, rest) => Some (Bol :: l, rest) | None => None end.
Proof.
  intros (p & r & -> & Hp). cbn [parse_seq]. cbv zeta.
  change (N_of_ascii "^"%char) with 94%N. cbn [N.eqb Pos.eqb].
  cbn [fst snd]. rewrite Hp. cbn [fst snd]. rewrite Hp. reflexivity.
Qed.

Lemma suffix_no_postfix : no_postfix_head img_suffix.
Proof. eexists _, _. split; reflexivity. Qed.

Lemma length_app_s (a b : string) : String.length (a ++ b) = String.length a + String.length b.
Proof. induction a; cbn; auto. Qed.

Lemma quote_meta_length t : String.length t <= String.length (quote_meta t).
Proof. induction t as [|c t IH]; [cbn; auto|]. cbn [quote_meta]. destruct (is_meta c); cbn [String.length]; lia. Qed.

Definition image_items (t : string) : list re := (Bol :: chars t ++ suffix_items)%list.

Theorem re_parse_image_pattern t :
  ascii_text t = true ->
  re_parse ("^" ++ quote_meta t ++ img_suffix) = Some (cat_of_list (image_items t)).
Proof.
  intros Ha. unfold re_parse.
  change ("^" ++ quote_meta t ++ img_suffix) with (String "^"%char (quote_meta t ++ img_suffix)).
  cbn [String.length]. rewrite length_app_s.
  change (String.length img_suffix) with 50.
  pose proof (quote_meta_length t) as L.
  replace (S (S (String.length (quote_meta t) + 50)))
    with (S (String.length t + (12 + (39 + (String.length (quote_meta t) - String.length t))))) by lia.
  rewrite step_bol; [|apply quote_head_no_postfix, suffix_no_postfix].
  rewrite (quoted_prefix t _ img_suffix suffix_items ""); auto using suffix_no_postfix, suffix_parse.
Qed.

(* ---------- its normal form is that of img_re ---------- *)
Lemma flat_cat_of_list : forall l, flat (cat_of_list l) = List.concat (map flat l).
Proof.
  induction l as [|x t IH]; cbn [cat_of_list map concat]; auto.
  destruct t as [|y t']; [cbn; rewrite app_nil_r; auto|].
  cbn [flat]. rewrite IH. reflexivity.
Qed.

Lemma concat_flat_chars t : List.concat (map flat (chars t)) = chars t.
Proof. induction t as [|c t IH]; cbn; auto. rewrite IH; auto. Qed.

Lemma flat_lit t : flat (lit t) = chars t.
Proof. unfold lit. rewrite flat_cat_of_list. apply concat_flat_chars. Qed.

Lemma norm_image_items t : norm (cat_of_list (image_items t)) = norm (img_re t).
Proof.
  unfold norm, image_items, img_re. f_equal.
  rewrite flat_cat_of_list.
  change (map flat (Bol :: chars t ++ suffix_items)) with (flat Bol :: map flat (chars t ++ suffix_items)).
  rewrite map_app. cbn [List.concat]. rewrite concat_app, concat_flat_chars.
  cbn [flat]. rewrite flat_lit. cbn [List.app]. reflexivity.
Qed.

Theorem re_parse_image_matches t :
  ascii_text t = true ->
  exists r, re_parse ("^" ++ quote_meta t ++ img_suffix) = Some r /\ forall s, matches r s = matches (img_re t) s.
Proof.
  intros Ha. eexists. split; [apply re_parse_image_pattern; auto|].
  apply equiv_matches.
  eapply equiv_trans; [apply equiv_sym, norm_equiv|]. rewrite norm_image_items. apply norm_equiv.
Qed.

(* C10_image_exact with the Gallina parser in the place of regexp.Compile: no hypothesis about the parser *)
Theorem image_exact_parsed s t :
  ascii_text t = true -> (is_matched re_parse s t = Ok true <-> image_ref_of t s).
Proof.
  intros Ha. unfold is_matched. rewrite img_pattern_text.
  destruct (re_parse_image_matches t Ha) as (r & -> & Hr). rewrite Hr. rewrite <- matches_img_re.
  split; intros H; [inv H; auto|rewrite H; auto].
Qed.

Example image_exact_parsed_example :
  ascii_text "reg:5000/x.y" = true /\
  is_matched re_parse "reg:5000/x.y:1@sha256:ab" "reg:5000/x.y" = Ok true /\
  is_matched re_parse "reg:5000/xzy:1" "reg:5000/x.y" = Ok false.
Proof. repeat split; vm_compute; reflexivity. Qed.
