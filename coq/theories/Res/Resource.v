(* Model of api/resource/resource.go (the parts the name reference machinery uses) and
   api/internal/utils/{makeResIds.go,stringslice.go}.

   A resource is its document (yaml node) plus the build annotations that carry the rename history.
   In Go these annotations live inside metadata.annotations of the same node; here they are kept
   beside the node, each as the RAW annotation value (None = annotation absent, Some s = the CSV text),
   so that appendCsvAnnotation / getCsvAnnotation / PrevIds are modelled literally, including the
   "empty value is not appended" rule and the panic of PrevIds on lists of unequal length. *)
From KV Require Export Res.ResId.

Record resource := mkRes {
  r_node : node;
  r_pnames : option string;     (* internal.config.kubernetes.io/previousNames *)
  r_pnss : option string;       (* .../previousNamespaces *)
  r_pkinds : option string;     (* .../previousKinds *)
  r_prefixes : option string;   (* .../prefixes *)
  r_suffixes : option string;   (* .../suffixes *)
  r_needs_hash : bool           (* .../needsHashSuffix == "enabled" *)
}.

Definition with_node (r : resource) (n : node) : resource :=
  mkRes n (r_pnames r) (r_pnss r) (r_pkinds r) (r_prefixes r) (r_suffixes r) (r_needs_hash r).

(* ---------- identity fields read from the document (kyaml RNode getters) ---------- *)

(* IsYNodeNilOrEmpty on a present node *)
Definition nil_or_empty (n : node) : bool :=
  match n with
  | Scalar TNull _ _ => true
  | Map [] => true
  | Seq [] => true
  | _ => false
  end.

(* RNode.getMetaData *)
Definition get_meta (n : node) : option node :=
  match n with
  | Map kvs =>
      match find_field "metadata" kvs with
      | Some v => if nil_or_empty v then None else Some v
      | None => None
      end
  | _ => None
  end.

(* RNode.getMetaStringField *)
Definition meta_string (f : string) (n : node) : string :=
  match get_meta n with
  | Some (Map mkvs) =>
      match find_field f mkvs with
      | Some v => if nil_or_empty v then "" else node_value v
      | None => ""
      end
  | _ => ""
  end.

Definition get_name (n : node) : string := meta_string "name" n.
Definition get_namespace (n : node) : string := meta_string "namespace" n.
Definition get_kind (n : node) : string := obj_kind n.
Definition get_api_version (n : node) : string := obj_api_version n.

(* ---------- CSV annotations ---------- *)

(* getCsvAnnotation *)
Definition get_csv (o : option string) : list string :=
  match o with
  | None => []
  | Some s => split_on ","%char s
  end.

(* appendCsvAnnotation: an empty value is dropped *)
Definition append_csv (o : option string) (v : string) : option string :=
  if String.eqb v "" then o else Some (join_with "," (get_csv o ++ [v])).

Definition name_prefixes (r : resource) : list string := get_csv (r_prefixes r).
Definition name_suffixes (r : resource) : list string := get_csv (r_suffixes r).

(* AddNamePrefix / AddNameSuffix *)
Definition add_name_prefix (p : string) (r : resource) : resource :=
  mkRes (r_node r) (r_pnames r) (r_pnss r) (r_pkinds r) (append_csv (r_prefixes r) p) (r_suffixes r) (r_needs_hash r).
Definition add_name_suffix (s : string) (r : resource) : resource :=
  mkRes (r_node r) (r_pnames r) (r_pnss r) (r_pkinds r) (r_prefixes r) (append_csv (r_suffixes r) s) (r_needs_hash r).

(* setPreviousId *)
Definition set_previous_id (r : resource) (ns n k : string) : resource :=
  mkRes (r_node r) (append_csv (r_pnames r) n) (append_csv (r_pnss r) ns) (append_csv (r_pkinds r) k)
        (r_prefixes r) (r_suffixes r) (r_needs_hash r).

Definition or_empty (o : option string) : string := match o with Some s => s | None => "" end.

Fixpoint zip_ids (g v : string) (names nss kinds : list string) : list resid :=
  match names, nss, kinds with
  | n :: names', s :: nss', k :: kinds' => mkId (gvk_lit g v k) n s :: zip_ids g v names' nss' kinds'
  | _, _, _ => []
  end.

(* Resource.PrevIds (utils.PrevIds + the panic on its error).  The Gvk of a previous id is a literal:
   group/version of the CURRENT apiVersion, the recorded kind, never cluster scoped. *)
Definition prev_ids (r : resource) : res (list resid) :=
  match r_pnames r with
  | None => Ok []
  | Some s =>
      let names := split_on ","%char s in
      let nss := split_on ","%char (or_empty (r_pnss r)) in
      let kinds := split_on ","%char (or_empty (r_pkinds r)) in
      if Nat.eqb (List.length names) (List.length nss) && Nat.eqb (List.length names) (List.length kinds)
      then let (g, v) := parse_group_version (get_api_version (r_node r)) in
           Ok (zip_ids g v names nss kinds)
      else Panic
  end.

Section WithScope.
  (* openapi.IsCertainlyClusterScoped (apiVersion, kind): external (builtin / custom schema) *)
  Variable cs : string -> string -> bool.

  (* resid.GvkFromNode = NewGvk *)
  Definition cur_gvk (n : node) : gvk :=
    let (g, v) := parse_group_version (get_api_version n) in
    mkGvk g v (get_kind n) (cs (gvk_api_version g v) (get_kind n)).

  (* Resource.CurId *)
  Definition cur_id (r : resource) : resid :=
    mkId (cur_gvk (r_node r)) (get_name (r_node r)) (get_namespace (r_node r)).

  (* Resource.OrgId *)
  Definition org_id (r : resource) : res resid :=
    do p <- prev_ids r;
    match p with
    | x :: _ => Ok x
    | [] => Ok (cur_id r)
    end.

  (* Resource.StorePreviousId *)
  Definition store_previous_id (r : resource) : resource :=
    let id := cur_id r in
    set_previous_id r (effective_ns id) (id_name id) (g_kind (id_gvk id)).
End WithScope.

(* ---------- prefix / suffix context comparison ---------- *)

Fixpoint str_list_eqb (a b : list string) : bool :=
  match a, b with
  | [], [] => true
  | x :: a', y :: b' => String.eqb x y && str_list_eqb a' b'
  | _, _ => false
  end.

(* utils.SameEndingSubSlice *)
Definition same_ending_subslice (a b : list string) : bool :=
  let (shortest, longest) := if Nat.ltb (List.length b) (List.length a) then (b, a) else (a, b) in
  let diff := List.length longest - List.length shortest in
  match shortest with
  | [] => Nat.eqb diff 0
  | _ => str_list_eqb shortest (skipn diff longest)
  end.

(* r.PrefixesSuffixesEquals(o, allowEmpty) on the two pairs of lists *)
Definition prefixes_suffixes_equals (rp rs op os : list string) (allow_empty : bool) : bool :=
  if allow_empty then
    let either_p := match rp, op with [], _ | _, [] => true | _, _ => false end in
    let either_s := match rs, os with [], _ | _, [] => true | _, _ => false end in
    (either_p || same_ending_subslice rp op) && (either_s || same_ending_subslice rs os)
  else same_ending_subslice rp op && same_ending_subslice rs os.
