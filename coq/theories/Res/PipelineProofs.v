(* Proofs about the integrated pipeline model (Res/Pipeline.v). *)
From KV Require Import Res.Pipeline.
From Coq Require Import Sorting.Permutation.

Lemma gen_transformer_order_known : transformer_order_known_b = true.
Proof. vm_compute. reflexivity. Qed.

Lemma gen_generator_order_known : generator_order_known_b = true.
Proof. vm_compute. reflexivity. Qed.
