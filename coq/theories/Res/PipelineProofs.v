(* Proofs about the integrated pipeline model (Res/Pipeline.v): the whole-build theorems re-exported by
   Props/PIPE.v.  Sections:
     1  generated order tables are classified
     2  induction over kustomization trees; relocation (no function reads a directory name)
     3  hygiene of the final strip
     4  id uniqueness of the output (legacy order), identity preservation of the final strip
     5  wrapping in a directive-less layer *)
From KV Require Import Res.Pipeline Res.NameRefProofs Res.C03Facts Res.HygieneProofs.
From KV Require Res.Labels Res.LabelsDefaults Res.Namespace Res.Hygiene Res.Generators Res.LegacySort.
From Coq Require Import Sorting.Permutation.
Local Open Scope string_scope.

Ltac inv H := inversion H; subst; clear H.

(* ================= 1. generated tables ================= *)

Lemma gen_transformer_order_known : transformer_order_known_b = true.
Proof. vm_compute. reflexivity. Qed.

Lemma gen_generator_order_known : generator_order_known_b = true.
Proof. vm_compute. reflexivity. Qed.

(* the modelled transformers run in this relative order (what the other slices assume) *)
Lemma gen_transformer_order_modelled :
  filter (fun n => str_in n modelled_transformers) gen_transformer_order =
  ["PatchTransformer"; "NamespaceTransformer"; "PrefixTransformer"; "SuffixTransformer"; "LabelTransformer";
   "AnnotationsTransformer"; "ReplicaCountTransformer"; "ImageTagTransformer"].
Proof. vm_compute. reflexivity. Qed.

Lemma pipe_rules_ok : exists rules, pipe_rules = Ok rules.
Proof. vm_compute. eexists. reflexivity. Qed.

Lemma pipe_rules_eq :
  pipe_rules = effective_rules gen_gvk_order_first gen_gvk_order_last gen_nameref_raw.
Proof. vm_compute. reflexivity. Qed.

(* ================= 2. trees ================= *)

Section PtreeInd.
  Variable P : ptree -> Prop.
  Hypothesis Hf : forall docs, P (PFile docs).
  Hypothesis Hd : forall n d ents, Forall P ents -> P (PDir n d ents).

  Fixpoint ptree_ind' (t : ptree) : P t :=
    match t with
    | PFile docs => Hf docs
    | PDir n d ents =>
        Hd n d ents ((fix go (l : list ptree) : Forall P l :=
                        match l with
                        | [] => Forall_nil _
                        | e :: t' => Forall_cons e (ptree_ind' e) (go t')
                        end) ents)
    end.
End PtreeInd.

Section Trees.
  Variable nonstr : string -> bool.

  Lemma accumulate_dir n d ents :
    accumulate nonstr (PDir n d ents) =
    if is_empty_kust d ents then Err else
    do m0 <- acc_list (accumulate nonstr) ents [];
    do m1 <- run_generators nonstr d m0;
    run_transformers nonstr d m1.
  Proof. reflexivity. Qed.

  Lemma acc_list_cons f e t acc :
    acc_list f (e :: t) acc = do sub <- f e; do acc' <- append_all pipe_cs acc sub; acc_list f t acc'.
  Proof. reflexivity. Qed.

  Lemma acc_list_ext f g l : Forall (fun e => f e = g e) l -> forall acc, acc_list f l acc = acc_list g l acc.
  Proof.
    induction 1 as [|e t He _ IH]; intros acc; [reflexivity|].
    rewrite !acc_list_cons, He. destruct (g e) as [sub| | |]; cbn [bind]; try reflexivity.
    destruct (append_all pipe_cs acc sub); cbn [bind]; auto.
  Qed.

  Lemma acc_list_map f (h : ptree -> ptree) l : forall acc,
    acc_list f (map h l) acc = acc_list (fun e => f (h e)) l acc.
  Proof.
    induction l as [|e t IH]; intros acc; [reflexivity|].
    cbn [map]. rewrite !acc_list_cons. destruct (f (h e)) as [sub| | |]; cbn [bind]; try reflexivity.
    destruct (append_all pipe_cs acc sub); cbn [bind]; auto.
  Qed.

  (* ---------- relocation: directory names are never read ---------- *)
  Lemma accumulate_rename f t : accumulate nonstr (rename_dirs f t) = accumulate nonstr t.
  Proof.
    induction t as [docs|n d ents IH] using ptree_ind'; [reflexivity|].
    cbn [rename_dirs]. rewrite !accumulate_dir.
    replace (is_empty_kust d (map (rename_dirs f) ents)) with (is_empty_kust d ents)
      by (destruct ents; reflexivity).
    rewrite acc_list_map. rewrite (acc_list_ext _ (accumulate nonstr) ents); [reflexivity|exact IH].
  Qed.

  Theorem build_relocate f o t : build nonstr o (rename_dirs f t) = build nonstr o t.
  Proof.
    destruct t as [docs|n d ents]; [reflexivity|].
    unfold build. change (rename_dirs f (PDir n d ents)) with (PDir (f n) d (map (rename_dirs f) ents)).
    cbv beta iota.
    change (PDir (f n) d (map (rename_dirs f) ents)) with (rename_dirs f (PDir n d ents)).
    rewrite accumulate_rename. reflexivity.
  Qed.
End Trees.

(* relocation is not vacuous: renaming really changes the tree *)
Example relocate_example :
  rename_dirs (fun s => "/elsewhere/" ++ s) (PDir "top" no_dirs [PDir "base" no_dirs [PFile []]]) =
  PDir "/elsewhere/top" no_dirs [PDir "/elsewhere/base" no_dirs [PFile []]].
Proof. reflexivity. Qed.

(* ================= association-list facts (local copies, to stay independent of the Yaml/Walk files) ================= *)

Lemma pp_find_set_first_other k key v (kvs : list (string * node)) :
  k <> key -> find_field k (set_first key v kvs) = find_field k kvs.
Proof.
  intros Hne. induction kvs as [|[k' x] t IH]; cbn; auto.
  destruct (String.eqb k' key) eqn:E; cbn.
  - apply String.eqb_eq in E; subst.
    destruct (String.eqb key k) eqn:E2; auto. apply String.eqb_eq in E2; congruence.
  - destruct (String.eqb k' k); auto.
Qed.

Lemma pp_find_set_first_same key v (kvs : list (string * node)) x :
  find_field key kvs = Some x -> find_field key (set_first key v kvs) = Some v.
Proof.
  induction kvs as [|[k' y] t IH]; cbn; [discriminate|].
  destruct (String.eqb k' key) eqn:E; cbn; rewrite E; auto.
Qed.

Lemma pp_find_remove_first_other k key (kvs : list (string * node)) :
  k <> key -> find_field k (remove_first key kvs) = find_field k kvs.
Proof.
  intros Hne. induction kvs as [|[k' x] t IH]; cbn; auto.
  destruct (String.eqb k' key) eqn:E; cbn.
  - apply String.eqb_eq in E; subst.
    destruct (String.eqb key k) eqn:E2; auto. apply String.eqb_eq in E2; congruence.
  - destruct (String.eqb k' k); auto.
Qed.

Lemma pp_find_app k (kvs l : list (string * node)) :
  find_field k (kvs ++ l) = match find_field k kvs with Some v => Some v | None => find_field k l end.
Proof.
  induction kvs as [|[k' x] t IH]; cbn; auto. destruct (String.eqb k' k); auto.
Qed.

(* ================= 3. hygiene of the final strip ================= *)

(* metadata carries at most one `annotations` field (YAML mappings with a repeated key are representable) *)
Definition annos_once (n : node) : Prop :=
  match n with
  | Map kvs =>
      match find_field "metadata" kvs with
      | Some (Map mkvs) => find_field "annotations" (remove_first "annotations" mkvs) = None
      | _ => True
      end
  | _ => True
  end.

Lemma annos_of_meta_map_field (l : pairs) :
  map (fun kv : string * node => (fst kv, node_value (snd kv)))
      (map (fun kv : string * string => (fst kv, str_node (snd kv))) (Labels.sort_pairs l)) = Labels.sort_pairs l.
Proof.
  rewrite map_map. cbn. induction (Labels.sort_pairs l) as [|[k v] t IH]; cbn; [reflexivity|now rewrite IH].
Qed.

Lemma sort_pairs_in l kv : In kv (Labels.sort_pairs l) -> In kv l.
Proof.
  unfold Labels.sort_pairs. induction l as [|x t IH]; cbn; [tauto|].
  intros H.
  assert (G: forall y acc, In kv (Labels.insert_kv y acc) -> kv = y \/ In kv acc).
  { clear. intros y acc. induction acc as [|z t IH]; cbn.
    - intros [H|[]]; auto.
    - destruct (String.ltb (fst y) (fst z)); cbn.
      + intros [H|H]; auto.
      + intros [H|H]; auto. destruct (IH H); auto. }
  destruct (G _ _ H) as [->|H1]; auto.
Qed.

(* what strip_node leaves in metadata.annotations is a sub-map of strip_run of what was there *)
Lemma strip_node_annos n :
  annos_once n ->
  forall kv, In kv (annos_of (strip_node n)) -> In kv (Hygiene.strip_run [] (annos_of n)).
Proof.
  intros Honce kv Hin. unfold strip_node in Hin |- *.
  destruct (annos_of n) as [|a0 at_] eqn:EA.
  - rewrite EA in Hin. destruct Hin.
  - destruct n as [t s v|kvs|es]; try (unfold annos_of in EA; cbn in EA; discriminate).
    cbn [annos_once] in Honce.
    destruct (find_field "metadata" kvs) as [md|] eqn:EM.
    2:{ unfold annos_of, get_meta in EA. rewrite EM in EA. discriminate. }
    destruct md as [t s v|mkvs|es].
    1,3: unfold annos_of, get_meta in EA; rewrite EM in EA; cbn in EA;
         repeat match type of EA with context [if ?c then _ else _] => destruct c end; discriminate.
    set (kept := Hygiene.strip_run [] (a0 :: at_)) in *.
    unfold annos_of, get_meta in Hin.
    rewrite (pp_find_set_first_same _ _ _ _ EM) in Hin.
    destruct (nil_or_empty (Map (remove_first "annotations" mkvs ++ meta_map_field "annotations" kept))); [destruct Hin|].
    rewrite pp_find_app, Honce in Hin.
    unfold meta_map_field in Hin. destruct kept as [|k0 kt] eqn:EK; [destruct Hin|].
    cbn [find_field String.eqb Ascii.eqb Bool.eqb] in Hin.
    rewrite annos_of_meta_map_field in Hin.
    apply sort_pairs_in in Hin. exact Hin.
Qed.

Theorem strip_hygiene n k :
  annos_once n -> In k Hygiene.internal_keys -> ~ In k (map fst (annos_of (strip_node n))).
Proof.
  intros Ho Hk Hin. apply in_map_iff in Hin as (kv & <- & Hin).
  apply strip_node_annos in Hin; auto.
  apply (hygiene [] (annos_of n) (fst kv)); [exact Hk| |apply in_map; exact Hin].
  intros X. vm_compute in X. exact X.
Qed.

(* every output of a build is the final strip of a document *)
Lemma build_outputs_stripped nonstr o t outs :
  build nonstr o t = Ok outs -> exists pre, outs = map strip_node pre.
Proof.
  unfold build. destruct t as [docs|n d ents]; [discriminate|].
  destruct (accumulate nonstr (PDir n d ents)) as [m| | |]; cbn [bind]; try discriminate.
  destruct (mapM (hash_res nonstr) m) as [m1| | |]; cbn [bind]; try discriminate.
  destruct (hash_check m1) as [[]| | |]; cbn [bind]; try discriminate.
  destruct pipe_rules as [rules| | |]; cbn [bind]; try discriminate.
  destruct (nameref_transform pipe_cs nonstr rules m1) as [m2| | |]; cbn [bind]; try discriminate.
  destruct (ignore_local m2) as [m2l| | |]; cbn [bind]; try discriminate.
  destruct (sort_resources o m2l) as [m3| | |]; cbn [bind]; try discriminate.
  intros H. inv H. exists (map r_node m3). now rewrite map_map.
Qed.

(* PIPE_hygiene: no output carries a kustomize-internal annotation (the generated list of C07) *)
Theorem build_hygiene nonstr o t outs :
  build nonstr o t = Ok outs ->
  exists pre, outs = map strip_node pre /\
    forall n k, In n pre -> annos_once n -> In k Hygiene.internal_keys ->
                ~ In k (map fst (annos_of (strip_node n))).
Proof.
  intros H. destruct (build_outputs_stripped _ _ _ _ H) as (pre & ->).
  exists pre. split; [reflexivity|]. intros n k _ Ho Hk. apply strip_hygiene; assumption.
Qed.

(* non-vacuity: a document that carries build annotations loses them and keeps the user's *)
Example strip_example :
  annos_of (strip_node (Map [("kind", str_node "ConfigMap");
     ("metadata", Map [("name", str_node "a");
        ("annotations", Map [("internal.config.kubernetes.io/previousNames", str_node "x");
                             ("config.kubernetes.io/origin", str_node "o"); ("note", str_node "n")])])]))
  = [("note", "n")].
Proof. vm_compute. reflexivity. Qed.

(* ================= 4. identities ================= *)

Notation rid := (cur_id pipe_cs).

(* ResId.Equals is symmetric *)
Lemma id_equals_sym a b : id_equals a b = id_equals b a.
Proof.
  unfold id_equals, id_ns_equals, id_gvkn_equals, gvk_equals.
  rewrite (String.eqb_sym (effective_ns a)), (String.eqb_sym (id_name a)),
          (String.eqb_sym (g_group (id_gvk a))), (String.eqb_sym (g_version (id_gvk a))),
          (String.eqb_sym (g_kind (id_gvk a))). reflexivity.
Qed.

(* no two resources of the map share an id (the invariant resWrangler.Append maintains) *)
Fixpoint distinct_ids (m : list resource) : Prop :=
  match m with
  | [] => True
  | r :: t => (forall x, In x t -> id_equals (rid r) (rid x) = false) /\ distinct_ids t
  end.

Lemma count_id_zero id m :
  count_id pipe_cs id m = 0 <-> forall x, In x m -> id_equals id (rid x) = false.
Proof.
  unfold count_id. induction m as [|y t IH]; cbn; [split; [intros _ x []|reflexivity]|].
  destruct (id_equals id (rid y)) eqn:E; cbn.
  - split; [discriminate|]. intros H. specialize (H y (or_introl eq_refl)). congruence.
  - rewrite IH. split; [intros H x [<-|Hx]; auto|intros H x Hx; apply H; auto].
Qed.

Lemma distinct_ids_snoc m r :
  distinct_ids (m ++ [r]) <-> distinct_ids m /\ forall x, In x m -> id_equals (rid r) (rid x) = false.
Proof.
  induction m as [|y t IH]; cbn.
  - split; [intros _; split; [exact I|intros x []]|intros _; split; [intros x []|exact I]].
  - rewrite IH. split.
    + intros [H1 [H2 H3]]. split; [split; [intros x Hx; apply H1; apply in_or_app; auto|exact H2]|].
      intros x [<-|Hx]; [|auto]. rewrite id_equals_sym. apply H1. apply in_or_app. right. left. reflexivity.
    + intros [[H1 H2] H3]. split; [|split; [exact H2|intros x Hx; apply H3; auto]].
      intros x Hx. apply in_app_or in Hx as [Hx|[<-|[]]]; [auto|].
      rewrite id_equals_sym. apply H3. auto.
Qed.

Lemma append_one_spec m r m' :
  append_one pipe_cs m r = Ok m' <->
  m' = (m ++ [r])%list /\ forall x, In x m -> id_equals (rid r) (rid x) = false.
Proof.
  unfold append_one. destruct (Nat.eqb (count_id pipe_cs (rid r) m) 0) eqn:E.
  - apply Nat.eqb_eq in E. rewrite count_id_zero in E. split; [intros H; inv H; auto|intros [-> _]; reflexivity].
  - apply Nat.eqb_neq in E. rewrite count_id_zero in E. split; [discriminate|intros [_ H]; contradiction].
Qed.

Lemma append_all_spec l : forall acc m,
  append_all pipe_cs acc l = Ok m -> m = (acc ++ l)%list /\ (distinct_ids acc -> distinct_ids m).
Proof.
  induction l as [|r t IH]; intros acc m H; cbn [append_all] in H.
  - inv H. rewrite app_nil_r. auto.
  - destruct (append_one pipe_cs acc r) as [a1| | |] eqn:E; cbn [bind] in H; try discriminate.
    apply append_one_spec in E as [-> Hr]. destruct (IH _ _ H) as [-> Hd].
    split; [now rewrite <- app_assoc|]. intros Ha. apply Hd. apply distinct_ids_snoc. auto.
Qed.

Lemma append_all_ok l : forall acc,
  distinct_ids (acc ++ l) -> append_all pipe_cs acc l = Ok (acc ++ l)%list.
Proof.
  induction l as [|r t IH]; intros acc H; cbn [append_all].
  - now rewrite app_nil_r.
  - assert (H' : distinct_ids ((acc ++ [r]) ++ t)) by (now rewrite <- app_assoc).
    assert (Hs : distinct_ids (acc ++ [r])).
    { clear -H'. revert H'. generalize (acc ++ [r])%list. intros l. induction l as [|y u IHu]; cbn; auto.
      intros [H1 H2]. split; [intros x Hx; apply H1; apply in_or_app; auto|auto]. }
    apply distinct_ids_snoc in Hs as [_ Hr].
    destruct (append_one pipe_cs acc r) as [a1| | |] eqn:E.
    + apply append_one_spec in E as [-> _]. cbn [bind]. rewrite IH by exact H'. now rewrite <- app_assoc.
    + exfalso. assert (X : append_one pipe_cs acc r = Ok (acc ++ [r])%list) by (apply append_one_spec; auto). congruence.
    + exfalso. assert (X : append_one pipe_cs acc r = Ok (acc ++ [r])%list) by (apply append_one_spec; auto). congruence.
    + exfalso. assert (X : append_one pipe_cs acc r = Ok (acc ++ [r])%list) by (apply append_one_spec; auto). congruence.
Qed.

(* the id only depends on the four identity fields of the document *)
Lemma rid_of_ident r r' : ident (r_node r') = ident (r_node r) -> rid r' = rid r.
Proof.
  unfold ident, cur_id, cur_gvk. intros H. inversion H as [[H1 H2 H3 H4]]. rewrite H1, H2, H3, H4. reflexivity.
Qed.

(* the final strip never touches the identity fields *)
Lemma strip_node_ident n : ident (strip_node n) = ident n.
Proof.
  unfold strip_node. destruct (annos_of n) as [|a0 at_] eqn:EA; [reflexivity|].
  destruct n as [t s v|kvs|es]; try reflexivity.
  destruct (find_field "metadata" kvs) as [md|] eqn:EM; [|reflexivity].
  destruct md as [t s v|mkvs|es]; try reflexivity.
  set (F := meta_map_field "annotations" (Hygiene.strip_run [] (a0 :: at_))).
  assert (HF : forall k, k <> "annotations" -> find_field k F = None).
  { intros k Hk. unfold F, meta_map_field. destruct (Hygiene.strip_run [] (a0 :: at_)); [reflexivity|].
    cbn [find_field]. destruct (String.eqb "annotations" k) eqn:E; [apply String.eqb_eq in E; congruence|reflexivity]. }
  assert (HM : forall k, k <> "annotations" ->
                 find_field k (remove_first "annotations" mkvs ++ F) = find_field k mkvs).
  { intros k Hk. rewrite pp_find_app, pp_find_remove_first_other by exact Hk.
    destruct (find_field k mkvs); [reflexivity|]. apply HF; exact Hk. }
  assert (Hmeta : get_meta (Map kvs) = Some (Map mkvs)).
  { unfold annos_of in EA. unfold get_meta in *. rewrite EM in *.
    destruct (nil_or_empty (Map mkvs)); [discriminate|reflexivity]. }
  apply ident_of_getters.
  - (* name *)
    unfold get_name, meta_string. rewrite Hmeta. unfold get_meta.
    rewrite (pp_find_set_first_same _ _ _ _ EM).
    destruct (remove_first "annotations" mkvs ++ F)%list as [|e0 et] eqn:EL.
    + cbn [nil_or_empty]. rewrite <- (HM "name") by discriminate. reflexivity.
    + cbn [nil_or_empty]. rewrite HM by discriminate. reflexivity.
  - unfold get_namespace, meta_string. rewrite Hmeta. unfold get_meta.
    rewrite (pp_find_set_first_same _ _ _ _ EM).
    destruct (remove_first "annotations" mkvs ++ F)%list as [|e0 et] eqn:EL.
    + cbn [nil_or_empty]. rewrite <- (HM "namespace") by discriminate. reflexivity.
    + cbn [nil_or_empty]. rewrite HM by discriminate. reflexivity.
  - unfold get_kind, obj_kind, map_field_value. rewrite pp_find_set_first_other by discriminate. reflexivity.
  - unfold get_api_version, obj_api_version, map_field_value. rewrite pp_find_set_first_other by discriminate. reflexivity.
Qed.

(* ids of output documents *)
Definition node_rid (n : node) : resid := rid (load n).

Fixpoint distinct_node_ids (l : list node) : Prop :=
  match l with
  | [] => True
  | n :: t => (forall x, In x t -> id_equals (node_rid n) (node_rid x) = false) /\ distinct_node_ids t
  end.

Lemma node_rid_strip r : node_rid (strip_node (r_node r)) = rid r.
Proof. unfold node_rid. apply rid_of_ident. cbn [r_node load]. apply strip_node_ident. Qed.

Lemma distinct_ids_strip m : distinct_ids m -> distinct_node_ids (map (fun r => strip_node (r_node r)) m).
Proof.
  induction m as [|r t IH]; cbn; [auto|]. intros [H1 H2]. split; [|auto].
  intros x Hx. apply in_map_iff in Hx as (y & <- & Hy). rewrite !node_rid_strip. auto.
Qed.

Lemma Forall2_same_identity_ids m m' :
  Forall2 same_identity m m' -> distinct_ids m -> distinct_ids m'.
Proof.
  induction 1 as [|a b ta tb [Hab _] HF IH]; cbn; [auto|]. intros [H1 H2]. split; [|auto].
  intros x Hx.
  assert (exists y, In y ta /\ rid x = rid y) as (y & Hy & ->).
  { clear -HF Hx. induction HF as [|c d tc td [Hcd _] _ IHf]; [destruct Hx|].
    destruct Hx as [<-|Hx]; [exists c; split; [left; reflexivity|apply rid_of_ident; exact Hcd]|].
    destruct (IHf Hx) as (y & Hy & E). exists y. split; [right; exact Hy|exact E]. }
  rewrite (rid_of_ident a b Hab). auto.
Qed.

Lemma distinct_ids_filter (f : resource -> bool) m : distinct_ids m -> distinct_ids (filter f m).
Proof.
  induction m as [|r t IH]; cbn; [auto|]. intros [H1 H2]. destruct (f r); cbn; [split; [|auto]|auto].
  intros x Hx. apply filter_In in Hx as [Hx _]. auto.
Qed.

Lemma remove_loop_distinct ids kept : forall cur out,
  remove_loop ids kept cur = Ok out -> distinct_ids cur -> distinct_ids out.
Proof.
  induction ids as [|id t IH]; intros cur out H Hd; cbn [remove_loop] in H; [inv H; exact Hd|].
  destruct (existsb (resid_raw_eqb id) kept); [eauto|].
  destruct (Nat.eqb _ _); [|discriminate]. eapply IH; [exact H|]. apply distinct_ids_filter. exact Hd.
Qed.

(* IgnoreLocal only removes resources *)
Lemma ignore_local_distinct m m' : ignore_local m = Ok m' -> distinct_ids m -> distinct_ids m'.
Proof.
  unfold ignore_local. destruct (negb _); [discriminate|].
  destruct (append_all pipe_cs [] _); try discriminate. apply remove_loop_distinct.
Qed.

Section Ids.
  Variable nonstr : string -> bool.

  (* PIPE_ids_unique (legacy order): SortOrderTransformer re-Appends every resource, so a successful build
     under the legacy order has pairwise distinct output ids - whatever happened before *)
  Theorem build_ids_unique_legacy first last t outs :
    build nonstr (PSortLegacy first last) t = Ok outs -> distinct_node_ids outs.
  Proof.
    unfold build. destruct t as [docs|n d ents]; [discriminate|].
    destruct (accumulate nonstr (PDir n d ents)) as [m| | |]; cbn [bind]; try discriminate.
    destruct (mapM (hash_res nonstr) m) as [m1| | |]; cbn [bind]; try discriminate.
    destruct (hash_check m1) as [[]| | |]; cbn [bind]; try discriminate.
    destruct pipe_rules as [rules| | |]; cbn [bind]; try discriminate.
    destruct (nameref_transform pipe_cs nonstr rules m1) as [m2| | |]; cbn [bind]; try discriminate.
    destruct (ignore_local m2) as [m2l| | |]; cbn [bind]; try discriminate.
    destruct (sort_resources (PSortLegacy first last) m2l) as [m3| | |] eqn:ES; cbn [bind]; try discriminate.
    intros H. inv H. cbn [sort_resources] in ES. apply append_all_spec in ES as [_ Hd].
    apply distinct_ids_strip. apply Hd. exact I.
  Qed.

  (* ... under fifo / no order the ids are distinct whenever they are after the hash suffixes were added
     (name references never change an identity field; C07_ids_unique_hash_refuted: the hash step can clash) *)
  Theorem build_ids_unique_fifo_partial o t outs :
    (o = PSortNone \/ o = PSortFifo) ->
    build nonstr o t = Ok outs ->
    (forall m m1, accumulate nonstr t = Ok m -> mapM (hash_res nonstr) m = Ok m1 -> distinct_ids m1) ->
    distinct_node_ids outs.
  Proof.
    intros Ho. unfold build. destruct t as [docs|n d ents]; [discriminate|].
    destruct (accumulate nonstr (PDir n d ents)) as [m| | |] eqn:EA; cbn [bind]; try discriminate.
    destruct (mapM (hash_res nonstr) m) as [m1| | |] eqn:EH; cbn [bind]; try discriminate.
    destruct (hash_check m1) as [[]| | |]; cbn [bind]; try discriminate.
    destruct pipe_rules as [rules| | |] eqn:ER0; cbn [bind]; try (intros X; discriminate X).
    assert (ER : effective_rules gen_gvk_order_first gen_gvk_order_last gen_nameref_raw = Ok rules)
      by (rewrite <- pipe_rules_eq; exact ER0).
    clear ER0.
    destruct (nameref_transform pipe_cs nonstr rules m1) as [m2| | |] eqn:EN; cbn [bind]; try (intros X; discriminate X).
    destruct (ignore_local m2) as [m2l| | |] eqn:EL; cbn [bind]; try (intros X; discriminate X).
    assert (ES : sort_resources o m2l = Ok m2l) by (destruct Ho as [->| ->]; reflexivity).
    rewrite ES. cbn [bind]. intros H Hd. inv H.
    apply distinct_ids_strip. eapply ignore_local_distinct; [exact EL|].
    eapply Forall2_same_identity_ids; [eapply gen_transform_identity; eauto|].
    apply (Hd m m1); [reflexivity|exact EH].
  Qed.
End Ids.

(* ================= 5. wrapping in a directive-less layer ================= *)

Lemma drop_empties_idem m : drop_empties (drop_empties m) = drop_empties m.
Proof.
  unfold drop_empties. induction m as [|r t IH]; cbn; [reflexivity|].
  destruct (negb (nil_or_empty (r_node r))) eqn:E; cbn; [rewrite E, IH; reflexivity|exact IH].
Qed.

Section Wrap.
  Variable nonstr : string -> bool.

  Lemma run_generators_none m : run_generators nonstr no_dirs m = Ok m.
  Proof.
    unfold run_generators. generalize gen_generator_order. intros ks. revert m.
    induction ks as [|k t IH]; intros m; cbn [run_generator_kinds]; [reflexivity|].
    destruct (String.eqb k "ConfigMapGenerator"); [cbn; apply IH|].
    destruct (String.eqb k "SecretGenerator"); cbn; apply IH.
  Qed.

  Lemma run_kind_none k m : run_kind nonstr k no_dirs m = Ok m.
  Proof.
    unfold run_kind.
    repeat match goal with |- context [String.eqb k ?s] => destruct (String.eqb k s) end; reflexivity.
  Qed.

  Lemma run_order_none ks : forall m, ks <> [] -> run_order nonstr ks no_dirs m = Ok (drop_empties m).
  Proof.
    induction ks as [|k t IH]; intros m Hne; [congruence|].
    cbn [run_order]. rewrite run_kind_none. cbn [bind].
    destruct t as [|k2 t2]; [reflexivity|].
    rewrite IH by discriminate. now rewrite drop_empties_idem.
  Qed.

  Lemma run_transformers_none m : run_transformers nonstr no_dirs m = Ok (drop_empties m).
  Proof.
    unfold run_transformers. cbn [bind]. apply run_order_none.
    intros E. pose proof gen_transformer_order_modelled as H. rewrite E in H. discriminate.
  Qed.

  (* whatever a kustomization directory accumulates went through DropEmpties at least once *)
  Lemma run_order_dropped ks : forall d m out,
    ks <> [] -> run_order nonstr ks d m = Ok out -> drop_empties out = out.
  Proof.
    induction ks as [|k t IH]; intros d m out Hne H; [congruence|].
    cbn [run_order] in H. destruct (run_kind nonstr k d m) as [m'| | |]; cbn [bind] in H; try discriminate.
    destruct t as [|k2 t2].
    - cbn in H. inv H. apply drop_empties_idem.
    - eapply IH; [discriminate|exact H].
  Qed.

  Lemma accumulate_dir_dropped n d ents m :
    accumulate nonstr (PDir n d ents) = Ok m -> drop_empties m = m.
  Proof.
    rewrite accumulate_dir. destruct (is_empty_kust d ents); [discriminate|].
    destruct (acc_list (accumulate nonstr) ents []) as [m0| | |]; cbn [bind]; try discriminate.
    destruct (run_generators nonstr d m0) as [m1| | |]; cbn [bind]; try discriminate.
    unfold run_transformers.
    destruct (Labels.label_transformers LabelsDefaults.default_tc (label_dirs d)); cbn [bind]; try discriminate.
    apply run_order_dropped.
    intros E. pose proof gen_transformer_order_modelled as H. rewrite E in H. discriminate.
  Qed.

  (* the accumulation of the wrapper, in terms of the accumulation of the wrapped kustomization *)
  Lemma accumulate_wrap name n d ents :
    accumulate nonstr (wrap name (PDir n d ents)) =
    do sub <- accumulate nonstr (PDir n d ents); append_all pipe_cs [] sub.
  Proof.
    unfold wrap. rewrite (accumulate_dir nonstr name no_dirs). cbn [is_empty_kust].
    rewrite acc_list_cons.
    destruct (accumulate nonstr (PDir n d ents)) as [sub| | |] eqn:EA; cbn [bind]; try reflexivity.
    destruct (append_all pipe_cs [] sub) as [acc| | |] eqn:EP; cbn [bind acc_list]; try reflexivity.
    rewrite run_generators_none. cbn [bind]. rewrite run_transformers_none.
    apply append_all_spec in EP as [-> _]. cbn [app].
    now rewrite (accumulate_dir_dropped _ _ _ _ EA).
  Qed.

  (* PIPE_wrap.  The only thing the wrapper adds is MergeAccumulator's AppendAll of the inner result into an
     empty accumulator, i.e. one more id-collision check: the wrapper is transparent exactly when the ids the
     inner kustomization accumulates are pairwise distinct. *)
  Theorem build_wrap name o t :
    (exists n d ents, t = PDir n d ents) ->
    (forall m, accumulate nonstr t = Ok m -> distinct_ids m) ->
    build nonstr o (wrap name t) = build nonstr o t.
  Proof.
    intros (n & d & ents & ->) Hd. unfold build. unfold wrap at 1. cbv beta iota.
    change (PDir name no_dirs [PDir n d ents]) with (wrap name (PDir n d ents)).
    rewrite accumulate_wrap.
    destruct (accumulate nonstr (PDir n d ents)) as [sub| | |] eqn:EA; cbn [bind]; try reflexivity.
    rewrite (append_all_ok sub []) by (cbn [app]; apply Hd; reflexivity). reflexivity.
  Qed.

  (* conversely: when the inner ids collide the wrapper fails although the inner build may succeed *)
  Theorem build_wrap_collision name o n d ents m :
    accumulate nonstr (PDir n d ents) = Ok m -> ~ distinct_ids m ->
    build nonstr o (wrap name (PDir n d ents)) = Err.
  Proof.
    intros EA Hnd. unfold build, wrap at 1. cbv beta iota.
    change (PDir name no_dirs [PDir n d ents]) with (wrap name (PDir n d ents)).
    rewrite accumulate_wrap, EA. cbn [bind].
    destruct (append_all pipe_cs [] m) as [x| | |] eqn:EP; cbn [bind]; try reflexivity.
    - apply append_all_spec in EP as [-> Hd]. exfalso. apply Hnd. apply Hd. exact I.
    - exfalso. clear -EP. revert EP. generalize (@nil resource). induction m as [|r t IH]; intros acc H; cbn in H; [discriminate|].
      unfold append_one in H. destruct (Nat.eqb _ 0); cbn in H; [eauto|discriminate].
    - exfalso. clear -EP. revert EP. generalize (@nil resource). induction m as [|r t IH]; intros acc H; cbn in H; [discriminate|].
      unfold append_one in H. destruct (Nat.eqb _ 0); cbn in H; [eauto|discriminate].
  Qed.
End Wrap.

(* ================= 6. deprecated spelling: commonLabels vs labels[{pairs, includeSelectors: true}] ================= *)

(* FixKustomizationPreMarshalling: commonLabels becomes one more `labels` entry with includeSelectors, placed
   AFTER the existing entries (the configurator runs the labels entries first, then the commonLabels pass) *)
Definition respell (d : pdirs) : pdirs :=
  match pd_common_labels d with
  | [] => d
  | cl => mkPDirsP (pd_ns d) (pd_prefix d) (pd_suffix d)
                   (pd_labels d ++ [Labels.mkLD cl true false []]) []
                   (pd_common_annos d) (pd_cmgens d) (pd_secgens d) (pd_genopts d) (pd_replicas d) (pd_images d)
                   (pd_patches d)
  end.

(* rewrite the layers selected by [which] (by directory name), anywhere in the tree *)
Fixpoint respell_tree (which : string -> bool) (t : ptree) : ptree :=
  match t with
  | PFile docs => PFile docs
  | PDir n d ents => PDir n (if which n then respell d else d) (map (respell_tree which) ents)
  end.

Lemma mapM_app {A B} (f : A -> res B) l1 l2 :
  mapM f (l1 ++ l2) = do a <- mapM f l1; do b <- mapM f l2; Ok (a ++ b)%list.
Proof.
  induction l1 as [|x t IH]; cbn [mapM app bind].
  - destruct (mapM f l2); reflexivity.
  - destruct (f x) as [y| | |]; cbn [bind]; try reflexivity. rewrite IH.
    destruct (mapM f t) as [a| | |]; cbn [bind]; try reflexivity.
    destruct (mapM f l2) as [b| | |]; cbn [bind]; reflexivity.
Qed.

Lemma common_entry_fs cl :
  Labels.label_fs LabelsDefaults.default_tc (Labels.mkLD cl true false []) = Ok gen_common_labels_fs.
Proof. vm_compute. reflexivity. Qed.

Section Respell.
  Variable nonstr : string -> bool.

  Lemma label_transforms_app l1 l2 : forall m,
    label_transforms nonstr (l1 ++ l2) m =
    do x <- label_transforms nonstr l1 m;
    match l1 with [] => label_transforms nonstr l2 x | _ => label_transforms nonstr l2 x end.
  Proof.
    induction l1 as [|[p fss] t IH]; intros m; [reflexivity|].
    cbn [app label_transforms]. destruct (label_transform nonstr p fss m) as [m'| | |]; cbn [bind]; try reflexivity.
    rewrite IH. destruct (label_transforms nonstr t (drop_empties m')); cbn [bind]; try reflexivity.
    destruct t; reflexivity.
  Qed.

  Lemma label_transforms_dropped l : forall m x,
    l <> [] -> label_transforms nonstr l m = Ok x -> drop_empties x = x.
  Proof.
    induction l as [|[p fss] t IH]; intros m x Hne H; [congruence|].
    cbn [label_transforms] in H. destruct (label_transform nonstr p fss m) as [m'| | |]; cbn [bind] in H; try discriminate.
    destruct t as [|e t']; [cbn in H; inv H; apply drop_empties_idem|].
    eapply IH; [discriminate|exact H].
  Qed.

  (* the label transformers configured for the two spellings *)
  Lemma label_transformers_respell d cl0 clt :
    pd_common_labels d = cl0 :: clt ->
    Labels.label_transformers LabelsDefaults.default_tc (label_dirs (respell d)) =
    do l <- Labels.label_transformers LabelsDefaults.default_tc (label_dirs d);
    Ok (l ++ [([], gen_common_labels_fs)])%list.
  Proof.
    intros E. unfold respell. rewrite E. unfold label_dirs, Labels.label_transformers.
    cbn [Labels.d_labels Labels.d_common_labels pd_labels pd_common_labels pd_common_annos].
    rewrite E.
    destruct (pd_labels d ++ [Labels.mkLD (cl0 :: clt) true false []])%list as [|e0 et] eqn:EL;
      [destruct (pd_labels d); discriminate|]. rewrite <- EL. clear EL e0 et.
    rewrite mapM_app. cbn [mapM]. rewrite common_entry_fs. cbn [bind Labels.ld_pairs].
    destruct (pd_labels d) as [|l0 lt] eqn:EP.
    - cbn [mapM bind app]. reflexivity.
    - destruct (mapM _ (l0 :: lt)) as [a| | |]; cbn [bind]; try reflexivity.
  Qed.

  Lemma run_kind_respell k d m : run_kind nonstr k (respell d) m = run_kind nonstr k d m.
  Proof.
    destruct (pd_common_labels d) as [|cl0 clt] eqn:E; [unfold respell; rewrite E; reflexivity|].
    unfold run_kind.
    destruct (String.eqb k "PatchTransformer"); [unfold respell; rewrite E; reflexivity|].
    destruct (String.eqb k "NamespaceTransformer"); [unfold respell; rewrite E; reflexivity|].
    destruct (String.eqb k "PrefixTransformer"); [unfold respell; rewrite E; reflexivity|].
    destruct (String.eqb k "SuffixTransformer"); [unfold respell; rewrite E; reflexivity|].
    destruct (String.eqb k "LabelTransformer").
    - rewrite (label_transformers_respell d cl0 clt E).
      destruct (Labels.label_transformers LabelsDefaults.default_tc (label_dirs d)) as [l| | |] eqn:EL;
        cbn [bind]; try reflexivity.
      rewrite label_transforms_app.
      destruct (label_transforms nonstr l m) as [x| | |] eqn:EX; cbn [bind]; try reflexivity.
      assert (Hne : l <> []).
      { intros ->. unfold Labels.label_transformers, label_dirs in EL.
        cbn [Labels.d_labels Labels.d_common_labels] in EL. rewrite E in EL.
        assert (G : forall (F : Labels.label_dir -> res (pairs * list fieldspec)) ls y,
                   (do l <- mapM F ls; Ok (l ++ [y])%list) = Ok [] -> False).
        { intros F ls y H. destruct (mapM F ls) as [a| | |]; cbn [bind] in H; try discriminate.
          destruct a; discriminate. }
        destruct (pd_labels d); exact (G _ _ _ EL). }
      assert (Y : label_transforms nonstr [([], gen_common_labels_fs)] x = Ok x).
      { cbn. now rewrite (label_transforms_dropped l m x Hne EX). }
      destruct l; [congruence|exact Y].
    - destruct (String.eqb k "AnnotationsTransformer"); [unfold respell; rewrite E; reflexivity|].
      unfold respell; rewrite E; reflexivity.
  Qed.

  Lemma run_order_respell ks d : forall m, run_order nonstr ks (respell d) m = run_order nonstr ks d m.
  Proof.
    induction ks as [|k t IH]; intros m; [reflexivity|].
    cbn [run_order]. rewrite run_kind_respell. destruct (run_kind nonstr k d m); cbn [bind]; auto.
  Qed.

  Lemma run_transformers_respell d m : run_transformers nonstr (respell d) m = run_transformers nonstr d m.
  Proof.
    unfold run_transformers. rewrite run_order_respell.
    destruct (pd_common_labels d) as [|cl0 clt] eqn:E; [unfold respell; rewrite E; reflexivity|].
    rewrite (label_transformers_respell d cl0 clt E).
    destruct (Labels.label_transformers LabelsDefaults.default_tc (label_dirs d)); reflexivity.
  Qed.

  Lemma run_generators_respell d m : run_generators nonstr (respell d) m = run_generators nonstr d m.
  Proof.
    destruct (pd_common_labels d) as [|cl0 clt] eqn:E; unfold respell; rewrite E; [reflexivity|].
    unfold run_generators. generalize gen_generator_order. intros ks. revert m.
    induction ks as [|k t IH]; intros m; [reflexivity|].
    cbn [run_generator_kinds pd_cmgens pd_secgens pd_genopts].
    destruct (String.eqb k "ConfigMapGenerator").
    - destruct (run_gens nonstr (pd_genopts d) false (pd_cmgens d) m); cbn [bind]; auto.
    - destruct (String.eqb k "SecretGenerator").
      + destruct (run_gens nonstr (pd_genopts d) true (pd_secgens d) m); cbn [bind]; auto.
      + cbn [bind]. auto.
  Qed.

  Lemma is_empty_respell d ents : is_empty_kust (respell d) ents = is_empty_kust d ents.
  Proof.
    destruct (pd_common_labels d) as [|cl0 clt] eqn:E; unfold respell; rewrite E; [reflexivity|].
    destruct ents; [|reflexivity]. unfold is_empty_kust, dirs_empty.
    cbn [pd_ns pd_prefix pd_suffix pd_labels pd_common_labels pd_common_annos pd_cmgens pd_secgens pd_genopts pd_replicas pd_images].
    rewrite E. destruct (pd_labels d); cbn [app]; rewrite ?andb_false_r; reflexivity.
  Qed.

  Lemma accumulate_respell which t : accumulate nonstr (respell_tree which t) = accumulate nonstr t.
  Proof.
    induction t as [docs|n d ents IH] using ptree_ind'; [reflexivity|].
    cbn [respell_tree]. rewrite !accumulate_dir.
    assert (E1 : is_empty_kust (if which n then respell d else d) (map (respell_tree which) ents) = is_empty_kust d ents).
    { destruct (which n); [rewrite is_empty_respell|]; destruct ents; reflexivity. }
    rewrite E1. destruct (is_empty_kust d ents); [reflexivity|].
    rewrite acc_list_map. rewrite (acc_list_ext _ (accumulate nonstr) ents) by exact IH.
    destruct (acc_list (accumulate nonstr) ents []) as [m0| | |]; cbn [bind]; try reflexivity.
    destruct (which n); [|reflexivity].
    rewrite run_generators_respell. destruct (run_generators nonstr d m0); cbn [bind]; try reflexivity.
    apply run_transformers_respell.
  Qed.

  (* PIPE_deprecated_spellings *)
  Theorem build_respell which o t : build nonstr o (respell_tree which t) = build nonstr o t.
  Proof.
    destruct t as [docs|n d ents]; [reflexivity|].
    unfold build. change (respell_tree which (PDir n d ents))
      with (PDir n (if which n then respell d else d) (map (respell_tree which) ents)).
    cbv beta iota.
    change (PDir n (if which n then respell d else d) (map (respell_tree which) ents))
      with (respell_tree which (PDir n d ents)).
    rewrite accumulate_respell. reflexivity.
  Qed.
End Respell.

(* non-vacuity: the rewrite changes the kustomization *)
Example respell_example :
  respell (mkPDirs "" "" "" [] [("app", "x")] [] [] []) =
  mkPDirs "" "" "" [Labels.mkLD [("app", "x")] true false []] [] [] [] [].
Proof. reflexivity. Qed.

(* ================= 7. the wrapper, unconditionally ================= *)

Lemma distinct_ids_dec m : distinct_ids m \/ ~ distinct_ids m.
Proof.
  induction m as [|r t IH]; [left; exact I|]. cbn [distinct_ids].
  destruct IH as [IH|IH]; [|right; tauto].
  assert (D : (forall x, In x t -> id_equals (rid r) (rid x) = false) \/
              ~ (forall x, In x t -> id_equals (rid r) (rid x) = false)).
  { clear IH. induction t as [|y u IHu]; [left; intros x []|].
    destruct (id_equals (rid r) (rid y)) eqn:E.
    - right. intros H. specialize (H y (or_introl eq_refl)). congruence.
    - destruct IHu as [H|H]; [left; intros x [<-|Hx]; auto|right; intros G; apply H; intros x Hx; apply G; right; exact Hx]. }
  destruct D as [D|D]; [left; tauto|right; tauto].
Qed.

(* for EVERY kustomization directory: the wrapper is transparent, or it fails - and then precisely because two
   of the resources the inner kustomization accumulated share an id *)
Theorem build_wrap_total nonstr name o n d ents :
  build nonstr o (wrap name (PDir n d ents)) = build nonstr o (PDir n d ents) \/
  (build nonstr o (wrap name (PDir n d ents)) = Err /\
   exists m, accumulate nonstr (PDir n d ents) = Ok m /\ ~ distinct_ids m).
Proof.
  destruct (accumulate nonstr (PDir n d ents)) as [m| | |] eqn:EA.
  - destruct (distinct_ids_dec m) as [Hd|Hd].
    + left. apply build_wrap; [eauto|]. intros m' H. rewrite EA in H. inv H. exact Hd.
    + right. split; [eapply build_wrap_collision; eauto|eauto].
  - left. apply build_wrap; [eauto|]. intros m H. rewrite EA in H. discriminate.
  - left. apply build_wrap; [eauto|]. intros m H. rewrite EA in H. discriminate.
  - left. apply build_wrap; [eauto|]. intros m H. rewrite EA in H. discriminate.
Qed.

(* non-vacuity of PIPE_wrap_partial: an overlay with a prefix, a generated ConfigMap and a reference to it *)
Definition wrap_example_tree : ptree :=
  PDir "base" (mkPDirs "" "p-" "" [] [] [] [mkPGen "cfg" "" "" ["a=1"] "" false [] [] false] [])
    [PFile [Map [("apiVersion", str_node "v1"); ("kind", str_node "Pod");
                 ("metadata", Map [("name", str_node "web")]);
                 ("spec", Map [("volumes", Seq [Map [("name", str_node "v");
                                                     ("configMap", Map [("name", str_node "cfg")])]])])]]].

Example wrap_example :
  build (fun _ => false) PSortNone (wrap "overlay" wrap_example_tree) =
  build (fun _ => false) PSortNone wrap_example_tree /\
  exists outs, build (fun _ => false) PSortNone wrap_example_tree = Ok outs /\ List.length outs = 2.
Proof.
  split.
  - apply build_wrap; [unfold wrap_example_tree; eauto|].
    intros m H. vm_compute in H. inv H. cbn [distinct_ids]. split; [|split; [intros x []|exact I]].
    intros x [<-|[]]. vm_compute. reflexivity.
  - eexists. split; [vm_compute; reflexivity|reflexivity].
Qed.

(* ---------- the comparator of the legacy sort (with or without the rank guard of /repo fc14842) is asymmetric ---------- *)
From KV Require Base.StrOrder Res.LegacySortProofs.
From Coq Require Import ZArith Lia.

Lemma legacy_less_g_asym guarded first last a b :
  LegacySort.legacy_less_g guarded first last a b = true -> LegacySort.legacy_less_g guarded first last b a = false.
Proof.
  unfold LegacySort.legacy_less_g. rewrite (LegacySortProofs.gvk_eqb_sym (LegacySort.id_gvk b)).
  destruct (LegacySort.gvk_eqb (LegacySort.id_gvk a) (LegacySort.id_gvk b)); cbn [negb].
  - apply StrOrder.sltb_asym.
  - generalize (LegacySort.id_gvk a) (LegacySort.id_gvk b). clear a b. intros a b.
    unfold LegacySort.gvk_less_than_g.
    rewrite (Z.eqb_sym (LegacySort.type_order first last (LegacySort.g_kind b))).
    destruct (Z.eqb (LegacySort.type_order first last (LegacySort.g_kind a))
                    (LegacySort.type_order first last (LegacySort.g_kind b))) eqn:E; cbn [negb].
    + apply Z.eqb_eq in E. rewrite <- E.
      rewrite (andb_comm (String.eqb (LegacySort.g_kind b) _)), (orb_comm (String.eqb (LegacySort.g_group b) _)).
      match goal with |- (if ?c then _ else _) = true -> _ => destruct c end; apply StrOrder.sltb_asym.
    + intros H. apply Z.ltb_lt in H. apply Z.ltb_ge. lia.
Qed.

Lemma res_less_asym first last a b : res_less first last a b = true -> res_less first last b a = false.
Proof. unfold res_less. apply legacy_less_g_asym. Qed.
