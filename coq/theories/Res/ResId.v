(* Model of kyaml/resid: Gvk (gvk.go) and ResId (resid.go). Definitions only. *)
From KV Require Export Yaml.FieldSpec Res.NameRefTypes.

(* ---------- Gvk ---------- *)

(* Gvk.Equals: the three exported fields *)
Definition gvk_equals (a b : gvk) : bool :=
  String.eqb (g_group a) (g_group b) && String.eqb (g_version a) (g_version b) &&
  String.eqb (g_kind a) (g_kind b).

(* x.IsSelected(&sel): empty selector fields are wild cards *)
Definition gvk_is_selected (x sel : gvk) : bool :=
  (String.eqb (g_group sel) "" || String.eqb (g_group x) (g_group sel)) &&
  (String.eqb (g_version sel) "" || String.eqb (g_version x) (g_version sel)) &&
  (String.eqb (g_kind sel) "" || String.eqb (g_kind x) (g_kind sel)).

(* Gvk.ApiVersion *)
Definition gvk_api_version (g v : string) : string :=
  if String.eqb g "" then v else g ++ "/" ++ v.

(* a Gvk literal / unmarshalled Gvk (isClusterScoped = false) *)
Definition gvk_lit (g v k : string) : gvk := mkGvk g v k false.

(* Gvk.stableSortString *)
Definition stable_sort_string (x : gvk) : string :=
  (if String.eqb (g_group x) "" then "~G" else g_group x) ++ "_" ++
  (if String.eqb (g_version x) "" then "~V" else g_version x) ++ "_" ++
  (if String.eqb (g_kind x) "" then "~K" else g_kind x).

(* index of the LAST occurrence (Go fills the typeOrders map front to back: later entries win) *)
Fixpoint last_index_from (k : string) (l : list string) (i : nat) (acc : option nat) : option nat :=
  match l with
  | [] => acc
  | x :: t => last_index_from k t (S i) (if String.eqb x k then Some i else acc)
  end.
Definition last_index (k : string) (l : list string) : option nat := last_index_from k l 0 None.

Section GvkOrder.
  (* orderFirst / orderLast of gvk.go (generated: Gen/NameRefRules.v) *)
  Variable order_first order_last : list string.

  (* typeOrders[k] (0 when absent) *)
  Definition type_order (k : string) : Z :=
    match last_index k order_last with
    | Some i => (1 + Z.of_nat i)%Z
    | None =>
        match last_index k order_first with
        | Some i => (Z.of_nat i - Z.of_nat (List.length order_first))%Z
        | None => 0%Z
        end
    end.

  (* Gvk.IsLessThan *)
  Definition gvk_less (x o : gvk) : bool :=
    let i := type_order (g_kind x) in
    let j := type_order (g_kind o) in
    if (i =? j)%Z then String.ltb (stable_sort_string x) (stable_sort_string o)
    else (i <? j)%Z.
End GvkOrder.

(* ---------- ResId ---------- *)

Definition totally_not_a_namespace : string := "_non_namespaceable_".
Definition default_namespace : string := "default".

Definition id_cluster_scoped (id : resid) : bool := g_cs (id_gvk id).

(* ResId.EffectiveNamespace *)
Definition effective_ns (id : resid) : string :=
  if id_cluster_scoped id then totally_not_a_namespace
  else if String.eqb (id_ns id) "" || String.eqb (id_ns id) default_namespace then default_namespace
  else id_ns id.

Definition id_ns_equals (a b : resid) : bool := String.eqb (effective_ns a) (effective_ns b).
Definition id_gvkn_equals (a b : resid) : bool :=
  String.eqb (id_name a) (id_name b) && gvk_equals (id_gvk a) (id_gvk b).
(* ResId.Equals *)
Definition id_equals (a b : resid) : bool := id_ns_equals a b && id_gvkn_equals a b.

(* id.IsSelectedBy(sel) *)
Definition id_is_selected_by (id sel : resid) : bool :=
  (String.eqb (id_name sel) "" || String.eqb (id_name sel) (id_name id)) &&
  (String.eqb (id_ns sel) "" || id_ns_equals sel id) &&
  gvk_is_selected (id_gvk id) (id_gvk sel).
