(* Proofs about KV.Res.Hygiene (annotation stripping of krusty.Run). *)
From KV Require Import Base.Prelude Res.HygieneTypes Gen.Annotations Res.Hygiene.
Open Scope list_scope.

Lemma str_in_iff s l : str_in s l = true <-> In s l.
Proof.
  induction l as [|x t IH]; cbn.
  - split; [discriminate | tauto].
  - rewrite orb_true_iff, IH, String.eqb_eq. split; intros [H|H]; auto.
Qed.

Lemma str_in_false s l : str_in s l = false <-> ~ In s l.
Proof. rewrite <- str_in_iff. destruct (str_in s l); split; congruence. Qed.

Lemma str_in_app s a b : str_in s (a ++ b) = str_in s a || str_in s b.
Proof. induction a as [|x t IH]; cbn; auto. rewrite IH, orb_assoc. reflexivity. Qed.

(* ---------- removing keys ---------- *)

Lemma remove_all_not_in ks a k : In k ks -> ~ In k (map fst (ann_remove_all ks a)).
Proof.
  intros Hk Hin. apply in_map_iff in Hin as [[k' v] [E Hf]]. cbn in E; subst k'.
  apply filter_In in Hf as [_ Hf]. cbn in Hf.
  apply str_in_iff in Hk. rewrite Hk in Hf. discriminate.
Qed.

Lemma remove_all_incl ks a kv : In kv (ann_remove_all ks a) -> In kv a.
Proof. intros H. apply filter_In in H. tauto. Qed.

Lemma remove_all_keeps ks a kv : In kv a -> ~ In (fst kv) ks -> In kv (ann_remove_all ks a).
Proof. intros H N. apply filter_In. split; auto. apply str_in_false in N. rewrite N. reflexivity. Qed.

Lemma remove_all_twice ks1 ks2 a : ann_remove_all ks2 (ann_remove_all ks1 a) = ann_remove_all (ks1 ++ ks2) a.
Proof.
  unfold ann_remove_all. induction a as [|[k v] t IH]; cbn; auto.
  rewrite str_in_app. destruct (str_in k ks1) eqn:E1; cbn.
  - apply IH.
  - destruct (str_in k ks2); cbn; rewrite IH; reflexivity.
Qed.

Lemma remove_all_nil a : ann_remove_all [] a = a.
Proof. unfold ann_remove_all. induction a as [|[k v] t IH]; cbn in *; congruence. Qed.

(* ---------- the sequence of calls, over an arbitrary call list ---------- *)

Section Calls.
  Variable bm : list string.

  Definition strip_with (cs : list (string * strip_guard)) (a : annmap) : annmap :=
    fold_left (fun acc c => if guard_active bm (snd c) then ann_remove_all (method_keys (fst c)) acc else acc) cs a.

  Definition keys_with (cs : list (string * strip_guard)) : list string :=
    flat_map (fun c => if guard_active bm (snd c) then method_keys (fst c) else []) cs.

  Lemma strip_with_eq cs a : strip_with cs a = ann_remove_all (keys_with cs) a.
  Proof.
    revert a. induction cs as [|c t IH]; intros a; cbn.
    - symmetry. apply remove_all_nil.
    - unfold strip_with in IH. rewrite IH. destruct (guard_active bm (snd c)); cbn.
      + apply remove_all_twice.
      + reflexivity.
  Qed.
End Calls.

Lemma strip_run_eq bm a : strip_run bm a = ann_remove_all (run_stripped_keys bm) a.
Proof. apply (strip_with_eq bm gen_run_strips a). Qed.

(* every key removed for this buildMetadata is gone, whatever the annotations were *)
Lemma strip_run_removes bm a k : In k (run_stripped_keys bm) -> ~ In k (map fst (strip_run bm a)).
Proof. rewrite strip_run_eq. apply remove_all_not_in. Qed.

(* nothing else is touched *)
Lemma strip_run_keeps bm a kv : In kv a -> ~ In (fst kv) (run_stripped_keys bm) -> In kv (strip_run bm a).
Proof. rewrite strip_run_eq. apply remove_all_keeps. Qed.

Lemma strip_run_incl bm a kv : In kv (strip_run bm a) -> In kv a.
Proof. rewrite strip_run_eq. apply remove_all_incl. Qed.

(* stripping is idempotent *)
Lemma strip_run_idem bm a : strip_run bm (strip_run bm a) = strip_run bm a.
Proof.
  rewrite !strip_run_eq. rewrite remove_all_twice.
  unfold ann_remove_all. apply filter_ext. intros kv. rewrite str_in_app, orb_diag. reflexivity.
Qed.

(* ---------- from "nothing requested" to an arbitrary buildMetadata ---------- *)

Definition req_with (bm : list string) (cs : list (string * strip_guard)) : list string :=
  flat_map (fun c => match snd c with
                     | GUnlessRequested o => if str_in o bm then method_keys (fst c) else []
                     | _ => []
                     end) cs.

Lemma keys_with_any bm cs k :
  In k (keys_with [] cs) -> ~ In k (req_with bm cs) -> In k (keys_with bm cs).
Proof.
  induction cs as [|[m g] t IH]; cbn; intros H N; auto.
  apply in_app_or in H. apply in_or_app.
  destruct H as [H|H].
  - destruct g as [|o|]; cbn in *.
    + left; exact H.
    + destruct (str_in o bm) eqn:E; cbn.
      * exfalso. apply N. apply in_or_app. left. exact H.
      * left; exact H.
    + destruct H.
  - right. apply IH; auto. intros X. apply N. apply in_or_app. right. exact X.
Qed.

(* the generated-table obligation, nothing requested *)
Lemma gen_every_written_is_stripped : every_written_is_stripped_b = true.
Proof. vm_compute. reflexivity. Qed.

Lemma gen_strips_classified : strips_classified_b = true.
Proof. vm_compute. reflexivity. Qed.

Lemma gen_requested_survive : requested_survive_b = true.
Proof. vm_compute. reflexivity. Qed.

(* in logical form, for every buildMetadata: an internal key that was not asked for is among the removed keys *)
Lemma every_written_is_stripped bm k :
  In k internal_keys -> ~ In k (requested_keys bm) -> In k (run_stripped_keys bm).
Proof.
  intros Hk Hn.
  pose proof gen_every_written_is_stripped as G. unfold every_written_is_stripped_b in G.
  rewrite forallb_forall in G. specialize (G k Hk). apply str_in_iff in G.
  apply (keys_with_any bm gen_run_strips k G Hn).
Qed.

(* C07_hygiene at the level of one annotation map *)
Lemma hygiene bm a k :
  In k internal_keys -> ~ In k (requested_keys bm) -> ~ In k (map fst (strip_run bm a)).
Proof. intros Hk Hn. apply strip_run_removes. apply every_written_is_stripped; assumption. Qed.

Lemma must_be_absent_spec bm k : In k (must_be_absent bm) <-> In k internal_keys /\ ~ In k (requested_keys bm).
Proof.
  unfold must_be_absent. rewrite filter_In. rewrite negb_true_iff, str_in_false. tauto.
Qed.

(* non-vacuity: the internal key set is the 18 build annotations plus origin and transformations,
   and a concrete annotation map loses exactly those *)
Example internal_keys_count : List.length internal_keys = 20.
Proof. vm_compute. reflexivity. Qed.

Example hygiene_example :
  strip_run ["originAnnotations"]
    [ ("app", "x"); (K_utils_BuildAnnotationPreviousNames, "a"); (K_kioutil_PathAnnotation, "f.yaml");
      (K_utils_OriginAnnotationKey, "path: f.yaml"); (K_utils_TransformerAnnotationKey, "t");
      (K_konfig_IgnoredByKustomizeAnnotation, "false") ]
  = [ ("app", "x"); (K_utils_OriginAnnotationKey, "path: f.yaml"); (K_konfig_IgnoredByKustomizeAnnotation, "false") ].
Proof. vm_compute. reflexivity. Qed.

Example origin_absent_unless_requested :
  In K_utils_OriginAnnotationKey (must_be_absent []) /\ ~ In K_utils_OriginAnnotationKey (must_be_absent ["originAnnotations"]).
Proof.
  split.
  - apply str_in_iff. vm_compute. reflexivity.
  - apply str_in_false. vm_compute. reflexivity.
Qed.

(* the source still runs the build tail in the order ResMapModel.finalize models *)
Lemma gen_tail_order : tail_order_b = true.
Proof. vm_compute. reflexivity. Qed.

(* every qualified string of the source is classified; every annotation write site is covered *)
Lemma gen_qualified_classified : qualified_classified_b = true.
Proof. vm_compute. reflexivity. Qed.

Lemma gen_write_sites_covered : write_sites_covered_b = true.
Proof. vm_compute. reflexivity. Qed.

Example api_version_examples :
  is_api_version "rbac.authorization.k8s.io/v1beta1" = true /\ is_api_version "config.kubernetes.io/v1" = true /\
  is_api_version "config.kubernetes.io/index" = false /\ is_api_version "x.io/v1thing" = false /\
  is_api_version "x.io/v" = false /\ is_api_version "x.io/v2alpha" = false.
Proof. vm_compute. repeat split. Qed.

Lemma gen_plugin_protocol_removed : plugin_protocol_removed_b = true.
Proof. vm_compute. reflexivity. Qed.
