(* REFERENCE COPY ("the documented rule set") of the tables Gen/NameRefRules.v is regenerated from:
     api/internal/konfig/builtinpluginconsts/namereference.go, kyaml/resid/gvk.go (orderFirst / orderLast),
     api/internal/builtins/{Prefix,Suffix}Transformer.go (skip lists)
   as they are at the pinned commit of /repo (incl. fix 9f584a1: IngressClass group networking.k8s.io).  Committed, never regenerated: the obligation
   Gen_nameref_rules_eq_ref (Props/C03.v) compares the regenerated tables with this copy, so ANY edit of
   a row (kind, group, version, path, create flag, order) is noticed.  To accept an intended change of the
   rule set, replace this file by the new Gen/NameRefRules.v (renaming gen_ to ref_) and
   corpus/fieldspecs.ref.json by `translate -dumpref`. *)
From KV Require Import Res.NameRefTypes.
Open Scope string_scope.

Definition ref_nameref_raw : list nbr := [
  mkNbr "" "" "Deployment" [
    mkFs "" "" "HorizontalPodAutoscaler" "spec/scaleTargetRef/name" false
  ];
  mkNbr "" "" "ReplicationController" [
    mkFs "" "" "HorizontalPodAutoscaler" "spec/scaleTargetRef/name" false
  ];
  mkNbr "" "" "ReplicaSet" [
    mkFs "" "" "HorizontalPodAutoscaler" "spec/scaleTargetRef/name" false
  ];
  mkNbr "" "" "StatefulSet" [
    mkFs "" "" "HorizontalPodAutoscaler" "spec/scaleTargetRef/name" false
  ];
  mkNbr "" "v1" "ConfigMap" [
    mkFs "" "v1" "Pod" "spec/volumes/configMap/name" false;
    mkFs "" "v1" "Pod" "spec/containers/env/valueFrom/configMapKeyRef/name" false;
    mkFs "" "v1" "Pod" "spec/initContainers/env/valueFrom/configMapKeyRef/name" false;
    mkFs "" "v1" "Pod" "spec/containers/envFrom/configMapRef/name" false;
    mkFs "" "v1" "Pod" "spec/initContainers/envFrom/configMapRef/name" false;
    mkFs "" "v1" "Pod" "spec/volumes/projected/sources/configMap/name" false;
    mkFs "" "" "PodTemplate" "template/spec/volumes/configMap/name" false;
    mkFs "" "" "PodTemplate" "template/spec/containers/env/valueFrom/configMapKeyRef/name" false;
    mkFs "" "" "PodTemplate" "template/spec/initContainers/env/valueFrom/configMapKeyRef/name" false;
    mkFs "" "" "PodTemplate" "template/spec/containers/envFrom/configMapRef/name" false;
    mkFs "" "" "PodTemplate" "template/spec/initContainers/envFrom/configMapRef/name" false;
    mkFs "" "" "PodTemplate" "template/spec/volumes/projected/sources/configMap/name" false;
    mkFs "" "" "Deployment" "spec/template/spec/volumes/configMap/name" false;
    mkFs "" "" "Deployment" "spec/template/spec/containers/env/valueFrom/configMapKeyRef/name" false;
    mkFs "" "" "Deployment" "spec/template/spec/initContainers/env/valueFrom/configMapKeyRef/name" false;
    mkFs "" "" "Deployment" "spec/template/spec/containers/envFrom/configMapRef/name" false;
    mkFs "" "" "Deployment" "spec/template/spec/initContainers/envFrom/configMapRef/name" false;
    mkFs "" "" "Deployment" "spec/template/spec/volumes/projected/sources/configMap/name" false;
    mkFs "" "" "ReplicaSet" "spec/template/spec/volumes/configMap/name" false;
    mkFs "" "" "ReplicaSet" "spec/template/spec/containers/env/valueFrom/configMapKeyRef/name" false;
    mkFs "" "" "ReplicaSet" "spec/template/spec/initContainers/env/valueFrom/configMapKeyRef/name" false;
    mkFs "" "" "ReplicaSet" "spec/template/spec/containers/envFrom/configMapRef/name" false;
    mkFs "" "" "ReplicaSet" "spec/template/spec/initContainers/envFrom/configMapRef/name" false;
    mkFs "" "" "ReplicaSet" "spec/template/spec/volumes/projected/sources/configMap/name" false;
    mkFs "" "" "DaemonSet" "spec/template/spec/volumes/configMap/name" false;
    mkFs "" "" "DaemonSet" "spec/template/spec/containers/env/valueFrom/configMapKeyRef/name" false;
    mkFs "" "" "DaemonSet" "spec/template/spec/initContainers/env/valueFrom/configMapKeyRef/name" false;
    mkFs "" "" "DaemonSet" "spec/template/spec/containers/envFrom/configMapRef/name" false;
    mkFs "" "" "DaemonSet" "spec/template/spec/initContainers/envFrom/configMapRef/name" false;
    mkFs "" "" "DaemonSet" "spec/template/spec/volumes/projected/sources/configMap/name" false;
    mkFs "" "" "StatefulSet" "spec/template/spec/volumes/configMap/name" false;
    mkFs "" "" "StatefulSet" "spec/template/spec/containers/env/valueFrom/configMapKeyRef/name" false;
    mkFs "" "" "StatefulSet" "spec/template/spec/initContainers/env/valueFrom/configMapKeyRef/name" false;
    mkFs "" "" "StatefulSet" "spec/template/spec/containers/envFrom/configMapRef/name" false;
    mkFs "" "" "StatefulSet" "spec/template/spec/initContainers/envFrom/configMapRef/name" false;
    mkFs "" "" "StatefulSet" "spec/template/spec/volumes/projected/sources/configMap/name" false;
    mkFs "" "" "Job" "spec/template/spec/volumes/configMap/name" false;
    mkFs "" "" "Job" "spec/template/spec/containers/env/valueFrom/configMapKeyRef/name" false;
    mkFs "" "" "Job" "spec/template/spec/initContainers/env/valueFrom/configMapKeyRef/name" false;
    mkFs "" "" "Job" "spec/template/spec/containers/envFrom/configMapRef/name" false;
    mkFs "" "" "Job" "spec/template/spec/initContainers/envFrom/configMapRef/name" false;
    mkFs "" "" "Job" "spec/template/spec/volumes/projected/sources/configMap/name" false;
    mkFs "" "" "CronJob" "spec/jobTemplate/spec/template/spec/volumes/configMap/name" false;
    mkFs "" "" "CronJob" "spec/jobTemplate/spec/template/spec/volumes/projected/sources/configMap/name" false;
    mkFs "" "" "CronJob" "spec/jobTemplate/spec/template/spec/containers/env/valueFrom/configMapKeyRef/name" false;
    mkFs "" "" "CronJob" "spec/jobTemplate/spec/template/spec/initContainers/env/valueFrom/configMapKeyRef/name" false;
    mkFs "" "" "CronJob" "spec/jobTemplate/spec/template/spec/containers/envFrom/configMapRef/name" false;
    mkFs "" "" "CronJob" "spec/jobTemplate/spec/template/spec/initContainers/envFrom/configMapRef/name" false;
    mkFs "" "" "Node" "spec/configSource/configMap" false;
    mkFs "" "" "Role" "rules/resourceNames" false;
    mkFs "" "" "ClusterRole" "rules/resourceNames" false;
    mkFs "" "" "Ingress" "metadata/annotations/nginx.ingress.kubernetes.io\/fastcgi-params-configmap" false
  ];
  mkNbr "" "v1" "Secret" [
    mkFs "" "v1" "Pod" "spec/volumes/secret/secretName" false;
    mkFs "" "v1" "Pod" "spec/containers/env/valueFrom/secretKeyRef/name" false;
    mkFs "" "v1" "Pod" "spec/initContainers/env/valueFrom/secretKeyRef/name" false;
    mkFs "" "v1" "Pod" "spec/containers/envFrom/secretRef/name" false;
    mkFs "" "v1" "Pod" "spec/initContainers/envFrom/secretRef/name" false;
    mkFs "" "v1" "Pod" "spec/imagePullSecrets/name" false;
    mkFs "" "v1" "Pod" "spec/volumes/projected/sources/secret/name" false;
    mkFs "" "" "PodTemplate" "template/spec/volumes/secret/secretName" false;
    mkFs "" "" "PodTemplate" "template/spec/containers/env/valueFrom/secretKeyRef/name" false;
    mkFs "" "" "PodTemplate" "template/spec/initContainers/env/valueFrom/secretKeyRef/name" false;
    mkFs "" "" "PodTemplate" "template/spec/containers/envFrom/secretRef/name" false;
    mkFs "" "" "PodTemplate" "template/spec/initContainers/envFrom/secretRef/name" false;
    mkFs "" "" "PodTemplate" "template/spec/imagePullSecrets/name" false;
    mkFs "" "" "PodTemplate" "template/spec/volumes/projected/sources/secret/name" false;
    mkFs "" "" "Deployment" "spec/template/spec/volumes/secret/secretName" false;
    mkFs "" "" "Deployment" "spec/template/spec/containers/env/valueFrom/secretKeyRef/name" false;
    mkFs "" "" "Deployment" "spec/template/spec/initContainers/env/valueFrom/secretKeyRef/name" false;
    mkFs "" "" "Deployment" "spec/template/spec/containers/envFrom/secretRef/name" false;
    mkFs "" "" "Deployment" "spec/template/spec/initContainers/envFrom/secretRef/name" false;
    mkFs "" "" "Deployment" "spec/template/spec/imagePullSecrets/name" false;
    mkFs "" "" "Deployment" "spec/template/spec/volumes/projected/sources/secret/name" false;
    mkFs "" "" "ReplicaSet" "spec/template/spec/volumes/secret/secretName" false;
    mkFs "" "" "ReplicaSet" "spec/template/spec/containers/env/valueFrom/secretKeyRef/name" false;
    mkFs "" "" "ReplicaSet" "spec/template/spec/initContainers/env/valueFrom/secretKeyRef/name" false;
    mkFs "" "" "ReplicaSet" "spec/template/spec/containers/envFrom/secretRef/name" false;
    mkFs "" "" "ReplicaSet" "spec/template/spec/initContainers/envFrom/secretRef/name" false;
    mkFs "" "" "ReplicaSet" "spec/template/spec/imagePullSecrets/name" false;
    mkFs "" "" "ReplicaSet" "spec/template/spec/volumes/projected/sources/secret/name" false;
    mkFs "" "" "DaemonSet" "spec/template/spec/volumes/secret/secretName" false;
    mkFs "" "" "DaemonSet" "spec/template/spec/containers/env/valueFrom/secretKeyRef/name" false;
    mkFs "" "" "DaemonSet" "spec/template/spec/initContainers/env/valueFrom/secretKeyRef/name" false;
    mkFs "" "" "DaemonSet" "spec/template/spec/containers/envFrom/secretRef/name" false;
    mkFs "" "" "DaemonSet" "spec/template/spec/initContainers/envFrom/secretRef/name" false;
    mkFs "" "" "DaemonSet" "spec/template/spec/imagePullSecrets/name" false;
    mkFs "" "" "DaemonSet" "spec/template/spec/volumes/projected/sources/secret/name" false;
    mkFs "" "" "StatefulSet" "spec/template/spec/volumes/secret/secretName" false;
    mkFs "" "" "StatefulSet" "spec/template/spec/containers/env/valueFrom/secretKeyRef/name" false;
    mkFs "" "" "StatefulSet" "spec/template/spec/initContainers/env/valueFrom/secretKeyRef/name" false;
    mkFs "" "" "StatefulSet" "spec/template/spec/containers/envFrom/secretRef/name" false;
    mkFs "" "" "StatefulSet" "spec/template/spec/initContainers/envFrom/secretRef/name" false;
    mkFs "" "" "StatefulSet" "spec/template/spec/imagePullSecrets/name" false;
    mkFs "" "" "StatefulSet" "spec/template/spec/volumes/projected/sources/secret/name" false;
    mkFs "" "" "Job" "spec/template/spec/volumes/secret/secretName" false;
    mkFs "" "" "Job" "spec/template/spec/containers/env/valueFrom/secretKeyRef/name" false;
    mkFs "" "" "Job" "spec/template/spec/initContainers/env/valueFrom/secretKeyRef/name" false;
    mkFs "" "" "Job" "spec/template/spec/containers/envFrom/secretRef/name" false;
    mkFs "" "" "Job" "spec/template/spec/initContainers/envFrom/secretRef/name" false;
    mkFs "" "" "Job" "spec/template/spec/imagePullSecrets/name" false;
    mkFs "" "" "Job" "spec/template/spec/volumes/projected/sources/secret/name" false;
    mkFs "" "" "CronJob" "spec/jobTemplate/spec/template/spec/volumes/secret/secretName" false;
    mkFs "" "" "CronJob" "spec/jobTemplate/spec/template/spec/volumes/projected/sources/secret/name" false;
    mkFs "" "" "CronJob" "spec/jobTemplate/spec/template/spec/containers/env/valueFrom/secretKeyRef/name" false;
    mkFs "" "" "CronJob" "spec/jobTemplate/spec/template/spec/initContainers/env/valueFrom/secretKeyRef/name" false;
    mkFs "" "" "CronJob" "spec/jobTemplate/spec/template/spec/containers/envFrom/secretRef/name" false;
    mkFs "" "" "CronJob" "spec/jobTemplate/spec/template/spec/initContainers/envFrom/secretRef/name" false;
    mkFs "" "" "CronJob" "spec/jobTemplate/spec/template/spec/imagePullSecrets/name" false;
    mkFs "" "" "Ingress" "spec/tls/secretName" false;
    mkFs "" "" "Ingress" "metadata/annotations/ingress.kubernetes.io\/auth-secret" false;
    mkFs "" "" "Ingress" "metadata/annotations/nginx.ingress.kubernetes.io\/auth-secret" false;
    mkFs "" "" "Ingress" "metadata/annotations/nginx.ingress.kubernetes.io\/auth-tls-secret" false;
    mkFs "" "" "ServiceAccount" "imagePullSecrets/name" false;
    mkFs "" "" "StorageClass" "parameters/secretName" false;
    mkFs "" "" "StorageClass" "parameters/adminSecretName" false;
    mkFs "" "" "StorageClass" "parameters/userSecretName" false;
    mkFs "" "" "StorageClass" "parameters/secretRef" false;
    mkFs "" "" "Role" "rules/resourceNames" false;
    mkFs "" "" "ClusterRole" "rules/resourceNames" false;
    mkFs "serving.knative.dev" "v1" "Service" "spec/template/spec/containers/env/valueFrom/secretKeyRef/name" false;
    mkFs "" "" "PersistentVolume" "spec/azureFile/secretName" false
  ];
  mkNbr "" "v1" "Service" [
    mkFs "apps" "" "StatefulSet" "spec/serviceName" false;
    mkFs "" "" "Ingress" "spec/rules/http/paths/backend/serviceName" false;
    mkFs "" "" "Ingress" "spec/backend/serviceName" false;
    mkFs "" "" "Ingress" "spec/rules/http/paths/backend/service/name" false;
    mkFs "" "" "Ingress" "spec/defaultBackend/service/name" false;
    mkFs "apiregistration.k8s.io" "" "APIService" "spec/service/name" false;
    mkFs "admissionregistration.k8s.io" "" "ValidatingWebhookConfiguration" "webhooks/clientConfig/service" false;
    mkFs "admissionregistration.k8s.io" "" "MutatingWebhookConfiguration" "webhooks/clientConfig/service" false
  ];
  mkNbr "rbac.authorization.k8s.io" "" "Role" [
    mkFs "rbac.authorization.k8s.io" "" "RoleBinding" "roleRef/name" false
  ];
  mkNbr "rbac.authorization.k8s.io" "" "ClusterRole" [
    mkFs "rbac.authorization.k8s.io" "" "RoleBinding" "roleRef/name" false;
    mkFs "rbac.authorization.k8s.io" "" "ClusterRoleBinding" "roleRef/name" false
  ];
  mkNbr "" "v1" "ServiceAccount" [
    mkFs "rbac.authorization.k8s.io" "" "RoleBinding" "subjects" false;
    mkFs "rbac.authorization.k8s.io" "" "ClusterRoleBinding" "subjects" false;
    mkFs "" "" "Pod" "spec/serviceAccountName" false;
    mkFs "" "" "StatefulSet" "spec/template/spec/serviceAccountName" false;
    mkFs "" "" "Deployment" "spec/template/spec/serviceAccountName" false;
    mkFs "" "" "ReplicationController" "spec/template/spec/serviceAccountName" false;
    mkFs "" "" "CronJob" "spec/jobTemplate/spec/template/spec/serviceAccountName" false;
    mkFs "" "" "Job" "spec/template/spec/serviceAccountName" false;
    mkFs "" "" "DaemonSet" "spec/template/spec/serviceAccountName" false
  ];
  mkNbr "" "v1" "PersistentVolumeClaim" [
    mkFs "" "" "Pod" "spec/volumes/persistentVolumeClaim/claimName" false;
    mkFs "" "" "StatefulSet" "spec/template/spec/volumes/persistentVolumeClaim/claimName" false;
    mkFs "" "" "Deployment" "spec/template/spec/volumes/persistentVolumeClaim/claimName" false;
    mkFs "" "" "ReplicationController" "spec/template/spec/volumes/persistentVolumeClaim/claimName" false;
    mkFs "" "" "CronJob" "spec/jobTemplate/spec/template/spec/volumes/persistentVolumeClaim/claimName" false;
    mkFs "" "" "Job" "spec/template/spec/volumes/persistentVolumeClaim/claimName" false;
    mkFs "" "" "DaemonSet" "spec/template/spec/volumes/persistentVolumeClaim/claimName" false
  ];
  mkNbr "" "v1" "PersistentVolume" [
    mkFs "" "" "PersistentVolumeClaim" "spec/volumeName" false;
    mkFs "" "" "ClusterRole" "rules/resourceNames" false
  ];
  mkNbr "storage.k8s.io" "v1" "StorageClass" [
    mkFs "" "" "PersistentVolume" "spec/storageClassName" false;
    mkFs "" "" "PersistentVolumeClaim" "spec/storageClassName" false;
    mkFs "" "" "StatefulSet" "spec/volumeClaimTemplates/spec/storageClassName" false
  ];
  mkNbr "scheduling.k8s.io" "v1" "PriorityClass" [
    mkFs "" "" "Pod" "spec/priorityClassName" false;
    mkFs "" "" "StatefulSet" "spec/template/spec/priorityClassName" false;
    mkFs "" "" "Deployment" "spec/template/spec/priorityClassName" false;
    mkFs "" "" "ReplicationController" "spec/template/spec/priorityClassName" false;
    mkFs "" "" "CronJob" "spec/jobTemplate/spec/template/spec/priorityClassName" false;
    mkFs "" "" "Job" "spec/template/spec/priorityClassName" false;
    mkFs "" "" "DaemonSet" "spec/template/spec/priorityClassName" false
  ];
  mkNbr "networking.k8s.io" "v1" "IngressClass" [
    mkFs "" "" "Ingress" "spec/ingressClassName" false
  ];
  mkNbr "admissionregistration.k8s.io" "" "ValidatingAdmissionPolicy" [
    mkFs "admissionregistration.k8s.io" "" "ValidatingAdmissionPolicyBinding" "spec/policyName" false
  ]
].

Definition ref_gvk_order_first : list string := ["Namespace"; "ResourceQuota"; "StorageClass"; "CustomResourceDefinition"; "ServiceAccount"; "PodSecurityPolicy"; "Role"; "ClusterRole"; "RoleBinding"; "ClusterRoleBinding"; "ConfigMap"; "Secret"; "Endpoints"; "Service"; "LimitRange"; "PriorityClass"; "PersistentVolume"; "PersistentVolumeClaim"; "Deployment"; "StatefulSet"; "CronJob"; "PodDisruptionBudget"].

Definition ref_gvk_order_last : list string := ["MutatingWebhookConfiguration"; "ValidatingWebhookConfiguration"].

Definition ref_prefix_skip : list gvk := [mkGvk "" "" "CustomResourceDefinition" false; mkGvk "apiregistration.k8s.io" "" "APIService" false; mkGvk "" "" "Namespace" false].

Definition ref_suffix_skip : list gvk := [mkGvk "" "" "CustomResourceDefinition" false; mkGvk "apiregistration.k8s.io" "" "APIService" false; mkGvk "" "" "Namespace" false].

