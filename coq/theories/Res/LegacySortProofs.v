(* Proofs about the legacy order (C11): legacyIDSorter.Less is a strict total order on valid ids when
   "Namespace" has a rank of its own; it is NOT transitive otherwise (witnesses). *)
From KV Require Import Res.LegacySort.
From Coq Require Import Sorting.Permutation Sorting.Sorted.
Open Scope string_scope.

(* ---------- equality tests ---------- *)

Lemma gvk_eqb_eq : forall a b, gvk_eqb a b = true <-> a = b.
Proof.
  intros [g1 v1 k1] [g2 v2 k2]. unfold gvk_eqb; simpl. split.
  - intros H. apply andb_true_iff in H. destruct H as [H H3]. apply andb_true_iff in H. destruct H as [H1 H2].
    apply String.eqb_eq in H1, H2, H3. subst. auto.
  - intros H. inversion H. subst. rewrite !String.eqb_refl. auto.
Qed.

Lemma gvk_eqb_refl : forall a, gvk_eqb a a = true.
Proof. intros. apply gvk_eqb_eq. auto. Qed.

Lemma gvk_eqb_sym : forall a b, gvk_eqb a b = gvk_eqb b a.
Proof.
  intros. destruct (gvk_eqb a b) eqn:E; destruct (gvk_eqb b a) eqn:E'; auto.
  - apply gvk_eqb_eq in E. subst. rewrite gvk_eqb_refl in E'. discriminate.
  - apply gvk_eqb_eq in E'. subst. rewrite gvk_eqb_refl in E. discriminate.
Qed.

Lemma rid_eqb_eq : forall a b, rid_eqb a b = true <-> a = b.
Proof.
  intros [g1 n1 m1] [g2 n2 m2]. unfold rid_eqb; simpl. split.
  - intros H. apply andb_true_iff in H. destruct H as [H H3]. apply andb_true_iff in H. destruct H as [H1 H2].
    apply gvk_eqb_eq in H1. apply String.eqb_eq in H2, H3. subst. auto.
  - intros H. inversion H. subst. rewrite gvk_eqb_refl, !String.eqb_refl. auto.
Qed.

Lemma or_default_nonempty : forall d s, d <> "" -> or_default d s <> "".
Proof. unfold or_default. intros d s N. destruct (String.eqb s "") eqn:E; auto. apply String.eqb_neq in E. auto. Qed.

Lemma or_default_inj : forall d a b, a <> d -> b <> d -> or_default d a = or_default d b -> a = b.
Proof.
  unfold or_default. intros d a b Na Nb.
  destruct (String.eqb a "") eqn:Ea; destruct (String.eqb b "") eqn:Eb; intros H.
  - apply String.eqb_eq in Ea, Eb. congruence.
  - congruence.
  - congruence.
  - auto.
Qed.

Lemma no_byte_or_default : forall c d s, no_byte c d = true -> no_byte c s = true -> no_byte c (or_default d s) = true.
Proof. unfold or_default. intros. destruct (String.eqb s ""); auto. Qed.

(* ---------- the sort strings are injective on valid ids ---------- *)

Lemma valid_groups_spec : forall x, valid_groups x = true ->
  no_byte "_" (g_group x) = true /\ first_below "~" (g_group x) = true /\
  no_byte "_" (g_version x) = true /\ g_version x <> "~V" /\ g_kind x <> "~K".
Proof.
  unfold valid_groups. intros x H.
  repeat (apply andb_true_iff in H; destruct H as [H ?]).
  repeat split; auto.
  - apply String.eqb_neq. apply negb_true_iff. auto.
  - apply String.eqb_neq. apply negb_true_iff. auto.
Qed.

Lemma group_not_placeholder : forall g, first_below "~" g = true -> g <> "~G".
Proof. intros g F ->. simpl in F. discriminate. Qed.

Lemma gvk_sort_string_inj : forall a b,
  valid_groups a = true -> valid_groups b = true ->
  legacy_gvk_sort_string a = legacy_gvk_sort_string b -> a = b.
Proof.
  intros [g1 v1 k1] [g2 v2 k2] Va Vb.
  apply valid_groups_spec in Va, Vb. simpl in *.
  destruct Va as (A1 & A2 & A3 & A4 & A5). destruct Vb as (B1 & B2 & B3 & B4 & B5).
  unfold legacy_gvk_sort_string; simpl. intros H.
  change ("_" ++ ?x) with (String "_" x) in H.
  apply split_unique in H; try (apply no_byte_or_default; auto).
  destruct H as [Hg H].
  change ("_" ++ ?x) with (String "_" x) in H.
  apply split_unique in H; try (apply no_byte_or_default; auto).
  destruct H as [Hv Hk].
  apply or_default_inj in Hg; auto using group_not_placeholder.
  apply or_default_inj in Hv; auto.
  apply or_default_inj in Hk; auto.
  subst. auto.
Qed.

Lemma valid_id_spec : forall i, valid_id i = true ->
  valid_groups (id_gvk i) = true /\ no_byte "|" (id_ns i) = true /\ id_ns i <> "~X" /\ id_name i <> "~N".
Proof.
  unfold valid_id. intros i H.
  apply andb_true_iff in H; destruct H as [H H4].
  apply andb_true_iff in H; destruct H as [H H3].
  apply andb_true_iff in H; destruct H as [H1 H2].
  repeat split; auto; apply String.eqb_neq; apply negb_true_iff; auto.
Qed.

Lemma resid_sort_string_inj : forall a b,
  valid_id a = true -> valid_id b = true -> id_gvk a = id_gvk b ->
  legacy_resid_sort_string a = legacy_resid_sort_string b -> a = b.
Proof.
  intros [ga na ma] [gb nb mb] Va Vb E. simpl in E. subst gb.
  apply valid_id_spec in Va, Vb. simpl in *.
  destruct Va as (_ & A2 & A3 & A4). destruct Vb as (_ & B2 & B3 & B4).
  unfold legacy_resid_sort_string; simpl. intros H.
  apply app_inj_l in H.
  change ("|" ++ ?x) with (String "|" x) in H.
  inversion H as [H'].
  apply split_unique in H'; try (apply no_byte_or_default; auto).
  destruct H' as [Hn Hm].
  apply or_default_inj in Hn; auto.
  apply or_default_inj in Hm; auto.
  subst. auto.
Qed.

(* ---------- the rank table ---------- *)

Lemma last_index_in : forall k l i j, last_index k l i = Some j -> In k l.
Proof.
  induction l as [|x t IH]; simpl; intros i j H; try discriminate.
  destruct (last_index k t (i + 1)%Z) eqn:E.
  - right. eapply IH; eauto.
  - destruct (String.eqb x k) eqn:Ex; try discriminate. apply String.eqb_eq in Ex. auto.
Qed.

Lemma type_order_unlisted : forall first last k, ~ In k (first ++ last) -> type_order first last k = 0%Z.
Proof.
  intros first last k N. unfold type_order.
  destruct (last_index k last 0) eqn:E1.
  - exfalso. apply N. apply in_or_app. right. eapply last_index_in; eauto.
  - destruct (last_index k first 0) eqn:E2; auto.
    exfalso. apply N. apply in_or_app. left. eapply last_index_in; eauto.
Qed.

Lemma namespace_isolated_spec : forall first last,
  namespace_isolated first last = true ->
  forall k, type_order first last k = type_order first last namespace_kind -> k = namespace_kind.
Proof.
  intros first last H k E. unfold namespace_isolated in H.
  apply andb_true_iff in H. destruct H as [H0 H].
  apply negb_true_iff in H0. apply Z.eqb_neq in H0.
  destruct (in_dec string_dec k (first ++ last)) as [I|N].
  - rewrite forallb_forall in H. specialize (H _ I).
    apply orb_true_iff in H. destruct H as [H|H].
    + apply String.eqb_eq. auto.
    + apply negb_true_iff in H. apply Z.eqb_neq in H. contradiction.
  - rewrite (type_order_unlisted _ _ _ N) in E. congruence.
Qed.

Section Order.
  Variable first last : list string.
  Hypothesis iso : namespace_isolated first last = true.

  Notation rank := (type_order first last).
  Notation gless := (gvk_less_than first last).
  Notation less := (legacy_less first last).
  Notation G := legacy_gvk_sort_string.

  Definition special (a b : gvk) : bool :=
    (String.eqb (g_kind a) namespace_kind && String.eqb (g_kind b) namespace_kind) &&
    (String.eqb (g_group a) "" || String.eqb (g_group b) "").

  Lemma special_sym : forall a b, special a b = special b a.
  Proof. intros. unfold special. rewrite (andb_comm (String.eqb (g_kind a) _)), (orb_comm (String.eqb (g_group a) _)). auto. Qed.

  Lemma gless_unfold : forall a b,
    gless a b = if negb (Z.eqb (rank (g_kind a)) (rank (g_kind b))) then Z.ltb (rank (g_kind a)) (rank (g_kind b))
                else if special a b then sltb (G b) (G a) else sltb (G a) (G b).
  Proof. reflexivity. Qed.

  (* a Namespace with a group sorts after every core Namespace: its sort string is below "~G..." *)
  Lemma G_grouped_below_core : forall a b,
    valid_groups b = true -> g_group a = "" -> g_group b <> "" -> sltb (G b) (G a) = true.
  Proof.
    intros [ga va ka] [gb vb kb] Vb Ea Nb. simpl in *. subst ga.
    apply valid_groups_spec in Vb. simpl in Vb. destruct Vb as (_ & F & _).
    unfold legacy_gvk_sort_string; simpl.
    unfold or_default at 1. rewrite (proj2 (String.eqb_neq gb "") Nb).
    apply first_below_lt; auto.
  Qed.

  Lemma gless_irrefl : forall a, gless a a = false.
  Proof.
    intros. rewrite gless_unfold. rewrite Z.eqb_refl. simpl.
    destruct (special a a); apply sltb_irrefl.
  Qed.

  Lemma gless_asym : forall a b, gless a b = true -> gless b a = false.
  Proof.
    intros a b. rewrite !gless_unfold. rewrite (Z.eqb_sym (rank (g_kind b))), (special_sym b a).
    destruct (Z.eqb (rank (g_kind a)) (rank (g_kind b))) eqn:E; simpl.
    - destruct (special a b); apply sltb_asym.
    - intros H. apply Z.ltb_lt in H. apply Z.ltb_ge. lia.
  Qed.

  Lemma gless_total : forall a b,
    valid_groups a = true -> valid_groups b = true -> a <> b -> gless a b = true \/ gless b a = true.
  Proof.
    intros a b Va Vb N. rewrite !gless_unfold. rewrite (Z.eqb_sym (rank (g_kind b))), (special_sym b a).
    destruct (Z.eqb (rank (g_kind a)) (rank (g_kind b))) eqn:E; simpl.
    - assert (NG : G a <> G b) by (intros X; apply N; apply gvk_sort_string_inj; auto).
      destruct (special a b).
      + destruct (sltb_total _ _ NG); auto.
      + apply sltb_total; auto.
    - apply Z.eqb_neq in E. rewrite !Z.ltb_lt. lia.
  Qed.

  Lemma kind_ns_dec : forall a, String.eqb (g_kind a) namespace_kind = true \/ String.eqb (g_kind a) namespace_kind = false.
  Proof. intros. destruct (String.eqb (g_kind a) namespace_kind); auto. Qed.

  Lemma gless_trans : forall a b c,
    valid_groups a = true -> valid_groups b = true -> valid_groups c = true ->
    gless a b = true -> gless b c = true -> gless a c = true.
  Proof.
    intros a b c Va Vb Vc. rewrite !gless_unfold.
    destruct (Z.eqb (rank (g_kind a)) (rank (g_kind b))) eqn:Eab; simpl.
    2:{ intros H1. apply Z.ltb_lt in H1.
        destruct (Z.eqb (rank (g_kind b)) (rank (g_kind c))) eqn:Ebc; simpl.
        - apply Z.eqb_eq in Ebc. intros _.
          replace (Z.eqb (rank (g_kind a)) (rank (g_kind c))) with false by (symmetry; apply Z.eqb_neq; lia).
          simpl. apply Z.ltb_lt. lia.
        - intros H2. apply Z.ltb_lt in H2.
          replace (Z.eqb (rank (g_kind a)) (rank (g_kind c))) with false by (symmetry; apply Z.eqb_neq; lia).
          simpl. apply Z.ltb_lt. lia. }
    apply Z.eqb_eq in Eab.
    destruct (Z.eqb (rank (g_kind b)) (rank (g_kind c))) eqn:Ebc; simpl.
    2:{ intros _ H2. apply Z.ltb_lt in H2.
        replace (Z.eqb (rank (g_kind a)) (rank (g_kind c))) with false by (symmetry; apply Z.eqb_neq; lia).
        simpl. apply Z.ltb_lt. lia. }
    apply Z.eqb_eq in Ebc.
    replace (Z.eqb (rank (g_kind a)) (rank (g_kind c))) with true by (symmetry; apply Z.eqb_eq; lia).
    simpl.
    (* all three ranks equal: either all three kinds are Namespace or none is *)
    pose proof (namespace_isolated_spec _ _ iso) as Iso.
    destruct (String.eqb (g_kind a) namespace_kind) eqn:Ka.
    - apply String.eqb_eq in Ka.
      assert (Kb : g_kind b = namespace_kind) by (apply Iso; rewrite <- Eab, Ka; auto).
      assert (Kc : g_kind c = namespace_kind) by (apply Iso; rewrite <- Ebc, Kb; auto).
      unfold special. rewrite Ka, Kb, Kc, String.eqb_refl. simpl.
      destruct (String.eqb_spec (g_group a) "") as [Ga|Ga];
        destruct (String.eqb_spec (g_group b) "") as [Gb|Gb];
        destruct (String.eqb_spec (g_group c) "") as [Gc|Gc]; simpl;
        intros H1 H2.
      + eapply sltb_trans; eauto.
      + apply G_grouped_below_core; auto.
      + rewrite (sltb_asym _ _ (G_grouped_below_core c b Vb Gc Gb)) in H2. discriminate.
      + apply G_grouped_below_core; auto.
      + rewrite (sltb_asym _ _ (G_grouped_below_core b a Va Gb Ga)) in H1. discriminate.
      + rewrite (sltb_asym _ _ (G_grouped_below_core b a Va Gb Ga)) in H1. discriminate.
      + rewrite (sltb_asym _ _ (G_grouped_below_core c b Vb Gc Gb)) in H2. discriminate.
      + eapply sltb_trans; eauto.
    - assert (Kb : String.eqb (g_kind b) namespace_kind = false).
      { destruct (String.eqb (g_kind b) namespace_kind) eqn:K; auto. apply String.eqb_eq in K.
        assert (g_kind a = namespace_kind) by (apply Iso; rewrite Eab, K; auto).
        apply String.eqb_neq in Ka. contradiction. }
      assert (Kc : String.eqb (g_kind c) namespace_kind = false).
      { destruct (String.eqb (g_kind c) namespace_kind) eqn:K; auto. apply String.eqb_eq in K.
        assert (g_kind b = namespace_kind) by (apply Iso; rewrite Ebc, K; auto).
        apply String.eqb_neq in Kb. contradiction. }
      unfold special. rewrite Ka, Kb, Kc. simpl. apply sltb_trans.
  Qed.

  (* ---------- legacyIDSorter.Less ---------- *)

  Lemma less_irrefl : forall a, less a a = false.
  Proof. intros. unfold legacy_less. rewrite gvk_eqb_refl. simpl. apply sltb_irrefl. Qed.

  Lemma less_asym : forall a b, less a b = true -> less b a = false.
  Proof.
    intros a b. unfold legacy_less. rewrite (gvk_eqb_sym (id_gvk b)).
    destruct (gvk_eqb (id_gvk a) (id_gvk b)); simpl.
    - apply sltb_asym.
    - apply gless_asym.
  Qed.

  Lemma less_total : forall a b,
    valid_id a = true -> valid_id b = true -> a <> b -> less a b = true \/ less b a = true.
  Proof.
    intros a b Va Vb N. unfold legacy_less. rewrite (gvk_eqb_sym (id_gvk b)).
    destruct (gvk_eqb (id_gvk a) (id_gvk b)) eqn:E; simpl.
    - apply gvk_eqb_eq in E. apply sltb_total. intros X. apply N. apply resid_sort_string_inj; auto.
    - apply gless_total.
      + apply valid_id_spec in Va. tauto.
      + apply valid_id_spec in Vb. tauto.
      + intros X. rewrite X, gvk_eqb_refl in E. discriminate.
  Qed.

  Lemma less_trans : forall a b c,
    valid_id a = true -> valid_id b = true -> valid_id c = true ->
    less a b = true -> less b c = true -> less a c = true.
  Proof.
    intros a b c Va Vb Vc. unfold legacy_less.
    pose proof (proj1 (valid_id_spec _ Va)) as Ga.
    pose proof (proj1 (valid_id_spec _ Vb)) as Gb.
    pose proof (proj1 (valid_id_spec _ Vc)) as Gc.
    destruct (gvk_eqb (id_gvk a) (id_gvk b)) eqn:Eab; simpl.
    - apply gvk_eqb_eq in Eab. rewrite Eab.
      destruct (gvk_eqb (id_gvk b) (id_gvk c)) eqn:Ebc; simpl; auto.
      apply sltb_trans.
    - destruct (gvk_eqb (id_gvk b) (id_gvk c)) eqn:Ebc; simpl.
      + apply gvk_eqb_eq in Ebc. rewrite <- Ebc. rewrite Eab. simpl. auto.
      + destruct (gvk_eqb (id_gvk a) (id_gvk c)) eqn:Eac; simpl.
        * apply gvk_eqb_eq in Eac. rewrite <- Eac. intros H1 H2.
          rewrite (gless_asym _ _ H1) in H2. discriminate.
        * apply gless_trans; auto.
  Qed.

  Definition valid_ids (l : list rid) : Prop := Forall (fun i => valid_id i = true) l.

  Lemma less_total_on : forall l, valid_ids l -> total_on less l.
  Proof.
    intros l V. unfold valid_ids in V. rewrite Forall_forall in V.
    constructor; intros.
    - apply less_irrefl.
    - apply less_asym; auto.
    - eapply less_trans; [| | |eauto|eauto]; auto.
    - apply less_total; auto.
  Qed.

  (* C11_legacy_total *)
  Theorem legacy_total : forall a b c,
    valid_id a = true -> valid_id b = true -> valid_id c = true ->
    less a a = false /\
    (less a b = true -> less b a = false) /\
    (less a b = true -> less b c = true -> less a c = true) /\
    (a <> b -> less a b = true \/ less b a = true).
  Proof.
    intros a b c Va Vb Vc. repeat split.
    - apply less_irrefl.
    - apply less_asym.
    - apply less_trans; auto.
    - apply less_total; auto.
  Qed.

  (* C11_legacy_canonical: whatever algorithm sort.Sort uses (S1 = sort_spec), the result depends only on the
     SET of ids; and it is the insertion-sorted list of the model. *)
  Theorem legacy_canonical : forall (sort : list rid -> list rid) l l',
    sort_spec less sort -> valid_ids l -> NoDup l -> Permutation l l' ->
    sort l = sort l' /\ sort l = sort_legacy first last l.
  Proof.
    intros sort l l' Sp V N P. split.
    - apply (sort_canonical _ less sort sort l l'); auto. apply less_total_on; auto.
    - apply (isort_canonical _ less sort l l); auto. apply less_total_on; auto.
  Qed.

  Theorem sort_legacy_canonical : forall l l',
    valid_ids l -> NoDup l -> Permutation l l' -> sort_legacy first last l = sort_legacy first last l'.
  Proof.
    intros. apply isort_perm_invariant; auto. apply less_total_on; auto.
  Qed.

  Theorem sort_legacy_spec : forall l,
    valid_ids l -> Permutation (sort_legacy first last l) l /\ weakly_sorted less (sort_legacy first last l).
  Proof.
    intros l V. split.
    - apply isort_perm.
    - apply isort_sorted. intros. apply less_asym; auto.
  Qed.
End Order.

(* S1 is satisfiable: the insertion sort of the model meets the contract of sort.Sort on EVERY input
   (asymmetry of Less needs no hypothesis on the ids) *)
Theorem sort_legacy_sort_spec : forall first last, sort_spec (legacy_less first last) (sort_legacy first last).
Proof.
  intros first last l. split.
  - apply isort_perm.
  - apply isort_sorted. intros a b _ _. apply less_asym.
Qed.

(* ---------- the decidable totality check used by the correspondence is sound ---------- *)
Section TotalCheck.
  Variable first last : list string.
  Notation less := (legacy_less first last).

  Lemma pairs_increasing_total : forall s, pairs_increasing first last s = true -> total_on less s.
  Proof.
    induction s as [|x t IH]; intros H.
    - constructor; intros; try contradiction.
    - simpl in H. apply andb_true_iff in H. destruct H as [H Ht].
      apply andb_true_iff in H. destruct H as [Hx Hxt].
      apply negb_true_iff in Hx. rewrite forallb_forall in Hxt.
      assert (Fwd : forall y, In y t -> less x y = true /\ less y x = false).
      { intros y Iy. specialize (Hxt _ Iy). apply andb_true_iff in Hxt. destruct Hxt as [A B].
        apply negb_true_iff in B. auto. }
      specialize (IH Ht). destruct IH as [I As T Tot].
      constructor.
      + intros a [<-|Ia]; auto.
      + intros a b [<-|Ia] [<-|Ib] L; auto.
        * apply Fwd; auto.
        * destruct (Fwd _ Ia). congruence.
      + intros a b c [<-|Ia] [<-|Ib] [<-|Ic] L1 L2; auto;
          try (destruct (Fwd _ Ia); congruence);
          try (destruct (Fwd _ Ib); congruence);
          try (destruct (Fwd _ Ic); congruence).
        apply (T a b c); auto.
      + intros a b [<-|Ia] [<-|Ib] N.
        * contradiction.
        * left. apply Fwd; auto.
        * right. apply Fwd; auto.
        * apply Tot; auto.
  Qed.

  Theorem total_on_b_sound : forall l, total_on_b first last l = true -> total_on less l.
  Proof.
    intros l H. unfold total_on_b in H. apply pairs_increasing_total in H.
    eapply total_on_perm; [|eauto]. apply isort_perm.
  Qed.
End TotalCheck.
