(* Model of the renaming transformers and of the way resources are accumulated through layers of
   kustomizations, restricted to what the name reference machinery depends on (names, namespaces and
   the rename history):
     api/internal/builtins/{PrefixTransformer,SuffixTransformer,NamespaceTransformer,HashTransformer}.go,
     api/filters/{prefix,suffix}, api/filters/namespace (metadata.namespace, the field spec table; the
       RoleBinding subject hack is NOT modelled: it does not touch identity or history),
     api/resmap/reswrangler.go (Append / AppendAll / appendReplaceOrMerge with behaviour "create"),
     api/internal/target/kusttarget.go (accumulateTarget: resources, generators, then the builtin
       transformers namespace -> prefix -> suffix; addHashesToNames at the top).
   Definitions only. *)
From KV Require Export Res.Resource.

Inductive item (L : Type) : Type :=
| IRes (r : resource)        (* one resource read from a file *)
| IGen (r : resource)        (* one generated resource *)
| ISub (l : L).              (* a base *)
Arguments IRes {L} r.
Arguments IGen {L} r.
Arguments ISub {L} l.

(* one kustomization: namespace / namePrefix / nameSuffix directives, the target selections of its `patches:`
   entries (one list of flags per entry, over the accumulated resources in order) and what it accumulates *)
Inductive layer : Type :=
| Layer (ns pfx sfx : string) (touches : list (list bool)) (items : list (item layer)).

Section Rename.
  Variable cs : string -> string -> bool.          (* openapi.IsCertainlyClusterScoped *)
  Variable nonstr : string -> bool.                (* yaml.IsValueNonString *)
  (* generated tables *)
  Variable prefix_fs suffix_fs namespace_fs : list fieldspec.
  Variable prefix_skip suffix_skip : list gvk.

  Definition fsgvk (f : fieldspec) : gvk := gvk_lit (fs_group f) (fs_version f) (fs_kind f).

  Definition should_skip (skip : list gvk) (id : resid) : bool :=
    existsb (fun s => gvk_is_selected (id_gvk id) s) skip.

  (* filtersutil.SetScalar(v) *)
  Definition set_scalar_to (v : string) (n : node) : res node :=
    set_scalar (Some (Scalar TNone SPlain v)) n.
  (* filtersutil.SetEntry("", v, "!!str") *)
  Definition set_str_entry (v : string) (n : node) : res node :=
    set_scalar (Some (Scalar TStr SPlain v)) n.

  (* body of the loop over FieldSpecs in Prefix/SuffixTransformerPlugin.Transform.
     [add] = AddNamePrefix/AddNameSuffix, [newv] = the new field text *)
  Definition affix_step (affix : string) (add : string -> resource -> resource)
             (newv : string -> string) (org : resid) (r : resource) (fs : fieldspec) : res resource :=
    if negb (gvk_is_selected (id_gvk org) (fsgvk fs)) then Ok r else
    let r1 := if String.eqb (fs_path fs) "metadata/name"
              then (let r' := add affix r in
                    if String.eqb affix "" then r' else store_previous_id cs r')
              else r in
    do n' <- fs_apply (Some KScalar) TStr (fun n => set_scalar_to (newv (node_value n)) n) fs (r_node r1);
    Ok (with_node r1 n').

  Fixpoint affix_steps (affix : string) (add : string -> resource -> resource)
           (newv : string -> string) (org : resid) (fss : list fieldspec) (r : resource) : res resource :=
    match fss with
    | [] => Ok r
    | fs :: t => do r' <- affix_step affix add newv org r fs; affix_steps affix add newv org t r'
    end.

  (* PrefixTransformerPlugin.Transform on one resource *)
  Definition prefix_one (p : string) (r : resource) : res resource :=
    do org <- org_id cs r;
    if should_skip prefix_skip org then Ok r
    else affix_steps p add_name_prefix (fun v => p ++ v) org prefix_fs r.

  Definition suffix_one (s : string) (r : resource) : res resource :=
    do org <- org_id cs r;
    if should_skip suffix_skip org then Ok r
    else affix_steps s add_name_suffix (fun v => v ++ s) org suffix_fs r.

  (* the transformer is only configured when the directive is non-empty *)
  Definition prefix_transform (p : string) (m : list resource) : res (list resource) :=
    if String.eqb p "" then Ok m else mapM (prefix_one p) m.
  Definition suffix_transform (s : string) (m : list resource) : res (list resource) :=
    if String.eqb s "" then Ok m else mapM (suffix_one s) m.

  (* namespace.Filter.run, without the RoleBinding subject hack *)
  Definition is_role_binding (k : string) : bool :=
    String.eqb k "RoleBinding" || String.eqb k "ClusterRoleBinding".
  Definition ns_filter (ns : string) (n : node) : res node :=
    let av := get_api_version n in
    let fs1 := filter (fun f => negb (String.eqb (fs_path f) "metadata/namespace") &&
                                negb (negb (String.eqb av "v1") && String.eqb (fs_path f) "metadata/name"))
                      namespace_fs in
    do n1 <- (if g_cs (cur_gvk cs n) then Ok n
              else fs_apply (Some KScalar) TNone (set_str_entry ns)
                            (mkFs "" "" "" "metadata/namespace" true) n);
    let fs2 := if is_role_binding (get_kind n)
               then filter (fun f => negb (is_role_binding (fs_kind f) && String.eqb (fs_path f) "subjects/namespace")) fs1
               else fs1 in
    fsslice_apply (Some KScalar) TStr (set_str_entry ns) fs2 n1.

  Definition count_id (id : resid) (m : list resource) : nat :=
    List.length (filter (fun x => id_equals id (cur_id cs x)) m).

  (* NamespaceTransformerPlugin.Transform: what happens to one resource *)
  Definition ns_one (ns : string) (r : resource) : res resource :=
    let r1 := store_previous_id cs r in
    do n' <- ns_filter ns (r_node r1);
    Ok (with_node r1 n').

  (* ... and the loop with its id-conflict test against the whole (partially updated) map *)
  Fixpoint ns_loop (ns : string) (done todo : list resource) : res (list resource) :=
    match todo with
    | [] => Ok done
    | r :: t =>
        do r2 <- ns_one ns r;
        if Nat.eqb (count_id (cur_id cs r2) (done ++ r2 :: t)%list) 1
        then ns_loop ns (done ++ [r2])%list t
        else Err
    end.
  Definition namespace_transform (ns : string) (m : list resource) : res (list resource) :=
    if String.eqb ns "" then Ok m else ns_loop ns [] m.

  (* RNode.SetName *)
  Definition set_name (v : string) (n : node) : res node :=
    do r <- put nonstr [PKey "metadata"] "name" (Scalar TNone SPlain v) n; Ok (fst r).

  (* HashTransformerPlugin.Transform on one resource; [h] = its content hash (external: api/hasher) *)
  Definition hash_one (h : string) (r : resource) : res resource :=
    if r_needs_hash r then
      let r1 := store_previous_id cs r in
      do n' <- set_name (get_name (r_node r1) ++ "-" ++ h) (r_node r1);
      Ok (with_node r1 n')
    else Ok r.

  Fixpoint hash_renames (hs : list string) (m : list resource) : res (list resource) :=
    match m, hs with
    | [], _ => Ok []
    | r :: t, h :: hs' =>
        do r' <- hash_one h r;
        do t' <- hash_renames hs' t;
        Ok (r' :: t')
    | _ :: _, [] => Err
    end.

  (* ... then (repair W-hash-suffix-id-conflict, 9a490e0) every renamed resource must be the only one of the
     map with its new id: "name hash suffix produces ID conflict".  The test runs after ALL renames. *)
  Definition hash_ids_distinct (m : list resource) : bool :=
    forallb (fun r => negb (r_needs_hash r) || Nat.eqb (count_id (cur_id cs r) m) 1) m.
  Definition hash_transform (hs : list string) (m : list resource) : res (list resource) :=
    do m' <- hash_renames hs m;
    if hash_ids_distinct m' then Ok m' else Err.

  (* ---------- accumulation ---------- *)

  (* resWrangler.Append *)
  Definition append_one (m : list resource) (r : resource) : res (list resource) :=
    if Nat.eqb (count_id (cur_id cs r) m) 0 then Ok (m ++ [r])%list else Err.
  Fixpoint append_all (m l : list resource) : res (list resource) :=
    match l with
    | [] => Ok m
    | r :: t => do m' <- append_one m r; append_all m' t
    end.

  (* GetMatchingResourcesByAnyId(id.Equals) is empty *)
  Fixpoint no_any_id_match (id : resid) (m : list resource) : res bool :=
    match m with
    | [] => Ok true
    | r :: t =>
        do p <- prev_ids r;
        if existsb (fun x => id_equals id x) (p ++ [cur_id cs r])%list then Ok false else no_any_id_match id t
    end.
  (* appendReplaceOrMerge for a generated resource with behaviour create/unspecified *)
  Definition absorb_create (m : list resource) (r : resource) : res (list resource) :=
    do free <- no_any_id_match (cur_id cs r) m;
    if free then append_one m r else Err.

  (* PatchTransformerPlugin.Transform (transformJson6902 / transformStrategicMerge): every selected target gets
     StorePreviousId before the patch is applied, i.e. its current id is recorded once more.  Only this
     bookkeeping is modelled: the patches of the generated builds rewrite metadata/annotations, which no
     renaming transformer reads.  [sel] flags the selected resources. *)
  Fixpoint touch_sel (sel : list bool) (m : list resource) : list resource :=
    match m, sel with
    | r :: t, b :: sel' => (if b then store_previous_id cs r else r) :: touch_sel sel' t
    | _, _ => m
    end.
  Definition touch_all (touches : list (list bool)) (m : list resource) : list resource :=
    fold_left (fun m sel => touch_sel sel m) touches m.

  (* KustTarget.accumulateTarget; the builtin transformers run in the order patches, namespace, prefix, suffix *)
  Fixpoint accumulate (l : layer) : res (list resource) :=
    match l with
    | Layer ns pfx sfx touches items =>
        do m <- (fix go (its : list (item layer)) (m : list resource) : res (list resource) :=
                   match its with
                   | [] => Ok m
                   | IRes r :: t => do m' <- append_one m r; go t m'
                   | IGen r :: t => do m' <- absorb_create m r; go t m'
                   | ISub sub :: t => do s <- accumulate sub; do m' <- append_all m s; go t m'
                   end) items [];
        do m1 <- namespace_transform ns (touch_all touches m);
        do m2 <- prefix_transform pfx m1;
        suffix_transform sfx m2
    end.

  (* makeCustomizedResMap up to (excluding) FixBackReferences *)
  Definition build_names (l : layer) (hs : list string) : res (list resource) :=
    do m <- accumulate l; hash_transform hs m.
End Rename.
