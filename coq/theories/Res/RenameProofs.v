(* Proofs about KV.Res.Rename: every renaming transformer records the previous id before it renames,
   so the rename history of a resource only ever grows at its end (C03_history_inv). *)
From KV Require Import Res.Rename Res.FsFacts Res.CsvFacts.
From Coq Require Import Lia.

(* a value that can be stored in a CSV annotation: non-empty and comma free *)
Definition good (s : string) : bool := negb (String.eqb s "") && no_char ","%char s.

(* ================= CSV annotations ================= *)

Lemma get_csv_append o v :
  good v = true -> get_csv (append_csv o v) = (get_csv o ++ [v])%list.
Proof.
  unfold good, append_csv. intros H. apply andb_true_iff in H as [Hne Hc].
  apply negb_true_iff in Hne. rewrite Hne.
  destruct o as [s|]; cbn [get_csv].
  - apply (split_join_snoc ","%char s v Hc).
  - cbn [app join_with]. apply split_on_no. assumption.
Qed.

(* (name, namespace, kind) *)
Definition triple := (string * string * string)%type.

Fixpoint zip3 (a b c : list string) : list triple :=
  match a, b, c with
  | x :: a', y :: b', z :: c' => (x, y, z) :: zip3 a' b' c'
  | _, _, _ => []
  end.

Lemma zip3_snoc a b c x y z :
  List.length a = List.length b -> List.length a = List.length c ->
  zip3 (a ++ [x]) (b ++ [y]) (c ++ [z]) = (zip3 a b c ++ [(x, y, z)])%list.
Proof.
  revert b c. induction a as [|a0 a IH]; intros [|b0 b] [|c0 c] H1 H2; cbn in *; try discriminate.
  - reflexivity.
  - f_equal. apply IH; lia.
Qed.

Definition id_triple (id : resid) : triple := (id_name id, id_ns id, g_kind (id_gvk id)).

Lemma zip_ids_triples g v a b c : map id_triple (zip_ids g v a b c) = zip3 a b c.
Proof.
  revert b c. induction a as [|x a IH]; intros [|y b] [|z c]; cbn; try reflexivity.
  f_equal. apply IH.
Qed.

(* the three history annotations are all absent, or all present with the same number of entries *)
Definition hist_ok (r : resource) : Prop :=
  match r_pnames r, r_pnss r, r_pkinds r with
  | None, None, None => True
  | Some a, Some b, Some c =>
      List.length (split_on ","%char a) = List.length (split_on ","%char b) /\
      List.length (split_on ","%char a) = List.length (split_on ","%char c)
  | _, _, _ => False
  end.

(* the recorded previous ids as triples *)
Definition ptriples (r : resource) : list triple :=
  zip3 (get_csv (r_pnames r)) (get_csv (r_pnss r)) (get_csv (r_pkinds r)).

Lemma prev_ids_triples r :
  hist_ok r -> exists p, prev_ids r = Ok p /\ map id_triple p = ptriples r.
Proof.
  unfold hist_ok, prev_ids, ptriples.
  destruct (r_pnames r) as [a|], (r_pnss r) as [b|], (r_pkinds r) as [c|]; try contradiction.
  - intros [H1 H2]. cbn [or_empty get_csv]. rewrite <- H1, <- H2, !Nat.eqb_refl. cbn [andb].
    destruct (parse_group_version _) as [g v]. eexists; split; [reflexivity|]. apply zip_ids_triples.
  - intros _. exists []. split; reflexivity.
Qed.

Section History.
  Variable cs : string -> string -> bool.
  Variable nonstr : string -> bool.

  (* the current id as a history entry: StorePreviousId records exactly this *)
  Definition cur_triple (r : resource) : triple :=
    (get_name (r_node r), effective_ns (cur_id cs r), get_kind (r_node r)).

  (* every id the resource has had, oldest first, ending with the current one *)
  Definition history (r : resource) : list triple := (ptriples r ++ [cur_triple r])%list.

  Lemma effective_ns_good id : no_char ","%char (id_ns id) = true -> good (effective_ns id) = true.
  Proof.
    intros H. unfold effective_ns.
    destruct (id_cluster_scoped id); [reflexivity|].
    destruct (String.eqb (id_ns id) "") eqn:E1; cbn [orb]; [reflexivity|].
    destruct (String.eqb (id_ns id) default_namespace); [reflexivity|].
    unfold good. rewrite E1, H. reflexivity.
  Qed.

  Lemma store_previous_id_eq r :
    store_previous_id cs r =
    mkRes (r_node r) (append_csv (r_pnames r) (get_name (r_node r)))
          (append_csv (r_pnss r) (effective_ns (cur_id cs r)))
          (append_csv (r_pkinds r) (get_kind (r_node r)))
          (r_prefixes r) (r_suffixes r) (r_needs_hash r).
  Proof.
    unfold store_previous_id, set_previous_id. f_equal.
    unfold cur_id, cur_gvk. cbn. destruct (parse_group_version _). reflexivity.
  Qed.

  Lemma store_previous_id_spec r :
    hist_ok r -> good (get_name (r_node r)) = true -> good (get_kind (r_node r)) = true ->
    no_char ","%char (get_namespace (r_node r)) = true ->
    let r' := store_previous_id cs r in
    hist_ok r' /\ ptriples r' = history r /\ r_node r' = r_node r /\
    r_prefixes r' = r_prefixes r /\ r_suffixes r' = r_suffixes r /\ r_needs_hash r' = r_needs_hash r.
  Proof.
    intros Hh Hn Hk Hns r'.
    assert (He: good (effective_ns (cur_id cs r)) = true) by (apply effective_ns_good; exact Hns).
    subst r'. rewrite store_previous_id_eq. unfold history, cur_triple, ptriples.
    cbn [r_pnames r_pnss r_pkinds r_node r_prefixes r_suffixes r_needs_hash].
    rewrite !get_csv_append by assumption.
    assert (Hl: List.length (get_csv (r_pnames r)) = List.length (get_csv (r_pnss r)) /\
                List.length (get_csv (r_pnames r)) = List.length (get_csv (r_pkinds r))).
    { unfold hist_ok in Hh.
      destruct (r_pnames r), (r_pnss r), (r_pkinds r); try contradiction; cbn [get_csv]; auto. }
    destruct Hl as [H1 H2].
    repeat split; try reflexivity.
    - unfold hist_ok. cbn [r_pnames r_pnss r_pkinds].
      assert (Hg: forall o v, good v = true -> exists s, append_csv o v = Some s).
      { intros o v Hv. unfold append_csv. unfold good in Hv. apply andb_true_iff in Hv as [Hv _].
        apply negb_true_iff in Hv. rewrite Hv. eauto. }
      destruct (Hg (r_pnames r) _ Hn) as (sa & Ea), (Hg (r_pnss r) _ He) as (sb & Eb),
               (Hg (r_pkinds r) _ Hk) as (sc & Ec).
      rewrite Ea, Eb, Ec.
      pose proof (get_csv_append (r_pnames r) _ Hn) as Ga. rewrite Ea in Ga. cbn [get_csv] in Ga.
      pose proof (get_csv_append (r_pnss r) _ He) as Gb. rewrite Eb in Gb. cbn [get_csv] in Gb.
      pose proof (get_csv_append (r_pkinds r) _ Hk) as Gc. rewrite Ec in Gc. cbn [get_csv] in Gc.
      rewrite Ga, Gb, Gc, !app_length. cbn. lia.
    - apply zip3_snoc; assumption.
  Qed.

  (* ================= documents ================= *)

  (* a document with the identity fields the build relies on *)
  Definition wf_node (n : node) : Prop :=
    exists kvs mkvs tn sn name kn,
      n = Map kvs /\ find_field "metadata" kvs = Some (Map mkvs) /\
      find_field "name" mkvs = Some (Scalar tn sn name) /\ tn <> TNull /\ good name = true /\
      find_field "kind" kvs = Some kn /\ good (node_value kn) = true /\
      no_char ","%char (get_namespace n) = true.

  Lemma meta_string_map f kvs mkvs :
    find_field "metadata" kvs = Some (Map mkvs) -> mkvs <> [] ->
    meta_string f (Map kvs) =
    match find_field f mkvs with
    | Some v => if nil_or_empty v then "" else node_value v
    | None => ""
    end.
  Proof.
    intros Hm Hne. unfold meta_string, get_meta. rewrite Hm.
    destruct mkvs; [contradiction|]. reflexivity.
  Qed.

  Lemma find_some_nonempty k (kvs : list (string * node)) x : find_field k kvs = Some x -> kvs <> [].
  Proof. destruct kvs; [discriminate|discriminate]. Qed.

  Lemma wf_node_name n kvs mkvs tn sn name :
    n = Map kvs -> find_field "metadata" kvs = Some (Map mkvs) ->
    find_field "name" mkvs = Some (Scalar tn sn name) -> tn <> TNull -> get_name n = name.
  Proof.
    intros -> Hm Hn Ht. unfold get_name.
    rewrite (meta_string_map _ _ _ Hm (find_some_nonempty _ _ _ Hn)), Hn.
    destruct tn; try reflexivity. contradiction.
  Qed.

  (* the shape of a document after its metadata.name scalar was replaced *)
  Definition with_meta_name (kvs mkvs : list (string * node)) (sn : style) (t : tag) (v : string) : node :=
    Map (set_first "metadata" (Map (set_first "name" (Scalar t sn v) mkvs)) kvs).

  Lemma with_meta_name_wf kvs mkvs tn sn name kn t v :
    find_field "metadata" kvs = Some (Map mkvs) ->
    find_field "name" mkvs = Some (Scalar tn sn name) ->
    find_field "kind" kvs = Some kn -> good (node_value kn) = true ->
    no_char ","%char (get_namespace (Map kvs)) = true ->
    t <> TNull -> good v = true ->
    let n' := with_meta_name kvs mkvs sn t v in
    wf_node n' /\ get_name n' = v /\ get_kind n' = get_kind (Map kvs) /\
    get_api_version n' = get_api_version (Map kvs) /\ get_namespace n' = get_namespace (Map kvs).
  Proof.
    intros Hm Hn Hk Hkg Hns Ht Hv n'.
    assert (Hm': find_field "metadata" (set_first "metadata" (Map (set_first "name" (Scalar t sn v) mkvs)) kvs)
                 = Some (Map (set_first "name" (Scalar t sn v) mkvs)))
      by (eapply find_set_first_same; eauto).
    assert (Hn': find_field "name" (set_first "name" (Scalar t sn v) mkvs) = Some (Scalar t sn v))
      by (eapply find_set_first_same; eauto).
    assert (Hnsp: get_namespace n' = get_namespace (Map kvs)).
    { unfold get_namespace, n', with_meta_name.
      rewrite (meta_string_map _ _ _ Hm' (find_some_nonempty _ _ _ Hn')).
      rewrite (meta_string_map _ _ _ Hm (find_some_nonempty _ _ _ Hn)).
      rewrite find_set_first_other by discriminate. reflexivity. }
    assert (Hkind: find_field "kind" (set_first "metadata" (Map (set_first "name" (Scalar t sn v) mkvs)) kvs)
                   = Some kn) by (rewrite find_set_first_other by discriminate; assumption).
    repeat split.
    - exists (set_first "metadata" (Map (set_first "name" (Scalar t sn v) mkvs)) kvs),
             (set_first "name" (Scalar t sn v) mkvs), t, sn, v, kn.
      repeat split; auto. fold n'. rewrite Hnsp. assumption.
    - eapply wf_node_name; eauto. reflexivity.
    - unfold get_kind, obj_kind, map_field_value, n', with_meta_name. rewrite Hkind, Hk. reflexivity.
    - unfold get_api_version, obj_api_version, map_field_value, n', with_meta_name.
      rewrite find_set_first_other by discriminate. reflexivity.
    - assumption.
  Qed.

  Lemma path_meta_name : path_splitter "metadata/name" = ["metadata"; "name"].
  Proof. reflexivity. Qed.
  Lemma plain_metadata : plain_key "metadata" = true. Proof. reflexivity. Qed.
  Lemma plain_name : plain_key "name" = true. Proof. reflexivity. Qed.
  Lemma plain_namespace : plain_key "namespace" = true. Proof. reflexivity. Qed.

  (* the field spec filter on metadata/name of a well formed document, whatever the create settings:
     SetValue is applied to the name scalar *)
  Lemma fs_filter_meta_name ck ct set create kvs mkvs tn sn name :
    find_field "metadata" kvs = Some (Map mkvs) ->
    find_field "name" mkvs = Some (Scalar tn sn name) -> tn <> TNull ->
    fs_filter ck ct set create ["metadata"; "name"] (Map kvs) =
    do x' <- set (Scalar tn sn name);
    Ok (Map (set_first "metadata" (Map (set_first "name" x' mkvs)) kvs)).
  Proof.
    intros Hm Hn Ht.
    assert (Hpr: forall k t0, promote k t0 (Scalar tn sn name) = Scalar tn sn name)
      by (intros; destruct tn; try reflexivity; contradiction).
    destruct create, ck as [k0|].
    - rewrite (fs_filter_map_create _ _ _ _ _ _ k0 plain_metadata eq_refl). cbn [fst snd]. rewrite Hm.
      cbn [promote].
      rewrite (fs_filter_map_create _ _ _ _ _ _ k0 plain_name eq_refl). cbn [fst snd]. rewrite Hn, Hpr.
      rewrite fs_filter_nil. destruct (set (Scalar tn sn name)); reflexivity.
    - rewrite fs_filter_map_nocreate by (auto using plain_metadata). rewrite Hm.
      rewrite fs_filter_map_nocreate by (auto using plain_name). rewrite Hn, fs_filter_nil.
      destruct (set (Scalar tn sn name)); reflexivity.
    - rewrite fs_filter_map_nocreate by (auto using plain_metadata). rewrite Hm.
      rewrite fs_filter_map_nocreate by (auto using plain_name). rewrite Hn, fs_filter_nil.
      destruct (set (Scalar tn sn name)); reflexivity.
    - rewrite fs_filter_map_nocreate by (auto using plain_metadata). rewrite Hm.
      rewrite fs_filter_map_nocreate by (auto using plain_name). rewrite Hn, fs_filter_nil.
      destruct (set (Scalar tn sn name)); reflexivity.
  Qed.

  Lemma set_scalar_on_name tn sn name t v :
    tn <> TNull -> t <> TNull ->
    set_scalar (Some (Scalar t SPlain v)) (Scalar tn sn name) = Ok (Scalar t sn v).
  Proof.
    intros H1 H2. unfold set_scalar.
    assert (E1: is_null (Scalar tn sn name) = false) by (destruct tn; try reflexivity; contradiction).
    assert (E2: is_null (Scalar t SPlain v) = false) by (destruct t; try reflexivity; contradiction).
    rewrite E1, E2. reflexivity.
  Qed.

  (* ---------- getters only look at three root fields ---------- *)

  Lemma getters_ext kvs kvs' :
    find_field "metadata" kvs' = find_field "metadata" kvs ->
    find_field "kind" kvs' = find_field "kind" kvs ->
    find_field "apiVersion" kvs' = find_field "apiVersion" kvs ->
    get_name (Map kvs') = get_name (Map kvs) /\ get_namespace (Map kvs') = get_namespace (Map kvs) /\
    get_kind (Map kvs') = get_kind (Map kvs) /\ get_api_version (Map kvs') = get_api_version (Map kvs).
  Proof.
    intros Hm Hk Ha.
    unfold get_name, get_namespace, meta_string, get_meta, get_kind, obj_kind, get_api_version,
      obj_api_version, map_field_value.
    rewrite Hm, Hk, Ha. auto.
  Qed.

  Lemma wf_node_frame kvs kvs' p :
    wf_node (Map kvs) -> (forall k, k <> p -> find_field k kvs' = find_field k kvs) ->
    p <> "metadata" -> p <> "kind" -> p <> "apiVersion" ->
    wf_node (Map kvs') /\ get_name (Map kvs') = get_name (Map kvs) /\
    get_namespace (Map kvs') = get_namespace (Map kvs) /\
    get_kind (Map kvs') = get_kind (Map kvs) /\ get_api_version (Map kvs') = get_api_version (Map kvs).
  Proof.
    intros (kvs0 & mkvs & tn & sn & name & kn & E & Hm & Hn & Ht & Hg & Hk & Hkg & Hns) Hf H1 H2 H3.
    inv E.
    assert (Hm': find_field "metadata" kvs' = find_field "metadata" kvs0) by (apply Hf; congruence).
    assert (Hk': find_field "kind" kvs' = find_field "kind" kvs0) by (apply Hf; congruence).
    assert (Ha': find_field "apiVersion" kvs' = find_field "apiVersion" kvs0) by (apply Hf; congruence).
    destruct (getters_ext _ _ Hm' Hk' Ha') as (G1 & G2 & G3 & G4).
    repeat split; auto.
    exists kvs', mkvs, tn, sn, name, kn. repeat split; auto; try congruence.
  Qed.

  Lemma fs_filter_root_frame ck ct set create p rest kvs n' :
    plain_key p = true -> fs_filter ck ct set create (p :: rest) (Map kvs) = Ok n' ->
    exists kvs', n' = Map kvs' /\ forall k, k <> p -> find_field k kvs' = find_field k kvs.
  Proof.
    intros Hp H.
    assert (Hcase: (create = false \/ ck = None) \/ (create = true /\ exists k0, ck = Some k0)).
    { destruct create; [|auto]. destruct ck; [right; eauto|auto]. }
    destruct Hcase as [Hc|(-> & k0 & Hk)].
    - rewrite fs_filter_map_nocreate in H by assumption.
      destruct (find_field p kvs) as [x|] eqn:Ff.
      + destruct (fs_filter ck ct set create rest x) as [x'| | |]; cbn in H; try discriminate. inv H.
        eexists; split; [reflexivity|]. intros k Hk. now apply find_set_first_other.
      + inv H. eauto.
    - rewrite (fs_filter_map_create _ _ _ _ _ _ k0 Hp Hk) in H. cbv zeta in H.
      destruct (find_field p kvs) as [x|] eqn:Ff.
      + match type of H with (do _ <- ?e; _) = _ => destruct e as [x'| | |] end; cbn in H; try discriminate.
        inv H. eexists; split; [reflexivity|]. intros k Hk'. now apply find_set_first_other.
      + match type of H with (do _ <- ?e; _) = _ => destruct e as [x'| | |] end; cbn in H; try discriminate.
        inv H. eexists; split; [reflexivity|]. intros k Hk'. now apply find_app_other.
  Qed.

  (* ---------- good strings ---------- *)

  Lemma good_app_l p v : no_char ","%char p = true -> good v = true -> good (p ++ v) = true.
  Proof.
    unfold good. intros Hp Hv. apply andb_true_iff in Hv as [Hne Hc].
    apply andb_true_iff. split.
    - destruct p; cbn [append]; [assumption|reflexivity].
    - rewrite no_char_app, Hp, Hc. reflexivity.
  Qed.

  Lemma good_app_r v s : good v = true -> no_char ","%char s = true -> good (v ++ s) = true.
  Proof.
    unfold good. intros Hv Hs. apply andb_true_iff in Hv as [Hne Hc].
    apply andb_true_iff. split.
    - destruct v; cbn [append] in *; [discriminate|reflexivity].
    - rewrite no_char_app, Hs, Hc. reflexivity.
  Qed.

  Lemma good_no_char v : good v = true -> no_char ","%char v = true.
  Proof. unfold good. intros H. now apply andb_true_iff in H as [_ H]. Qed.

  (* ---------- the effective namespace only depends on apiVersion, kind, namespace ---------- *)

  Definition ens_node (n : node) : string :=
    effective_ns (mkId (cur_gvk cs n) (get_name n) (get_namespace n)).

  Lemma ens_node_ext n n' :
    get_api_version n' = get_api_version n -> get_kind n' = get_kind n ->
    get_namespace n' = get_namespace n -> ens_node n' = ens_node n.
  Proof.
    intros Ha Hk Hn. unfold ens_node, effective_ns, id_cluster_scoped, cur_gvk. cbn [id_gvk id_ns].
    rewrite Ha, Hk, Hn. destruct (parse_group_version _). reflexivity.
  Qed.

  Lemma cur_triple_eq r : cur_triple r = (get_name (r_node r), ens_node (r_node r), get_kind (r_node r)).
  Proof. reflexivity. Qed.

  (* ================= resources ================= *)

  Definition wf_res (r : resource) : Prop := hist_ok r /\ wf_node (r_node r).

  Lemma wf_node_good n : wf_node n -> good (get_name n) = true /\ good (get_kind n) = true /\
                                    no_char ","%char (get_namespace n) = true.
  Proof.
    intros (kvs & mkvs & tn & sn & name & kn & E & Hm & Hn & Ht & Hg & Hk & Hkg & Hns).
    repeat split; auto.
    - rewrite (wf_node_name n kvs mkvs tn sn name E Hm Hn Ht). exact Hg.
    - subst n. unfold get_kind, obj_kind, map_field_value. rewrite Hk. assumption.
  Qed.

  (* StorePreviousId followed by a change of the document that keeps it well formed, keeps kind and
     apiVersion: the history grows by exactly the new current id *)
  Lemma store_then_update r n' :
    wf_res r -> wf_node n' ->
    get_kind n' = get_kind (r_node r) -> get_api_version n' = get_api_version (r_node r) ->
    let r' := with_node (store_previous_id cs r) n' in
    wf_res r' /\ history r' = (history r ++ [cur_triple r'])%list.
  Proof.
    intros [Hh Hw] Hw' Hk Ha r'.
    destruct (wf_node_good _ Hw) as (G1 & G2 & G3).
    destruct (store_previous_id_spec r Hh G1 G2 G3) as (S1 & S2 & S3 & S4 & S5 & S6).
    split.
    - split; [|exact Hw']. unfold hist_ok in *. exact S1.
    - unfold history at 1. f_equal. exact S2.
  Qed.

  (* a change of the document alone that keeps name, namespace, kind, apiVersion keeps the history *)
  Lemma update_same_id r n' :
    wf_res r -> wf_node n' ->
    get_name n' = get_name (r_node r) -> get_namespace n' = get_namespace (r_node r) ->
    get_kind n' = get_kind (r_node r) -> get_api_version n' = get_api_version (r_node r) ->
    let r' := with_node r n' in
    wf_res r' /\ history r' = history r.
  Proof.
    intros [Hh Hw] Hw' Hn Hns Hk Ha r'. split; [split; assumption|].
    unfold history. f_equal. rewrite !cur_triple_eq. cbn [r_node with_node r'].
    rewrite Hn, Hk, (ens_node_ext _ _ Ha Hk Hns). reflexivity.
  Qed.
End History.

(* ================= the renaming transformers, one resource at a time ================= *)

(* a namespace field spec that cannot disturb kind / apiVersion / metadata except through metadata/name *)
Definition ns_spec_ok (f : fieldspec) : bool :=
  String.eqb (fs_path f) "metadata/name" ||
  match path_splitter (fs_path f) with
  | p :: _ => plain_key p && negb (String.eqb p "metadata") && negb (String.eqb p "kind") &&
              negb (String.eqb p "apiVersion")
  | [] => false
  end.

(* the only name field spec of the default configuration *)
Definition name_fs : list fieldspec := [mkFs "" "" "" "metadata/name" false].

Section Steps.
  Variable cs : string -> string -> bool.
  Variable nonstr : string -> bool.
  Variable prefix_fs suffix_fs namespace_fs : list fieldspec.
  Variable prefix_skip suffix_skip : list gvk.
  Hypothesis prefix_table : prefix_fs = name_fs.
  Hypothesis suffix_table : suffix_fs = name_fs.
  Hypothesis ns_table_ok : forallb ns_spec_ok namespace_fs = true.

  Lemma match_any_gvk path create obj : is_match_gvk (mkFs "" "" "" path create) obj = true.
  Proof. unfold is_match_gvk. destruct (parse_group_version _). reflexivity. Qed.

  (* prefix / suffix filter on a well formed document *)
  Lemma doc_name_update (f : string -> string) n n' :
    wf_node n -> good (f (get_name n)) = true ->
    fs_apply (Some KScalar) TStr (fun x => set_scalar_to (f (node_value x)) x)
             (mkFs "" "" "" "metadata/name" false) n = Ok n' ->
    wf_node n' /\ get_name n' = f (get_name n) /\ get_kind n' = get_kind n /\
    get_api_version n' = get_api_version n /\ get_namespace n' = get_namespace n.
  Proof.
    intros (kvs & mkvs & tn & sn & name & kn & E & Hm & Hn & Ht & Hg & Hk & Hkg & Hns) Hgood H.
    subst n. rewrite (wf_node_name _ kvs mkvs tn sn name eq_refl Hm Hn Ht) in *.
    unfold fs_apply in H. rewrite match_any_gvk in H. cbn [fs_path fs_create] in H.
    rewrite path_meta_name in H.
    rewrite (fs_filter_meta_name _ _ _ _ kvs mkvs tn sn name Hm Hn Ht) in H.
    cbn [node_value] in H. unfold set_scalar_to in H.
    rewrite set_scalar_on_name in H by (auto; discriminate). cbn [bind] in H. inv H.
    apply (with_meta_name_wf kvs mkvs tn sn name kn TNone (f name)); auto. discriminate.
  Qed.

  Lemma add_prefix_empty r : add_name_prefix "" r = r.
  Proof. destruct r; reflexivity. Qed.
  Lemma add_suffix_empty r : add_name_suffix "" r = r.
  Proof. destruct r; reflexivity. Qed.

  Lemma wf_add_prefix p r : wf_res r -> wf_res (add_name_prefix p r) /\
                                         history cs (add_name_prefix p r) = history cs r.
  Proof. intros [H1 H2]. split; [split; assumption|reflexivity]. Qed.
  Lemma wf_add_suffix s r : wf_res r -> wf_res (add_name_suffix s r) /\
                                         history cs (add_name_suffix s r) = history cs r.
  Proof. intros [H1 H2]. split; [split; assumption|reflexivity]. Qed.

  (* one transformer: the history is unchanged or grows by one entry; kind and apiVersion stay *)
  Definition grows (r r' : resource) : Prop :=
    (history cs r' = history cs r \/ exists t, history cs r' = (history cs r ++ [t])%list) /\
    get_kind (r_node r') = get_kind (r_node r) /\
    get_api_version (r_node r') = get_api_version (r_node r).

  Lemma grows_refl r : grows r r.
  Proof. split; [left; reflexivity|split; reflexivity]. Qed.

  (* common part of PrefixTransformer / SuffixTransformer *)
  Lemma affix_hist affix (add : string -> resource -> resource) (newv : string -> string) skip r r' :
    (forall r0, add "" r0 = r0) ->
    (forall r0, wf_res r0 -> wf_res (add affix r0) /\ history cs (add affix r0) = history cs r0) ->
    (forall r0, r_node (add affix r0) = r_node r0) ->
    (forall v, good v = true -> good (newv v) = true) ->
    (affix = "" -> forall v, newv v = v) ->
    wf_res r ->
    (do org <- org_id cs r;
     if should_skip skip org then Ok r else affix_steps cs affix add newv org name_fs r) = Ok r' ->
    wf_res r' /\ grows r r' /\ (get_name (r_node r') = get_name (r_node r) \/ get_name (r_node r') = newv (get_name (r_node r))).
  Proof.
    intros Hadd0 Hadd Haddn Hgood Hid Hwf H.
    destruct (org_id cs r) as [org| | |]; cbn [bind] in H; try discriminate.
    destruct (should_skip skip org); [inv H; split; [assumption|split; [apply grows_refl|left; reflexivity]]|].
    cbn [affix_steps name_fs] in H.
    destruct (affix_step cs affix add newv org r (mkFs "" "" "" "metadata/name" false))
      as [r1| | |] eqn:Hs; cbn [bind] in H; try discriminate. inv H.
    unfold affix_step in Hs.
    assert (Hsel: gvk_is_selected (id_gvk org) (fsgvk (mkFs "" "" "" "metadata/name" false)) = true)
      by reflexivity.
    rewrite Hsel in Hs. cbn [negb fs_path] in Hs.
    change (String.eqb "metadata/name" "metadata/name") with true in Hs. cbv iota in Hs.
    destruct (String.eqb affix "") eqn:Ea.
    - apply String.eqb_eq in Ea; subst affix. rewrite Hadd0 in Hs.
      destruct (fs_apply _ _ _ _ (r_node r)) as [n'| | |] eqn:Hf; cbn [bind] in Hs; try discriminate. inv Hs.
      destruct Hwf as [Hh Hw].
      destruct (wf_node_good _ Hw) as (G1 & _).
      assert (Hg: good (newv (get_name (r_node r))) = true) by (apply Hgood; assumption).
      destruct (doc_name_update newv _ _ Hw Hg Hf) as (W & N1 & N2 & N3 & N4).
      rewrite (Hid eq_refl) in N1.
      destruct (update_same_id cs r n' (conj Hh Hw) W N1 N4 N2 N3) as [Wr Hr].
      split; [exact Wr|]. split; [split; [left; exact Hr|split; assumption]|]. left. exact N1.
    - destruct (Hadd r Hwf) as [Hwa Hha].
      destruct (fs_apply _ _ _ _ (r_node (store_previous_id cs (add affix r)))) as [n'| | |] eqn:Hf;
        cbn [bind] in Hs; try discriminate. inv Hs.
      assert (Hnode: r_node (store_previous_id cs (add affix r)) = r_node r).
      { rewrite store_previous_id_eq. cbn [r_node]. apply Haddn. }
      rewrite Hnode in Hf.
      destruct Hwf as [Hh Hw].
      destruct (wf_node_good _ Hw) as (G1 & _).
      assert (Hg: good (newv (get_name (r_node r))) = true) by (apply Hgood; assumption).
      destruct (doc_name_update newv _ _ Hw Hg Hf) as (W & N1 & N2 & N3 & N4).
      pose proof N2 as N2'. pose proof N3 as N3'.
      rewrite <- (Haddn r) in N2, N3.
      destruct (store_then_update cs (add affix r) n' Hwa W N2 N3) as [Wr Hr].
      split; [exact Wr|]. split; [split; [right; eexists; rewrite <- Hha; exact Hr|split; assumption]|]. right. exact N1.
  Qed.

  Lemma prefix_one_hist p r r' :
    no_char ","%char p = true -> wf_res r ->
    prefix_one cs prefix_fs prefix_skip p r = Ok r' ->
    wf_res r' /\ grows r r' /\ (get_name (r_node r') = get_name (r_node r) \/ get_name (r_node r') = p ++ get_name (r_node r)).
  Proof.
    intros Hp Hwf H. unfold prefix_one in H. rewrite prefix_table in H.
    apply (affix_hist p add_name_prefix (fun v => p ++ v) prefix_skip r r').
    - apply add_prefix_empty.
    - intros r0 H0. apply wf_add_prefix. assumption.
    - reflexivity.
    - intros v Hv. apply good_app_l; assumption.
    - intros -> v. reflexivity.
    - assumption.
    - assumption.
  Qed.

  Lemma sapp_empty_r (v : string) : v ++ "" = v.
  Proof. induction v as [|a v IH]; cbn; [reflexivity|now rewrite IH]. Qed.

  Lemma suffix_one_hist s r r' :
    no_char ","%char s = true -> wf_res r ->
    suffix_one cs suffix_fs suffix_skip s r = Ok r' ->
    wf_res r' /\ grows r r' /\ (get_name (r_node r') = get_name (r_node r) \/ get_name (r_node r') = get_name (r_node r) ++ s).
  Proof.
    intros Hs Hwf H. unfold suffix_one in H. rewrite suffix_table in H.
    apply (affix_hist s add_name_suffix (fun v => v ++ s) suffix_skip r r').
    - apply add_suffix_empty.
    - intros r0 H0. apply wf_add_suffix. assumption.
    - reflexivity.
    - intros v Hv. apply good_app_r; assumption.
    - intros -> v. apply sapp_empty_r.
    - assumption.
    - assumption.
  Qed.

  (* ---------- hash ---------- *)

  Lemma set_name_spec v n n' :
    wf_node n -> good v = true -> set_name nonstr v n = Ok n' ->
    wf_node n' /\ get_name n' = v /\ get_kind n' = get_kind n /\
    get_api_version n' = get_api_version n /\ get_namespace n' = get_namespace n.
  Proof.
    intros (kvs & mkvs & tn & sn & name & kn & E & Hm & Hn & Ht & Hg & Hk & Hkg & Hns) Hv H.
    subst n. unfold set_name, put in H. cbn [walk] in H. rewrite Hm in H.
    unfold k_set_field, set_field in H. cbn [is_null andb] in H. rewrite Hn in H.
    cbn [bind fst snd style_of with_style] in H. inv H.
    apply (with_meta_name_wf kvs mkvs tn sn name kn TNone v); auto. discriminate.
  Qed.

  Lemma hash_one_hist h r r' :
    no_char ","%char h = true -> wf_res r ->
    hash_one cs nonstr h r = Ok r' ->
    wf_res r' /\ grows r r' /\ (get_name (r_node r') = get_name (r_node r) \/ get_name (r_node r') = get_name (r_node r) ++ "-" ++ h).
  Proof.
    intros Hh Hwf H. unfold hash_one in H.
    destruct (r_needs_hash r); [|inv H; split; [assumption|split; [apply grows_refl|left; reflexivity]]].
    assert (Hnode: r_node (store_previous_id cs r) = r_node r)
      by (rewrite store_previous_id_eq; reflexivity).
    rewrite Hnode in H.
    destruct (set_name nonstr _ (r_node r)) as [n'| | |] eqn:Hs; cbn [bind] in H; try discriminate. inv H.
    destruct Hwf as [Hho Hw]. destruct (wf_node_good _ Hw) as (G1 & _).
    assert (Hg: good (get_name (r_node r) ++ "-" ++ h) = true).
    { apply good_app_r; [assumption|]. cbn [append no_char]. rewrite Hh. reflexivity. }
    destruct (set_name_spec _ _ _ Hw Hg Hs) as (W & N1 & N2 & N3 & N4).
    destruct (store_then_update cs r n' (conj Hho Hw) W N2 N3) as [Wr Hr].
    split; [exact Wr|]. split; [split; [right; eexists; exact Hr|split; assumption]|]. right. exact N1.
  Qed.

  (* ---------- namespace ---------- *)

  Lemma set_str_entry_result v y z :
    set_str_entry v y = Ok z -> exists s, z = Scalar TStr s v.
  Proof.
    unfold set_str_entry, set_scalar. destruct y as [t s x| |]; [|discriminate|discriminate].
    destruct (is_null (Scalar t s x)); cbn; intros H; inv H; eauto.
  Qed.

  Lemma path_meta_namespace : path_splitter "metadata/namespace" = ["metadata"; "namespace"].
  Proof. reflexivity. Qed.

  (* metaNamespaceHack on a well formed document *)
  Lemma meta_namespace_set ns n n1 :
    wf_node n -> good ns = true ->
    fs_apply (Some KScalar) TNone (set_str_entry ns) (mkFs "" "" "" "metadata/namespace" true) n = Ok n1 ->
    wf_node n1 /\ get_kind n1 = get_kind n /\ get_api_version n1 = get_api_version n /\
    get_name n1 = get_name n.
  Proof.
    intros (kvs & mkvs & tn & sn & name & kn & E & Hm & Hn & Ht & Hg & Hk & Hkg & Hns) Hgood H.
    subst n. unfold fs_apply in H. rewrite match_any_gvk in H. cbn [fs_path fs_create] in H.
    rewrite path_meta_namespace in H.
    rewrite (fs_filter_map_create _ _ _ _ _ _ KScalar plain_metadata eq_refl) in H. cbv zeta in H.
    cbn [fst snd] in H. rewrite Hm in H. cbn [promote] in H.
    rewrite (fs_filter_map_create _ _ _ _ _ _ KScalar plain_namespace eq_refl) in H. cbv zeta in H.
    cbn [fst snd] in H.
    assert (Hres: exists mkvs' s',
               n1 = Map (set_first "metadata" (Map mkvs') kvs) /\
               find_field "name" mkvs' = Some (Scalar tn sn name) /\
               find_field "namespace" mkvs' = Some (Scalar TStr s' ns)).
    { destruct (find_field "namespace" mkvs) as [x|] eqn:Fn.
      - rewrite fs_filter_nil in H.
        destruct (set_str_entry ns (promote KScalar TNone x)) as [z| | |] eqn:Hz; cbn [bind] in H; try discriminate.
        inv H. destruct (set_str_entry_result _ _ _ Hz) as (s' & ->).
        exists (set_first "namespace" (Scalar TStr s' ns) mkvs), s'. repeat split.
        + rewrite find_set_first_other by discriminate. assumption.
        + eapply find_set_first_same; eauto.
      - rewrite fs_filter_nil in H.
        destruct (set_str_entry ns (empty_of KScalar)) as [z| | |] eqn:Hz; cbn [bind] in H; try discriminate.
        inv H. destruct (set_str_entry_result _ _ _ Hz) as (s' & ->).
        exists (mkvs ++ [("namespace", Scalar TStr s' ns)])%list, s'. repeat split.
        + rewrite find_app_other by discriminate. assumption.
        + apply find_app_new. assumption. }
    destruct Hres as (mkvs' & s' & -> & Hn' & Hns').
    assert (Hm': find_field "metadata" (set_first "metadata" (Map mkvs') kvs) = Some (Map mkvs'))
      by (eapply find_set_first_same; eauto).
    assert (Hk': find_field "kind" (set_first "metadata" (Map mkvs') kvs) = Some kn)
      by (rewrite find_set_first_other by discriminate; assumption).
    repeat split.
    - exists (set_first "metadata" (Map mkvs') kvs), mkvs', tn, sn, name, kn. repeat split; auto.
      unfold get_namespace. rewrite (meta_string_map _ _ _ Hm' (find_some_nonempty _ _ _ Hn')), Hns'.
      cbn [nil_or_empty node_value]. apply good_no_char. assumption.
    - unfold get_kind, obj_kind, map_field_value. rewrite Hk', Hk. reflexivity.
    - unfold get_api_version, obj_api_version, map_field_value.
      rewrite find_set_first_other by discriminate. reflexivity.
    - rewrite (wf_node_name _ _ mkvs' tn sn name eq_refl Hm' Hn' Ht).
      rewrite (wf_node_name _ kvs mkvs tn sn name eq_refl Hm Hn Ht). reflexivity.
  Qed.

  Lemma fsslice_ns_inv ns l n n' :
    forallb ns_spec_ok l = true -> good ns = true -> wf_node n ->
    fsslice_apply (Some KScalar) TStr (set_str_entry ns) l n = Ok n' ->
    wf_node n' /\ get_kind n' = get_kind n /\ get_api_version n' = get_api_version n /\
    (get_name n' = get_name n \/ get_name n' = ns).
  Proof.
    intros Hl Hgood. revert n. induction l as [|f t IH]; intros n Hw H; cbn [fsslice_apply] in H.
    - inv H. auto.
    - cbn [forallb] in Hl. apply andb_true_iff in Hl as [Hf Ht].
      destruct (fs_apply (Some KScalar) TStr (set_str_entry ns) f n) as [n1| | |] eqn:Hn1;
        cbn [bind] in H; try discriminate.
      assert (Hstep: wf_node n1 /\ get_kind n1 = get_kind n /\ get_api_version n1 = get_api_version n /\
                     (get_name n1 = get_name n \/ get_name n1 = ns)).
      { unfold fs_apply in Hn1. destruct (is_match_gvk f n); [|inv Hn1; auto].
        unfold ns_spec_ok in Hf. apply orb_true_iff in Hf as [Hf|Hf].
        - apply String.eqb_eq in Hf. rewrite Hf, path_meta_name in Hn1.
          destruct Hw as (kvs & mkvs & tn & sn & name & kn & E & Hm & Hn & Htn & Hg & Hk & Hkg & Hns).
          subst n. rewrite (fs_filter_meta_name _ _ _ _ kvs mkvs tn sn name Hm Hn Htn) in Hn1.
          unfold set_str_entry in Hn1. rewrite set_scalar_on_name in Hn1 by (auto; discriminate).
          cbn [bind] in Hn1. inv Hn1.
          destruct (with_meta_name_wf kvs mkvs tn sn name kn TStr ns Hm Hn Hk Hkg Hns) as (W & N & K & A & _);
            auto. discriminate.
        - destruct (path_splitter (fs_path f)) as [|p rest]; [discriminate|].
          apply andb_true_iff in Hf as [Hf H3]. apply andb_true_iff in Hf as [Hf H2].
          apply andb_true_iff in Hf as [Hp H1].
          apply negb_true_iff in H1, H2, H3. apply String.eqb_neq in H1, H2, H3.
          destruct Hw as (kvs & mkvs & tn & sn & name & kn & E & Hw).
          subst n.
          destruct (fs_filter_root_frame _ _ _ _ _ _ _ _ Hp Hn1) as (kvs' & -> & Hfr).
          assert (Hw0: wf_node (Map kvs)) by (exists kvs, mkvs, tn, sn, name, kn; tauto).
          destruct (wf_node_frame kvs kvs' p Hw0 Hfr H1 H2 H3) as (W & N & _ & K & A). auto. }
      destruct Hstep as (W1 & K1 & A1 & N1).
      destruct (IH Ht n1 W1 H) as (W & K & A & N). repeat split; try congruence.
      destruct N as [N|N]; [|right; exact N]. rewrite N. exact N1.
  Qed.

  Lemma forallb_filter {A} (P f : A -> bool) l : forallb P l = true -> forallb P (filter f l) = true.
  Proof.
    induction l as [|a t IH]; [reflexivity|]. cbn. intros H. apply andb_true_iff in H as [Ha Ht].
    destruct (f a); cbn; [rewrite Ha|]; auto.
  Qed.

  Lemma ns_filter_wf ns n n' :
    wf_node n -> good ns = true -> ns_filter cs namespace_fs ns n = Ok n' ->
    wf_node n' /\ get_kind n' = get_kind n /\ get_api_version n' = get_api_version n /\
    (get_name n' = get_name n \/ get_name n' = ns).
  Proof.
    intros Hw Hgood H. unfold ns_filter in H.
    match type of H with (do n1 <- ?e; _) = _ => destruct e as [n1| | |] eqn:H1 end;
      cbn [bind] in H; try discriminate.
    assert (Hn1: wf_node n1 /\ get_kind n1 = get_kind n /\ get_api_version n1 = get_api_version n /\
                 get_name n1 = get_name n).
    { destruct (g_cs (cur_gvk cs n)); [inv H1; auto|]. eapply meta_namespace_set; eauto. }
    destruct Hn1 as (W1 & K1 & A1 & N1).
    match type of H with fsslice_apply _ _ _ ?l _ = _ => assert (Hl: forallb ns_spec_ok l = true) end.
    { destruct (is_role_binding (get_kind n)); repeat apply forallb_filter; exact ns_table_ok. }
    destruct (fsslice_ns_inv ns _ _ _ Hl Hgood W1 H) as (W & K & A & N).
    split; [exact W|]. split; [congruence|]. split; [congruence|]. rewrite <- N1. exact N.
  Qed.

  Lemma ns_one_hist ns r r' :
    good ns = true -> wf_res r ->
    ns_one cs namespace_fs ns r = Ok r' ->
    wf_res r' /\ grows r r' /\ (get_name (r_node r') = get_name (r_node r) \/ get_name (r_node r') = ns).
  Proof.
    intros Hgood [Hh Hw] H. unfold ns_one in H.
    assert (Hnode: r_node (store_previous_id cs r) = r_node r)
      by (rewrite store_previous_id_eq; reflexivity).
    rewrite Hnode in H.
    destruct (ns_filter cs namespace_fs ns (r_node r)) as [n'| | |] eqn:Hf; cbn [bind] in H; try discriminate.
    inv H. destruct (ns_filter_wf _ _ _ Hw Hgood Hf) as (W & K & A & N).
    destruct (store_then_update cs r n' (conj Hh Hw) W K A) as [Wr Hr].
    split; [exact Wr|]. split; [split; [right; eexists; exact Hr|split; assumption]|]. exact N.
  Qed.

  (* ================= any sequence of renaming transformers ================= *)

  Inductive rename_step :=
  | SPrefix (p : string)       (* PrefixTransformer of a layer with namePrefix p *)
  | SSuffix (s : string)       (* SuffixTransformer *)
  | SNamespace (ns : string)   (* NamespaceTransformer *)
  | SHash (h : string)         (* HashTransformer, h = the content hash *)
  | STouch.                    (* PatchTransformer on a selected target: StorePreviousId, the name is kept *)

  Definition step_ok (st : rename_step) : bool :=
    match st with
    | SPrefix p => no_char ","%char p
    | SSuffix s => no_char ","%char s
    | SNamespace ns => good ns
    | SHash h => no_char ","%char h
    | STouch => true
    end.

  Definition apply_step (st : rename_step) (r : resource) : res resource :=
    match st with
    | SPrefix p => prefix_one cs prefix_fs prefix_skip p r
    | SSuffix s => suffix_one cs suffix_fs suffix_skip s r
    | SNamespace ns => ns_one cs namespace_fs ns r
    | SHash h => hash_one cs nonstr h r
    | STouch => Ok (store_previous_id cs r)
    end.

  Fixpoint apply_steps (l : list rename_step) (r : resource) : res resource :=
    match l with
    | [] => Ok r
    | st :: t => do r' <- apply_step st r; apply_steps t r'
    end.

  (* the name a transformer gives, when it renames at all *)
  Definition step_name (st : rename_step) (n : string) : string :=
    match st with
    | SPrefix p => p ++ n
    | SSuffix s => n ++ s
    | SNamespace ns => ns          (* only objects of kind Namespace are renamed, to the namespace *)
    | SHash h => n ++ "-" ++ h
    | STouch => n
    end.

  (* StorePreviousId alone: the current id is recorded once more *)
  Lemma touch_hist r :
    wf_res r ->
    wf_res (store_previous_id cs r) /\ grows r (store_previous_id cs r) /\
    get_name (r_node (store_previous_id cs r)) = get_name (r_node r).
  Proof.
    intros [Hh Hn].
    assert (E: with_node (store_previous_id cs r) (r_node r) = store_previous_id cs r)
      by (rewrite store_previous_id_eq; reflexivity).
    assert (N: r_node (store_previous_id cs r) = r_node r) by (rewrite store_previous_id_eq; reflexivity).
    pose proof (store_then_update cs r (r_node r) (conj Hh Hn) Hn eq_refl eq_refl) as HS.
    cbv zeta in HS. rewrite E in HS. destruct HS as [W Hr].
    split; [exact W|]. split; [|now rewrite N].
    split; [right; eexists; exact Hr|]. rewrite N. split; reflexivity.
  Qed.

  Lemma apply_step_full st r r' :
    step_ok st = true -> wf_res r -> apply_step st r = Ok r' ->
    wf_res r' /\ grows r r' /\
    (get_name (r_node r') = get_name (r_node r) \/ get_name (r_node r') = step_name st (get_name (r_node r))).
  Proof.
    destruct st; cbn [step_ok apply_step step_name]; intros Hs Hw H.
    - eapply prefix_one_hist; eauto.
    - eapply suffix_one_hist; eauto.
    - eapply ns_one_hist; eauto.
    - eapply hash_one_hist; eauto.
    - inv H. destruct (touch_hist r Hw) as (A & B & C). split; [exact A|]. split; [exact B|]. left. exact C.
  Qed.

  Lemma apply_step_hist st r r' :
    step_ok st = true -> wf_res r -> apply_step st r = Ok r' -> wf_res r' /\ grows r r'.
  Proof. intros Hs Hw H. destruct (apply_step_full st r r' Hs Hw H) as (A & B & _). auto. Qed.

  (* The history of a resource only grows at its end, whatever renaming transformers run on it;
     kind and apiVersion are never touched. *)
  Theorem history_prefix l r r' :
    forallb step_ok l = true -> wf_res r -> apply_steps l r = Ok r' ->
    wf_res r' /\ (exists ext, history cs r' = (history cs r ++ ext)%list) /\
    get_kind (r_node r') = get_kind (r_node r) /\
    get_api_version (r_node r') = get_api_version (r_node r).
  Proof.
    revert r. induction l as [|st t IH]; intros r Hl Hw H; cbn [apply_steps] in H.
    - inv H. split; [assumption|]. split; [exists []; now rewrite app_nil_r|]. split; reflexivity.
    - cbn [forallb] in Hl. apply andb_true_iff in Hl as [Hs Ht].
      destruct (apply_step st r) as [r1| | |] eqn:H1; cbn [bind] in H; try discriminate.
      destruct (apply_step_hist _ _ _ Hs Hw H1) as [W1 (G1 & K1 & A1)].
      destruct (IH r1 Ht W1 H) as (W & (ext & He) & K & A). split; [assumption|].
      split; [|split; congruence].
      destruct G1 as [G1|(t1 & G1)]; rewrite G1 in He.
      + eauto.
      + exists (t1 :: ext). rewrite He, <- app_assoc. reflexivity.
  Qed.

  Definition triple_name (t : triple) : string := fst (fst t).

  (* The ORIGINAL id stays findable.  For a resource that enters the build fresh (no history yet), after
     any sequence of renaming transformers either nothing was recorded and the name is still the
     original one, or the original (name, effective namespace, kind) is the FIRST recorded previous id. *)
  Theorem history_first l r r' :
    forallb step_ok l = true -> wf_res r -> ptriples r = [] -> apply_steps l r = Ok r' ->
    exists p, prev_ids r' = Ok p /\
      ((p = [] /\ get_name (r_node r') = get_name (r_node r)) \/
       (exists id rest, p = id :: rest /\ id_triple id = cur_triple cs r)).
  Proof.
    intros Hl Hw Hfresh H.
    destruct (history_prefix l r r' Hl Hw H) as ([Hh' Hw'] & (ext & He) & _ & _).
    destruct (prev_ids_triples r' Hh') as (p & Hp & Hpt). exists p. split; [assumption|].
    unfold history in He. rewrite Hfresh in He. cbn [app] in He.
    destruct p as [|id rest].
    - left. split; [reflexivity|]. cbn [map] in Hpt. rewrite <- Hpt in He. cbn [app] in He.
      destruct ext; [|destruct ext; discriminate]. inv He. congruence.
    - right. exists id, rest. split; [reflexivity|].
      rewrite <- Hpt in He. cbn [map app] in He. apply (f_equal (@hd_error triple)) in He. cbn [hd_error] in He. congruence.
  Qed.

  (* C03_history_inv: the original NAME is the first recorded previous name *)
  Theorem history_inv l r r' :
    forallb step_ok l = true -> wf_res r -> ptriples r = [] -> apply_steps l r = Ok r' ->
    exists p, prev_ids r' = Ok p /\
      ((p = [] /\ get_name (r_node r') = get_name (r_node r)) \/
       (exists id rest, p = id :: rest /\ id_name id = get_name (r_node r))).
  Proof.
    intros Hl Hw Hfresh H.
    destruct (history_first l r r' Hl Hw Hfresh H) as (p & Hp & [Hc|(id & rest & -> & Hid)]).
    - exists p. auto.
    - exists (id :: rest). split; [assumption|]. right. exists id, rest. split; [reflexivity|].
      unfold id_triple, cur_triple in Hid. now inv Hid.
  Qed.

  (* ================= every name a resource ever had ================= *)

  (* [v] is a name the resource may have had on its way: the original name, or what some of the
     transformers (each may or may not rename it: skip lists, needsHash, kind Namespace) make of it *)
  Fixpoint ever_named (l : list rename_step) (n v : string) : bool :=
    String.eqb n v ||
    match l with
    | [] => false
    | st :: t => ever_named t n v || ever_named t (step_name st n) v
    end.

  Definition hist_names (r : resource) : list string := map triple_name (history cs r).

  Lemma ever_named_self l n : ever_named l n n = true.
  Proof. destruct l; cbn; now rewrite String.eqb_refl. Qed.

  Lemma hist_names_grow r r1 :
    grows r r1 -> forall v, In v (hist_names r1) -> In v (hist_names r) \/ v = get_name (r_node r1).
  Proof.
    intros [[G|(t & G)] _] v Hv; unfold hist_names in *; rewrite G in Hv.
    - left. assumption.
    - assert (Et: t = cur_triple cs r1).
      { unfold history in G at 1. apply app_inj_tail in G as [_ G]. congruence. }
      rewrite map_app in Hv. apply in_app_or in Hv as [Hv|Hv]; [left; assumption|].
      cbn in Hv. destruct Hv as [<-|[]]. right. rewrite Et. reflexivity.
  Qed.

  Theorem history_names l : forall r r',
    forallb step_ok l = true -> wf_res r -> apply_steps l r = Ok r' ->
    forall v, In v (hist_names r') -> In v (hist_names r) \/ ever_named l (get_name (r_node r)) v = true.
  Proof.
    induction l as [|st t IH]; intros r r' Hl Hw H v Hv; cbn [apply_steps] in H.
    - inv H. left. assumption.
    - cbn [forallb] in Hl. apply andb_true_iff in Hl as [Hs Ht].
      destruct (apply_step st r) as [r1| | |] eqn:H1; cbn [bind] in H; try discriminate.
      destruct (apply_step_full _ _ _ Hs Hw H1) as (W1 & G1 & N1).
      cbn [ever_named].
      destruct (IH r1 r' Ht W1 H v Hv) as [Hin|Hev].
      + destruct (hist_names_grow _ _ G1 v Hin) as [Hold|Heq]; [left; assumption|]. right.
        destruct N1 as [N1|N1]; rewrite N1 in Heq; subst v.
        * now rewrite String.eqb_refl.
        * rewrite (ever_named_self t). now rewrite !orb_true_r.
      + right. destruct N1 as [N1|N1]; rewrite N1 in Hev; rewrite Hev; now rewrite ?orb_true_r.
  Qed.

  (* for a resource that entered the build fresh: every previous name and the current name *)
  Corollary fresh_names l r r' :
    forallb step_ok l = true -> wf_res r -> ptriples r = [] -> apply_steps l r = Ok r' ->
    forall v, In v (hist_names r') -> ever_named l (get_name (r_node r)) v = true.
  Proof.
    intros Hl Hw Hf H v Hv. destruct (history_names l r r' Hl Hw H v Hv) as [Hin|Hev]; [|assumption].
    unfold hist_names, history in Hin. rewrite Hf in Hin. cbn in Hin. destruct Hin as [<-|[]].
    apply ever_named_self.
  Qed.
End Steps.
