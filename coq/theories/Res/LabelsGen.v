(* C08: obligations over the generated field-spec tables and the property theorems instantiated at them. *)
From KV Require Import Res.Labels Res.LabelsProofs.
From KV Require Export Res.LabelsDefaults.

(* ---------- matching by kind only (the objects of the theorems have an arbitrary apiVersion) ---------- *)
Definition kind_may_match (K : string) (fs : fieldspec) : bool :=
  String.eqb (fs_kind fs) "" || String.eqb (fs_kind fs) K.

Lemma match_kind fs obj : is_match_gvk fs obj = true -> kind_may_match (obj_kind obj) fs = true.
Proof.
  unfold is_match_gvk, kind_may_match. destruct (parse_group_version (obj_api_version obj)).
  intros H. apply andb_true_iff in H as [H _]. apply andb_true_iff in H as [H _]. exact H.
Qed.

(* every object matched by fs is matched by ft *)
Definition covers (ft fs : fieldspec) : bool :=
  (String.eqb (fs_kind ft) "" || String.eqb (fs_kind ft) (fs_kind fs)) &&
  (String.eqb (fs_group ft) "" || String.eqb (fs_group ft) (fs_group fs)) &&
  (String.eqb (fs_version ft) "" || String.eqb (fs_version ft) (fs_version fs)).

Lemma covers_sound ft fs obj :
  covers ft fs = true -> is_match_gvk fs obj = true -> is_match_gvk ft obj = true.
Proof.
  unfold covers, is_match_gvk. destruct (parse_group_version (obj_api_version obj)) as [g v].
  intros Hc Hm.
  apply andb_true_iff in Hc as [Hc Hc3]. apply andb_true_iff in Hc as [Hc1 Hc2].
  apply andb_true_iff in Hm as [Hm Hm3]. apply andb_true_iff in Hm as [Hm1 Hm2].
  assert (G : forall a b x, (String.eqb a "" || String.eqb a b) = true ->
                            (String.eqb b "" || String.eqb b x) = true ->
                            (String.eqb a "" || String.eqb a x) = true).
  { intros a b x H1 H2. destruct (String.eqb a "") eqn:Ea; [reflexivity|]. cbn in *.
    apply String.eqb_eq in H1; subst b. rewrite Ea in H2. exact H2. }
  rewrite (G _ _ _ Hc1 Hm1), (G _ _ _ Hc2 Hm2), (G _ _ _ Hc3 Hm3). reflexivity.
Qed.

Definition exactb (fs : fieldspec) (path : string) : bool :=
  rel_eqb (path_rel (row_path fs) (path_splitter path)) RExact.

(* table-level facts, as boolean checks *)
Definition rows_wf (K path : string) (table : list fieldspec) : bool :=
  forallb (fun fs => negb (kind_may_match K fs) || row_ok (path_splitter path) fs) table.

(* a row ending at path [a] (for kind K) is accompanied by a row ending at [b] that matches at least the
   same objects (and creates, if asked) *)
Definition row_implies (K a b : string) (need_create : bool) (table : list fieldspec) : bool :=
  forallb (fun fs => negb (kind_may_match K fs && exactb fs a) ||
                     existsb (fun ft => covers ft fs && exactb ft b && (negb need_create || fs_create ft)) table) table.

Definition no_rows_at (K path : string) (table : list fieldspec) : bool :=
  forallb (fun fs => negb (kind_may_match K fs && exactb fs path)) table.

Lemma rows_wf_sound K path table obj :
  rows_wf K path table = true -> obj_kind obj = K -> rows_okP (path_splitter path) table obj.
Proof.
  unfold rows_wf. rewrite forallb_forall. intros H <- fs Hin Hm.
  specialize (H fs Hin). rewrite (match_kind _ _ Hm) in H. exact H.
Qed.

Lemma row_implies_sound K a b table obj :
  row_implies K a b true table = true -> obj_kind obj = K ->
  has_exact (path_splitter a) table obj = true -> has_create (path_splitter b) table obj = true.
Proof.
  unfold row_implies, has_exact, has_create. rewrite forallb_forall. intros H <- Hex.
  apply existsb_exists in Hex as (fs & Hin & Hx). unfold exact_match in Hx.
  apply andb_true_iff in Hx as [Hm Hx].
  specialize (H fs Hin). unfold exactb in H. rewrite (match_kind _ _ Hm), Hx in H. cbn in H.
  apply existsb_exists in H as (ft & Hin2 & H).
  apply andb_true_iff in H as [H Hc]. apply andb_true_iff in H as [Hcov Hb]. cbn in Hc.
  apply existsb_exists. exists ft. split; auto. unfold exact_match.
  rewrite (covers_sound _ _ _ Hcov Hm), Hb, Hc. reflexivity.
Qed.

Lemma row_implies_sound_weak K a b table obj :
  row_implies K a b false table = true -> obj_kind obj = K ->
  has_exact (path_splitter a) table obj = true -> has_exact (path_splitter b) table obj = true.
Proof.
  unfold row_implies, has_exact. rewrite forallb_forall. intros H <- Hex.
  apply existsb_exists in Hex as (fs & Hin & Hx). unfold exact_match in Hx.
  apply andb_true_iff in Hx as [Hm Hx].
  specialize (H fs Hin). unfold exactb in H. rewrite (match_kind _ _ Hm), Hx in H. cbn in H.
  apply existsb_exists in H as (ft & Hin2 & H).
  apply andb_true_iff in H as [H _]. apply andb_true_iff in H as [Hcov Hb].
  apply existsb_exists. exists ft. split; auto. unfold exact_match.
  rewrite (covers_sound _ _ _ Hcov Hm), Hb. reflexivity.
Qed.

Lemma no_rows_at_sound K path table obj :
  no_rows_at K path table = true -> obj_kind obj = K -> has_exact (path_splitter path) table obj = false.
Proof.
  unfold no_rows_at, has_exact. rewrite forallb_forall. intros H <-.
  destruct (existsb _ table) eqn:E; [|reflexivity].
  apply existsb_exists in E as (fs & Hin & Hx). unfold exact_match in Hx.
  apply andb_true_iff in Hx as [Hm Hx]. specialize (H fs Hin).
  unfold exactb in H. rewrite (match_kind _ _ Hm), Hx in H. discriminate.
Qed.

(* ---------- where the property reads: all (kind, selector path) and (kind, pod-label path) pairs ---------- *)
Definition sel_kinds : list (string * string) :=
  (flat_map (fun e : string * option string * string =>
               match e with (K, Some sp, _) => [(K, sp)] | _ => [] end) k8s_workloads
   ++ k8s_selectors)%list.
Definition tmpl_kinds : list (string * string) :=
  map (fun e : string * option string * string => match e with (K, _, tp) => (K, tp) end) k8s_workloads.

Lemma assoc3_in k l a b : assoc3 k l = Some (a, b) -> In (k, a, b) l.
Proof.
  induction l as [|[[k' a'] b'] t IH]; cbn; [discriminate|].
  destruct (String.eqb k' k) eqn:E.
  - apply String.eqb_eq in E; subst. intros H; inv H. left; reflexivity.
  - intros H; right; auto.
Qed.
Lemma assoc2_in {A} k (l : list (string * A)) a : assoc2 k l = Some a -> In (k, a) l.
Proof.
  induction l as [|[k' a'] t IH]; cbn; [discriminate|].
  destruct (String.eqb k' k) eqn:E.
  - apply String.eqb_eq in E; subst. intros H; inv H. left; reflexivity.
  - intros H; right; auto.
Qed.

Lemma sel_path_of_in x sp : sel_path_of x = Some sp -> In (obj_kind x, sp) sel_kinds.
Proof.
  unfold sel_path_of, sel_kinds. intros H. apply in_or_app.
  destruct (assoc3 (obj_kind x) k8s_workloads) as [[s t]|] eqn:E.
  - subst s. left. apply in_flat_map. exists (obj_kind x, Some sp, t). split.
    + apply assoc3_in; auto.
    + left; reflexivity.
  - right. apply assoc2_in; auto.
Qed.

Lemma tmpl_path_of_in x tp : tmpl_path_of x = Some tp -> In (obj_kind x, tp) tmpl_kinds.
Proof.
  unfold tmpl_path_of, tmpl_kinds. intros H.
  destruct (assoc3 (obj_kind x) k8s_workloads) as [[s t]|] eqn:E; inv H.
  apply in_map_iff. exists (obj_kind x, s, tp). split; [reflexivity|apply assoc3_in; auto].
Qed.

Lemma gvk_same_sel_path x x' : gvk_same x x' -> sel_path_of x' = sel_path_of x.
Proof. intros H. unfold sel_path_of. rewrite (gvk_same_kind _ _ H). reflexivity. Qed.
Lemma gvk_same_tmpl_path x x' : gvk_same x x' -> tmpl_path_of x' = tmpl_path_of x.
Proof. intros H. unfold tmpl_path_of. rewrite (gvk_same_kind _ _ H). reflexivity. Qed.

(* ---------- obligations on the generated tables (decided by computation) ---------- *)

Definition entry_tables : list (list fieldspec) :=
  [gen_common_labels_fs;
   match label_fs default_tc (mkLD [] false true []) with Ok l => l | _ => [] end;
   match label_fs default_tc (mkLD [] false false []) with Ok l => l | _ => [] end;
   gen_common_annotations_fs].

Definition chk_rows_wf (table : list fieldspec) : bool :=
  forallb (fun e : string * string => rows_wf (fst e) (snd e) table) sel_kinds &&
  forallb (fun e : string * string => rows_wf (fst e) (snd e) table) tmpl_kinds.

Lemma gen_rows_wf : forallb chk_rows_wf entry_tables = true.
Proof. vm_compute. reflexivity. Qed.

Definition chk_selector_has_template : bool :=
  forallb (fun e : string * option string * string =>
             match e with
             | (K, Some sp, tp) => row_implies K sp tp true gen_common_labels_fs
             | _ => true
             end) k8s_workloads.
Definition chk_template_has_selector : bool :=
  forallb (fun e : string * option string * string =>
             match e with
             | (K, Some sp, tp) => row_implies K tp sp false gen_common_labels_fs
             | _ => true
             end) k8s_workloads.

Lemma gen_selector_has_template_b : chk_selector_has_template = true.
Proof. vm_compute. reflexivity. Qed.
Lemma gen_template_has_selector_b : chk_template_has_selector = true.
Proof. vm_compute. reflexivity. Qed.

(* readable form of the main table fact *)
Lemma gen_selector_has_template :
  forall K sp tp fs,
    In (K, Some sp, tp) k8s_workloads -> In fs gen_common_labels_fs ->
    kind_may_match K fs = true -> exactb fs sp = true ->
    exists ft, In ft gen_common_labels_fs /\ covers ft fs = true /\ exactb ft tp = true /\ fs_create ft = true.
Proof.
  intros K sp tp fs HK Hfs Hk He.
  pose proof gen_selector_has_template_b as H. unfold chk_selector_has_template in H.
  rewrite forallb_forall in H. specialize (H _ HK).
  change (row_implies K sp tp true gen_common_labels_fs = true) in H.
  unfold row_implies in H. rewrite forallb_forall in H. specialize (H _ Hfs).
  rewrite Hk, He in H. cbn [negb andb orb] in H. apply existsb_exists in H as (ft & Hin & H).
  apply andb_true_iff in H as [H Hc]. apply andb_true_iff in H as [H1 H2]. cbn [negb orb] in Hc.
  exists ft. auto.
Qed.

(* the entry without includeSelectors (and without custom fields) is configured with these lists *)
Lemma label_fs_no_fields p s t :
  label_fs default_tc (mkLD p s t []) = label_fs default_tc (mkLD [] s t []).
Proof. reflexivity. Qed.

Lemma label_fs_selectors p t : label_fs default_tc (mkLD p true t []) = Ok gen_common_labels_fs.
Proof. vm_compute. reflexivity. Qed.

Definition chk_no_selector_rows : bool :=
  forallb (fun t : bool =>
     match label_fs default_tc (mkLD [] false t []) with
     | Ok table => forallb (fun e : string * string => no_rows_at (fst e) (snd e) table) sel_kinds
     | _ => false
     end) [true; false].
Lemma gen_no_selector_rows : chk_no_selector_rows = true.
Proof. vm_compute. reflexivity. Qed.

(* ---------- the property theorems at the default tables ---------- *)
Section Thms.
  Variable nonstr : string -> bool.

  Lemma keys_gvk_same qs fss : forall kvs obj obj',
    rows_okP qs fss obj -> keys_pass nonstr fss kvs obj = Ok obj' -> gvk_same obj obj'.
  Proof.
    induction kvs as [|[k v] t IH]; intros obj obj' Hok H.
    - inv H. apply gvk_same_refl.
    - cbn [keys_pass] in H. destruct (key_pass nonstr fss (k, v) obj) as [o1| | |] eqn:EP; cbn [bind] in H; try discriminate.
      destruct (pass_effect nonstr k v qs fss obj o1 Hok EP) as (Hg & _).
      eapply gvk_same_trans; eauto. eapply IH; eauto. eapply rows_okP_same; eauto.
  Qed.

  Lemma In_insert_kv x kv l : In x (insert_kv kv l) -> x = kv \/ In x l.
  Proof.
    induction l as [|y t IH]; cbn; [intros [H|[]]; auto|].
    destruct (String.ltb (fst kv) (fst y)); cbn; intros H.
    - destruct H as [H|[H|H]]; auto.
    - destruct H as [H|H]; auto. destruct (IH H); auto.
  Qed.
  Lemma sort_pairs_in x l : In x (sort_pairs l) -> In x l.
  Proof.
    induction l as [|y t IH]; cbn; [auto|]. intros H.
    apply In_insert_kv in H as [H|H]; auto.
  Qed.

  Lemma wf_common_sel x sp : sel_path_of x = Some sp -> rows_okP (path_splitter sp) gen_common_labels_fs x.
  Proof.
    intros H. apply sel_path_of_in in H.
    pose proof gen_rows_wf as G. cbn [forallb entry_tables] in G.
    apply andb_true_iff in G as [G _]. unfold chk_rows_wf in G. apply andb_true_iff in G as [G _].
    rewrite forallb_forall in G. specialize (G _ H). cbn [fst snd] in G. eapply rows_wf_sound; eauto.
  Qed.
  Lemma wf_common_tmpl x tp : tmpl_path_of x = Some tp -> rows_okP (path_splitter tp) gen_common_labels_fs x.
  Proof.
    intros H. apply tmpl_path_of_in in H.
    pose proof gen_rows_wf as G. cbn [forallb entry_tables] in G.
    apply andb_true_iff in G as [G _]. unfold chk_rows_wf in G. apply andb_true_iff in G as [_ G].
    rewrite forallb_forall in G. specialize (G _ H). cbn [fst snd] in G. eapply rows_wf_sound; eauto.
  Qed.

  (* commonLabels, or a labels entry with includeSelectors and no custom fields: a workload's selector
     keeps matching its own pod template, for every label map *)
  Theorem own_selector_default : forall (L : pairs) (w w' : node) (sp tp : string),
    assoc3 (obj_kind w) k8s_workloads = Some (Some sp, tp) ->
    is_map w = true -> no_seq_along (path_splitter tp) w = true ->
    selects w w ->
    label_filter nonstr L gen_common_labels_fs w = Ok w' ->
    selects w' w'.
  Proof.
    intros L w w' sp tp HK Hm Hn Hsel H.
    assert (Hsp : sel_path_of w = Some sp) by (unfold sel_path_of; rewrite HK; reflexivity).
    assert (Htp : tmpl_path_of w = Some tp) by (unfold tmpl_path_of; rewrite HK; reflexivity).
    pose proof (wf_common_sel _ _ Hsp) as Wsp. pose proof (wf_common_tmpl _ _ Htp) as Wtp.
    pose proof (keys_gvk_same _ _ _ _ _ Wsp H) as Hg.
    unfold selects, sel_of, pod_labels_of in *.
    rewrite (gvk_same_sel_path _ _ Hg), (gvk_same_tmpl_path _ _ Hg), Hsp, Htp in *. cbn [opt_labels_at] in *.
    pose proof (assoc3_in _ _ _ _ HK) as HIn.
    pose proof gen_selector_has_template_b as G1. unfold chk_selector_has_template in G1.
    rewrite forallb_forall in G1. specialize (G1 _ HIn).
    change (row_implies (obj_kind w) sp tp true gen_common_labels_fs = true) in G1.
    pose proof gen_template_has_selector_b as G2. unfold chk_template_has_selector in G2.
    rewrite forallb_forall in G2. specialize (G2 _ HIn).
    change (row_implies (obj_kind w) tp sp false gen_common_labels_fs = true) in G2.
    eapply (selects_preserved_generic nonstr (path_splitter sp) (path_splitter tp) gen_common_labels_fs
              (sort_pairs L) w w w' w'); eauto.
    - intros Hex. eapply row_implies_sound; eauto.
    - intros Hex. left.
      destruct (has_exact (path_splitter tp) gen_common_labels_fs w) eqn:E; [|reflexivity].
      rewrite (row_implies_sound_weak _ _ _ _ _ G2 eq_refl E) in Hex. discriminate.
  Qed.

  (* a selecting object and a workload that go through the same commonLabels / includeSelectors directive *)
  Theorem selects_preserved_default : forall (L : pairs) (s w s' w' : node) (sp tp : string),
    sel_path_of s = Some sp -> tmpl_path_of w = Some tp ->
    is_map w = true -> no_seq_along (path_splitter tp) w = true ->
    has_create (path_splitter tp) gen_common_labels_fs w = true ->
    (has_exact (path_splitter sp) gen_common_labels_fs s = false ->
     forall kv, In kv L -> compat (fst kv) (snd kv) (sel_of s)) ->
    selects s w ->
    label_filter nonstr L gen_common_labels_fs s = Ok s' ->
    label_filter nonstr L gen_common_labels_fs w = Ok w' ->
    selects s' w'.
  Proof.
    intros L s w s' w' sp tp Hsp Htp Hm Hn Hc Hcomp Hsel Hs Hw.
    pose proof (wf_common_sel _ _ Hsp) as Wsp. pose proof (wf_common_tmpl _ _ Htp) as Wtp.
    pose proof (keys_gvk_same _ _ _ _ _ Wsp Hs) as Hgs.
    pose proof (keys_gvk_same _ _ _ _ _ Wtp Hw) as Hgw.
    unfold selects, sel_of, pod_labels_of in *.
    rewrite (gvk_same_sel_path _ _ Hgs), (gvk_same_tmpl_path _ _ Hgw), Hsp, Htp in *. cbn [opt_labels_at] in *.
    eapply (selects_preserved_generic nonstr (path_splitter sp) (path_splitter tp) gen_common_labels_fs
              (sort_pairs L) s w s' w'); eauto.
    intros Hex. right. intros kv Hin. apply Hcomp; auto. apply sort_pairs_in; auto.
  Qed.

  (* a labels entry without includeSelectors (no custom fields) leaves every selector as it was *)
  Theorem no_selector_change_default : forall (p : pairs) (t : bool) (fss : list fieldspec) (x x' : node) (sp : string),
    label_fs default_tc (mkLD p false t []) = Ok fss ->
    sel_path_of x = Some sp ->
    label_filter nonstr p fss x = Ok x' ->
    get_at (path_splitter sp) x' = get_at (path_splitter sp) x /\ sel_of x' = sel_of x.
  Proof.
    intros p t fss x x' sp Hfs Hsp H. rewrite label_fs_no_fields in Hfs.
    pose proof (sel_path_of_in _ _ Hsp) as HIn.
    pose proof gen_no_selector_rows as G. unfold chk_no_selector_rows in G.
    pose proof gen_rows_wf as W. cbn [forallb entry_tables] in W.
    apply andb_true_iff in W as [_ W]. apply andb_true_iff in W as [W1 W].
    apply andb_true_iff in W as [W2 _].
    assert (Hok : rows_okP (path_splitter sp) fss x /\ has_exact (path_splitter sp) fss x = false).
    { destruct t.
      - cbn [forallb] in G. apply andb_true_iff in G as [G _].
        rewrite Hfs in G, W1. unfold chk_rows_wf in W1. apply andb_true_iff in W1 as [W1 _].
        rewrite forallb_forall in G, W1. split.
        + eapply rows_wf_sound; [apply (W1 _ HIn)|reflexivity].
        + eapply no_rows_at_sound; [apply (G _ HIn)|reflexivity].
      - cbn [forallb] in G. apply andb_true_iff in G as [_ G]. apply andb_true_iff in G as [G _].
        rewrite Hfs in G, W2. unfold chk_rows_wf in W2. apply andb_true_iff in W2 as [W2 _].
        rewrite forallb_forall in G, W2. split.
        + eapply rows_wf_sound; [apply (W2 _ HIn)|reflexivity].
        + eapply no_rows_at_sound; [apply (G _ HIn)|reflexivity]. }
    destruct Hok as [Hok Hno].
    destruct (keys_frame nonstr (path_splitter sp) fss (sort_pairs p) x x' Hok Hno H) as [E Hg].
    split; [exact E|].
    unfold sel_of. rewrite (gvk_same_sel_path _ _ Hg), Hsp. cbn [opt_labels_at]. unfold labels_at. rewrite E. reflexivity.
  Qed.

  (* ----- exact locations ----- *)
  Definition rows_okb (qs : list string) (fss : list fieldspec) (x : node) : bool :=
    forallb (fun fs => negb (is_match_gvk fs x) || row_ok qs fs) fss.

  Lemma rows_okb_P qs fss x : rows_okb qs fss x = true -> rows_okP qs fss x.
  Proof.
    unfold rows_okb. rewrite forallb_forall. intros H fs Hin Hm.
    specialize (H fs Hin). rewrite Hm in H. exact H.
  Qed.

  (* frame: what is read at a path that every matching field spec leaves is not changed,
     for ANY field-spec list (default, merged with custom fields, ...) and any labels *)
  Theorem exact_locations_frame : forall (L : pairs) (fss : list fieldspec) (x x' : node) (qs : list string),
    rows_okb qs fss x = true -> has_exact qs fss x = false ->
    label_filter nonstr L fss x = Ok x' -> get_at qs x' = get_at qs x.
  Proof.
    intros L fss x x' qs Hok Hno H.
    apply (keys_frame nonstr qs fss (sort_pairs L) x x' (rows_okb_P _ _ _ Hok) Hno H).
  Qed.

  (* hit: where a matching create=true field spec ends, exactly the directive's labels arrive *)
  Theorem exact_locations_hit : forall (L : pairs) (fss : list fieldspec) (x x' : node) (qs : list string),
    rows_okb qs fss x = true ->
    is_map x = true -> no_seq_along qs x = true ->
    has_create qs fss x = true ->
    label_filter nonstr L fss x = Ok x' ->
    labels_at qs x' = upd_all (sort_pairs L) (labels_at qs x).
  Proof.
    intros L fss x x' qs Hok Hm Hn Hc H.
    apply (keys_hit nonstr qs fss (sort_pairs L) x x' (rows_okb_P _ _ _ Hok) Hm Hn Hc H).
  Qed.
End Thms.

(* the metadata location of the four default lists: every row is well-formed w.r.t. it for every object,
   and a wildcard create=true row ends there *)
Definition wildcard (fs : fieldspec) : bool :=
  String.eqb (fs_group fs) "" && String.eqb (fs_version fs) "" && String.eqb (fs_kind fs) "".

Definition meta_table_ok (path : string) (table : list fieldspec) : bool :=
  forallb (row_ok (path_splitter path)) table &&
  existsb (fun fs => wildcard fs && exactb fs path && fs_create fs) table.

Lemma wildcard_matches fs x : wildcard fs = true -> is_match_gvk fs x = true.
Proof.
  unfold wildcard, is_match_gvk. intros H.
  apply andb_true_iff in H as [H H3]. apply andb_true_iff in H as [H1 H2].
  destruct (parse_group_version (obj_api_version x)). rewrite H1, H2, H3. reflexivity.
Qed.

Lemma meta_table_ok_sound path table x :
  meta_table_ok path table = true ->
  rows_okb (path_splitter path) table x = true /\ has_create (path_splitter path) table x = true.
Proof.
  unfold meta_table_ok. intros H. apply andb_true_iff in H as [H1 H2]. split.
  - unfold rows_okb. rewrite forallb_forall in *. intros fs Hin. rewrite (H1 fs Hin). apply orb_true_r.
  - unfold has_create. apply existsb_exists in H2 as (fs & Hin & H2).
    apply andb_true_iff in H2 as [H2 Hc]. apply andb_true_iff in H2 as [Hw He].
    apply existsb_exists. exists fs. split; auto. unfold exact_match.
    rewrite (wildcard_matches _ x Hw), Hc. unfold exactb in He. rewrite He. reflexivity.
Qed.

Lemma gen_metadata_rows :
  meta_table_ok "metadata/labels" gen_common_labels_fs = true /\
  (forall t, match label_fs default_tc (mkLD [] false t []) with
             | Ok l => meta_table_ok "metadata/labels" l = true
             | _ => False
             end) /\
  meta_table_ok "metadata/annotations" gen_common_annotations_fs = true.
Proof. split; [vm_compute; reflexivity|split; [intros []; vm_compute; reflexivity|vm_compute; reflexivity]]. Qed.

(* objects with the apiVersion of a current cluster are covered by the default rows *)
Definition match3 (fs : fieldspec) (g v K : string) : bool :=
  (String.eqb (fs_kind fs) "" || String.eqb (fs_kind fs) K) &&
  (String.eqb (fs_group fs) "" || String.eqb (fs_group fs) g) &&
  (String.eqb (fs_version fs) "" || String.eqb (fs_version fs) v).

Lemma match3_eq fs x g v :
  parse_group_version (obj_api_version x) = (g, v) -> is_match_gvk fs x = match3 fs g v (obj_kind x).
Proof. unfold is_match_gvk, match3. intros ->. reflexivity. Qed.

Definition has_create3 (path : string) (table : list fieldspec) (g v K : string) : bool :=
  existsb (fun fs => match3 fs g v K && exactb fs path && fs_create fs) table.
Definition has_exact3 (path : string) (table : list fieldspec) (g v K : string) : bool :=
  existsb (fun fs => match3 fs g v K && exactb fs path) table.

Lemma has_create3_eq path table x g v :
  parse_group_version (obj_api_version x) = (g, v) ->
  has_create (path_splitter path) table x = has_create3 path table g v (obj_kind x).
Proof.
  intros H. unfold has_create, has_create3, exact_match, exactb.
  induction table as [|fs t IH]; cbn; [reflexivity|]. rewrite IH, (match3_eq _ _ _ _ H). reflexivity.
Qed.
Lemma has_exact3_eq path table x g v :
  parse_group_version (obj_api_version x) = (g, v) ->
  has_exact (path_splitter path) table x = has_exact3 path table g v (obj_kind x).
Proof.
  intros H. unfold has_exact, has_exact3, exact_match, exactb.
  induction table as [|fs t IH]; cbn; [reflexivity|]. rewrite IH, (match3_eq _ _ _ _ H). reflexivity.
Qed.

Definition chk_canonical_covered : bool :=
  forallb (fun e : string * (string * string) =>
     let '(K, (g, v)) := e in
     match assoc3 K k8s_workloads with
     | Some (osp, tp) =>
         has_create3 tp gen_common_labels_fs g v K &&
         match osp with Some sp => has_exact3 sp gen_common_labels_fs g v K | None => true end
     | None =>
         match assoc2 K k8s_selectors with
         | Some sp => has_exact3 sp gen_common_labels_fs g v K
         | None => false
         end
     end) k8s_canonical_gv.
Lemma gen_canonical_covered_b : chk_canonical_covered = true.
Proof. vm_compute. reflexivity. Qed.

Lemma gen_canonical_covered :
  forall x K g v,
    In (K, (g, v)) k8s_canonical_gv -> obj_kind x = K ->
    parse_group_version (obj_api_version x) = (g, v) ->
    (forall tp, tmpl_path_of x = Some tp -> has_create (path_splitter tp) gen_common_labels_fs x = true) /\
    (forall sp, sel_path_of x = Some sp -> has_exact (path_splitter sp) gen_common_labels_fs x = true).
Proof.
  intros x K g v HIn HK Hgv. subst K.
  pose proof gen_canonical_covered_b as G. unfold chk_canonical_covered in G.
  rewrite forallb_forall in G. specialize (G _ HIn). cbn beta iota in G.
  split.
  - intros tp Htp. unfold tmpl_path_of in Htp.
    destruct (assoc3 (obj_kind x) k8s_workloads) as [[osp tp']|]; inv Htp.
    apply andb_true_iff in G as [G _]. rewrite (has_create3_eq _ _ _ _ _ Hgv). exact G.
  - intros sp Hsp. unfold sel_path_of in Hsp.
    rewrite (has_exact3_eq _ _ _ _ _ Hgv).
    destruct (assoc3 (obj_kind x) k8s_workloads) as [[osp tp']|].
    + subst osp. apply andb_true_iff in G as [_ G]. exact G.
    + rewrite Hsp in G. exact G.
Qed.


(* ---------- the labels that arrive: last writer wins, everything else is kept ---------- *)
Fixpoint last_val (k : string) (l : pairs) : option string :=
  match l with
  | [] => None
  | (k', v') :: t =>
      match last_val k t with
      | Some v => Some v
      | None => if String.eqb k' k then Some v' else None
      end
  end.

Lemma lookup_upd_all k : forall l m,
  lookup k (upd_all l m) = match last_val k l with Some v => Some v | None => lookup k m end.
Proof.
  unfold upd_all. induction l as [|[k' v'] t IH]; intros m; cbn [fold_left last_val fst snd]; [reflexivity|].
  rewrite IH. destruct (last_val k t); [reflexivity|].
  destruct (String.eqb k' k) eqn:E.
  - apply String.eqb_eq in E; subst. apply lookup_upd_same.
  - apply lookup_upd_other. intros ->. rewrite String.eqb_refl in E. discriminate.
Qed.

(* ---------- witnesses: where the full laws fail on the faithful model ---------- *)
Definition nq (_ : string) : bool := false.
Definition str (s : string) : node := Scalar TStr SPlain s.

Definition wit_deployment (av : string) (sel tl : list (string * node)) : node :=
  Map [("apiVersion", str av); ("kind", str "Deployment");
       ("metadata", Map [("name", str "r0")]);
       ("spec", Map [("selector", Map [("matchLabels", Map sel)]);
                     ("template", Map [("metadata", Map [("labels", Map tl)]);
                                       ("spec", Map [("containers", Seq [Map [("name", str "c")]])])])])].

Lemma selectsb_selects s w : selectsb s w = true <-> selects s w.
Proof. apply subb_sub. Qed.

(* (a) labels with includeTemplates but without includeSelectors that override a key the selector uses *)
Lemma own_selector_templates_refuted :
  exists (L : pairs) (fss : list fieldspec) (w w' : node),
    label_fs default_tc (mkLD L false true []) = Ok fss /\
    assoc3 (obj_kind w) k8s_workloads <> None /\ is_map w = true /\
    selects w w /\ label_filter nq L fss w = Ok w' /\ ~ selects w' w'.
Proof.
  exists [("app", "new")].
  eexists. exists (wit_deployment "apps/v1" [("app", str "old")] [("app", str "old")]). eexists.
  split; [vm_compute; reflexivity|].
  split; [vm_compute; discriminate|]. split; [reflexivity|].
  split; [apply selectsb_selects; vm_compute; reflexivity|].
  split; [vm_compute; reflexivity|].
  intros H. apply selectsb_selects in H. vm_compute in H. discriminate.
Qed.

(* (b) a custom field spec narrower than a default row shadows it in FsSlice.MergeAll *)
Lemma own_selector_fields_refuted :
  exists (e : label_dir) (fss : list fieldspec) (w w' : node),
    ld_selectors e = true /\ label_fs default_tc e = Ok fss /\
    assoc3 (obj_kind w) k8s_workloads <> None /\ is_map w = true /\
    selects w w /\ label_filter nq (ld_pairs e) fss w = Ok w' /\ ~ selects w' w'.
Proof.
  exists (mkLD [("rel", "x")] true false [mkFs "apps" "" "Deployment" "spec/template/metadata/labels" true]).
  eexists. exists (wit_deployment "extensions/v1beta1" [("app", str "x")] [("app", str "x")]). eexists.
  split; [reflexivity|]. split; [vm_compute; reflexivity|].
  split; [vm_compute; discriminate|]. split; [reflexivity|].
  split; [apply selectsb_selects; vm_compute; reflexivity|].
  split; [vm_compute; reflexivity|].
  intros H. apply selectsb_selects in H. vm_compute in H. discriminate.
Qed.

(* ---------- non-vacuity: a concrete workload meets the hypotheses of the theorems ---------- *)
Example own_selector_nonvacuous :
  let w := wit_deployment "apps/v1" [("app", str "x")] [("app", str "x"); ("tier", str "y")] in
  assoc3 (obj_kind w) k8s_workloads = Some (Some "spec/selector/matchLabels", "spec/template/metadata/labels") /\
  is_map w = true /\ no_seq_along (path_splitter "spec/template/metadata/labels") w = true /\ selects w w /\
  exists w', label_filter nq [("team", "t"); ("app", "z")] gen_common_labels_fs w = Ok w' /\
             sel_of w' = [("app", "z"); ("team", "t")] /\ pod_labels_of w' = [("app", "z"); ("tier", "y"); ("team", "t")].
Proof.
  cbv zeta. split; [vm_compute; reflexivity|]. split; [reflexivity|]. split; [vm_compute; reflexivity|].
  split; [apply selectsb_selects; vm_compute; reflexivity|].
  eexists. split; [vm_compute; reflexivity|]. split; vm_compute; reflexivity.
Qed.

(* ---------- more instances at the default tables ---------- *)
Section Thms2.
  Variable nonstr : string -> bool.

  Lemma wf_entry_tmpl t fss x tp :
    label_fs default_tc (mkLD [] false t []) = Ok fss -> tmpl_path_of x = Some tp ->
    rows_okP (path_splitter tp) fss x.
  Proof.
    intros Hfs H. apply tmpl_path_of_in in H.
    pose proof gen_rows_wf as W. cbn [forallb entry_tables] in W.
    apply andb_true_iff in W as [_ W]. apply andb_true_iff in W as [W1 W]. apply andb_true_iff in W as [W2 _].
    destruct t.
    - rewrite Hfs in W1. unfold chk_rows_wf in W1. apply andb_true_iff in W1 as [_ W1].
      rewrite forallb_forall in W1. eapply rows_wf_sound; [apply (W1 _ H)|reflexivity].
    - rewrite Hfs in W2. unfold chk_rows_wf in W2. apply andb_true_iff in W2 as [_ W2].
      rewrite forallb_forall in W2. eapply rows_wf_sound; [apply (W2 _ H)|reflexivity].
  Qed.

  Lemma entry_no_sel t fss x sp :
    label_fs default_tc (mkLD [] false t []) = Ok fss -> sel_path_of x = Some sp ->
    rows_okP (path_splitter sp) fss x /\ has_exact (path_splitter sp) fss x = false.
  Proof.
    intros Hfs Hsp. pose proof (sel_path_of_in _ _ Hsp) as HIn.
    pose proof gen_no_selector_rows as G. unfold chk_no_selector_rows in G.
    pose proof gen_rows_wf as W. cbn [forallb entry_tables] in W.
    apply andb_true_iff in W as [_ W]. apply andb_true_iff in W as [W1 W]. apply andb_true_iff in W as [W2 _].
    destruct t.
    - cbn [forallb] in G. apply andb_true_iff in G as [G _].
      rewrite Hfs in G, W1. unfold chk_rows_wf in W1. apply andb_true_iff in W1 as [W1 _].
      rewrite forallb_forall in G, W1. split.
      + eapply rows_wf_sound; [apply (W1 _ HIn)|reflexivity].
      + eapply no_rows_at_sound; [apply (G _ HIn)|reflexivity].
    - cbn [forallb] in G. apply andb_true_iff in G as [_ G]. apply andb_true_iff in G as [G _].
      rewrite Hfs in G, W2. unfold chk_rows_wf in W2. apply andb_true_iff in W2 as [W2 _].
      rewrite forallb_forall in G, W2. split.
      + eapply rows_wf_sound; [apply (W2 _ HIn)|reflexivity].
      + eapply no_rows_at_sound; [apply (G _ HIn)|reflexivity].
  Qed.

  (* labels WITHOUT includeSelectors (no custom fields): selector/template agreement survives when no key
     overrides a requirement of the selector with another value *)
  Theorem own_selector_nonselector_default :
    forall (p : pairs) (t : bool) (fss : list fieldspec) (w w' : node) (sp tp : string),
      label_fs default_tc (mkLD p false t []) = Ok fss ->
      assoc3 (obj_kind w) k8s_workloads = Some (Some sp, tp) ->
      is_map w = true -> no_seq_along (path_splitter tp) w = true ->
      (forall kv, In kv p -> compat (fst kv) (snd kv) (sel_of w)) ->
      selects w w ->
      label_filter nonstr p fss w = Ok w' ->
      selects w' w'.
  Proof.
    intros p t fss w w' sp tp Hfs HK Hm Hn Hcomp Hsel H. rewrite label_fs_no_fields in Hfs.
    assert (Hsp : sel_path_of w = Some sp) by (unfold sel_path_of; rewrite HK; reflexivity).
    assert (Htp : tmpl_path_of w = Some tp) by (unfold tmpl_path_of; rewrite HK; reflexivity).
    destruct (entry_no_sel _ _ _ _ Hfs Hsp) as [Wsp Hno].
    pose proof (wf_entry_tmpl _ _ _ _ Hfs Htp) as Wtp.
    pose proof (keys_gvk_same nonstr _ _ _ _ _ Wsp H) as Hg.
    unfold selects, sel_of, pod_labels_of in *.
    rewrite (gvk_same_sel_path _ _ Hg), (gvk_same_tmpl_path _ _ Hg), Hsp, Htp in *. cbn [opt_labels_at] in *.
    eapply (selects_preserved_generic nonstr (path_splitter sp) (path_splitter tp) fss
              (sort_pairs p) w w w' w'); eauto.
    - intros Hex. rewrite Hno in Hex. discriminate.
    - intros _. right. intros kv Hin. apply Hcomp. apply sort_pairs_in; exact Hin.
  Qed.

  (* what arrives at metadata.labels, for every object and each of the default label lists *)
  Theorem metadata_labels_default : forall (L : pairs) (x x' : node),
    is_map x = true -> no_seq_along ["metadata"; "labels"] x = true ->
    label_filter nonstr L gen_common_labels_fs x = Ok x' ->
    meta_labels_of x' = upd_all (sort_pairs L) (meta_labels_of x).
  Proof.
    intros L x x' Hm Hn H. destruct gen_metadata_rows as [G _].
    destruct (meta_table_ok_sound _ _ x G) as [Hok Hc].
    apply (keys_hit nonstr (path_splitter "metadata/labels") gen_common_labels_fs (sort_pairs L) x x'
             (rows_okb_P _ _ _ Hok) Hm Hn Hc H).
  Qed.

  (* ... and at the pod template of a workload covered by a create=true template row *)
  Theorem pod_labels_default : forall (L : pairs) (w w' : node) (tp : string),
    tmpl_path_of w = Some tp -> is_map w = true -> no_seq_along (path_splitter tp) w = true ->
    has_create (path_splitter tp) gen_common_labels_fs w = true ->
    label_filter nonstr L gen_common_labels_fs w = Ok w' ->
    pod_labels_of w' = upd_all (sort_pairs L) (pod_labels_of w).
  Proof.
    intros L w w' tp Htp Hm Hn Hc H.
    pose proof (wf_common_tmpl _ _ Htp) as Wtp.
    pose proof (keys_gvk_same nonstr _ _ _ _ _ Wtp H) as Hg.
    unfold pod_labels_of. rewrite (gvk_same_tmpl_path _ _ Hg), Htp. cbn [opt_labels_at].
    apply (keys_hit nonstr (path_splitter tp) gen_common_labels_fs (sort_pairs L) w w' Wtp Hm Hn Hc H).
  Qed.
End Thms2.

(* the generic two-object theorem (the former hypotheses uniform_create - the domain on which the model was tied
   to the implementation before the repair R-setentry-null-scalar - are gone) *)
Theorem selects_preserved_generic_u :
  forall (nonstr : string -> bool) (sp tp : list string) (fss : list fieldspec) (kvs : pairs) (s w s' w' : node),
    rows_okP sp fss s -> rows_okP tp fss w ->
    is_map w = true -> no_seq_along tp w = true ->
    (has_exact sp fss s = true -> has_create tp fss w = true) ->
    (has_exact sp fss s = false ->
     has_exact tp fss w = false \/ forall kv, In kv kvs -> compat (fst kv) (snd kv) (labels_at sp s)) ->
    sub (labels_at sp s) (labels_at tp w) ->
    keys_pass nonstr fss kvs s = Ok s' -> keys_pass nonstr fss kvs w = Ok w' ->
    sub (labels_at sp s') (labels_at tp w').
Proof. intros nonstr sp tp fss kvs s w s' w' H1 H2. apply selects_preserved_generic; auto. Qed.

(* a Service and a Deployment under `labels: [{pairs: {app: new}, includeTemplates: true}]` *)
Lemma selects_preserved_templates_refuted :
  exists (L : pairs) (fss : list fieldspec) (s w s' w' : node),
    label_fs default_tc (mkLD L false true []) = Ok fss /\
    sel_path_of s <> None /\ tmpl_path_of w <> None /\
    selects s w /\ label_filter nq L fss s = Ok s' /\ label_filter nq L fss w = Ok w' /\ ~ selects s' w'.
Proof.
  exists [("app", "new")]. eexists.
  exists (Map [("apiVersion", str "v1"); ("kind", str "Service"); ("metadata", Map [("name", str "r1")]);
               ("spec", Map [("selector", Map [("app", str "old")])])]).
  exists (wit_deployment "apps/v1" [("app", str "old")] [("app", str "old")]). eexists. eexists.
  split; [vm_compute; reflexivity|].
  split; [vm_compute; discriminate|]. split; [vm_compute; discriminate|].
  split; [apply selectsb_selects; vm_compute; reflexivity|].
  split; [vm_compute; reflexivity|]. split; [vm_compute; reflexivity|].
  intros H. apply selectsb_selects in H. vm_compute in H. discriminate.
Qed.
