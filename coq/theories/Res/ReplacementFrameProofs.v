(* Field-level exactness of replacements for ANY number of field paths, with or without
   options.create: whatever a selected target held at an address that is not comparable with an
   address the matcher returned (for one of the paths) is still there afterwards; and every returned
   field receives set_field_value of the value. *)
From KV Require Import Base.Regex Yaml.Match Yaml.MatchProofs Yaml.MatchFrameProofs Yaml.MatchDisjointProofs
  Res.Selector Res.Replacement Res.ReplacementProofs.

Ltac inv H := inversion H; subst; clear H.

Section Fields.
  Variable parse : string -> option re.
  Variable enc : node -> string.
  Variable nonstr : string -> bool.
  Variable decodes : tag -> string -> bool.
  Variable fuel : nat.

  (* every address of the document the matcher returns while copyValueToTarget works through the field paths *)
  Fixpoint copy_hits (opts : option field_options) (live : option addr) (value : node)
           (fps : list string) (target : node) : list addr :=
    match fps with
    | [] => []
    | fp :: t =>
        match pm parse enc nonstr (create_kind opts value) fuel (smarter_path_splitter "."%char fp) target with
        | Ok (d, hits) =>
            at_addrs hits ++
            match write_hits decodes opts live (reread live value d) hits d with
            | Ok (d', (v', live')) => copy_hits opts live' v' t d'
            | _ => []
            end
        | _ => []
        end
    end.

  Definition paths_no_empty (fps : list string) : bool :=
    forallb (fun fp => no_empty (smarter_path_splitter "."%char fp)) fps.

  Lemma pm_keeps create path n n' hits :
    no_empty path = true -> pm parse enc nonstr create fuel path n = Ok (n', hits) -> keeps n n' hits.
  Proof.
    intros Ne H. destruct create as [k|].
    - eapply create_keeps; eauto.
    - apply pm_nocreate_pure in H. subst. intros a x Hg _. auto.
  Qed.

  (* copyValueToTarget, any field paths, create on or off *)
  Theorem copy_value_keeps : forall fps opts live value n n' st,
    paths_no_empty fps = true ->
    copy_value_to_target parse enc nonstr decodes fuel opts live value fps n = Ok (n', st) ->
    forall a x, get_at a n = Some x ->
      (forall h, In h (copy_hits opts live value fps n) -> comparable a h = false) ->
      get_at a n' = Some x.
  Proof.
    induction fps as [|fp t IH]; intros opts live value n n' st Ne H a x Hg Hc.
    - cbn in H. inv H. auto.
    - cbn in Ne. apply andb_prop in Ne. destruct Ne as [Ne1 Ne2].
      cbn -[write_hits pm] in H, Hc.
      destruct (pm parse enc nonstr (create_kind opts value) fuel (smarter_path_splitter "."%char fp) n)
        as [[d hits]| | |] eqn:P; cbn -[write_hits pm] in H; try discriminate.
      destruct hits as [|h0 ht]; [discriminate|].
      destruct (write_hits decodes opts live (reread live value d) (h0 :: ht) d) as [[d' [v' live']]| | |] eqn:W;
        cbn -[write_hits pm] in H; try discriminate.
      assert (K1 : get_at a d = Some x).
      { eapply (pm_keeps _ _ _ _ _ Ne1 P); eauto. intros h Hh. apply Hc. apply in_or_app. left. apply in_at_addrs; auto. }
      assert (K2 : get_at a d' = Some x).
      { rewrite <- K1. eapply write_hits_frame; eauto. intros h Hh. apply Hc. apply in_or_app. left. apply in_at_addrs; auto. }
      eapply IH; eauto. intros h Hh. apply Hc. apply in_or_app. right. auto.
  Qed.

  (* the same at the level of one target selector over one resource *)
  Variable lsel : string -> list (string * string) -> option bool.

  Definition node_hits (vs : vstate) (ts : target_selector) (i : nat) (n : node) : list addr :=
    let here := match vs_live vs with
                | Some (j, sa) => if Nat.eqb i j then Some sa else None
                | None => None
                end in
    copy_hits (ts_options ts) here (vs_value vs) (target_field_paths ts) n.

  Theorem apply_node_keeps vs ts sel i n n' vs' :
    paths_no_empty (target_field_paths ts) = true ->
    apply_target_to_node parse enc nonstr decodes lsel fuel vs ts sel i n = Ok (n', vs') ->
    forall a x, get_at a n = Some x ->
      (forall h, In h (node_hits vs ts i n) -> comparable a h = false) ->
      get_at a n' = Some x.
  Proof.
    intros Ne H a x Hg Hc. unfold apply_target_to_node in H.
    destruct (make_res_ids n) as [ids| | |]; cbn in H; try discriminate.
    destruct (select_by_anno_label lsel n sel (ts_reject ts)) as [ok| | |]; cbn in H; try discriminate.
    destruct ok; cbn in H; [|inv H; auto].
    destruct (target_selected sel (ts_reject ts) ids); [|inv H; auto].
    match type of H with (do w <- ?X; _) = _ => destruct X as [[d st]| | |] eqn:C end; cbn in H; inv H.
    eapply copy_value_keeps; eauto.
  Qed.
End Fields.

(* ---------- the value every returned field receives ---------- *)
(* with a private copy of the value (not live) and returned addresses that do not overlap, EVERY
   returned field receives set_field_value of that value *)
Theorem write_hits_all decodes opts value : forall hits n n' st,
  write_hits decodes opts None value hits n = Ok (n', st) ->
  pairwise_incomparable (at_addrs hits) = true ->
  forall h x, In (HAt h) hits -> get_at h n = Some x ->
    exists x', set_field_value decodes opts value x = Ok x' /\ get_at h n' = Some x'.
Proof.
  induction hits as [|[b|y] t IH]; intros n n' st H P h x Hin Hg; cbn in H.
  - destruct Hin.
  - destruct (update_at (set_field_value decodes opts value) b n) as [n1| | |] eqn:U; cbn in H; try discriminate.
    cbn in P. apply andb_prop in P. destruct P as [P1 P2].
    destruct Hin as [E|Hin].
    + inv E. destruct (update_at_get _ _ _ _ _ U Hg) as (x' & Fx & Gx). exists x'. split; auto.
      rewrite <- Gx. eapply write_hits_frame; eauto.
      intros c Hc. rewrite forallb_forall in P1. specialize (P1 c (proj2 (in_at_addrs c t) Hc)).
      apply andb_prop in P1. destruct P1 as [A _]. apply negb_true_iff in A. auto.
    + eapply IH; eauto. rewrite <- Hg. eapply update_at_frame; eauto.
      rewrite forallb_forall in P1. specialize (P1 h (proj2 (in_at_addrs h t) Hin)).
      apply andb_prop in P1. destruct P1 as [_ B]. apply negb_true_iff in B. auto.
  - destruct (set_field_value decodes opts value y); cbn in H; try discriminate.
    destruct Hin as [E|Hin]; [discriminate|]. eapply IH; eauto.
Qed.

(* ... in particular for what PathMatcher returns: its addresses never overlap (pm_hits_incomparable) *)
Theorem matched_fields_written parse enc nonstr decodes create fuel path opts value n d hits n' st :
  pm parse enc nonstr create fuel path n = Ok (d, hits) ->
  write_hits decodes opts None value hits d = Ok (n', st) ->
  forall h x, In (HAt h) hits -> get_at h d = Some x ->
    exists x', set_field_value decodes opts value x = Ok x' /\ get_at h n' = Some x'.
Proof.
  intros P W. eapply write_hits_all; eauto. eapply pm_hits_incomparable; eauto.
Qed.

(* non-vacuity: two field paths, the second one created; the untouched sibling is kept *)
Example copy_value_keeps_example :
  let pod := Map [("metadata", Map [("name", Scalar TStr SPlain "p")]);
                  ("spec", Map [("containers", Seq [Map [("name", Scalar TStr SPlain "web"); ("image", Scalar TStr SPlain "i:1")]])])] in
  let fps := ["spec.containers.[name=web].image"; "metadata.annotations.copied"] in
  paths_no_empty fps = true /\
  copy_hits (parse_of [("web", Some (lit "web"))]) node_value (fun _ => false) (fun _ _ => true) 2 (Some (mkFO "" 0%Z true)) None
            (Scalar TStr SPlain "v") fps pod = [[1; 0; 0; 1]; [0; 1; 0]] /\
  exists n', copy_value_to_target (parse_of [("web", Some (lit "web"))]) node_value (fun _ => false) (fun _ _ => true) 2
               (Some (mkFO "" 0%Z true)) None (Scalar TStr SPlain "v") fps pod = Ok (n', (Scalar TStr SPlain "v", None)).
Proof. split; [reflexivity|]. split; [vm_compute; reflexivity|]. eexists. vm_compute. reflexivity. Qed.
