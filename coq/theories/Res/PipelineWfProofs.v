(* C11 / C07 / C12 (whole build): for kustomization trees of WELL-FORMED documents the ids a kustomization
   accumulates are pairwise distinct - the invariant behind the transparency of a wrapper layer - and the
   rename history stays readable (PrevIds cannot panic).
   Well-formed: every document is a mapping with a kind and a metadata mapping holding a non-null scalar name,
   neither empty nor containing ',' (RenameProofs.wf_node); directive strings contain no ','. *)
From KV Require Import Res.Pipeline Res.PipelineProofs Res.PipelineFrameProofs Res.RenameProofs Res.C03Facts
                       Res.NameRefProofs Res.CsvFacts Base.StrOrder.
From KV Require Import Yaml.FieldSpecSpec Yaml.FieldSpecProofs.
From KV Require Res.Labels Res.LabelsDefaults Res.Namespace Res.Generators Res.Hash.
Local Open Scope string_scope.

Ltac inv H := inversion H; subst; clear H.

Notation cs := pipe_cs.

(* ================= identity through get_at ================= *)

Definition p_kind : jpath := [JKey "kind"].
Definition p_av : jpath := [JKey "apiVersion"].
Definition p_name : jpath := [JKey "metadata"; JKey "name"].
Definition p_ns : jpath := [JKey "metadata"; JKey "namespace"].

Lemma get_kind_get_at n : get_kind n = match get_at p_kind n with Some v => node_value v | None => "" end.
Proof. unfold get_kind, obj_kind, map_field_value, p_kind. cbn [get_at]. destruct n; try reflexivity. destruct (find_field "kind" kvs); reflexivity. Qed.

Lemma get_av_get_at n : get_api_version n = match get_at p_av n with Some v => node_value v | None => "" end.
Proof. unfold get_api_version, obj_api_version, map_field_value, p_av. cbn [get_at]. destruct n; try reflexivity. destruct (find_field "apiVersion" kvs); reflexivity. Qed.

Lemma meta_string_get_at f n :
  meta_string f n = match get_at [JKey "metadata"; JKey f] n with
                    | Some v => if nil_or_empty v then "" else node_value v
                    | None => ""
                    end.
Proof.
  unfold meta_string, get_meta. cbn [get_at]. destruct n as [t s v|kvs|es]; try reflexivity.
  destruct (find_field "metadata" kvs) as [md|]; [|reflexivity].
  destruct md as [t s v|mkvs|es].
  - destruct (nil_or_empty (Scalar t s v)); reflexivity.
  - destruct mkvs as [|kv0 mt]; [reflexivity|]. cbn [nil_or_empty get_at]. destruct (find_field f (kv0 :: mt)); reflexivity.
  - destruct (nil_or_empty (Seq es)); reflexivity.
Qed.

(* the four locations the identity is read from *)
Definition same_idkey (n n' : node) : Prop :=
  get_at p_kind n' = get_at p_kind n /\ get_at p_av n' = get_at p_av n /\
  get_at p_name n' = get_at p_name n /\ get_at p_ns n' = get_at p_ns n.

Lemma same_idkey_ident n n' : same_idkey n n' -> ident n' = ident n.
Proof.
  intros (H1 & H2 & H3 & H4). unfold ident, get_name, get_namespace.
  rewrite !get_kind_get_at, !get_av_get_at, !meta_string_get_at.
  unfold p_kind, p_av, p_name, p_ns in *. rewrite H1, H2, H3, H4. reflexivity.
Qed.

Lemma wf_node_idkey n n' : same_idkey n n' -> wf_node n -> wf_node n'.
Proof.
  intros Hk Hw. pose proof (same_idkey_ident _ _ Hk) as Hi.
  destruct Hk as (H1 & H2 & H3 & H4).
  destruct Hw as (kvs & mkvs & tn & sn & name & kn & -> & Hm & Hn & Ht & Hg & Hkd & Hkg & Hns).
  assert (G3 : get_at p_name (Map kvs) = Some (Scalar tn sn name)) by (unfold p_name; cbn [get_at]; rewrite Hm; cbn [get_at]; rewrite Hn; reflexivity).
  assert (G1 : get_at p_kind (Map kvs) = Some kn) by (unfold p_kind; cbn [get_at]; rewrite Hkd; reflexivity).
  rewrite G3 in H3. rewrite G1 in H1. unfold p_name, p_kind in H3, H1. cbn [get_at] in H3, H1.
  destruct n' as [t s v|kvs'|es]; try discriminate.
  destruct (find_field "metadata" kvs') as [md|] eqn:Em; [|discriminate].
  destruct md as [t s v|mkvs'|es]; try discriminate.
  destruct (find_field "name" mkvs') as [x|] eqn:En; [|discriminate]. inv H3.
  destruct (find_field "kind" kvs') as [k'|] eqn:Ek; [|discriminate]. inv H1.
  exists kvs', mkvs', tn, sn, name, kn. repeat split; auto.
  unfold ident in Hi. inversion Hi as [[A B C D]]. rewrite D. exact Hns.
Qed.

(* a table none of whose rows reaches the identity locations *)
Definition clear_of_identity (tbl : list fieldspec) : bool :=
  forallb (fun fs => forallb seg_ok (fs_segments fs) &&
                     fs_diverges (fs_segments fs) p_kind && fs_diverges (fs_segments fs) p_av &&
                     fs_diverges (fs_segments fs) p_name && fs_diverges (fs_segments fs) p_ns) tbl.

Definition label_tbl : list fieldspec :=
  (gen_common_labels_fs ++ gen_template_labels_fs ++ gen_common_annotations_fs ++ [Labels.metadata_labels_fs])%list.

(* obligation on the generated tables: label and annotation rows never reach kind, apiVersion, name, namespace *)
Lemma label_tbl_clear : clear_of_identity label_tbl = true.
Proof. vm_compute. reflexivity. Qed.

Lemma clear_slice q l :
  In q [p_kind; p_av; p_name; p_ns] -> incl l label_tbl ->
  Forall (fun fs => forallb seg_ok (fs_segments fs) = true /\ fs_diverges (fs_segments fs) q = true) l.
Proof.
  intros Hq Hi. apply Forall_forall. intros fs Hfs. apply Hi in Hfs.
  pose proof label_tbl_clear as H. unfold clear_of_identity in H. rewrite forallb_forall in H.
  specialize (H fs Hfs). repeat (apply andb_true_iff in H as [H ?]).
  split; [exact H|]. destruct Hq as [<-|[<-|[<-|[<-|[]]]]]; assumption.
Qed.

Section Labels.
  Variable nonstr : string -> bool.

  Lemma keys_pass_idkey fss kvs : forall obj obj',
    incl fss label_tbl -> Labels.keys_pass nonstr fss kvs obj = Ok obj' -> same_idkey obj obj'.
  Proof.
    induction kvs as [|kv t IH]; intros obj obj' Hi H; cbn [Labels.keys_pass] in H; [inv H; repeat split|].
    destruct (Labels.key_pass nonstr fss kv obj) as [o1| | |] eqn:E; cbn [bind] in H; try discriminate.
    destruct (IH _ _ Hi H) as (A1 & A2 & A3 & A4). unfold Labels.key_pass in E.
    repeat split.
    - rewrite A1. eapply fsslice_apply_frame; [|exact E]. apply clear_slice; [cbn; auto|exact Hi].
    - rewrite A2. eapply fsslice_apply_frame; [|exact E]. apply clear_slice; [cbn; auto|exact Hi].
    - rewrite A3. eapply fsslice_apply_frame; [|exact E]. apply clear_slice; [cbn; auto|exact Hi].
    - rewrite A4. eapply fsslice_apply_frame; [|exact E]. apply clear_slice; [cbn; auto|exact Hi].
  Qed.
End Labels.

(* ================= the per-resource invariant ================= *)

(* every recorded previous kind is the current kind (no modelled step changes a kind) *)
Definition kinds_const (r : resource) : Prop :=
  Forall (fun k => k = get_kind (r_node r)) (get_csv (r_pkinds r)).

Definition W (r : resource) : Prop := wf_res r /\ kinds_const r.

Lemma W_load n : wf_node n -> W (load n).
Proof. intros H. split; [split; [exact I|exact H]|constructor]. Qed.

Lemma W_not_empty r : W r -> nil_or_empty (r_node r) = false.
Proof.
  intros [[_ (kvs & mkvs & tn & sn & name & kn & E & Hm & _)] _]. rewrite E.
  destruct kvs; [discriminate|reflexivity].
Qed.

(* a step that keeps the identity locations and the bookkeeping keeps W and the id *)
Lemma W_same_idkey r n' : W r -> same_idkey (r_node r) n' -> W (with_node r n') /\ same_identity r (with_node r n').
Proof.
  intros [[Hh Hw] Hk] Hs. pose proof (same_idkey_ident _ _ Hs) as Hi. split.
  - split; [split; [exact Hh|eapply wf_node_idkey; eauto]|].
    unfold kinds_const in *. cbn [r_node r_pkinds with_node].
    unfold ident in Hi. inversion Hi as [[A B C D]]. rewrite B. exact Hk.
  - split; [exact Hi|repeat split].
Qed.

(* ================= which resources the prefix / suffix transformers skip ================= *)

Definition skipf (skip : list gvk) (g v k : string) : bool :=
  existsb (fun s => gvk_is_selected (gvk_lit g v k) s) skip.

Lemma gvk_is_selected_lit x s : gvk_is_selected x s = gvk_is_selected (gvk_lit (g_group x) (g_version x) (g_kind x)) s.
Proof. reflexivity. Qed.

Lemma org_id_gvk r org :
  W r -> org_id cs r = Ok org ->
  let (g, v) := parse_group_version (get_api_version (r_node r)) in
  g_group (id_gvk org) = g /\ g_version (id_gvk org) = v /\ g_kind (id_gvk org) = get_kind (r_node r).
Proof.
  intros [[Hh _] Hk] H. unfold org_id in H.
  unfold prev_ids in H. unfold kinds_const in Hk. unfold hist_ok in Hh.
  destruct (r_pnames r) as [a|] eqn:Ea.
  - destruct (r_pnss r) as [b|]; [|contradiction]. destruct (r_pkinds r) as [c|] eqn:Ec; [|contradiction].
    destruct Hh as [L1 L2]. cbn [or_empty] in H. rewrite <- L1, <- L2, !Nat.eqb_refl in H. cbn [andb bind] in H.
    destruct (parse_group_version (get_api_version (r_node r))) as [g v] eqn:EP. cbn [bind] in H.
    cbn [get_csv] in Hk.
    destruct (split_on ","%char a) as [|n0 ns0] eqn:Sa.
    { pose proof (split_on_nonempty ","%char a) as X. rewrite Sa in X. contradiction. }
    destruct (split_on ","%char b) as [|b0 bs0]; [discriminate|].
    destruct (split_on ","%char c) as [|c0 cs0]; [discriminate|].
    cbn [zip_ids] in H. inv H. cbn. inversion Hk; subst. auto.
  - cbn [bind] in H. inv H. unfold cur_id, cur_gvk. cbn.
    destruct (parse_group_version (get_api_version (r_node r))) as [g v]. cbn. auto.
Qed.

Definition skip_of (skip : list gvk) (r : resource) : bool :=
  let (g, v) := parse_group_version (get_api_version (r_node r)) in skipf skip g v (get_kind (r_node r)).

Lemma should_skip_skip_of skip r org : W r -> org_id cs r = Ok org -> should_skip skip org = skip_of skip r.
Proof.
  intros HW Ho. pose proof (org_id_gvk r org HW Ho) as H. unfold skip_of.
  destruct (parse_group_version (get_api_version (r_node r))) as [g v]. destruct H as (E1 & E2 & E3).
  unfold should_skip, skipf. induction skip as [|s t IH]; cbn [existsb]; [reflexivity|]. rewrite IH. f_equal.
  unfold gvk_is_selected. cbn [g_group g_version g_kind gvk_lit]. rewrite E1, E2, E3. reflexivity.
Qed.

Lemma kinds_const_store r :
  W r -> kinds_const (store_previous_id cs r).
Proof.
  intros [[Hh Hw] Hk]. destruct (wf_node_good _ Hw) as (_ & Gk & _).
  unfold kinds_const in *. rewrite store_previous_id_eq. cbn [r_pkinds r_node].
  rewrite get_csv_append by exact Gk. apply Forall_app. split; [exact Hk|constructor; [reflexivity|constructor]].
Qed.

(* PrefixTransformer / SuffixTransformer on a well-formed resource *)
Lemma affix_effect affix (add : string -> resource -> resource) (newv : string -> string) skip r r' :
  String.eqb affix "" = false ->
  (forall r0, r_node (add affix r0) = r_node r0 /\ r_pnames (add affix r0) = r_pnames r0 /\
              r_pnss (add affix r0) = r_pnss r0 /\ r_pkinds (add affix r0) = r_pkinds r0) ->
  (forall v, good v = true -> good (newv v) = true) ->
  W r ->
  (do org <- org_id cs r;
   if should_skip skip org then Ok r else affix_steps cs affix add newv org name_fs r) = Ok r' ->
  wf_node (r_node r') /\ kinds_const r' /\
  get_kind (r_node r') = get_kind (r_node r) /\ get_api_version (r_node r') = get_api_version (r_node r) /\
  get_namespace (r_node r') = get_namespace (r_node r) /\
  get_name (r_node r') = if skip_of skip r then get_name (r_node r) else newv (get_name (r_node r)).
Proof.
  intros Hne Hadd Hgood HW H.
  destruct (org_id cs r) as [org| | |] eqn:Eo; cbn [bind] in H; try discriminate.
  rewrite (should_skip_skip_of skip r org HW Eo) in H.
  destruct (skip_of skip r).
  - inv H. destruct HW as [[_ Hw] Hk]. auto 10.
  - cbn [affix_steps name_fs] in H.
    destruct (affix_step cs affix add newv org r (mkFs "" "" "" "metadata/name" false)) as [r1| | |] eqn:Hs;
      cbn [bind] in H; try discriminate. inv H.
    unfold affix_step in Hs.
    assert (Hsel: gvk_is_selected (id_gvk org) (fsgvk (mkFs "" "" "" "metadata/name" false)) = true) by reflexivity.
    rewrite Hsel in Hs. cbn [negb fs_path] in Hs.
    change (String.eqb "metadata/name" "metadata/name") with true in Hs. cbv iota in Hs. rewrite Hne in Hs.
    destruct (Hadd r) as (A1 & A2 & A3 & A4).
    assert (Hnode : r_node (store_previous_id cs (add affix r)) = r_node r) by (rewrite store_previous_id_eq; cbn [r_node]; exact A1).
    rewrite Hnode in Hs.
    destruct (fs_apply _ _ _ _ (r_node r)) as [n'| | |] eqn:Hf; cbn [bind] in Hs; try discriminate. inv Hs.
    destruct HW as [[Hh Hw] Hk]. destruct (wf_node_good _ Hw) as (Gn & Gk & Gs).
    destruct (doc_name_update newv _ _ Hw (Hgood _ Gn) Hf) as (Wn & N1 & N2 & N3 & N4).
    cbn [r_node with_node]. repeat split; auto.
    unfold kinds_const. cbn [r_node r_pkinds with_node]. rewrite store_previous_id_eq. cbn [r_pkinds].
    rewrite A4, A1, N2. rewrite get_csv_append by exact Gk.
    apply Forall_app. split; [exact Hk|constructor; [reflexivity|constructor]].
Qed.

(* ================= ids under a uniform, injective renaming ================= *)

(* r' is r with the same kind, apiVersion and namespace and the name rewritten by f unless the kind is skipped *)
Definition renamed (f : string -> string) (skip : list gvk) (r r' : resource) : Prop :=
  get_kind (r_node r') = get_kind (r_node r) /\ get_api_version (r_node r') = get_api_version (r_node r) /\
  get_namespace (r_node r') = get_namespace (r_node r) /\
  get_name (r_node r') = if skip_of skip r then get_name (r_node r) else f (get_name (r_node r)).

Lemma cur_gvk_getters n n' :
  get_kind n' = get_kind n -> get_api_version n' = get_api_version n -> cur_gvk cs n' = cur_gvk cs n.
Proof. intros H1 H2. unfold cur_gvk. rewrite H1, H2. reflexivity. Qed.

Lemma gvk_equals_skip skip r1 r2 :
  gvk_equals (cur_gvk cs (r_node r1)) (cur_gvk cs (r_node r2)) = true -> skip_of skip r1 = skip_of skip r2.
Proof.
  unfold gvk_equals, cur_gvk, skip_of.
  destruct (parse_group_version (get_api_version (r_node r1))) as [g1 v1].
  destruct (parse_group_version (get_api_version (r_node r2))) as [g2 v2]. cbn [g_group g_version g_kind].
  intros H. apply andb_true_iff in H as [H H3]. apply andb_true_iff in H as [H1 H2].
  apply String.eqb_eq in H1, H2, H3. subst. rewrite H3. reflexivity.
Qed.

Lemma id_equals_renamed f skip r1 r2 r1' r2' :
  (forall a b, f a = f b -> a = b) ->
  renamed f skip r1 r1' -> renamed f skip r2 r2' ->
  id_equals (cur_id cs r1') (cur_id cs r2') = id_equals (cur_id cs r1) (cur_id cs r2).
Proof.
  intros Hinj (K1 & A1 & S1 & N1) (K2 & A2 & S2 & N2).
  unfold id_equals, id_ns_equals, id_gvkn_equals, effective_ns, id_cluster_scoped, cur_id.
  cbn [id_gvk id_name id_ns].
  rewrite (cur_gvk_getters _ _ K1 A1), (cur_gvk_getters _ _ K2 A2), S1, S2. f_equal.
  destruct (gvk_equals (cur_gvk cs (r_node r1)) (cur_gvk cs (r_node r2))) eqn:EG; [|now rewrite !andb_false_r].
  rewrite !andb_true_r. rewrite N1, N2, (gvk_equals_skip skip _ _ EG).
  destruct (skip_of skip r2); [reflexivity|].
  destruct (String.eqb (get_name (r_node r1)) (get_name (r_node r2))) eqn:E.
  - apply String.eqb_eq in E. rewrite E. apply String.eqb_refl.
  - apply String.eqb_neq. intros X. apply Hinj in X. apply String.eqb_neq in E. contradiction.
Qed.

Lemma distinct_ids_renamed f skip m m' :
  (forall a b, f a = f b -> a = b) ->
  Forall2 (renamed f skip) m m' -> distinct_ids m -> distinct_ids m'.
Proof.
  intros Hinj HF. induction HF as [|r r' t t' Hr Ht IH]; cbn [distinct_ids]; [auto|].
  intros [H1 H2]. split; [|auto]. intros x' Hx'.
  assert (exists x, In x t /\ renamed f skip x x') as (x & Hx & Hxx).
  { clear -Ht Hx'. induction Ht as [|a b ta tb Hab _ IHt]; [destruct Hx'|].
    destruct Hx' as [<-|Hx']; [exists a; split; [left; reflexivity|exact Hab]|].
    destruct (IHt Hx') as (x & Hx & Hxx). exists x. split; [right; exact Hx|exact Hxx]. }
  rewrite (id_equals_renamed f skip r x r' x' Hinj Hr Hxx). auto.
Qed.

(* ================= the transformers on well-formed maps ================= *)

Lemma prefix_transform_W p m m' :
  no_char ","%char p = true -> Forall W m ->
  prefix_transform cs gen_name_prefix_fs gen_prefix_skip p m = Ok m' ->
  Forall W m' /\ (distinct_ids m -> distinct_ids m').
Proof.
  intros Hp HW. unfold prefix_transform. destruct (String.eqb p "") eqn:Ep; [intros H; inv H; auto|].
  intros H. apply mapM_Forall2P in H.
  assert (HF : Forall2 (fun r r' => W r' /\ renamed (fun v => p ++ v) gen_prefix_skip r r') m m').
  { clear -H HW Hp Ep. induction H as [|r r' t t' Hr _ IH]; [constructor|].
    inversion HW as [|? ? Wr Wt]; subst. constructor; [|auto].
    destruct (prefix_one_hist cs _ _ gen_prefix_table p r r' Hp (proj1 Wr) Hr) as [Wf _].
    unfold prefix_one in Hr. rewrite gen_prefix_table in Hr.
    destruct (affix_effect p add_name_prefix (fun v => p ++ v) gen_prefix_skip r r' Ep
                (fun r0 => ltac:(repeat split)) (fun v Hv => good_app_l p v Hp Hv) Wr Hr)
      as (Wn & Kc & E1 & E2 & E3 & E4).
    split; [split; [exact Wf|exact Kc]|repeat split; assumption]. }
  split.
  - clear -HF. induction HF as [|? ? ? ? [Hw _]]; constructor; auto.
  - apply (distinct_ids_renamed (fun v => p ++ v) gen_prefix_skip); [intros a b; apply app_inj_l|].
    eapply Forall2_impl2; [|exact HF]. intros a b [_ Hr]. exact Hr.
Qed.

Lemma suffix_transform_W s m m' :
  no_char ","%char s = true -> Forall W m ->
  suffix_transform cs gen_name_suffix_fs gen_suffix_skip s m = Ok m' ->
  Forall W m' /\ (distinct_ids m -> distinct_ids m').
Proof.
  intros Hp HW. unfold suffix_transform. destruct (String.eqb s "") eqn:Ep; [intros H; inv H; auto|].
  intros H. apply mapM_Forall2P in H.
  assert (HF : Forall2 (fun r r' => W r' /\ renamed (fun v => v ++ s) gen_suffix_skip r r') m m').
  { clear -H HW Hp Ep. induction H as [|r r' t t' Hr _ IH]; [constructor|].
    inversion HW as [|? ? Wr Wt]; subst. constructor; [|auto].
    destruct (suffix_one_hist cs _ _ gen_suffix_table s r r' Hp (proj1 Wr) Hr) as [Wf _].
    unfold suffix_one in Hr. rewrite gen_suffix_table in Hr.
    destruct (affix_effect s add_name_suffix (fun v => v ++ s) gen_suffix_skip r r' Ep
                (fun r0 => ltac:(repeat split)) (fun v Hv => good_app_r v s Hv Hp) Wr Hr)
      as (Wn & Kc & E1 & E2 & E3 & E4).
    split; [split; [exact Wf|exact Kc]|repeat split; assumption]. }
  split.
  - clear -HF. induction HF as [|? ? ? ? [Hw _]]; constructor; auto.
  - apply (distinct_ids_renamed (fun v => v ++ s) gen_suffix_skip); [intros a b; apply app_inj_r|].
    eapply Forall2_impl2; [|exact HF]. intros a b [_ Hr]. exact Hr.
Qed.
