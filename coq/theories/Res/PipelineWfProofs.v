(* C11 / C07 / C12 (whole build): for kustomization trees of WELL-FORMED documents the ids a kustomization
   accumulates are pairwise distinct - the invariant behind the transparency of a wrapper layer - and the
   rename history stays readable (PrevIds cannot panic).
   Well-formed: every document is a mapping with a kind and a metadata mapping holding a non-null scalar name,
   neither empty nor containing ',' (RenameProofs.wf_node); directive strings contain no ','. *)
From KV Require Import Res.Pipeline Res.PipelineProofs Res.PipelineFrameProofs Res.PipelinePermProofs Res.RenameProofs Res.C03Facts
                       Res.NameRefProofs Res.CsvFacts Base.StrOrder.
From KV Require Import Yaml.FieldSpecSpec Yaml.FieldSpecProofs.
From KV Require Yaml.TotalityProofs.
From KV Require Res.Labels Res.LabelsDefaults Res.Namespace Res.Generators Res.Hash.
Local Open Scope string_scope.

Ltac inv H := inversion H; subst; clear H.

Notation cs := pipe_cs.

(* ================= identity through get_at ================= *)

Definition p_kind : jpath := [JKey "kind"].
Definition p_av : jpath := [JKey "apiVersion"].
Definition p_name : jpath := [JKey "metadata"; JKey "name"].
Definition p_ns : jpath := [JKey "metadata"; JKey "namespace"].

Lemma get_kind_get_at n : get_kind n = match get_at p_kind n with Some v => node_value v | None => "" end.
Proof. unfold get_kind, obj_kind, map_field_value, p_kind. cbn [get_at]. destruct n; try reflexivity. destruct (find_field "kind" kvs); reflexivity. Qed.

Lemma get_av_get_at n : get_api_version n = match get_at p_av n with Some v => node_value v | None => "" end.
Proof. unfold get_api_version, obj_api_version, map_field_value, p_av. cbn [get_at]. destruct n; try reflexivity. destruct (find_field "apiVersion" kvs); reflexivity. Qed.

Lemma meta_string_get_at f n :
  meta_string f n = match get_at [JKey "metadata"; JKey f] n with
                    | Some v => if nil_or_empty v then "" else node_value v
                    | None => ""
                    end.
Proof.
  unfold meta_string, get_meta. cbn [get_at]. destruct n as [t s v|kvs|es]; try reflexivity.
  destruct (find_field "metadata" kvs) as [md|]; [|reflexivity].
  destruct md as [t s v|mkvs|es].
  - destruct (nil_or_empty (Scalar t s v)); reflexivity.
  - destruct mkvs as [|kv0 mt]; [reflexivity|]. cbn [nil_or_empty get_at]. destruct (find_field f (kv0 :: mt)); reflexivity.
  - destruct (nil_or_empty (Seq es)); reflexivity.
Qed.

(* the four locations the identity is read from *)
Definition same_idkey (n n' : node) : Prop :=
  get_at p_kind n' = get_at p_kind n /\ get_at p_av n' = get_at p_av n /\
  get_at p_name n' = get_at p_name n /\ get_at p_ns n' = get_at p_ns n.

Lemma same_idkey_ident n n' : same_idkey n n' -> ident n' = ident n.
Proof.
  intros (H1 & H2 & H3 & H4). unfold ident, get_name, get_namespace.
  rewrite !get_kind_get_at, !get_av_get_at, !meta_string_get_at.
  unfold p_kind, p_av, p_name, p_ns in *. rewrite H1, H2, H3, H4. reflexivity.
Qed.

Lemma wf_node_idkey n n' : same_idkey n n' -> wf_node n -> wf_node n'.
Proof.
  intros Hk Hw. pose proof (same_idkey_ident _ _ Hk) as Hi.
  destruct Hk as (H1 & H2 & H3 & H4).
  destruct Hw as (kvs & mkvs & tn & sn & name & kn & -> & Hm & Hn & Ht & Hg & Hkd & Hkg & Hns).
  assert (G3 : get_at p_name (Map kvs) = Some (Scalar tn sn name)) by (unfold p_name; cbn [get_at]; rewrite Hm; cbn [get_at]; rewrite Hn; reflexivity).
  assert (G1 : get_at p_kind (Map kvs) = Some kn) by (unfold p_kind; cbn [get_at]; rewrite Hkd; reflexivity).
  rewrite G3 in H3. rewrite G1 in H1. unfold p_name, p_kind in H3, H1. cbn [get_at] in H3, H1.
  destruct n' as [t s v|kvs'|es]; try discriminate.
  destruct (find_field "metadata" kvs') as [md|] eqn:Em; [|discriminate].
  destruct md as [t s v|mkvs'|es]; try discriminate.
  destruct (find_field "name" mkvs') as [x|] eqn:En; [|discriminate]. inv H3.
  destruct (find_field "kind" kvs') as [k'|] eqn:Ek; [|discriminate]. inv H1.
  exists kvs', mkvs', tn, sn, name, kn. repeat split; auto.
  unfold ident in Hi. inversion Hi as [[A B C D]]. rewrite D. exact Hns.
Qed.

(* a table none of whose rows reaches the identity locations *)
Definition clear_of_identity (tbl : list fieldspec) : bool :=
  forallb (fun fs => forallb seg_ok (fs_segments fs) &&
                     fs_diverges (fs_segments fs) p_kind && fs_diverges (fs_segments fs) p_av &&
                     fs_diverges (fs_segments fs) p_name && fs_diverges (fs_segments fs) p_ns) tbl.

Definition label_tbl : list fieldspec :=
  (gen_common_labels_fs ++ gen_template_labels_fs ++ gen_common_annotations_fs ++ [Labels.metadata_labels_fs])%list.

(* obligation on the generated tables: label and annotation rows never reach kind, apiVersion, name, namespace *)
Lemma label_tbl_clear : clear_of_identity label_tbl = true.
Proof. vm_compute. reflexivity. Qed.

Lemma clear_slice q l :
  In q [p_kind; p_av; p_name; p_ns] -> incl l label_tbl ->
  Forall (fun fs => forallb seg_ok (fs_segments fs) = true /\ fs_diverges (fs_segments fs) q = true) l.
Proof.
  intros Hq Hi. apply Forall_forall. intros fs Hfs. apply Hi in Hfs.
  pose proof label_tbl_clear as H. unfold clear_of_identity in H. rewrite forallb_forall in H.
  specialize (H fs Hfs). repeat (apply andb_true_iff in H as [H ?]).
  split; [exact H|]. destruct Hq as [<-|[<-|[<-|[<-|[]]]]]; assumption.
Qed.

Section Labels.
  Variable nonstr : string -> bool.

  Lemma keys_pass_idkey fss kvs : forall obj obj',
    incl fss label_tbl -> Labels.keys_pass nonstr fss kvs obj = Ok obj' -> same_idkey obj obj'.
  Proof.
    induction kvs as [|kv t IH]; intros obj obj' Hi H; cbn [Labels.keys_pass] in H; [inv H; repeat split|].
    destruct (Labels.key_pass nonstr fss kv obj) as [o1| | |] eqn:E; cbn [bind] in H; try discriminate.
    destruct (IH _ _ Hi H) as (A1 & A2 & A3 & A4). unfold Labels.key_pass in E.
    repeat split.
    - rewrite A1. eapply fsslice_apply_frame; [|exact E]. apply clear_slice; [cbn; auto|exact Hi].
    - rewrite A2. eapply fsslice_apply_frame; [|exact E]. apply clear_slice; [cbn; auto|exact Hi].
    - rewrite A3. eapply fsslice_apply_frame; [|exact E]. apply clear_slice; [cbn; auto|exact Hi].
    - rewrite A4. eapply fsslice_apply_frame; [|exact E]. apply clear_slice; [cbn; auto|exact Hi].
  Qed.
End Labels.

(* ================= the per-resource invariant ================= *)

(* every recorded previous kind is the current kind (no modelled step changes a kind) *)
Definition kinds_const (r : resource) : Prop :=
  Forall (fun k => k = get_kind (r_node r)) (get_csv (r_pkinds r)).

Definition W (r : resource) : Prop := wf_res r /\ kinds_const r.

Lemma W_load n : wf_node n -> W (load n).
Proof. intros H. split; [split; [exact I|exact H]|constructor]. Qed.

Lemma W_not_empty r : W r -> nil_or_empty (r_node r) = false.
Proof.
  intros [[_ (kvs & mkvs & tn & sn & name & kn & E & Hm & _)] _]. rewrite E.
  destruct kvs; [discriminate|reflexivity].
Qed.

(* a step that keeps the identity locations and the bookkeeping keeps W and the id *)
Lemma W_same_idkey r n' : W r -> same_idkey (r_node r) n' -> W (with_node r n') /\ same_identity r (with_node r n').
Proof.
  intros [[Hh Hw] Hk] Hs. pose proof (same_idkey_ident _ _ Hs) as Hi. split.
  - split; [split; [exact Hh|eapply wf_node_idkey; eauto]|].
    unfold kinds_const in *. cbn [r_node r_pkinds with_node].
    unfold ident in Hi. inversion Hi as [[A B C D]]. rewrite B. exact Hk.
  - split; [exact Hi|repeat split].
Qed.

(* ================= which resources the prefix / suffix transformers skip ================= *)

Definition skipf (skip : list gvk) (g v k : string) : bool :=
  existsb (fun s => gvk_is_selected (gvk_lit g v k) s) skip.

Lemma gvk_is_selected_lit x s : gvk_is_selected x s = gvk_is_selected (gvk_lit (g_group x) (g_version x) (g_kind x)) s.
Proof. reflexivity. Qed.

Lemma org_id_gvk r org :
  W r -> org_id cs r = Ok org ->
  let (g, v) := parse_group_version (get_api_version (r_node r)) in
  g_group (id_gvk org) = g /\ g_version (id_gvk org) = v /\ g_kind (id_gvk org) = get_kind (r_node r).
Proof.
  intros [[Hh _] Hk] H. unfold org_id in H.
  unfold prev_ids in H. unfold kinds_const in Hk. unfold hist_ok in Hh.
  destruct (r_pnames r) as [a|] eqn:Ea.
  - destruct (r_pnss r) as [b|]; [|contradiction]. destruct (r_pkinds r) as [c|] eqn:Ec; [|contradiction].
    destruct Hh as [L1 L2]. cbn [or_empty] in H. rewrite <- L1, <- L2, !Nat.eqb_refl in H. cbn [andb bind] in H.
    destruct (parse_group_version (get_api_version (r_node r))) as [g v] eqn:EP. cbn [bind] in H.
    cbn [get_csv] in Hk.
    destruct (split_on ","%char a) as [|n0 ns0] eqn:Sa.
    { pose proof (split_on_nonempty ","%char a) as X. rewrite Sa in X. contradiction. }
    destruct (split_on ","%char b) as [|b0 bs0]; [discriminate|].
    destruct (split_on ","%char c) as [|c0 cs0]; [discriminate|].
    cbn [zip_ids] in H. inv H. cbn. inversion Hk; subst. auto.
  - cbn [bind] in H. inv H. unfold cur_id, cur_gvk. cbn.
    destruct (parse_group_version (get_api_version (r_node r))) as [g v]. cbn. auto.
Qed.

Definition skip_of (skip : list gvk) (r : resource) : bool :=
  let (g, v) := parse_group_version (get_api_version (r_node r)) in skipf skip g v (get_kind (r_node r)).

Lemma should_skip_skip_of skip r org : W r -> org_id cs r = Ok org -> should_skip skip org = skip_of skip r.
Proof.
  intros HW Ho. pose proof (org_id_gvk r org HW Ho) as H. unfold skip_of.
  destruct (parse_group_version (get_api_version (r_node r))) as [g v]. destruct H as (E1 & E2 & E3).
  unfold should_skip, skipf. induction skip as [|s t IH]; cbn [existsb]; [reflexivity|]. rewrite IH. f_equal.
  unfold gvk_is_selected. cbn [g_group g_version g_kind gvk_lit]. rewrite E1, E2, E3. reflexivity.
Qed.

Lemma kinds_const_store r :
  W r -> kinds_const (store_previous_id cs r).
Proof.
  intros [[Hh Hw] Hk]. destruct (wf_node_good _ Hw) as (_ & Gk & _).
  unfold kinds_const in *. rewrite store_previous_id_eq. cbn [r_pkinds r_node].
  rewrite get_csv_append by exact Gk. apply Forall_app. split; [exact Hk|constructor; [reflexivity|constructor]].
Qed.

(* PrefixTransformer / SuffixTransformer on a well-formed resource *)
Lemma affix_effect affix (add : string -> resource -> resource) (newv : string -> string) skip r r' :
  String.eqb affix "" = false ->
  (forall r0, r_node (add affix r0) = r_node r0 /\ r_pnames (add affix r0) = r_pnames r0 /\
              r_pnss (add affix r0) = r_pnss r0 /\ r_pkinds (add affix r0) = r_pkinds r0) ->
  (forall v, good v = true -> good (newv v) = true) ->
  W r ->
  (do org <- org_id cs r;
   if should_skip skip org then Ok r else affix_steps cs affix add newv org name_fs r) = Ok r' ->
  wf_node (r_node r') /\ kinds_const r' /\
  get_kind (r_node r') = get_kind (r_node r) /\ get_api_version (r_node r') = get_api_version (r_node r) /\
  get_namespace (r_node r') = get_namespace (r_node r) /\
  get_name (r_node r') = if skip_of skip r then get_name (r_node r) else newv (get_name (r_node r)).
Proof.
  intros Hne Hadd Hgood HW H.
  destruct (org_id cs r) as [org| | |] eqn:Eo; cbn [bind] in H; try discriminate.
  rewrite (should_skip_skip_of skip r org HW Eo) in H.
  destruct (skip_of skip r).
  - inv H. destruct HW as [[_ Hw] Hk]. auto 10.
  - cbn [affix_steps name_fs] in H.
    destruct (affix_step cs affix add newv org r (mkFs "" "" "" "metadata/name" false)) as [r1| | |] eqn:Hs;
      cbn [bind] in H; try discriminate. inv H.
    unfold affix_step in Hs.
    assert (Hsel: gvk_is_selected (id_gvk org) (fsgvk (mkFs "" "" "" "metadata/name" false)) = true) by reflexivity.
    rewrite Hsel in Hs. cbn [negb fs_path] in Hs.
    change (String.eqb "metadata/name" "metadata/name") with true in Hs. cbv iota in Hs. rewrite Hne in Hs.
    destruct (Hadd r) as (A1 & A2 & A3 & A4).
    assert (Hnode : r_node (store_previous_id cs (add affix r)) = r_node r) by (rewrite store_previous_id_eq; cbn [r_node]; exact A1).
    rewrite Hnode in Hs.
    destruct (fs_apply _ _ _ _ (r_node r)) as [n'| | |] eqn:Hf; cbn [bind] in Hs; try discriminate. inv Hs.
    destruct HW as [[Hh Hw] Hk]. destruct (wf_node_good _ Hw) as (Gn & Gk & Gs).
    destruct (doc_name_update newv _ _ Hw (Hgood _ Gn) Hf) as (Wn & N1 & N2 & N3 & N4).
    cbn [r_node with_node]. repeat split; auto.
    unfold kinds_const. cbn [r_node r_pkinds with_node]. rewrite store_previous_id_eq. cbn [r_pkinds].
    rewrite A4, A1, N2. rewrite get_csv_append by exact Gk.
    apply Forall_app. split; [exact Hk|constructor; [reflexivity|constructor]].
Qed.

(* ================= ids under a uniform, injective renaming ================= *)

(* r' is r with the same kind, apiVersion and namespace and the name rewritten by f unless the kind is skipped *)
Definition renamed (f : string -> string) (skip : list gvk) (r r' : resource) : Prop :=
  get_kind (r_node r') = get_kind (r_node r) /\ get_api_version (r_node r') = get_api_version (r_node r) /\
  get_namespace (r_node r') = get_namespace (r_node r) /\
  get_name (r_node r') = if skip_of skip r then get_name (r_node r) else f (get_name (r_node r)).

Lemma cur_gvk_getters n n' :
  get_kind n' = get_kind n -> get_api_version n' = get_api_version n -> cur_gvk cs n' = cur_gvk cs n.
Proof. intros H1 H2. unfold cur_gvk. rewrite H1, H2. reflexivity. Qed.

Lemma gvk_equals_skip skip r1 r2 :
  gvk_equals (cur_gvk cs (r_node r1)) (cur_gvk cs (r_node r2)) = true -> skip_of skip r1 = skip_of skip r2.
Proof.
  unfold gvk_equals, cur_gvk, skip_of.
  destruct (parse_group_version (get_api_version (r_node r1))) as [g1 v1].
  destruct (parse_group_version (get_api_version (r_node r2))) as [g2 v2]. cbn [g_group g_version g_kind].
  intros H. apply andb_true_iff in H as [H H3]. apply andb_true_iff in H as [H1 H2].
  apply String.eqb_eq in H1, H2, H3. subst. rewrite H3. reflexivity.
Qed.

Lemma id_equals_renamed f skip r1 r2 r1' r2' :
  (forall a b, f a = f b -> a = b) ->
  renamed f skip r1 r1' -> renamed f skip r2 r2' ->
  id_equals (cur_id cs r1') (cur_id cs r2') = id_equals (cur_id cs r1) (cur_id cs r2).
Proof.
  intros Hinj (K1 & A1 & S1 & N1) (K2 & A2 & S2 & N2).
  unfold id_equals, id_ns_equals, id_gvkn_equals, effective_ns, id_cluster_scoped, cur_id.
  cbn [id_gvk id_name id_ns].
  rewrite (cur_gvk_getters _ _ K1 A1), (cur_gvk_getters _ _ K2 A2), S1, S2. f_equal.
  destruct (gvk_equals (cur_gvk cs (r_node r1)) (cur_gvk cs (r_node r2))) eqn:EG; [|now rewrite !andb_false_r].
  rewrite !andb_true_r. rewrite N1, N2, (gvk_equals_skip skip _ _ EG).
  destruct (skip_of skip r2); [reflexivity|].
  destruct (String.eqb (get_name (r_node r1)) (get_name (r_node r2))) eqn:E.
  - apply String.eqb_eq in E. rewrite E. apply String.eqb_refl.
  - apply String.eqb_neq. intros X. apply Hinj in X. apply String.eqb_neq in E. contradiction.
Qed.

Lemma distinct_ids_renamed f skip m m' :
  (forall a b, f a = f b -> a = b) ->
  Forall2 (renamed f skip) m m' -> distinct_ids m -> distinct_ids m'.
Proof.
  intros Hinj HF. induction HF as [|r r' t t' Hr Ht IH]; cbn [distinct_ids]; [auto|].
  intros [H1 H2]. split; [|auto]. intros x' Hx'.
  assert (exists x, In x t /\ renamed f skip x x') as (x & Hx & Hxx).
  { clear -Ht Hx'. induction Ht as [|a b ta tb Hab _ IHt]; [destruct Hx'|].
    destruct Hx' as [<-|Hx']; [exists a; split; [left; reflexivity|exact Hab]|].
    destruct (IHt Hx') as (x & Hx & Hxx). exists x. split; [right; exact Hx|exact Hxx]. }
  rewrite (id_equals_renamed f skip r x r' x' Hinj Hr Hxx). auto.
Qed.

(* ================= the transformers on well-formed maps ================= *)

Lemma prefix_transform_W p m m' :
  no_char ","%char p = true -> Forall W m ->
  prefix_transform cs gen_name_prefix_fs gen_prefix_skip p m = Ok m' ->
  Forall W m' /\ (distinct_ids m -> distinct_ids m').
Proof.
  intros Hp HW. unfold prefix_transform. destruct (String.eqb p "") eqn:Ep; [intros H; inv H; auto|].
  intros H. apply mapM_Forall2P in H.
  assert (HF : Forall2 (fun r r' => W r' /\ renamed (fun v => p ++ v) gen_prefix_skip r r') m m').
  { clear -H HW Hp Ep. induction H as [|r r' t t' Hr _ IH]; [constructor|].
    inversion HW as [|? ? Wr Wt]; subst. constructor; [|auto].
    destruct (prefix_one_hist cs _ _ gen_prefix_table p r r' Hp (proj1 Wr) Hr) as [Wf _].
    unfold prefix_one in Hr. rewrite gen_prefix_table in Hr.
    destruct (affix_effect p add_name_prefix (fun v => p ++ v) gen_prefix_skip r r' Ep
                (fun r0 => ltac:(repeat split)) (fun v Hv => good_app_l p v Hp Hv) Wr Hr)
      as (Wn & Kc & E1 & E2 & E3 & E4).
    split; [split; [exact Wf|exact Kc]|repeat split; assumption]. }
  split.
  - clear -HF. induction HF as [|? ? ? ? [Hw _]]; constructor; auto.
  - apply (distinct_ids_renamed (fun v => p ++ v) gen_prefix_skip); [intros a b; apply app_inj_l|].
    eapply Forall2_impl2; [|exact HF]. intros a b [_ Hr]. exact Hr.
Qed.

Lemma suffix_transform_W s m m' :
  no_char ","%char s = true -> Forall W m ->
  suffix_transform cs gen_name_suffix_fs gen_suffix_skip s m = Ok m' ->
  Forall W m' /\ (distinct_ids m -> distinct_ids m').
Proof.
  intros Hp HW. unfold suffix_transform. destruct (String.eqb s "") eqn:Ep; [intros H; inv H; auto|].
  intros H. apply mapM_Forall2P in H.
  assert (HF : Forall2 (fun r r' => W r' /\ renamed (fun v => v ++ s) gen_suffix_skip r r') m m').
  { clear -H HW Hp Ep. induction H as [|r r' t t' Hr _ IH]; [constructor|].
    inversion HW as [|? ? Wr Wt]; subst. constructor; [|auto].
    destruct (suffix_one_hist cs _ _ gen_suffix_table s r r' Hp (proj1 Wr) Hr) as [Wf _].
    unfold suffix_one in Hr. rewrite gen_suffix_table in Hr.
    destruct (affix_effect s add_name_suffix (fun v => v ++ s) gen_suffix_skip r r' Ep
                (fun r0 => ltac:(repeat split)) (fun v Hv => good_app_r v s Hv Hp) Wr Hr)
      as (Wn & Kc & E1 & E2 & E3 & E4).
    split; [split; [exact Wf|exact Kc]|repeat split; assumption]. }
  split.
  - clear -HF. induction HF as [|? ? ? ? [Hw _]]; constructor; auto.
  - apply (distinct_ids_renamed (fun v => v ++ s) gen_suffix_skip); [intros a b; apply app_inj_r|].
    eapply Forall2_impl2; [|exact HF]. intros a b [_ Hr]. exact Hr.
Qed.

(* ----- labels / annotations ----- *)

Lemma common_labels_in_tbl : incl gen_common_labels_fs label_tbl.
Proof. intros x Hx. unfold label_tbl. apply in_or_app. left. exact Hx. Qed.
Lemma template_labels_in_tbl : incl gen_template_labels_fs label_tbl.
Proof. intros x Hx. unfold label_tbl. apply in_or_app. right. apply in_or_app. left. exact Hx. Qed.
Lemma common_annos_in_tbl : incl gen_common_annotations_fs label_tbl.
Proof. intros x Hx. unfold label_tbl. do 2 (apply in_or_app; right). apply in_or_app. left. exact Hx. Qed.
Lemma metadata_labels_in_tbl : In Labels.metadata_labels_fs label_tbl.
Proof. unfold label_tbl. do 3 (apply in_or_app; right). left. reflexivity. Qed.

Lemma label_fs_in_tbl e fss :
  Labels.ld_fields e = [] -> Labels.label_fs LabelsDefaults.default_tc e = Ok fss -> incl fss label_tbl.
Proof.
  intros Hf. unfold Labels.label_fs. rewrite Hf. cbn [LabelsDefaults.default_tc Labels.tc_labels Labels.merge_all bind
    Labels.tc_common_labels Labels.tc_template_labels].
  destruct (Labels.ld_selectors e).
  - intros H. apply merge_all_incl in H. intros x Hx. apply H in Hx. cbn [app] in Hx. apply common_labels_in_tbl; exact Hx.
  - destruct (Labels.ld_templates e).
    + destruct (Labels.merge_all [] gen_template_labels_fs) as [f1| | |] eqn:E; cbn [bind]; try discriminate.
      intros H. apply merge_one_incl in H. apply merge_all_incl in E. cbn [app] in E.
      intros x Hx. apply H in Hx. apply in_app_or in Hx as [Hx|[<-|[]]]; [apply template_labels_in_tbl; auto|apply metadata_labels_in_tbl].
    + cbn [bind]. intros H. apply merge_one_incl in H. intros x Hx. apply H in Hx. cbn [app] in Hx.
      destruct Hx as [<-|[]]. apply metadata_labels_in_tbl.
Qed.

Lemma label_transformers_in_tbl d lts :
  no_custom_fields d ->
  Labels.label_transformers LabelsDefaults.default_tc (label_dirs d) = Ok lts ->
  Forall (fun pf => incl (snd pf) label_tbl) lts.
Proof.
  intros Hn. unfold Labels.label_transformers, label_dirs. cbn [Labels.d_labels Labels.d_common_labels].
  assert (G : forall l0,
    (do l <- mapM (fun e => do fss <- Labels.label_fs LabelsDefaults.default_tc e; Ok (Labels.ld_pairs e, fss)) (pd_labels d);
     Ok (l ++ [(pd_common_labels d, Labels.tc_common_labels LabelsDefaults.default_tc)])%list) = Ok l0 ->
    Forall (fun pf : pairs * list fieldspec => incl (snd pf) label_tbl) l0).
  { intros l0 H. destruct (mapM _ (pd_labels d)) as [l| | |] eqn:E; cbn [bind] in H; try discriminate. inv H.
    apply Forall_app. split; [|constructor; [exact common_labels_in_tbl|constructor]].
    apply mapM_Forall2P in E. destruct Hn as [Hn _].
    clear -E Hn. induction E as [|e pf te tl He _ IH]; [constructor|].
    inversion Hn; subst. constructor; [|auto].
    destruct (Labels.label_fs LabelsDefaults.default_tc e) as [fss| | |] eqn:EF; cbn [bind] in He; try discriminate.
    inv He. cbn [snd]. eapply label_fs_in_tbl; eauto. }
  destruct (pd_labels d) eqn:EL; destruct (pd_common_labels d) eqn:EC; intros H;
    try (apply G; rewrite ?EL, ?EC; exact H).
  inv H. constructor.
Qed.

Lemma drop_empties_W m : Forall W m -> drop_empties m = m.
Proof.
  induction 1 as [|r t Hr _ IH]; [reflexivity|]. unfold drop_empties in *. cbn.
  rewrite (W_not_empty _ Hr). cbn. now rewrite IH.
Qed.

Lemma Forall2_same_identity_trans a b c :
  Forall2 same_identity a b -> Forall2 same_identity b c -> Forall2 same_identity a c.
Proof.
  intros H. revert c. induction H; intros c Hc; inversion Hc; subst; constructor; eauto using same_identity_trans.
Qed.

Lemma Forall2_same_identity_refl m : Forall2 same_identity m m.
Proof. induction m; constructor; auto using same_identity_refl. Qed.

Section LabelsW.
  Variable nonstr : string -> bool.

  Lemma label_transform_W labels fss m m' :
    incl fss label_tbl -> Forall W m -> label_transform nonstr labels fss m = Ok m' ->
    Forall W m' /\ Forall2 same_identity m m'.
  Proof.
    intros Hi HW. unfold label_transform. destruct labels; [intros H; inv H; split; [exact HW|apply Forall2_same_identity_refl]|].
    intros H. unfold map_nodes in H. apply mapM_Forall2P in H.
    assert (HF : Forall2 (fun r r' => W r' /\ same_identity r r') m m').
    { clear -H HW Hi. induction H as [|r r' t t' Hr _ IH]; [constructor|].
      inversion HW as [|? ? Wr Wt]; subst. constructor; [|auto].
      cbv beta in Hr. destruct (Labels.label_filter nonstr _ fss (r_node r)) as [n'| | |] eqn:E; cbn [bind] in Hr; try discriminate.
      inv Hr. unfold Labels.label_filter in E. apply W_same_idkey; [exact Wr|]. eapply keys_pass_idkey; eauto. }
    split.
    - clear -HF. induction HF as [|? ? ? ? [Hw _]]; constructor; auto.
    - eapply Forall2_impl2; [|exact HF]. intros a b [_ Hs]. exact Hs.
  Qed.

  Lemma label_transforms_W lts : forall m m',
    Forall (fun pf => incl (snd pf) label_tbl) lts -> Forall W m ->
    label_transforms nonstr lts m = Ok m' -> Forall W m' /\ Forall2 same_identity m m'.
  Proof.
    induction lts as [|[p fss] t IH]; intros m m' Hl HW H; cbn [label_transforms] in H.
    - inv H. split; [exact HW|apply Forall2_same_identity_refl].
    - inversion Hl as [|? ? H1 H2]; subst. cbn [snd] in H1.
      destruct (label_transform nonstr p fss m) as [m1| | |] eqn:E; cbn [bind] in H; try discriminate.
      destruct (label_transform_W _ _ _ _ H1 HW E) as [W1 S1].
      rewrite (drop_empties_W _ W1) in H. destruct (IH _ _ H2 W1 H) as [W2 S2].
      split; [exact W2|eapply Forall2_same_identity_trans; eauto].
  Qed.
End LabelsW.


(* ----- namespace ----- *)

Lemma same_idkey_getters n n' :
  same_idkey n n' ->
  get_kind n' = get_kind n /\ get_api_version n' = get_api_version n /\
  get_name n' = get_name n /\ get_namespace n' = get_namespace n.
Proof. intros H. pose proof (same_idkey_ident _ _ H) as Hi. unfold ident in Hi. inversion Hi. auto. Qed.

(* the RoleBinding subject hack only rewrites below `subjects` *)
Lemma rb_hack_idkey c obj obj' : Namespace.role_binding_hack c obj = Ok obj' -> same_idkey obj obj'.
Proof. intros H. repeat split; eapply rb_hack_frame_j; eauto. Qed.

(* namespace.Filter on a well-formed document: still well-formed, same kind and apiVersion, the name is kept or
   (kind Namespace, apiVersion v1: the metadata/name row of the namespace table) becomes the namespace itself *)
Lemma ns_filter_wf_doc ns n n' :
  wf_node n -> good ns = true ->
  Namespace.ns_filter gen_ns_scope (ns_config ns) n = Ok n' ->
  wf_node n' /\ get_kind n' = get_kind n /\ get_api_version n' = get_api_version n /\
  (get_name n' = get_name n \/ get_name n' = ns).
Proof.
  intros Hw Hgood H. unfold Namespace.ns_filter in H. cbn [Namespace.ns_fss ns_config] in H.
  change (Namespace.ns_setter (ns_config ns)) with (set_str_entry ns) in H.
  match type of H with bind ?e _ = _ => destruct e as [n1| | |] eqn:H1 end; cbn [bind] in H; try discriminate.
  assert (Hn1: wf_node n1 /\ get_kind n1 = get_kind n /\ get_api_version n1 = get_api_version n /\
               get_name n1 = get_name n).
  { destruct (Namespace.obj_cluster_scoped gen_ns_scope n); [inv H1; auto|].
    cbn [fsslice_apply] in H1.
    destruct (fs_apply (Some KScalar) TNone (set_str_entry ns) (mkFs "" "" "" "metadata/namespace" true) n)
      as [x| | |] eqn:E; cbn [bind] in H1; try discriminate. inv H1.
    eapply meta_namespace_set; eauto. }
  destruct Hn1 as (W1 & K1 & A1 & N1).
  assert (Hl : forall l, forallb ns_spec_ok (Namespace.prune_subjects (Namespace.prune_meta l gen_namespace_fs)) = true /\
                         forallb ns_spec_ok (Namespace.prune_meta l gen_namespace_fs) = true).
  { intros l. unfold Namespace.prune_subjects, Namespace.prune_meta.
    split; repeat apply forallb_filter; exact gen_namespace_table_ok. }
  destruct (Namespace.is_role_binding (obj_kind n)).
  - destruct (Namespace.role_binding_hack (ns_config ns) n1) as [n2| | |] eqn:ER; cbn [bind] in H; try discriminate.
    pose proof (rb_hack_idkey _ _ _ ER) as Hk. pose proof (wf_node_idkey _ _ Hk W1) as W2.
    destruct (same_idkey_getters _ _ Hk) as (K2 & A2 & N2 & _).
    destruct (fsslice_ns_inv cs (fun _ => false) ns _ _ _ (proj1 (Hl _)) Hgood W2 H) as (W & K & A & N).
    split; [exact W|]. split; [congruence|]. split; [congruence|]. rewrite <- N1, <- N2. exact N.
  - destruct (fsslice_ns_inv cs (fun _ => false) ns _ _ _ (proj2 (Hl _)) Hgood W1 H) as (W & K & A & N).
    split; [exact W|]. split; [congruence|]. split; [congruence|]. rewrite <- N1. exact N.
Qed.

Lemma ns_one_W ns r r' : good ns = true -> W r -> ns_one ns r = Ok r' -> W r'.
Proof.
  intros Hg HW H. unfold ns_one in H.
  assert (Hnode: r_node (store_previous_id cs r) = r_node r) by (rewrite store_previous_id_eq; reflexivity).
  rewrite Hnode in H.
  destruct (Namespace.ns_filter gen_ns_scope (ns_config ns) (r_node r)) as [n'| | |] eqn:Hf; cbn [bind] in H; try discriminate.
  inv H. destruct HW as [[Hh Hw] Hk].
  destruct (ns_filter_wf_doc _ _ _ Hw Hg Hf) as (Wn & K & A & _).
  destruct (store_then_update cs r n' (conj Hh Hw) Wn K A) as [Wr _]. split; [exact Wr|].
  pose proof (kinds_const_store r (conj (conj Hh Hw) Hk)) as Hks.
  unfold kinds_const in *. cbn [r_node r_pkinds with_node]. rewrite K.
  rewrite store_previous_id_eq in *. cbn [r_node r_pkinds] in *. exact Hks.
Qed.

Lemma count_id_app id l1 l2 : count_id cs id (l1 ++ l2) = count_id cs id l1 + count_id cs id l2.
Proof. unfold count_id. rewrite filter_app, app_length. reflexivity. Qed.

Lemma id_equals_refl_rid r : id_equals (cur_id cs r) (cur_id cs r) = true.
Proof.
  unfold id_equals, id_ns_equals, id_gvkn_equals, gvk_equals. rewrite !String.eqb_refl. reflexivity.
Qed.

(* NamespaceTransformer: the id-conflict test makes the result collision-free by itself *)
Lemma ns_loop_W ns : good ns = true -> forall todo done out,
  Forall W todo -> Forall W done -> distinct_ids done ->
  ns_loop ns done todo = Ok out -> Forall W out /\ distinct_ids out.
Proof.
  intros Hg. induction todo as [|r t IH]; intros done out HT HD Hd H; cbn [ns_loop] in H.
  - inv H. auto.
  - inversion HT as [|? ? Wr Wt]; subst. rewrite (W_not_empty _ Wr) in H.
    destruct (ns_one ns r) as [r2| | |] eqn:E; cbn [bind] in H; try discriminate.
    destruct (Nat.eqb _ 1) eqn:EC; [|discriminate]. apply Nat.eqb_eq in EC.
    pose proof (ns_one_W _ _ _ Hg Wr E) as W2.
    eapply IH; [exact Wt| | |exact H].
    + apply Forall_app. split; [exact HD|constructor; [exact W2|constructor]].
    + apply distinct_ids_snoc. split; [exact Hd|].
      rewrite count_id_app in EC. cbn [app] in EC.
      assert (E0 : count_id cs (cur_id cs r2) done = 0).
      { unfold count_id in EC |- *. cbn [filter] in EC. rewrite id_equals_refl_rid in EC. cbn [List.length] in EC. lia. }
      apply count_id_zero. exact E0.
Qed.

Lemma namespace_transform_W ns m m' :
  no_char ","%char ns = true -> Forall W m -> distinct_ids m ->
  namespace_transform ns m = Ok m' -> Forall W m' /\ distinct_ids m'.
Proof.
  intros Hn HW Hd. unfold namespace_transform. destruct (String.eqb ns "") eqn:E; [intros H; inv H; auto|].
  assert (Hg : good ns = true) by (unfold good; rewrite E, Hn; reflexivity).
  intros H. eapply (ns_loop_W ns Hg m [] m'); eauto; try constructor; try exact I.
Qed.

(* ----- generators ----- *)

Definition gen_good (g : pgen) : Prop := good (pg_name g) = true /\ no_char ","%char (pg_ns g) = true.

Lemma gen_resource_W secret g r : gen_good g -> gen_resource secret g = Ok r -> W r.
Proof.
  intros [Hn Hs] H. unfold gen_resource in H. destruct (gen_node secret g) as [n| | |] eqn:EN; cbn [bind] in H; try discriminate.
  inv H. split; [split; [exact I|]|constructor]. cbn [r_node].
  unfold gen_node in EN. destruct (String.eqb (pg_name g) ""); [discriminate|].
  destruct (gen_pairs g) as [kvs| | |]; cbn [bind] in EN; try discriminate.
  destruct (Generators.validated_map kvs []) as [m| | |]; cbn [bind] in EN; try discriminate. inv EN.
  eexists _, _, TStr, SPlain, (pg_name g), (str_node (if secret then "Secret" else "ConfigMap")).
  split; [reflexivity|]. split; [reflexivity|]. split; [reflexivity|]. split; [discriminate|]. split; [exact Hn|].
  split; [reflexivity|]. split; [destruct secret; reflexivity|].
  unfold get_namespace, meta_string, get_meta. cbn [find_field String.eqb Ascii.eqb Bool.eqb app nil_or_empty].
  destruct (String.eqb (pg_ns g) "") eqn:E.
  - cbn [app find_field String.eqb Ascii.eqb Bool.eqb].
    destruct (meta_map_field "labels" _) as [|[k1 v1] t1] eqn:E1;
      [|unfold meta_map_field in E1; destruct (if pg_has_opts g then pg_labels g else []); inv E1; cbn].
    all: destruct (meta_map_field "annotations" _) as [|[k2 v2] t2] eqn:E2;
      [|unfold meta_map_field in E2; destruct (if pg_has_opts g then pg_annos g else []); inv E2; cbn]; reflexivity.
  - cbn. apply String.eqb_neq in E. destruct (pg_ns g); [congruence|exact Hs].
Qed.

(* ================= the tree-level invariant ================= *)

Definition Inv (m : list resource) : Prop := Forall W m /\ distinct_ids m.

(* the class: well-formed documents, no custom label fields, no replicas / images entries, generators that create
   with good names, comma-free namespace, prefixes and suffixes *)
Definition dirs_wf (d : pdirs) : Prop :=
  (pd_replicas d = [] /\ pd_images d = []) /\
  no_char ","%char (pd_ns d) = true /\ no_custom_fields d /\ gens_create d /\
  Forall gen_good (pd_cmgens d) /\ Forall gen_good (pd_secgens d) /\
  no_char ","%char (pd_prefix d) = true /\ no_char ","%char (pd_suffix d) = true.

Inductive tree_wf : ptree -> Prop :=
| wf_file docs : Forall wf_node docs -> tree_wf (PFile docs)
| wf_dir n d ents : dirs_wf d -> Forall tree_wf ents -> tree_wf (PDir n d ents).

Section Acc.
  Variable nonstr : string -> bool.

  Lemma gen_good_merge go g : gen_good g -> gen_good (merge_genopts go g).
  Proof. destruct go; auto. Qed.

  Lemma run_gens_Inv go secret gens : forall m m',
    Forall creates gens -> Forall gen_good gens -> Inv m -> run_gens nonstr go secret gens m = Ok m' -> Inv m'.
  Proof.
    induction gens as [|g t IH]; intros m m' Hc Hg HI H; cbn [run_gens] in H; [inv H; exact HI|].
    inversion Hc as [|? ? Hc1 Hc2]; subst. inversion Hg as [|? ? Hg1 Hg2]; subst.
    destruct (gen_resource secret (merge_genopts go g)) as [r| | |] eqn:EG; cbn [bind] in H; try discriminate.
    destruct (absorb nonstr m _ r) as [m1| | |] eqn:EA; cbn [bind] in H; try discriminate.
    eapply IH; [exact Hc2|exact Hg2| |exact H].
    destruct HI as [HW Hd]. unfold absorb in EA.
    destruct (matching_any (cur_id cs r) 0 m) as [ms| | |]; cbn [bind] in EA; try discriminate.
    destruct (create_action (List.length ms) _ Hc1) as [E|E]; rewrite E in EA; [|discriminate].
    apply append_one_spec in EA as [-> Hn]. split.
    - apply Forall_app. split; [exact HW|constructor; [eapply gen_resource_W; [apply gen_good_merge; exact Hg1|exact EG]|constructor]].
    - apply distinct_ids_snoc. split; assumption.
  Qed.

  Lemma run_generators_Inv d m m' :
    dirs_wf d -> Inv m -> run_generators nonstr d m = Ok m' -> Inv m'.
  Proof.
    intros (_ & _ & _ & [Hc1 Hc2] & Hg1 & Hg2 & _). unfold run_generators. generalize gen_generator_order. intros ks. revert m m'.
    induction ks as [|k t IH]; intros m m' HI H; cbn [run_generator_kinds] in H; [inv H; exact HI|].
    match type of H with bind ?E _ = _ => destruct E as [mm| | |] eqn:E1 end; cbn [bind] in H; try discriminate.
    eapply IH; [|exact H].
    destruct (String.eqb k "ConfigMapGenerator"); [exact (run_gens_Inv _ _ _ _ _ Hc1 Hg1 HI E1)|].
    destruct (String.eqb k "SecretGenerator"); [exact (run_gens_Inv _ _ _ _ _ Hc2 Hg2 HI E1)|].
    inv E1. exact HI.
  Qed.

  Lemma run_kind_Inv k d m m' : dirs_wf d -> Inv m -> run_kind nonstr k d m = Ok m' -> Inv m'.
  Proof.
    intros ([Hrp Him] & Hns & Hn & _ & _ & _ & Hp & Hs) [HW Hd]. unfold run_kind. rewrite Hrp, Him, (proj2 Hn).
    destruct (String.eqb k "PatchTransformer"); [intros H; inv H; split; assumption|].
    destruct (String.eqb k "NamespaceTransformer").
    { intros H. destruct (namespace_transform_W _ _ _ Hns HW Hd H) as [W' D']. split; auto. }
    destruct (String.eqb k "PrefixTransformer").
    { intros H. destruct (prefix_transform_W _ _ _ Hp HW H) as [W' D']. split; auto. }
    destruct (String.eqb k "SuffixTransformer").
    { intros H. destruct (suffix_transform_W _ _ _ Hs HW H) as [W' D']. split; auto. }
    destruct (String.eqb k "LabelTransformer").
    { destruct (Labels.label_transformers LabelsDefaults.default_tc (label_dirs d)) as [lts| | |] eqn:E; cbn [bind]; try discriminate.
      intros H. destruct (label_transforms_W nonstr lts _ _ (label_transformers_in_tbl _ _ Hn E) HW H) as [W' S'].
      split; [exact W'|eapply Forall2_same_identity_ids; eauto]. }
    destruct (String.eqb k "AnnotationsTransformer").
    { intros H. destruct (label_transform_W nonstr _ _ _ _ common_annos_in_tbl HW H) as [W' S'].
      split; [exact W'|eapply Forall2_same_identity_ids; eauto]. }
    destruct (String.eqb k "ReplicaCountTransformer"); [cbn; intros H; inv H; split; assumption|].
    destruct (String.eqb k "ImageTagTransformer"); cbn; intros H; inv H; split; assumption.
  Qed.

  Lemma run_order_Inv ks d : forall m m', dirs_wf d -> Inv m -> run_order nonstr ks d m = Ok m' -> Inv m'.
  Proof.
    induction ks as [|k t IH]; intros m m' Hd HI H; cbn [run_order] in H; [inv H; exact HI|].
    destruct (run_kind nonstr k d m) as [m1| | |] eqn:E; cbn [bind] in H; try discriminate.
    pose proof (run_kind_Inv _ _ _ _ Hd HI E) as HI1. rewrite (drop_empties_W _ (proj1 HI1)) in H. eauto.
  Qed.

  Lemma Forall_concat {A} (P : A -> Prop) (l : list (list A)) : Forall (Forall P) l -> Forall P (List.concat l).
  Proof. induction 1; cbn; [constructor|apply Forall_app; auto]. Qed.

  (* what a kustomization of well-formed documents accumulates: well-formed resources with pairwise distinct ids *)
  Theorem accumulate_Inv t : forall m, tree_wf t -> accumulate nonstr t = Ok m -> Inv m.
  Proof.
    induction t as [docs|n d ents IH] using ptree_ind'; intros m Hwf H.
    - inversion Hwf as [? Hd|]; subst. cbn [accumulate] in H. apply append_all_spec in H as [-> Hdist]. cbn [app].
      split; [|apply Hdist; exact I]. clear -Hd. induction Hd; cbn; constructor; auto using W_load.
    - inversion Hwf as [|? ? ? Hd He]; subst. rewrite accumulate_dir in H.
      destruct (is_empty_kust d ents); [discriminate|].
      destruct (acc_list (accumulate nonstr) ents []) as [m0| | |] eqn:E0; cbn [bind] in H; try discriminate.
      destruct (run_generators nonstr d m0) as [m1| | |] eqn:E1; cbn [bind] in H; try discriminate.
      assert (HI0 : Inv m0).
      { destruct (PipelinePermProofs.acc_list_char _ _ _ _ E0) as (subs & F0 & -> & Hd0). cbn [app] in *.
        split; [|apply Hd0; exact I]. apply Forall_concat.
        clear -IH He F0. revert subs F0. induction ents as [|e t IHe]; intros subs F0; inv F0; [constructor|].
        inversion IH; subst. inversion He; subst. constructor; [|auto].
        match goal with Hx : forall m, tree_wf e -> _ |- _ => destruct (Hx _ ltac:(assumption) ltac:(eassumption)) as [Wx _]; exact Wx end. }
      pose proof (run_generators_Inv _ _ _ Hd HI0 E1) as HI1.
      unfold run_transformers in H.
      destruct (Labels.label_transformers _ _); cbn [bind] in H; try discriminate.
      eapply run_order_Inv; eauto.
  Qed.

  (* PIPE_wrap for well-formed trees: no hypothesis on the accumulated ids *)
  Theorem build_wrap_wf name o n d ents :
    tree_wf (PDir n d ents) -> build nonstr o (wrap name (PDir n d ents)) = build nonstr o (PDir n d ents).
  Proof.
    intros Hwf. apply build_wrap; [eauto|]. intros m H. exact (proj2 (accumulate_Inv _ _ Hwf H)).
  Qed.
End Acc.

(* ================= no Panic while accumulating well-formed trees ================= *)

Definition np {A} (r : res A) : Prop := r <> Panic.

Lemma np_bind {A B} (w : res A) (g : A -> res B) :
  np w -> (forall a, w = Ok a -> np (g a)) -> np (bind w g).
Proof. unfold np. destruct w; cbn; intros H1 H2; try discriminate; auto. Qed.

Lemma np_mapM_in {A B} (f : A -> res B) l : (forall x, In x l -> np (f x)) -> np (mapM f l).
Proof.
  intros Hf. induction l as [|x t IH]; cbn [mapM]; [discriminate|].
  apply np_bind; [apply Hf; left; reflexivity|]. intros y _. apply np_bind; [apply IH; intros; apply Hf; right; assumption|].
  intros; discriminate.
Qed.

Ltac np_case :=
  unfold np;
  repeat match goal with
         | |- Ok _ <> Panic => discriminate
         | |- Err <> Panic => discriminate
         | |- Diverge <> Panic => discriminate
         | |- (if ?c then _ else _) <> Panic => destruct c
         | |- (match ?x with _ => _ end) <> Panic => destruct x
         end.

Lemma np_prev_ids r : hist_ok r -> np (prev_ids r).
Proof. intros H. destruct (prev_ids_triples r H) as (p & E & _). unfold np. rewrite E. discriminate. Qed.

Lemma np_org_id r : W r -> np (org_id cs r).
Proof. intros [[Hh _] _]. unfold org_id. apply np_bind; [apply np_prev_ids; exact Hh|]. intros p _. np_case. Qed.

Lemma np_append_all l : forall acc, np (append_all cs acc l).
Proof.
  induction l as [|r t IH]; intros acc; cbn [append_all]; [discriminate|].
  apply np_bind; [unfold append_one; np_case|]. intros; apply IH.
Qed.

Lemma np_gen_resource secret g : np (gen_resource secret g).
Proof.
  unfold gen_resource. apply np_bind; [|intros; discriminate]. unfold gen_node.
  destruct (String.eqb (pg_name g) ""); [discriminate|].
  apply np_bind.
  - unfold gen_pairs. apply np_bind.
    + induction (pg_envs g) as [|c t IH]; cbn [map Generators.concat_res]; [discriminate|].
      apply np_bind.
      * generalize true. induction (Generators.scan_lines "" c) as [|l ls IHl]; intros first; cbn [Generators.env_lines]; [discriminate|].
        apply np_bind; [unfold Generators.env_line; np_case|]. intros p _. apply np_bind; [apply IHl|]. intros; discriminate.
      * intros x _. apply np_bind; [exact IH|]. intros; discriminate.
    + intros e _. apply np_bind; [apply np_mapM_in; intros; unfold Generators.parse_literal; np_case|]. intros l _.
      apply np_bind; [|intros; discriminate]. apply np_mapM_in. intros sc _.
      apply np_bind; [unfold Generators.parse_file_source; np_case|]. intros; discriminate.
  - intros kvs _. apply np_bind; [|intros; discriminate].
    generalize (@nil (string * string)). induction kvs as [|[k v] t IH]; intros acc; cbn; [discriminate|].
    destruct (Generators.dict_get k acc); [discriminate|apply IH].
Qed.

Lemma np_matching_any id m : Forall W m -> forall i, np (matching_any id i m).
Proof.
  induction 1 as [|r t Hr _ IH]; intros i; cbn [matching_any]; [discriminate|].
  destruct (nil_or_empty (r_node r)); [apply IH|].
  apply np_bind; [apply np_prev_ids; exact (proj1 (proj1 Hr))|]. intros p _. apply np_bind; [apply IH|]. intros; discriminate.
Qed.

(* namespace.Filter never panics, whatever the document *)
Lemma np_walk {A} cr ps (k : node -> res (node * A)) n : (forall x, np (k x)) -> np (walk cr ps k n).
Proof. intros H. apply TotalityProofs.walk_never_panics. exact H. Qed.

Lemma np_ns_setter c n : np (Namespace.ns_setter c n).
Proof. unfold Namespace.ns_setter. destruct (_ && _); [discriminate|apply TotalityProofs.set_scalar_total]. Qed.

Lemma np_visit_subject c field value o : np (Namespace.visit_subject c field value o).
Proof.
  unfold Namespace.visit_subject. apply np_bind; [apply np_walk; intros; discriminate|]. intros r _.
  destruct (snd r) as [x|]; [|discriminate]. destruct (is_null x); [discriminate|].
  destruct x; try discriminate. destruct (String.eqb v value); [|discriminate].
  apply np_bind; [|intros; discriminate]. apply np_walk. intros n.
  apply np_bind; [apply np_ns_setter|]. intros; discriminate.
Qed.

Lemma np_role_binding_hack c obj : np (Namespace.role_binding_hack c obj).
Proof.
  unfold Namespace.role_binding_hack. destruct (Namespace.ns_mode c); try discriminate.
  all: apply np_bind; [|intros; discriminate]; apply np_walk; intros subj.
  all: destruct (is_null subj); [discriminate|]; destruct subj; try discriminate.
  all: apply np_bind; [apply np_mapM_in; intros; apply np_visit_subject|]; intros; discriminate.
Qed.

Lemma np_ns_filter c obj : np (Namespace.ns_filter gen_ns_scope c obj).
Proof.
  unfold Namespace.ns_filter. apply np_bind.
  - destruct (Namespace.obj_cluster_scoped gen_ns_scope obj); [discriminate|].
    apply TotalityProofs.fsslice_apply_no_panic. apply np_ns_setter.
  - intros o1 _. destruct (Namespace.is_role_binding (obj_kind obj)).
    + apply np_bind; [apply np_role_binding_hack|]. intros o2 _.
      apply TotalityProofs.fsslice_apply_no_panic. apply np_ns_setter.
    + apply TotalityProofs.fsslice_apply_no_panic. apply np_ns_setter.
Qed.

Lemma np_ns_loop ns todo : forall done, np (ns_loop ns done todo).
Proof.
  induction todo as [|r t IH]; intros done; cbn [ns_loop]; [discriminate|].
  destruct (nil_or_empty (r_node r)); [apply IH|].
  apply np_bind; [unfold ns_one; apply np_bind; [apply np_ns_filter|intros; discriminate]|].
  intros r2 _. destruct (Nat.eqb _ 1); [apply IH|discriminate].
Qed.

Section NoPanic.
  Variable nonstr : string -> bool.

  Lemma np_absorb_create m b r :
    b = Generators.BUnspecified \/ b = Generators.BCreate -> Forall W m -> np (absorb nonstr m b r).
  Proof.
    intros Hb HW. unfold absorb. apply np_bind; [apply np_matching_any; exact HW|]. intros ms _.
    destruct (create_action (List.length ms) b Hb) as [E|E]; rewrite E; [unfold append_one; np_case|discriminate].
  Qed.

  Lemma np_run_gens go secret gens : forall m,
    Forall creates gens -> Forall gen_good gens -> Inv m -> np (run_gens nonstr go secret gens m).
  Proof.
    induction gens as [|g t IH]; intros m Hc Hg HI; cbn [run_gens]; [discriminate|].
    inversion Hc as [|? ? Hc1 Hc2]; subst. inversion Hg as [|? ? Hg1 Hg2]; subst.
    apply np_bind; [apply np_gen_resource|]. intros r Er.
    apply np_bind; [apply np_absorb_create; [exact Hc1|exact (proj1 HI)]|]. intros m' Em. apply IH; auto.
    eapply (run_gens_Inv nonstr go secret [g]); [constructor; [exact Hc1|constructor]|constructor; [exact Hg1|constructor]|exact HI|].
    cbn [run_gens]. rewrite Er. cbn [bind]. rewrite Em. reflexivity.
  Qed.

  Lemma np_run_generators d m : dirs_wf d -> Inv m -> np (run_generators nonstr d m).
  Proof.
    intros Hd. pose proof Hd as (_ & _ & _ & [Hc1 Hc2] & Hg1 & Hg2 & _).
    unfold run_generators. generalize gen_generator_order. intros ks. revert m.
    induction ks as [|k t IH]; intros m HI; cbn [run_generator_kinds]; [discriminate|].
    apply np_bind.
    - destruct (String.eqb k "ConfigMapGenerator"); [apply np_run_gens; auto|].
      destruct (String.eqb k "SecretGenerator"); [apply np_run_gens; auto|discriminate].
    - intros mm E. apply IH.
      destruct (String.eqb k "ConfigMapGenerator"); [exact (run_gens_Inv _ _ _ _ _ _ Hc1 Hg1 HI E)|].
      destruct (String.eqb k "SecretGenerator"); [exact (run_gens_Inv _ _ _ _ _ _ Hc2 Hg2 HI E)|]. inv E. exact HI.
  Qed.

  Lemma np_fs_apply_scalar fs v obj : np (fs_apply (Some KScalar) TStr (fun n => set_scalar_to (v n) n) fs obj).
  Proof. apply TotalityProofs.fs_apply_no_panic. intros n. unfold set_scalar_to. apply TotalityProofs.set_scalar_total. Qed.

  Lemma np_affix_steps affix add newv org fss : forall r, np (affix_steps cs affix add newv org fss r).
  Proof.
    induction fss as [|fs t IH]; intros r; cbn [affix_steps]; [discriminate|].
    apply np_bind; [|intros; apply IH]. unfold affix_step. destruct (negb _); [discriminate|].
    apply np_bind; [|intros; discriminate]. apply (np_fs_apply_scalar fs (fun n => newv (node_value n))).
  Qed.

  Lemma np_keys_pass fss kvs : forall obj, np (Labels.keys_pass nonstr fss kvs obj).
  Proof.
    induction kvs as [|kv t IH]; intros obj; cbn [Labels.keys_pass]; [discriminate|].
    apply np_bind; [|intros; apply IH]. unfold Labels.key_pass. apply TotalityProofs.fsslice_apply_no_panic. intros n.
    unfold Labels.set_entry. apply TotalityProofs.set_field_total.
  Qed.

  Lemma np_label_transform labels fss m : np (label_transform nonstr labels fss m).
  Proof.
    unfold label_transform. destruct labels; [discriminate|]. unfold map_nodes. apply np_mapM_in. intros r _.
    apply np_bind; [unfold Labels.label_filter; apply np_keys_pass|]. intros; discriminate.
  Qed.

  Lemma np_label_transforms lts : forall m, np (label_transforms nonstr lts m).
  Proof.
    induction lts as [|[p fss] t IH]; intros m; cbn [label_transforms]; [discriminate|].
    apply np_bind; [apply np_label_transform|]. intros; apply IH.
  Qed.

  Lemma np_label_transformers tc d : np (Labels.label_transformers tc d).
  Proof.
    assert (M1 : forall s x, np (Labels.merge_one s x)) by (intros; unfold Labels.merge_one; np_case).
    assert (MA : forall inc s, np (Labels.merge_all s inc)).
    { induction inc as [|x t IH]; intros s; cbn [Labels.merge_all]; [discriminate|]. apply np_bind; [apply M1|]. intros; apply IH. }
    assert (LF : forall e, np (Labels.label_fs tc e)).
    { intros e. unfold Labels.label_fs. apply np_bind; [apply MA|]. intros fss _.
      destruct (Labels.ld_selectors e); [apply MA|].
      apply np_bind; [destruct (Labels.ld_templates e); [apply MA|discriminate]|]. intros; apply M1. }
    unfold Labels.label_transformers.
    assert (G : np (do l <- mapM (fun e => do fss <- Labels.label_fs tc e; Ok (Labels.ld_pairs e, fss)) (Labels.d_labels d);
                    Ok (l ++ [(Labels.d_common_labels d, Labels.tc_common_labels tc)])%list)).
    { apply np_bind; [|intros; discriminate]. apply np_mapM_in. intros e _. apply np_bind; [apply LF|]. intros; discriminate. }
    destruct (Labels.d_labels d); destruct (Labels.d_common_labels d); try exact G. discriminate.
  Qed.

  Lemma np_run_kind k d m : dirs_wf d -> Inv m -> np (run_kind nonstr k d m).
  Proof.
    intros ([Hrp Him] & Hns & Hn & _) [HW _]. unfold run_kind. rewrite Hrp, Him, (proj2 Hn).
    destruct (String.eqb k "PatchTransformer"); [discriminate|].
    destruct (String.eqb k "NamespaceTransformer").
    { unfold namespace_transform. destruct (String.eqb _ ""); [discriminate|apply np_ns_loop]. }
    destruct (String.eqb k "PrefixTransformer").
    { unfold prefix_transform. destruct (String.eqb _ ""); [discriminate|]. apply np_mapM_in. intros r Hr.
      unfold prefix_one. rewrite Forall_forall in HW. apply np_bind; [apply np_org_id; auto|]. intros org _.
      destruct (should_skip _ org); [discriminate|apply np_affix_steps]. }
    destruct (String.eqb k "SuffixTransformer").
    { unfold suffix_transform. destruct (String.eqb _ ""); [discriminate|]. apply np_mapM_in. intros r Hr.
      unfold suffix_one. rewrite Forall_forall in HW. apply np_bind; [apply np_org_id; auto|]. intros org _.
      destruct (should_skip _ org); [discriminate|apply np_affix_steps]. }
    destruct (String.eqb k "LabelTransformer").
    { apply np_bind; [apply np_label_transformers|]. intros; apply np_label_transforms. }
    destruct (String.eqb k "AnnotationsTransformer"); [apply np_label_transform|].
    destruct (String.eqb k "ReplicaCountTransformer"); [cbn; discriminate|].
    destruct (String.eqb k "ImageTagTransformer"); cbn; discriminate.
  Qed.

  Lemma np_run_order ks d : forall m, dirs_wf d -> Inv m -> np (run_order nonstr ks d m).
  Proof.
    induction ks as [|k t IH]; intros m Hd HI; cbn [run_order]; [discriminate|].
    apply np_bind; [apply np_run_kind; assumption|]. intros m1 E.
    pose proof (run_kind_Inv nonstr _ _ _ _ Hd HI E) as HI1. rewrite (drop_empties_W _ (proj1 HI1)). apply IH; assumption.
  Qed.

  Lemma np_acc_list (f : ptree -> res (list resource)) ents :
    Forall (fun e => np (f e)) ents -> forall acc, np (acc_list f ents acc).
  Proof.
    induction 1 as [|e t He _ IH]; intros acc; [discriminate|].
    rewrite acc_list_cons. apply np_bind; [exact He|]. intros sub _.
    apply np_bind; [apply np_append_all|]. intros; apply IH.
  Qed.

  (* accumulating a tree of well-formed documents never panics *)
  Theorem accumulate_no_panic t : tree_wf t -> accumulate nonstr t <> Panic.
  Proof.
    induction t as [docs|n d ents IH] using ptree_ind'; intros Hwf.
    - cbn [accumulate]. apply np_append_all.
    - inversion Hwf as [|? ? ? Hd He]; subst. rewrite accumulate_dir. destruct (is_empty_kust d ents); [discriminate|].
      apply np_bind.
      + apply np_acc_list. clear -IH He. induction ents; [constructor|]. inversion IH; subst. inversion He; subst. constructor; [unfold np; auto|auto].
      + intros m0 E0.
        assert (HI0 : Inv m0).
        { destruct (PipelinePermProofs.acc_list_char _ _ _ _ E0) as (subs & F0 & -> & Hd0). cbn [app] in *.
          split; [|apply Hd0; exact I]. apply Forall_concat.
          clear -He F0. revert subs F0. induction ents as [|e t IHe]; intros subs F0; inv F0; [constructor|].
          inversion He; subst. constructor; [|auto].
          match goal with Hx : accumulate nonstr e = Ok _ |- _ => exact (proj1 (accumulate_Inv nonstr e _ ltac:(assumption) Hx)) end. }
        apply np_bind; [apply np_run_generators; assumption|]. intros m1 E1.
        pose proof (run_generators_Inv nonstr _ _ _ Hd HI0 E1) as HI1.
        unfold run_transformers. apply np_bind; [apply np_label_transformers|]. intros; apply np_run_order; assumption.
  Qed.
End NoPanic.

(* ================= no Panic through the top-only steps ================= *)

From KV Require Res.HashProofs.

Lemma alphabet_no_comma c : HashProofs.in_suffix_alphabet c = true -> Ascii.eqb c ","%char = false.
Proof.
  intros H. destruct (Ascii.eqb c ","%char) eqn:E; [|reflexivity].
  apply Ascii.eqb_eq in E. subst c. vm_compute in H. discriminate.
Qed.

Lemma hash_no_comma c h : Hash.hash_content c = Ok h -> no_char ","%char h = true.
Proof.
  intros H. destruct (HashProofs.hash_content_shape _ _ H) as [_ A]. clear H.
  induction h as [|a t IH]; [reflexivity|]. cbn in A |- *. apply andb_true_iff in A as [A1 A2].
  rewrite (alphabet_no_comma _ A1). cbn. auto.
Qed.

Section TopNoPanic.
  Variable nonstr : string -> bool.

  (* the hash step keeps resources well-formed *)
  Lemma hash_res_W r r' : W r -> hash_res nonstr r = Ok r' -> W r'.
  Proof.
    intros HW H. unfold hash_res in H. destruct (r_needs_hash r) eqn:EN; [|inv H; exact HW].
    destruct (_ || _); [|discriminate].
    destruct (Hash.hash_content _) as [h| | |] eqn:EH; cbn [bind] in H; try discriminate.
    destruct (hash_one_hist cs nonstr h r r' (hash_no_comma _ _ EH) (proj1 HW) H) as (Wr & (_ & K & _) & _).
    split; [exact Wr|]. unfold hash_one in H. rewrite EN in H.
    destruct (set_name nonstr _ _) as [n'| | |]; cbn [bind] in H; try discriminate. inv H.
    pose proof (kinds_const_store r HW) as Hks.
    unfold kinds_const in *. cbn [r_node r_pkinds with_node] in *. rewrite K.
    rewrite store_previous_id_eq in *. cbn [r_node r_pkinds] in *. exact Hks.
  Qed.

  Lemma np_hash_res r : np (hash_res nonstr r).
  Proof.
    unfold hash_res. destruct (r_needs_hash r); [|discriminate]. destruct (_ || _); [|discriminate].
    apply np_bind; [unfold Hash.hash_content, Hash.encode_suffix; np_case|]. intros h _.
    unfold hash_one. destruct (r_needs_hash r); [|discriminate].
    apply np_bind; [|intros; discriminate]. unfold set_name. apply np_bind; [|intros; discriminate].
    unfold put. apply np_walk. intros x. unfold k_set_field. apply np_bind; [apply TotalityProofs.set_field_total|].
    intros; discriminate.
  Qed.

  (* what the name-reference pass needs of every resource: a readable history and a non-empty name *)
  Definition P (r : resource) : Prop := hist_ok r /\ get_name (r_node r) <> "".

  Lemma W_P r : W r -> P r.
  Proof.
    intros [[Hh Hw] _]. split; [exact Hh|]. destruct (wf_node_good _ Hw) as (G & _).
    unfold good in G. apply andb_true_iff in G as [G _]. apply negb_true_iff in G. apply String.eqb_neq. exact G.
  Qed.

  Lemma P_same_identity r r' : same_identity r r' -> P r -> P r'.
  Proof.
    intros [Hi (B1 & B2 & B3 & _)] [Hh Hn]. split.
    - unfold hist_ok in *. rewrite B1, B2, B3. exact Hh.
    - unfold ident in Hi. inversion Hi as [[A B C D]]. rewrite C. exact Hn.
  Qed.

  Lemma view_names l : forall cands,
    Forall P l -> mapM (view cs) l = Ok cands -> Forall (fun c => c_name c <> "") cands.
  Proof.
    induction l as [|r t IH]; intros cands HP H; cbn [mapM] in H; [inv H; constructor|].
    inversion HP as [|? ? Pr Pt]; subst.
    destruct (view cs r) as [c| | |] eqn:E; cbn [bind] in H; try discriminate.
    destruct (mapM (view cs) t) as [ct| | |]; cbn [bind] in H; try discriminate. inv H.
    constructor; [|auto]. unfold view in E. destruct (prev_ids r); cbn [bind] in E; try discriminate. inv E. exact (proj2 Pr).
  Qed.

  Lemma np_view r : P r -> np (view cs r).
  Proof. intros [Hh _]. unfold view. apply np_bind; [apply np_prev_ids; exact Hh|]. intros; discriminate. Qed.

  Lemma Forall_select_by {A} (Q : A -> Prop) flags : forall l, Forall Q l -> Forall Q (select_by flags l).
  Proof.
    induction flags as [|b f IH]; intros l H; [destruct l; constructor|].
    destruct H as [|x t Hx Ht]; [destruct b; constructor|]. destruct b; cbn; [constructor; auto|auto].
  Qed.

  Lemma sieve_in x old l c : In c (sieve4 x old l) -> In c l.
  Proof. unfold sieve4. intros H. repeat (apply filter_In in H as [H _]). exact H. Qed.

  Lemma np_nr_set x cands n : Forall (fun c => c_name c <> "") cands -> np (nr_set nonstr x cands n).
  Proof.
    intros Hc. rewrite Forall_forall in Hc.
    assert (S1 : forall y, np (nr_set_scalar x cands y)).
    { intros y. unfold nr_set_scalar. apply np_bind; [unfold select_referral; np_case|]. intros r Er.
      destruct r as [c|]; [|discriminate]. destruct (String.eqb _ _); [discriminate|].
      unfold set_string_scalar. destruct (String.eqb (c_name c) "") eqn:E; [|apply TotalityProofs.set_scalar_total].
      exfalso. apply String.eqb_eq in E. apply select_referral_in, sieve_in in Er. exact (Hc _ Er E). }
    assert (S2 : forall y, np (nr_set_mapping nonstr x cands y)).
    { intros y. unfold nr_set_mapping. destruct y as [t s v|kvs|es]; try discriminate.
      destruct (find_field "name" kvs); [|discriminate].
      apply np_bind; [unfold select_referral; np_case|]. intros r Er. destruct r as [c|]; [|discriminate].
      destruct (_ && _); [discriminate|].
      assert (Hin : In c cands).
      { apply select_referral_in, sieve_in in Er. unfold mapping_cands, by_namespace in Er.
        destruct (find_field "namespace" kvs) as [nsn|]; [|exact Er].
        destruct (is_null nsn || String.eqb (node_value nsn) ""); [exact Er|].
        destruct (String.eqb _ totally_not_a_namespace); [destruct Er|].
        destruct (filter _ cands) eqn:EF; [apply filter_In in Er as [Er _]; exact Er|].
        rewrite <- EF in Er. apply filter_In in Er as [Er _]. exact Er. }
      assert (Hne : String.eqb (c_name c) "" = false) by (apply String.eqb_neq; apply Hc; exact Hin).
      apply np_bind.
      - unfold set_string_field. rewrite Hne. apply TotalityProofs.set_field_total.
      - intros n1 _. destruct (String.eqb (c_ns c) "") eqn:E2; [discriminate|].
        unfold set_string_field. rewrite E2. apply TotalityProofs.set_field_total. }
    unfold nr_set. destruct (is_null n); [discriminate|]. destruct n as [t s v|kvs|es]; [apply S1|apply S2|].
    apply np_bind; [|intros; discriminate]. apply np_mapM_in. intros e _. unfold nr_set_elem.
    destruct (is_null e); [discriminate|]. destruct e; [apply S1|apply S2|discriminate].
  Qed.

  Lemma np_apply_rules mb ma flags fl : forall r,
    Forall (fun p => rule_ok (fst p)) fl -> Forall P mb -> Forall P ma -> P r ->
    np (apply_rules cs nonstr mb ma flags fl r).
  Proof.
    induction fl as [|[fs tg] t IH]; intros r Hok Hb Ha Hr; cbn [apply_rules]; [discriminate|].
    inversion Hok as [|? ? H1 H2]; subst. cbn [fst] in H1.
    assert (HPl : Forall P (select_by flags (mb ++ r :: ma))).
    { apply Forall_select_by. apply Forall_app. split; [exact Hb|constructor; assumption]. }
    apply np_bind.
    - apply np_mapM_in. intros y Hy. apply np_view. rewrite Forall_forall in HPl. auto.
    - intros cands Ec. apply np_bind.
      + unfold apply_rule. apply np_bind; [|intros; discriminate].
        apply TotalityProofs.fs_filter_no_panic. intros n. apply np_nr_set. eapply view_names; eauto.
      + intros r1 E1. apply IH; auto. eapply P_same_identity; [eapply apply_rule_identity; eauto|exact Hr].
  Qed.

  Lemma np_referencable m r : np (referencable cs m r).
  Proof.
    unfold referencable. destruct (id_cluster_scoped _); [discriminate|].
    apply np_bind; [|intros; discriminate]. unfold rolebinding_namespaces.
    destruct (negb _); [discriminate|]. destruct (map_field_value "subjects" (r_node r)) as [[| |es]|]; try discriminate.
    induction es as [|e t IH]; cbn [rb_subject_namespaces]; [discriminate|].
    destruct e as [tg s v|kvs|l]; try discriminate.
    apply np_bind; [np_case|]. intros here _. apply np_bind; [exact IH|]. intros; discriminate.
  Qed.

  Lemma np_transform_loop filters : forall done todo,
    Forall (Forall (fun p => rule_ok (fst p))) filters -> Forall P done -> Forall P todo ->
    np (transform_loop cs nonstr filters done todo).
  Proof.
    induction filters as [|fl filters IH]; intros done todo Hok Hd Ht.
    - destruct todo; cbn; discriminate.
    - inversion Hok as [|? ? Hfl Hrest]; subst.
      destruct todo as [|r t]; cbn [transform_loop]; [discriminate|].
      inversion Ht as [|? ? Pr Pt]; subst.
      destruct fl as [|f0 fl'].
      + apply IH; auto. apply Forall_app. split; [exact Hd|constructor; [exact Pr|constructor]].
      + apply np_bind; [apply np_referencable|]. intros flags _.
        apply np_bind; [apply np_apply_rules; auto|]. intros r' E.
        apply IH; auto. apply Forall_app. split; [exact Hd|constructor; [|constructor]].
        eapply P_same_identity; [eapply apply_rules_identity; eauto|exact Pr].
  Qed.

  Lemma np_nameref rules m :
    effective_rules gen_gvk_order_first gen_gvk_order_last gen_nameref_raw = Ok rules ->
    Forall P m -> np (nameref_transform cs nonstr rules m).
  Proof.
    intros HR HP. unfold nameref_transform.
    apply np_bind; [apply np_mapM_in; intros r Hr; unfold org_id; apply np_bind;
                    [apply np_prev_ids; rewrite Forall_forall in HP; exact (proj1 (HP _ Hr))|intros p _; np_case]|].
    intros orgs _. apply np_transform_loop; [|constructor|exact HP].
    apply Forall_forall. intros fl Hin. apply in_map_iff in Hin as (org & <- & _).
    apply filters_for_ok. intros b f Hb Hf. eapply gen_rule_ok; eauto.
  Qed.

  (* IgnoreLocal never panics: an id collision among the resources it keeps is an error since /repo 66fde0c
     (it used to panic in Factory.FromResourceSlice) *)
  Lemma np_remove_loop ids kept : forall cur, np (remove_loop ids kept cur).
  Proof.
    induction ids as [|id t IH]; intros cur; cbn [remove_loop]; [discriminate|].
    destruct (existsb _ kept); [apply IH|]. destruct (Nat.eqb _ _); [apply IH|discriminate].
  Qed.

  Lemma np_ignore_local_any m : np (ignore_local m).
  Proof.
    unfold ignore_local. destruct (negb _); [discriminate|].
    destruct (append_all pipe_cs [] _); try discriminate. apply np_remove_loop.
  Qed.
  Lemma np_ignore_local m : distinct_ids m -> np (ignore_local m).
  Proof. intros _. apply np_ignore_local_any. Qed.

  (* ids after the hash step: a resource that was not renamed keeps its id; the re-check at the end of the
     HashTransformer (fix 9a490e0) makes the id of every renamed resource unique - so the map has distinct ids *)
  Lemma hash_res_unrenamed r r' : hash_res nonstr r = Ok r' -> r_needs_hash r = false -> r' = r.
  Proof. unfold hash_res. intros H E. rewrite E in H. now inv H. Qed.

  Lemma hash_res_needs r r' : hash_res nonstr r = Ok r' -> r_needs_hash r' = r_needs_hash r.
  Proof.
    unfold hash_res. destruct (r_needs_hash r) eqn:E; [|intros H; inv H; exact E].
    destruct (_ || _); [|discriminate]. destruct (Hash.hash_content _); cbn [bind]; try discriminate.
    unfold hash_one. rewrite E. destruct (set_name nonstr _ _); cbn [bind]; try discriminate. intros H. inv H. cbn. exact E.
  Qed.

  Lemma count_one_distinct r m :
    In r m -> count_id cs (cur_id cs r) m = 1 ->
    forall x, In x m -> x <> r -> id_equals (cur_id cs r) (cur_id cs x) = false.
  Proof.
    intros Hr Hc x Hx Hne. destruct (id_equals (cur_id cs r) (cur_id cs x)) eqn:E; [|reflexivity]. exfalso.
    apply in_split in Hr as (l1 & l2 & ->). rewrite count_id_app in Hc. unfold count_id in Hc. cbn [filter] in Hc.
    rewrite id_equals_refl_rid in Hc. cbn [List.length] in Hc.
    assert (Z1 : List.length (filter (fun y => id_equals (cur_id cs r) (cur_id cs y)) l1) = 0) by lia.
    assert (Z2 : List.length (filter (fun y => id_equals (cur_id cs r) (cur_id cs y)) l2) = 0) by lia.
    apply in_app_or in Hx as [Hx|[Hx|Hx]]; [|congruence|].
    - assert (In x (filter (fun y => id_equals (cur_id cs r) (cur_id cs y)) l1)) by (apply filter_In; auto).
      destruct (filter _ l1); [contradiction|discriminate].
    - assert (In x (filter (fun y => id_equals (cur_id cs r) (cur_id cs y)) l2)) by (apply filter_In; auto).
      destruct (filter _ l2); [contradiction|discriminate].
  Qed.

  (* pairwise formulation of distinct_ids on lists without repeated elements is awkward (resources may be equal
     as records); we go through positions *)
  Lemma distinct_ids_nth m :
    (forall i j a b, i < j -> nth_error m i = Some a -> nth_error m j = Some b ->
                     id_equals (cur_id cs a) (cur_id cs b) = false) <-> distinct_ids m.
  Proof.
    induction m as [|r t IH]; cbn [distinct_ids].
    - split; [auto|]. intros _ i j a b _ H. destruct i; discriminate.
    - split.
      + intros H. split.
        * intros x Hx. apply In_nth_error in Hx as (k & Hk). apply (H 0 (S k) r x); [lia|reflexivity|exact Hk].
        * apply IH. intros i j a b Hij Ha Hb. apply (H (S i) (S j) a b); [lia|exact Ha|exact Hb].
      + intros [H1 H2] i j a b Hij Ha Hb. destruct i as [|i].
        * cbn in Ha. inv Ha. destruct j as [|j]; [lia|]. cbn in Hb. apply H1. eapply nth_error_In; eauto.
        * destruct j as [|j]; [lia|]. cbn in Ha, Hb. apply (proj2 IH H2 i j a b); [lia|exact Ha|exact Hb].
  Qed.

  Lemma count_one_pos a m i j b :
    nth_error m i = Some a -> nth_error m j = Some b -> i <> j -> count_id cs (cur_id cs a) m = 1 ->
    id_equals (cur_id cs a) (cur_id cs b) = false.
  Proof.
    intros Ha Hb Hij Hc. destruct (id_equals (cur_id cs a) (cur_id cs b)) eqn:E; [|reflexivity]. exfalso.
    assert (G : forall m i j, nth_error m i = Some a -> nth_error m j = Some b -> i <> j ->
                2 <= count_id cs (cur_id cs a) m).
    { clear -E. unfold count_id. induction m as [|x t IH]; intros i j Ha Hb Hij; [destruct i; discriminate|].
      cbn [filter]. destruct i as [|i], j as [|j]; try congruence; cbn in Ha, Hb.
      - inv Ha. rewrite id_equals_refl_rid. cbn [List.length].
        assert (1 <= List.length (filter (fun y => id_equals (cur_id cs a) (cur_id cs y)) t)).
        { apply nth_error_In in Hb. assert (In b (filter (fun y => id_equals (cur_id cs a) (cur_id cs y)) t)) by (apply filter_In; auto).
          destruct (filter _ t); [contradiction|cbn; lia]. }
        lia.
      - inv Hb. rewrite E. cbn [List.length].
        assert (1 <= List.length (filter (fun y => id_equals (cur_id cs a) (cur_id cs y)) t)).
        { apply nth_error_In in Ha. assert (In a (filter (fun y => id_equals (cur_id cs a) (cur_id cs y)) t)) by (apply filter_In; split; [auto|apply id_equals_refl_rid]).
          destruct (filter _ t); [contradiction|cbn; lia]. }
        lia.
      - specialize (IH i j Ha Hb ltac:(congruence)). destruct (id_equals _ (cur_id cs x)); cbn [List.length]; lia. }
    specialize (G m i j Ha Hb Hij). lia.
  Qed.

  Lemma hash_check_distinct m m1 :
    distinct_ids m -> mapM (hash_res nonstr) m = Ok m1 -> hash_check m1 = Ok tt -> distinct_ids m1.
  Proof.
    intros Hd EH HC. apply mapM_Forall2P in EH.
    unfold hash_check in HC. destruct (forallb _ m1) eqn:EF; [|discriminate]. rewrite forallb_forall in EF.
    apply distinct_ids_nth. intros i j a b Hij Ha Hb.
    assert (Hpos : forall k x, nth_error m1 k = Some x -> exists y, nth_error m k = Some y /\ hash_res nonstr y = Ok x).
    { clear -EH. induction EH as [|y x tm t1 Hyx _ IH]; intros k z Hk; [destruct k; discriminate|].
      destruct k as [|k]; cbn in Hk |- *; [inv Hk; eauto|auto]. }
    destruct (r_needs_hash a) eqn:Na.
    - (* a was renamed: its id occurs exactly once in m1 *)
      pose proof (EF a (nth_error_In _ _ Ha)) as Ca. rewrite Na in Ca. cbn [negb orb] in Ca. apply Nat.eqb_eq in Ca.
      apply (count_one_pos a m1 i j b); auto. lia.
    - destruct (r_needs_hash b) eqn:Nb.
      + pose proof (EF b (nth_error_In _ _ Hb)) as Cb. rewrite Nb in Cb. cbn [negb orb] in Cb. apply Nat.eqb_eq in Cb.
        rewrite id_equals_sym. apply (count_one_pos b m1 j i a); auto. lia.
      + destruct (Hpos _ _ Ha) as (a0 & Ha0 & Ea). destruct (Hpos _ _ Hb) as (b0 & Hb0 & Eb).
        assert (Na0 : r_needs_hash a0 = false) by (rewrite <- (hash_res_needs _ _ Ea); exact Na).
        assert (Nb0 : r_needs_hash b0 = false) by (rewrite <- (hash_res_needs _ _ Eb); exact Nb).
        rewrite (hash_res_unrenamed _ _ Ea Na0), (hash_res_unrenamed _ _ Eb Nb0).
        apply (proj2 (distinct_ids_nth m) Hd i j a0 b0); auto.
  Qed.

  (* PIPE_build_no_panic: since the HashTransformer re-checks the ids (fix 9a490e0) the whole build of a
     well-formed tree never panics *)
  Theorem build_no_panic o t : tree_wf t -> build nonstr o t <> Panic.
  Proof.
    intros Hwf. unfold build. destruct t as [docs|n d ents]; [discriminate|].
    apply np_bind; [apply accumulate_no_panic; exact Hwf|]. intros m EA.
    destruct (accumulate_Inv nonstr _ _ Hwf EA) as [HW Hd].
    apply np_bind; [apply np_mapM_in; intros; apply np_hash_res|]. intros m1 EH.
    assert (HW1 : Forall W m1).
    { clear -HW EH. apply mapM_Forall2P in EH. induction EH as [|r r' t t' Hr _ IH]; [constructor|].
      inversion HW; subst. constructor; [eapply hash_res_W; eauto|auto]. }
    apply np_bind; [unfold hash_check; destruct (forallb _ m1); discriminate|]. intros [] EC.
    pose proof (hash_check_distinct _ _ Hd EH EC) as Hd1.
    destruct pipe_rules as [rules| | |] eqn:ER; cbn [bind]; try discriminate.
    assert (ER' : effective_rules gen_gvk_order_first gen_gvk_order_last gen_nameref_raw = Ok rules)
      by (rewrite <- pipe_rules_eq; exact ER).
    apply np_bind.
    { apply np_nameref; [exact ER'|]. clear -HW1. induction HW1; constructor; auto using W_P. }
    intros m2 EN.
    assert (Hd2 : distinct_ids m2).
    { eapply Forall2_same_identity_ids; [eapply gen_transform_identity; eauto|exact Hd1]. }
    apply np_bind; [apply np_ignore_local; exact Hd2|]. intros m2l _.
    apply np_bind; [destruct o; cbn [sort_resources]; try discriminate; apply np_append_all|]. intros; discriminate.
  Qed.

  (* ... and its outputs have pairwise distinct ids whatever the sort option (C07: the fifo case used to be refuted
     by the hash clash) *)
  Theorem build_ids_distinct_wf t m m1 :
    tree_wf t -> accumulate nonstr t = Ok m -> mapM (hash_res nonstr) m = Ok m1 -> hash_check m1 = Ok tt ->
    distinct_ids m1.
  Proof.
    intros Hwf EA EH EC. destruct (accumulate_Inv nonstr _ _ Hwf EA) as [_ Hd]. eapply hash_check_distinct; eauto.
  Qed.

  (* PIPE_ids_unique for well-formed trees, whatever the sort option *)
  Theorem build_ids_unique_wf o t outs :
    tree_wf t -> build nonstr o t = Ok outs -> distinct_node_ids outs.
  Proof.
    intros Hwf H. unfold build in H. destruct t as [docs|n d ents]; [discriminate|].
    destruct (accumulate nonstr (PDir n d ents)) as [m| | |] eqn:EA; cbn [bind] in H; try discriminate.
    destruct (mapM (hash_res nonstr) m) as [m1| | |] eqn:EH; cbn [bind] in H; try discriminate.
    destruct (hash_check m1) as [[]| | |] eqn:EC; cbn [bind] in H; try discriminate.
    destruct pipe_rules as [rules| | |] eqn:ER; cbn [bind] in H; try discriminate.
    assert (ER' : effective_rules gen_gvk_order_first gen_gvk_order_last gen_nameref_raw = Ok rules)
      by (rewrite <- pipe_rules_eq; exact ER).
    destruct (nameref_transform cs nonstr rules m1) as [m2| | |] eqn:EN; cbn [bind] in H; try discriminate.
    destruct (ignore_local m2) as [m2l| | |] eqn:EL; cbn [bind] in H; try discriminate.
    destruct (sort_resources o m2l) as [m3| | |] eqn:ES; cbn [bind] in H; try discriminate. inv H.
    apply distinct_ids_strip.
    eapply distinct_ids_perm; [apply Permutation.Permutation_sym; eapply sort_perm; exact ES|].
    eapply ignore_local_distinct; [exact EL|].
    eapply Forall2_same_identity_ids; [eapply gen_transform_identity; eauto|].
    eapply build_ids_distinct_wf; eauto.
  Qed.
End TopNoPanic.

(* regression: the hash-clash tree IS well-formed; its build used to panic in IgnoreLocal (FromResourceSlice) and is an
   error since the HashTransformer re-checks the ids (/repo 9a490e0) *)
Definition clash_tree : ptree :=
  PDir "t" (mkPDirs "" "" "" [] [] [] [mkPGen "a" "" "" ["k=v"] "" false [] [] false] [])
    [PFile [Map [("apiVersion", Scalar TStr SPlain "v1"); ("kind", Scalar TStr SPlain "ConfigMap");
                 ("metadata", Map [("name", Scalar TStr SPlain "a-bdg947hgcc")])]]].

Ltac solve_creates := first [left; vm_compute; reflexivity | right; vm_compute; reflexivity].
Ltac solve_dirs_wf :=
  unfold dirs_wf, no_custom_fields, gens_create; cbn [pd_ns pd_prefix pd_suffix pd_labels pd_cmgens pd_secgens pd_replicas pd_images pd_patches mkPDirs mkPDirsG mkPDirsX];
  repeat match goal with
         | |- _ /\ _ => split
         | |- Forall _ [] => constructor
         | |- Forall _ (_ :: _) => constructor
         | |- creates _ => solve_creates
         | |- gen_good _ => split; reflexivity
         | |- _ = true => reflexivity
         | |- _ = [] => reflexivity
         end.
Ltac solve_wf_node := eexists _, _, _, _, _, _; repeat split; try reflexivity; discriminate.

Example clash_tree_wf : tree_wf clash_tree.
Proof.
  constructor; [solve_dirs_wf|]. constructor; [|constructor]. constructor.
  constructor; [solve_wf_node|constructor].
Qed.

Example clash_tree_err : build (fun _ => false) PSortNone clash_tree = Err.
Proof. vm_compute. reflexivity. Qed.

(* a well-formed two-layer tree with a namespace directive, prefixes and a generator, without a clash *)
Definition wf_example_tree : ptree :=
  PDir "top" (mkPDirs "prod" "p-" "" [] [("app", "x")] [] [] [])
    [PDir "base" (mkPDirs "" "" "-s" [] [] [] [mkPGen "cfg" "" "" ["k=v"] "" false [] [] false] [])
       [PFile [Map [("apiVersion", Scalar TStr SPlain "v1"); ("kind", Scalar TStr SPlain "Namespace");
                    ("metadata", Map [("name", Scalar TStr SPlain "old")])];
               Map [("apiVersion", Scalar TStr SPlain "v1"); ("kind", Scalar TStr SPlain "Pod");
                    ("metadata", Map [("name", Scalar TStr SPlain "web")])]]]].

Example wf_example_tree_wf : tree_wf wf_example_tree.
Proof.
  constructor; [solve_dirs_wf|]. constructor; [|constructor].
  constructor; [solve_dirs_wf|]. constructor; [|constructor]. constructor.
  constructor; [solve_wf_node|]. constructor; [solve_wf_node|constructor].
Qed.

Example wf_example_names :
  match build (fun _ => false) PSortNone wf_example_tree with
  | Ok outs => map get_name outs
  | _ => []
  end = ["prod"; "p-web-s"; "p-cfg-s-bdg947hgcc"].
Proof. vm_compute. reflexivity. Qed.
