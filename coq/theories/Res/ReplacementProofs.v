(* Proofs about KV.Res.Replacement. *)
From KV Require Import Base.Regex Base.RegexProofs Yaml.Match Yaml.MatchProofs Yaml.MatchFrameProofs Res.Selector Res.Replacement Res.ReplicaProofs.

Ltac inv H := inversion H; subst; clear H.

Lemma gen_default_field_path : gen_default_replacement_field_path = "metadata.name".
Proof. reflexivity. Qed.

(* ====================== resource level: only selected, non-rejected resources change ====================== *)
Section ResourceLevel.
  Variable parse : string -> option re.
  Variable enc : node -> string.
  Variable nonstr : string -> bool.
  Variable decodes : tag -> string -> bool.
  Variable lsel : string -> list (string * string) -> option bool.
  Variable fuel : nat.

  Notation apply_node := (apply_target_to_node parse enc nonstr decodes lsel fuel).
  Notation apply_nodes := (apply_target_to_nodes parse enc nonstr decodes lsel fuel).
  Notation apply_repl := (apply_replacement parse enc nonstr decodes lsel fuel).

  (* the target selector wants this resource: label/annotation selectors accept it, one of its ids
     (current or previous) is selected, and no id is rejected *)
  Definition wants (ts : target_selector) (sel : selector) (n : node) : Prop :=
    select_by_anno_label lsel n sel (ts_reject ts) = Ok true /\
    exists ids, make_res_ids n = Ok ids /\ target_selected sel (ts_reject ts) ids = true.

  Lemma apply_node_untouched vs ts sel i n n' vs' :
    apply_node vs ts sel i n = Ok (n', vs') -> ~ wants ts sel n -> n' = n /\ vs' = vs.
  Proof.
    unfold apply_target_to_node. intros H W.
    destruct (make_res_ids n) as [ids| | |] eqn:I; cbn in H; try discriminate.
    destruct (select_by_anno_label lsel n sel (ts_reject ts)) as [ok| | |] eqn:S; cbn in H; try discriminate.
    destruct ok; cbn in H; [|inv H; auto].
    destruct (target_selected sel (ts_reject ts) ids) eqn:T; [|inv H; auto].
    exfalso. apply W. split; auto. eauto.
  Qed.

  Lemma apply_nodes_frame ts sel : forall rs vs i rs' vs',
    apply_nodes vs ts sel i rs = Ok (rs', vs') ->
    List.length rs' = List.length rs /\
    forall k n, nth_error rs k = Some n -> ~ wants ts sel n -> nth_error rs' k = Some n.
  Proof.
    induction rs as [|r t IH]; intros vs i rs' vs' H; cbn in H.
    - inv H. split; auto.
    - destruct (apply_node vs ts sel i r) as [[r1 vs1]| | |] eqn:A; cbn in H; try discriminate.
      destruct (apply_nodes vs1 ts sel (S i) t) as [[t1 vs2]| | |] eqn:B; cbn in H; inv H.
      destruct (IH _ _ _ _ B) as [L N]. split; [cbn; congruence|].
      intros [|k] n Hn W; cbn in *.
      + inv Hn. apply apply_node_untouched in A; auto. destruct A; subst; auto.
      + apply N; auto.
  Qed.

  Theorem replacement_untouched : forall tss vs rs rs',
    apply_repl vs tss rs = Ok rs' ->
    List.length rs' = List.length rs /\
    forall i n, nth_error rs i = Some n ->
      (forall ts sel, In ts tss -> ts_select ts = Some sel -> ~ wants ts sel n) ->
      nth_error rs' i = Some n.
  Proof.
    induction tss as [|ts t IH]; intros vs rs rs' H; cbn in H.
    - inv H. auto.
    - destruct (ts_select ts) as [sel|] eqn:Sel; [|discriminate].
      destruct (apply_nodes vs ts sel 0 rs) as [[rs1 vs1]| | |] eqn:M; cbn in H; try discriminate.
      destruct (apply_nodes_frame _ _ _ _ _ _ _ M) as [L1 N1]. destruct (IH _ _ _ H) as [L2 N2].
      split; [congruence|]. intros i n Hn W.
      apply N2; [apply N1; auto; apply (W ts sel); auto; left; auto|].
      intros ts' sel' Hin. apply W. right; auto.
  Qed.

  (* rejected by id: some id of the resource is selected by a (non-empty) reject entry *)
  Lemma rejected_not_wanted ts sel n ids :
    make_res_ids n = Ok ids -> contains_reject_id (ts_reject ts) ids = true -> ~ wants ts sel n.
  Proof.
    intros I R (_ & ids' & I' & T). rewrite I in I'. inv I'.
    unfold target_selected in T. rewrite R in T. rewrite andb_false_r in T. discriminate.
  Qed.
End ResourceLevel.

(* ====================== field level ====================== *)
Lemma nth_error_replace_nth_other {A} (l : list A) : forall i j x,
  i <> j -> nth_error (replace_nth j x l) i = nth_error l i.
Proof.
  induction l as [|y t IH]; intros [|i] [|j] x H; cbn; auto; try congruence.
Qed.

Lemma nth_error_replace_nth_kv_other (l : list (string * node)) : forall i j x,
  i <> j -> nth_error (replace_nth_kv j x l) i = nth_error l i.
Proof.
  induction l as [|[k y] t IH]; intros [|i] [|j] x H; cbn; auto; try congruence.
Qed.

Lemma nth_error_replace_nth_same {A} (l : list A) : forall j x y,
  nth_error l j = Some y -> nth_error (replace_nth j x l) j = Some x.
Proof. induction l as [|z t IH]; intros [|j] x y H; cbn in *; try discriminate; eauto. Qed.

Lemma nth_error_replace_nth_kv_same (l : list (string * node)) : forall j x k y,
  nth_error l j = Some (k, y) -> nth_error (replace_nth_kv j x l) j = Some (k, x).
Proof.
  induction l as [|[k0 z] t IH]; intros [|j] x k y H; cbn in *; try discriminate; eauto.
  inv H. auto.
Qed.

(* writing through an address changes nothing at an address that is not comparable with it *)
Lemma update_at_frame f : forall h n n',
  update_at f h n = Ok n' -> forall a, comparable a h = false -> get_at a n' = get_at a n.
Proof.
  induction h as [|j h IH]; intros n n' H a C.
  - destruct a; discriminate.
  - destruct a as [|i a]; [discriminate|]. cbn in C.
    destruct n as [t s v|kvs|es]; cbn in H.
    + inv H; auto.
    + destruct (nth_error kvs j) as [[k c]|] eqn:E; [|inv H; auto].
      destruct (update_at f h c) as [c'| | |] eqn:U; cbn in H; inv H. cbn.
      destruct (Nat.eqb i j) eqn:Eij.
      * apply Nat.eqb_eq in Eij; subst i. cbn in C.
        rewrite (nth_error_replace_nth_kv_same _ _ _ _ _ E), E. cbn. eapply IH; eauto.
      * apply Nat.eqb_neq in Eij. rewrite nth_error_replace_nth_kv_other; auto.
    + destruct (nth_error es j) as [c|] eqn:E; [|inv H; auto].
      destruct (update_at f h c) as [c'| | |] eqn:U; cbn in H; inv H. cbn.
      destruct (Nat.eqb i j) eqn:Eij.
      * apply Nat.eqb_eq in Eij; subst i. cbn in C.
        rewrite (nth_error_replace_nth_same _ _ _ _ E), E. eapply IH; eauto.
      * apply Nat.eqb_neq in Eij. rewrite nth_error_replace_nth_other; auto.
Qed.

(* ... and at the address itself the node is what the setter made of the old one *)
Lemma update_at_get f : forall h n n' x,
  update_at f h n = Ok n' -> get_at h n = Some x -> exists x', f x = Ok x' /\ get_at h n' = Some x'.
Proof.
  induction h as [|j h IH]; intros n n' x H G; cbn in *.
  - inv G. eauto.
  - destruct n as [t s v|kvs|es]; cbn in G; try discriminate.
    + destruct (nth_error kvs j) as [[k c]|] eqn:E; cbn in G; [|discriminate].
      destruct (update_at f h c) as [c'| | |] eqn:U; cbn in H; inv H.
      destruct (IH _ _ _ U G) as (x' & Fx & Gx). exists x'. split; auto. cbn.
      rewrite (nth_error_replace_nth_kv_same _ _ _ _ _ E). cbn. auto.
    + destruct (nth_error es j) as [c|] eqn:E; [|discriminate].
      destruct (update_at f h c) as [c'| | |] eqn:U; cbn in H; inv H.
      destruct (IH _ _ _ U G) as (x' & Fx & Gx). exists x'. split; auto. cbn.
      rewrite (nth_error_replace_nth_same _ _ _ _ E). auto.
Qed.

Lemma write_hits_frame decodes opts : forall hits live value n n' st,
  write_hits decodes opts live value hits n = Ok (n', st) ->
  forall a, (forall h, In (HAt h) hits -> comparable a h = false) -> get_at a n' = get_at a n.
Proof.
  induction hits as [|[h|x] t IH]; intros live value n n' st H a C; cbn in H.
  - inv H; auto.
  - destruct (update_at (set_field_value decodes opts value) h n) as [n1| | |] eqn:U; cbn in H; try discriminate.
    assert (E1 : get_at a n1 = get_at a n) by (eapply update_at_frame; eauto; apply C; left; auto).
    destruct live as [sa|].
    + destruct (refresh sa h value n1) as [v' still].
      rewrite (IH _ _ _ _ _ H a); auto. intros; apply C; right; auto.
    + rewrite (IH _ _ _ _ _ H a); auto. intros; apply C; right; auto.
  - destruct (set_field_value decodes opts value x); cbn in H; try discriminate.
    eapply IH; eauto. intros; apply C; right; auto.
Qed.

Section FieldLevel.
  Variable parse : string -> option re.
  Variable enc : node -> string.
  Variable nonstr : string -> bool.
  Variable decodes : tag -> string -> bool.
  Variable fuel : nat.

  (* one field path, options.create not set: the matcher does not modify the target, at least one
     field is found, and the result differs from the target only at (or below / above) the
     addresses the matcher returned — wherever the value lives *)
  Theorem copy_value_exact opts live value fp n n' st :
    create_kind opts value = None ->
    copy_value_to_target parse enc nonstr decodes fuel opts live value [fp] n = Ok (n', st) ->
    exists hits,
      pm parse enc nonstr None fuel (smarter_path_splitter "."%char fp) n = Ok (n, hits) /\
      hits <> [] /\
      forall a, (forall h, In (HAt h) hits -> comparable a h = false) -> get_at a n' = get_at a n.
  Proof.
    intros Ck H. cbn -[write_hits pm] in H. rewrite Ck in H.
    destruct (pm parse enc nonstr None fuel (smarter_path_splitter "."%char fp) n) as [[n1 hits]| | |] eqn:P;
      cbn -[write_hits pm] in H; try discriminate.
    pose proof (pm_nocreate_pure _ _ _ _ _ _ _ _ P); subst n1.
    destruct hits as [|h0 ht]; [discriminate|].
    destruct (write_hits decodes opts live (reread live value n) (h0 :: ht) n) as [[n2 st2]| | |] eqn:W;
      cbn -[write_hits pm] in H; inv H.
    exists (h0 :: ht). split; auto. split; [discriminate|].
    intros a C. eapply write_hits_frame; eauto.
  Qed.

  (* the value written: a single returned field receives exactly what setFieldValue makes of it
     (for a private copy of the value, [reread None value n] is the value itself) *)
  Theorem copy_value_written opts live value fp n n' st h x :
    create_kind opts value = None ->
    copy_value_to_target parse enc nonstr decodes fuel opts live value [fp] n = Ok (n', st) ->
    pm parse enc nonstr None fuel (smarter_path_splitter "."%char fp) n = Ok (n, [HAt h]) ->
    get_at h n = Some x ->
    exists x', set_field_value decodes opts (reread live value n) x = Ok x' /\ get_at h n' = Some x'.
  Proof.
    intros Ck H P G. cbn -[refresh] in H. rewrite Ck, P in H. cbn -[refresh] in H.
    destruct (update_at (set_field_value decodes opts (reread live value n)) h n) as [n1| | |] eqn:U;
      cbn -[refresh] in H; try discriminate.
    assert (n' = n1).
    { destruct live as [sa|]; [destruct (refresh sa h (reread (Some sa) value n) n1)|]; cbn in H; inv H; auto. }
    subst. eapply update_at_get; eauto.
  Qed.
End FieldLevel.

(* the repaired tag rule: the written text keeps the target's tag when go-yaml can decode it under that
   tag, and makes the node a string otherwise *)
Lemma gen_replacement_retags : gen_replacement_retags_undecodable = true.
Proof. reflexivity. Qed.

Lemma retag_spec decodes t x : retag decodes t x = if decodes t x then t else TStr.
Proof. unfold retag. rewrite gen_replacement_retags. destruct (decodes t x); reflexivity. Qed.

(* setFieldValue without a delimiter: a scalar field receives the source TEXT verbatim and keeps its
   style, and its tag whenever the text can be decoded under it (otherwise it becomes a string);
   any other field is overwritten by the source node *)
Lemma set_field_value_verbatim decodes value t s old :
  set_field_value decodes None value (Scalar t s old) =
  Ok (Scalar (if decodes t (node_value value) then t else TStr) s (node_value value)).
Proof. cbn. rewrite retag_spec. reflexivity. Qed.

(* with a delimiter: the spliced text, same tag rule *)
Lemma set_field_value_spliced decodes o value t s old :
  fo_delimiter o <> "" ->
  set_field_value decodes (Some o) value (Scalar t s old) =
  Ok (Scalar (if decodes t (splice o old (get_value value)) then t else TStr) s (splice o old (get_value value))).
Proof.
  intros H. unfold set_field_value. apply String.eqb_neq in H. rewrite H. cbn. rewrite retag_spec. reflexivity.
Qed.

(* the written node can always be decoded: either under the kept tag or as a string *)
Lemma set_field_value_decodable decodes opts value t s old x' :
  (forall x, decodes TStr x = true) ->
  set_field_value decodes opts value (Scalar t s old) = Ok x' ->
  exists t' text, x' = Scalar t' s text /\ decodes t' text = true.
Proof.
  intros Hs H. unfold set_field_value in H.
  destruct (match opts with Some o => if (fo_delimiter o =? "")%string then None else Some o | None => None end);
    inversion H; subst; clear H; rewrite retag_spec;
    match goal with |- context [if decodes ?t ?x then _ else _] => destruct (decodes t x) eqn:D end; eauto.
Qed.

Lemma replacement_kept_tag_regression :
  let dec := fun (t : tag) (x : string) => match t with TNull | TInt => String.eqb x "5" | _ => true end in
  set_field_value dec None (Scalar TStr SPlain "x") (Scalar TNull SPlain "null") = Ok (Scalar TStr SPlain "x") /\
  set_field_value dec None (Scalar TStr SPlain "x") (Scalar TInt SPlain "3") = Ok (Scalar TStr SPlain "x") /\
  set_field_value dec None (Scalar TStr SPlain "5") (Scalar TInt SPlain "3") = Ok (Scalar TInt SPlain "5").
Proof. repeat split; vm_compute; reflexivity. Qed.

Lemma set_field_value_replace decodes value target :
  is_scalar target = false -> set_field_value decodes None value target = Ok value.
Proof. destruct target; cbn; intros; try discriminate; reflexivity. Qed.

(* getRefinedValue without options returns the source node itself *)
Lemma refined_value_none rn : refined_value None rn = Ok rn.
Proof. reflexivity. Qed.

(* ====================== delimiter / index algebra (one-byte delimiters) ====================== *)
Section Delim.
  Variable c : ascii.
  Let d : string := String c "".

  Lemma split_on_nonempty s : split_on c s <> [].
  Proof.
    induction s as [|a s IH]; cbn; [discriminate|].
    destruct (split_on c s); [discriminate|]. destruct (Ascii.eqb a c); discriminate.
  Qed.

  (* strings.Split with a one-byte separator is the Prelude's split_on *)
  Lemma split_str_aux_one : forall s cur,
    split_str_aux d 0 cur s =
    match split_on c s with
    | h :: t => (str_rev_acc cur h) :: t
    | [] => [str_rev cur]
    end.
  Proof.
    induction s as [|a s IH]; intros cur.
    - reflexivity.
    - cbn [split_str_aux split_on]. unfold d at 1. cbn [has_prefix]. rewrite andb_true_r, (Ascii.eqb_sym c a).
      destruct (split_on c s) as [|h t] eqn:S; [destruct (split_on_nonempty s S)|].
      destruct (Ascii.eqb a c) eqn:E.
      + change (String.length d - 1) with 0. rewrite (IH ""). reflexivity.
      + rewrite IH. reflexivity.
  Qed.

  Lemma split_str_one s : split_str d s = split_on c s.
  Proof.
    unfold split_str. rewrite split_str_aux_one.
    destruct (split_on c s) as [|h t] eqn:S; [destruct (split_on_nonempty s S)|]. reflexivity.
  Qed.

  (* strings.Join(strings.Split(s, d), d) = s *)
  Lemma join_split s : join_with d (split_on c s) = s.
  Proof.
    induction s as [|a s IH]; cbn; auto.
    destruct (split_on c s) as [|h t] eqn:S; [destruct (split_on_nonempty s S)|].
    destruct (Ascii.eqb a c) eqn:E.
    - apply Ascii.eqb_eq in E; subst a. cbn. cbn in IH. rewrite IH. reflexivity.
    - cbn in *. destruct t; cbn in *; rewrite IH; reflexivity.
  Qed.

  Fixpoint free (s : string) : bool :=
    match s with
    | EmptyString => true
    | String a s' => negb (Ascii.eqb a c) && free s'
    end.

  Lemma split_free s : free s = true -> split_on c s = [s].
  Proof.
    induction s as [|a s IH]; cbn; auto. intros H. apply andb_prop in H. destruct H as [H1 H2].
    rewrite IH; auto. apply negb_true_iff in H1. rewrite H1. reflexivity.
  Qed.

  Lemma split_on_app_free p s : free p = true ->
    split_on c (p ++ d ++ s) = p :: split_on c s.
  Proof.
    induction p as [|a p IH]; cbn; intros H.
    - rewrite Ascii.eqb_refl. destruct (split_on c s) as [|h t] eqn:S; [destruct (split_on_nonempty s S)|]. reflexivity.
    - apply andb_prop in H. destruct H as [H1 H2]. apply negb_true_iff in H1.
      change (p ++ String c s) with (p ++ d ++ s). rewrite (IH H2). rewrite H1. reflexivity.
  Qed.

  (* strings.Split(strings.Join(l, d), d) = l when no piece contains the delimiter *)
  Lemma split_join : forall l, l <> [] -> forallb free l = true -> split_on c (join_with d l) = l.
  Proof.
    induction l as [|p t IH]; intros Hne Hf; [congruence|].
    cbn in Hf. apply andb_prop in Hf. destruct Hf as [Hp Ht].
    destruct t as [|q t'].
    - cbn. apply split_free; auto.
    - change (join_with d (p :: q :: t')) with (p ++ d ++ join_with d (q :: t')).
      rewrite split_on_app_free; auto. rewrite IH; auto. discriminate.
  Qed.

  Lemma split_pieces_free s : forallb free (split_on c s) = true.
  Proof.
    induction s as [|a s IH]; cbn; auto.
    destruct (split_on c s) as [|h t] eqn:S; [destruct (split_on_nonempty s S)|].
    destruct (Ascii.eqb a c) eqn:E; cbn in *; auto. rewrite E. cbn. auto.
  Qed.

  Lemma forallb_replace_nth {A} (f : A -> bool) : forall l i x,
    forallb f l = true -> f x = true -> forallb f (replace_nth i x l) = true.
  Proof.
    induction l as [|y t IH]; intros [|i] x H Hx; cbn in *; auto;
      apply andb_prop in H; destruct H as [H1 H2]; rewrite ?Hx, ?H1; cbn; auto.
  Qed.

  Lemma replace_nth_nonempty {A} (l : list A) i x : l <> [] -> replace_nth i x l <> [].
  Proof. destruct l, i; cbn; congruence. Qed.

  (* put-get for the index option: after writing v (free of the delimiter) at index i of the
     target text, reading index i back with the same delimiter gives v; every other piece is kept *)
  Theorem splice_get (target v : string) (i : nat) :
    free v = true -> i < List.length (split_on c target) ->
    let o := mkFO d (Z.of_nat i) false in
    split_on c (splice o target v) = replace_nth i v (split_on c target) /\
    nth_error (split_on c (splice o target v)) i = Some v.
  Proof.
    intros Hv Hi o. unfold splice, o. cbn [fo_delimiter fo_index].
    rewrite split_str_one.
    assert (Z.of_nat i <? 0 = false)%Z as -> by (apply Z.ltb_ge; lia).
    assert (Z.of_nat (List.length (split_on c target)) <=? Z.of_nat i = false)%Z as -> by (apply Z.leb_gt; lia).
    rewrite Nat2Z.id.
    assert (E : split_on c (join_with d (replace_nth i v (split_on c target))) = replace_nth i v (split_on c target)).
    { apply split_join.
      - apply replace_nth_nonempty, split_on_nonempty.
      - apply forallb_replace_nth; auto. apply split_pieces_free. }
    split; auto. rewrite E.
    destruct (nth_error (split_on c target) i) as [y|] eqn:N.
    - eapply nth_error_replace_nth_same; eauto.
    - apply nth_error_None in N. lia.
  Qed.

  Lemma join_app_one v : forall l, l <> [] -> join_with d (l ++ [v])%list = join_with d l ++ d ++ v.
  Proof.
    induction l as [|h t IH]; intros Hne; [congruence|].
    destruct t as [|h2 t2].
    - reflexivity.
    - change (join_with d ((h :: h2 :: t2) ++ [v])%list) with (h ++ d ++ join_with d ((h2 :: t2) ++ [v])%list).
      rewrite IH; [|discriminate].
      change (join_with d (h :: h2 :: t2)) with (h ++ d ++ join_with d (h2 :: t2)).
      rewrite !app_assoc_s. reflexivity.
  Qed.

  (* negative index prepends, an index past the end appends *)
  Theorem splice_prepend_append (target v : string) :
    splice (mkFO d (-1)%Z false) target v = v ++ d ++ target /\
    splice (mkFO d (Z.of_nat (List.length (split_on c target))) false) target v = target ++ d ++ v.
  Proof.
    unfold splice. cbn [fo_delimiter fo_index]. rewrite split_str_one. split.
    - change (-1 <? 0)%Z with true. cbv iota.
      destruct (split_on c target) as [|h t] eqn:S; [destruct (split_on_nonempty _ S)|].
      change (join_with d (v :: h :: t)) with (v ++ d ++ join_with d (h :: t)).
      rewrite <- S, join_split. reflexivity.
    - assert (Z.of_nat (List.length (split_on c target)) <? 0 = false)%Z as -> by (apply Z.ltb_ge; lia).
      rewrite Z.leb_refl. rewrite join_app_one; [|apply split_on_nonempty]. rewrite join_split. reflexivity.
  Qed.
End Delim.

(* non-vacuity: a replacement without create that finds its field (container x only: the list holds no near miss) *)
Example copy_value_example :
  let pod := Map [("spec", Map [("containers", Seq [Map [("name", Scalar TStr SPlain "x"); ("image", Scalar TStr SPlain "i:1")];
                                                   Map [("name", Scalar TStr SPlain "web"); ("image", Scalar TStr SPlain "j:2")]])])] in
  create_kind None (Scalar TStr SPlain "new") = None /\
  copy_value_to_target (parse_of [("x", Some (lit "x"))]) node_value (fun _ => false) (fun _ _ => true) 1 None None (Scalar TStr SPlain "new")
                       ["spec.containers.[name=x].image"] pod
  = Ok (Map [("spec", Map [("containers", Seq [Map [("name", Scalar TStr SPlain "x"); ("image", Scalar TStr SPlain "new")];
                                                Map [("name", Scalar TStr SPlain "web"); ("image", Scalar TStr SPlain "j:2")]])])],
        (Scalar TStr SPlain "new", None)).
Proof. split; vm_compute; reflexivity. Qed.

Example splice_example :
  splice (mkFO ":" 1%Z false) "reg:5000/x:1" "9000/y" = "reg:9000/y:1" /\ free ":"%char "9000/y" = true.
Proof. split; vm_compute; reflexivity. Qed.

(* ====================== the address-returning lookup is the C14 PathGetter ====================== *)
Lemma find_index_key name : forall kvs x,
  find_field name kvs = Some x ->
  exists i k, find_index (fun kv : string * node => String.eqb (fst kv) name) kvs = Some i /\
              nth_error kvs i = Some (k, x).
Proof.
  induction kvs as [|[k v] t IH]; cbn; intros x H; [discriminate|].
  destruct (String.eqb k name) eqn:E.
  - inv H. exists 0, k. auto.
  - destruct (IH x H) as (i & k' & Hi & Hn). exists (S i), k'. rewrite Hi. auto.
Qed.

Lemma index_of_key_spec name kvs x :
  find_field name kvs = Some x -> exists k, nth_error kvs (index_of_key name kvs) = Some (k, x).
Proof.
  intros H. destruct (find_index_key _ _ _ H) as (i & k & Hi & Hn).
  unfold index_of_key. rewrite Hi. eauto.
Qed.

Lemma lookup_addr_spec : forall ps n,
  lookup ps n = match lookup_addr ps n with
                | Ok (Some a) => Ok (get_at a n)
                | Ok None => Ok None
                | Err => Err
                | Panic => Panic
                | Diverge => Diverge
                end.
Proof.
  unfold lookup. induction ps as [|p ps IH]; intros n; cbn.
  - reflexivity.
  - destruct p; cbn.
    + destruct n as [t s v|kvs|es]; try (destruct (is_null _); reflexivity).
      destruct (find_field k kvs) as [x|] eqn:F; [|reflexivity].
      specialize (IH x). destruct (index_of_key_spec _ _ _ F) as (k' & Hk).
      destruct (walk None ps k_get x) as [[x1 r1]| | |] eqn:W; cbn in *;
        destruct (lookup_addr ps x) as [[a|]| | |]; cbn in *; try discriminate; try reflexivity.
      * rewrite Hk. cbn. inv IH. reflexivity.
      * inv IH. reflexivity.
    + destruct n as [t s v|kvs|es]; try (destruct (is_null _); reflexivity).
      destruct (nth_error es i) as [e|] eqn:F; [|reflexivity].
      specialize (IH e).
      destruct (walk None ps k_get e) as [[x1 r1]| | |] eqn:W; cbn in *;
        destruct (lookup_addr ps e) as [[a|]| | |]; cbn in *; try discriminate; try reflexivity.
      * rewrite F. inv IH. reflexivity.
      * inv IH. reflexivity.
    + destruct n as [t s v|kvs|es]; try (destruct (is_null _); reflexivity).
      destruct es as [|e0 es']; [reflexivity|].
      destruct (nth_error (e0 :: es') (List.length (e0 :: es') - 1)) as [e|] eqn:F; [|reflexivity].
      specialize (IH e).
      destruct (walk None ps k_get e) as [[x1 r1]| | |] eqn:W; cbn -[nth_error List.length] in *;
        destruct (lookup_addr ps e) as [[a|]| | |]; cbn -[nth_error List.length] in *; try discriminate; try reflexivity.
      * rewrite F. inv IH. reflexivity.
      * inv IH. reflexivity.
    + destruct n as [t s v0|kvs|es]; try (destruct (is_null _); reflexivity).
      destruct (find_index (sel_match nm v) es) as [i|]; [|reflexivity].
      destruct (nth_error es i) as [e|] eqn:F; [|reflexivity].
      specialize (IH e).
      destruct (walk None ps k_get e) as [[x1 r1]| | |] eqn:W; cbn in *;
        destruct (lookup_addr ps e) as [[a|]| | |]; cbn in *; try discriminate; try reflexivity.
      * rewrite F. inv IH. reflexivity.
      * inv IH. reflexivity.
    + reflexivity.
    + reflexivity.
    + reflexivity.
Qed.

(* ====================== the value IS copied once (regression witness of the repaired source aliasing) ====================== *)
Lemma gen_replacement_source_is_copied :
  gen_replacement_source_copied = true /\ gen_replacement_source_return_recognised = true.
Proof. split; reflexivity. Qed.

Definition alias_doc : node :=
  Map [("kind", Scalar TStr SPlain "ConfigMap");
       ("metadata", Map [("name", Scalar TStr SPlain "cm")]);
       ("data", Map [("a", Scalar TStr SPlain "x"); ("b", Scalar TStr SPlain "q")])].
Definition alias_repl : replacement :=
  mkRepl (Some (mkSS (mkId (mkGvk "" "" "ConfigMap") "cm" "") "data.a" None))
         (Some [mkTS (Some (mkSel (mkId (mkGvk "" "" "ConfigMap") "cm" "") "" "")) []
                     ["data.a"; "data.b"] (Some (mkFO "/" 1%Z false))])
         None.

(* the source is x; the target list [a; b] rewrites the source field first: b still receives x (it used to receive x/x) *)
Lemma replacement_source_copied_regression :
  splice (mkFO "/" 1%Z false) "q" "x" = "q/x" /\
  replacement_filter (parse_of []) node_value (fun _ => false) (fun _ _ => true) simple_lsel 2 [alias_repl] [alias_doc] =
  Ok [Map [("kind", Scalar TStr SPlain "ConfigMap");
           ("metadata", Map [("name", Scalar TStr SPlain "cm")]);
           ("data", Map [("a", Scalar TStr SPlain "x/x"); ("b", Scalar TStr SPlain "q/x")])]].
Proof. split; vm_compute; reflexivity. Qed.

(* the replacement value is never live: getReplacement hands out a private copy *)
Lemma get_replacement_not_live rs r vs :
  get_replacement rs r = Ok vs -> vs_live vs = None.
Proof.
  unfold get_replacement. intros H.
  destruct (rp_source_value r) as [v|]; destruct (rp_source r) as [src|]; try discriminate.
  - inv H. reflexivity.
  - destruct (select_source (ss_id src) 0 rs None) as [[i n]| | |]; cbn in H; try discriminate.
    destruct (lookup_addr _ n) as [[a|]| | |]; cbn in H; try discriminate.
    destruct (get_at a n) as [x|]; try discriminate.
    destruct (nil_or_empty x); try discriminate.
    destruct (refined_value (ss_options src) x) as [v| | |]; cbn in H; inv H.
    reflexivity.
Qed.
