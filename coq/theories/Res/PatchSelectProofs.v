(* A `patches:` entry changes exactly the resources it selects. *)
From KV Require Import Base.Regex Base.RegexProofs Res.Selector Res.SelectorProofs Res.PatchSelect Res.ReplicaProofs.

Ltac inv H := inversion H; subst; clear H.

Lemma nat_in_spec i l : nat_in i l = true <-> In i l.
Proof.
  induction l as [|x t IH]; cbn; [split; [discriminate|tauto]|].
  rewrite orb_true_iff, IH, Nat.eqb_eq. split; intros [H|H]; auto.
Qed.

Lemma true_indices_spec : forall l i j, In j (true_indices i l) <-> i <= j /\ nth_error l (j - i) = Some true.
Proof.
  induction l as [|b t IH]; intros i j; cbn.
  - split; [intros []|]. intros [_ H]. destruct (j - i); discriminate.
  - destruct b; cbn; rewrite IH; split.
    + intros [<-|[L H]]; [rewrite Nat.sub_diag; auto|].
      split; [lia|]. replace (j - i) with (S (j - S i)) by lia. auto.
    + intros [L H]. destruct (Nat.eq_dec i j) as [->|N]; [left; auto|right].
      split; [lia|]. replace (j - i) with (S (j - S i)) in H by lia. auto.
    + intros [L H]. split; [lia|]. replace (j - i) with (S (j - S i)) by lia. auto.
    + intros [L H]. destruct (Nat.eq_dec i j) as [->|N]; [rewrite Nat.sub_diag in H; discriminate|].
      split; [lia|]. replace (j - i) with (S (j - S i)) in H by lia. auto.
Qed.

Section Exact.
  Variable apply : node -> res node.

  (* applying at a set of indices: those get the patch, the others are untouched *)
  Lemma apply_at_exact idx : forall rs i rs',
    apply_at apply idx i rs = Ok rs' ->
    List.length rs' = List.length rs /\
    forall j obj, nth_error rs j = Some obj ->
      (nat_in (i + j) idx = true -> exists obj', apply obj = Ok obj' /\ nth_error rs' j = Some obj') /\
      (nat_in (i + j) idx = false -> nth_error rs' j = Some obj).
  Proof.
    induction rs as [|r t IH]; intros i rs' H; cbn in H.
    - inv H. split; auto. intros [|j] obj Hn; discriminate.
    - destruct (if nat_in i idx then apply r else Ok r) as [r'| | |] eqn:A; cbn in H; try discriminate.
      destruct (apply_at apply idx (S i) t) as [t'| | |] eqn:B; cbn in H; inv H.
      destruct (IH _ _ B) as [L N]. split; [cbn; congruence|].
      intros [|j] obj Hn; cbn in Hn.
      + inv Hn. rewrite Nat.add_0_r. split; intros E; rewrite E in A; [eauto|inv A; auto].
      + replace (i + S j) with (S i + j) by lia. apply N; auto.
  Qed.

  Variable parse : string -> option re.
  Variable cluster_scoped : gvk -> bool.
  Variable lsel : string -> list (string * string) -> option bool.

  (* the general statement: exactly the targets are patched *)
  Theorem patch_transform_exact e rs rs' :
    patch_transform parse cluster_scoped lsel apply e rs = Ok rs' ->
    exists idx, patch_targets parse cluster_scoped lsel e rs = Ok idx /\
      List.length rs' = List.length rs /\
      forall j obj, nth_error rs j = Some obj ->
        (In j idx -> exists obj', apply obj = Ok obj' /\ nth_error rs' j = Some obj') /\
        (~ In j idx -> nth_error rs' j = Some obj).
  Proof.
    unfold patch_transform. intros H.
    destruct (patch_targets parse cluster_scoped lsel e rs) as [idx| | |] eqn:T; cbn in H; try discriminate.
    exists idx. split; auto. destruct (apply_at_exact idx _ _ _ H) as [L N]. split; auto.
    intros j obj Hn. destruct (N j obj Hn) as [A B]. cbn in A, B. split.
    - intros Hin. apply A. apply nat_in_spec; auto.
    - intros Hnot. apply B. destruct (nat_in j idx) eqn:E; auto. apply nat_in_spec in E. contradiction.
  Qed.

  (* an entry with a target: exactly the resources the selector keeps (full-match patterns on the
     original or current id, label and annotation selectors) *)
  Theorem patch_target_selects_exactly (s : selector) (ast : string -> re) rs rs' :
    parse "" = Some Eps ->
    (forall p, In p (sel_patterns s) -> p <> "" -> parse ("^(?:" ++ p ++ ")$") = Some (anchor (ast p))) ->
    (forall obj, In obj rs -> well_formed lsel s obj) ->
    patch_transform parse cluster_scoped lsel apply (PTarget s) rs = Ok rs' ->
    List.length rs' = List.length rs /\
    forall j obj, nth_error rs j = Some obj ->
      (sel_keep cluster_scoped lsel s ast obj = true -> exists obj', apply obj = Ok obj' /\ nth_error rs' j = Some obj') /\
      (sel_keep cluster_scoped lsel s ast obj = false -> nth_error rs' j = Some obj).
  Proof.
    intros P0 Pa Wf H. destruct (patch_transform_exact _ _ _ H) as (idx & T & L & N).
    split; auto. intros j obj Hn. destruct (N j obj Hn) as [A B].
    cbn [patch_targets] in T.
    pose proof (select_exact_iff parse cluster_scoped lsel s ast P0 Pa rs idx Wf T j) as I.
    split; intros K.
    - apply A. apply I. eauto.
    - apply B. intros Hin. apply I in Hin. destruct Hin as (o & Ho & Ko). rewrite Hn in Ho. inv Ho. congruence.
  Qed.

  (* an entry without target: exactly one resource has an id equal to the id of the patch body, and
     only that one is patched *)
  Theorem patch_by_id_selects_exactly (id : resid) rs rs' :
    patch_transform parse cluster_scoped lsel apply (PById id) rs = Ok rs' ->
    exists i, List.length rs' = List.length rs /\
      (exists obj obj', nth_error rs i = Some obj /\ any_id_equals cluster_scoped id obj = Ok true /\
                        apply obj = Ok obj' /\ nth_error rs' i = Some obj') /\
      forall j obj, j <> i -> nth_error rs j = Some obj ->
        any_id_equals cluster_scoped id obj = Ok false /\ nth_error rs' j = Some obj.
  Proof.
    intros H. destruct (patch_transform_exact _ _ _ H) as (idx & T & L & N).
    cbn [patch_targets] in T.
    destruct (mapM (any_id_equals cluster_scoped id) rs) as [hits| | |] eqn:M; cbn in T; try discriminate.
    destruct (mapM_nth _ _ _ M) as [Lh Nh].
    destruct (true_indices 0 hits) as [|i [|i2 t]] eqn:TI; try discriminate. inv T.
    exists i. split; auto.
    assert (Hi : In i (true_indices 0 hits)) by (rewrite TI; left; auto).
    apply true_indices_spec in Hi. destruct Hi as [_ Hi]. rewrite Nat.sub_0_r in Hi.
    split.
    - assert (exists obj, nth_error rs i = Some obj) as (obj & Ho).
      { destruct (nth_error rs i) eqn:E; eauto. apply nth_error_None in E.
        assert (nth_error hits i <> None) by congruence. apply nth_error_Some in H0. lia. }
      destruct (Nh i obj Ho) as (b & Hb & Hbi). rewrite Hi in Hbi. inv Hbi.
      destruct (N i obj Ho) as [A _]. destruct (A (or_introl eq_refl)) as (obj' & Ap & Hn').
      exists obj, obj'. auto.
    - intros j obj Hj Ho. destruct (Nh j obj Ho) as (b & Hb & Hbj).
      destruct (N j obj Ho) as [_ B]. split.
      + destruct b; auto. exfalso.
        assert (In j (true_indices 0 hits)) by (apply true_indices_spec; rewrite Nat.sub_0_r; split; [lia|auto]).
        rewrite TI in H0. destruct H0 as [E|[]]. congruence.
      + apply B. intros [E|[]]. congruence.
  Qed.
End Exact.

(* non-vacuity: target name pattern web|api over near-miss names; a by-name entry *)
Example patch_target_example :
  let mk n := Map [("apiVersion", Scalar TStr SPlain "v1"); ("kind", Scalar TStr SPlain "ConfigMap");
                   ("metadata", Map [("name", Scalar TStr SPlain n)])] in
  let tab := parse_of [("", Some Eps); ("^(?:web|api)$", Some (anchor (Alt (lit "web") (lit "api"))))] in
  patch_targets tab (fun _ => false) simple_lsel (PTarget (mkSel (mkId (mkGvk "" "" "") "web|api" "") "" ""))
                [mk "web"; mk "web-canary"; mk "api"; mk "internal-api"] = Ok [0; 2] /\
  patch_targets tab (fun _ => false) simple_lsel (PById (mkId (mkGvk "" "v1" "ConfigMap") "api" ""))
                [mk "web"; mk "web-canary"; mk "api"; mk "internal-api"] = Ok [2] /\
  patch_targets tab (fun _ => false) simple_lsel (PById (mkId (mkGvk "" "v1" "ConfigMap") "db" ""))
                [mk "web"; mk "api"] = Err.
Proof. repeat split; vm_compute; reflexivity. Qed.
