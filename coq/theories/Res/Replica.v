(* Model of ReplicaCountTransformerPlugin.Transform (api/internal/builtins/ReplicaCountTransformer.go)
   and api/filters/replicacount. *)
From KV Require Export Res.Selector.
From KV Require Export Gen.FieldSpecs.

Record replica := mkReplica {
  rp_name : string;
  rp_count : string      (* strconv.FormatInt(Replica.Count, 10) *)
}.

Definition fs_gvk (fs : fieldspec) : gvk := mkGvk (fs_group fs) (fs_version fs) (fs_kind fs).

(* createMatcher *)
Definition replica_matcher (rp : replica) (fs : fieldspec) (id : resid) : bool :=
  String.eqb (id_name id) (rp_name rp) && gvk_selected (id_gvk id) (fs_gvk fs).

(* replicacount.Filter.set: SetEntry("", count, !!int) through FieldSetter{Name: ""} *)
Definition set_replicas (rp : replica) (n : node) : res node :=
  match n with
  | Scalar _ st _ => Ok (Scalar TInt st (rp_count rp))
  | _ => Err
  end.

(* replicacount.Filter.run on one resource *)
Definition replica_filter (rp : replica) (fs : fieldspec) (obj : node) : res node :=
  fs_apply (Some KScalar) TInt (set_replicas rp) fs obj.

(* one resource, one field spec: matched by ANY id (previous ids first, then the current one)?
   resWrangler.GetMatchingResourcesByAnyId skips nil-or-empty nodes. *)
Definition replica_hits (rp : replica) (fs : fieldspec) (obj : node) : res bool :=
  if nil_or_empty obj then Ok false else
  do prev <- resource_prev_ids obj;
  Ok (existsb (replica_matcher rp fs) (prev ++ [cur_id obj])).

(* the matching phase for one field spec over the whole map (it may panic before anything is applied) *)
Definition replica_hit_list (rp : replica) (fs : fieldspec) (rs : list node) : res (list bool) :=
  mapM (replica_hits rp fs) rs.

Fixpoint apply_hits (rp : replica) (fs : fieldspec) (rs : list node) (hits : list bool) : res (list node) :=
  match rs, hits with
  | r :: t, h :: ht =>
      do r' <- (if h then replica_filter rp fs r else Ok r);
      do t' <- apply_hits rp fs t ht;
      Ok (r' :: t')
  | _, _ => Ok rs
  end.

Fixpoint replica_loop (rp : replica) (fss : list fieldspec) (found : bool) (rs : list node) : res (bool * list node) :=
  match fss with
  | [] => Ok (found, rs)
  | fs :: t =>
      do hits <- replica_hit_list rp fs rs;
      do rs' <- apply_hits rp fs rs hits;
      replica_loop rp t (found || existsb (fun b => b) hits) rs'
  end.

(* Transform: an entry that matches nothing is an error *)
Definition replica_transform (rp : replica) (fss : list fieldspec) (rs : list node) : res (list node) :=
  do r <- replica_loop rp fss false rs;
  if fst r then Ok (snd r) else Err.
