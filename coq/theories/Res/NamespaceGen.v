(* C09: obligations over the generated tables (Gen/NsScope.v, Gen/FieldSpecs.v), theorems instantiated
   at them, examples. *)
From KV Require Import Res.Labels Res.LabelsProofs Res.Namespace Res.NamespaceProofs Res.NamespaceTree.
From KV Require Import Gen.NsScope Gen.FieldSpecs.

(* the precomputed scope table answers every well-known type the way Kubernetes does, and no key twice *)
Lemma gen_scope_table_total : scope_table_total gen_ns_scope = true.
Proof. vm_compute. reflexivity. Qed.

(* the default namespace field specs stay clear of kind, apiVersion, metadata/namespace and subjects *)
Lemma gen_namespace_rows_clear : fss_clear gen_namespace_fs = true.
Proof. vm_compute. reflexivity. Qed.

Definition default_ns (ns : string) : ns_config := mkNs ns gen_namespace_fs false RBDefault.

(* ----- the theorems for the `namespace:` directive of a kustomization (default field specs) ----- *)

Theorem moved_default : forall (ns : string) (obj obj' : node),
  meta_not_seq obj = true -> obj_cluster_scoped gen_ns_scope obj = false ->
  ns_filter gen_ns_scope (default_ns ns) obj = Ok obj' ->
  obj_namespace obj' = ns /\ gvk_same obj obj'.
Proof. intros ns obj obj'. apply (moved gen_ns_scope (default_ns ns) gen_namespace_rows_clear obj obj' eq_refl). Qed.

Theorem cluster_untouched_default : forall (ns : string) (obj obj' : node),
  obj_cluster_scoped gen_ns_scope obj = true ->
  ns_filter gen_ns_scope (default_ns ns) obj = Ok obj' ->
  get_at meta_ns_path obj' = get_at meta_ns_path obj /\ gvk_same obj obj'.
Proof. intros ns obj obj'. apply (cluster_untouched gen_ns_scope (default_ns ns) gen_namespace_rows_clear). Qed.

Theorem subjects_default_default : forall (ns : string) (obj obj' : node) (es : list node),
  is_role_binding (obj_kind obj) = true ->
  get_at ["subjects"] obj = Some (Seq es) ->
  ns_filter gen_ns_scope (default_ns ns) obj = Ok obj' ->
  exists es', get_at ["subjects"] obj' = Some (Seq es') /\
              Forall2 (subject_rel (default_ns ns) "name" "default") es es'.
Proof.
  intros ns obj obj' es. apply (subjects_default gen_ns_scope (default_ns ns) gen_namespace_rows_clear eq_refl obj obj' es eq_refl).
Qed.

(* the transformer over a whole resource map *)
Theorem transform_default : forall (ns : string) (rs out : list node),
  ns <> "" ->
  ns_transform gen_ns_scope (default_ns ns) rs = Ok out ->
  Forall2 (fun r r' =>
             ns_filter gen_ns_scope (default_ns ns) r = Ok r' /\
             (obj_cluster_scoped gen_ns_scope r = true -> get_at meta_ns_path r' = get_at meta_ns_path r) /\
             (obj_cluster_scoped gen_ns_scope r = false -> meta_not_seq r = true -> obj_namespace r' = ns)) rs out /\
  ids_distinct gen_ns_scope out /\ List.length out = List.length rs.
Proof.
  intros ns rs out Hns H.
  assert (Hn : String.eqb (ns_value (default_ns ns)) "" = false).
  { cbn. destruct (String.eqb ns "") eqn:E; [apply String.eqb_eq in E; congruence|reflexivity]. }
  destruct (ns_transform_spec gen_ns_scope (default_ns ns) rs out Hn H) as (HF & Hd & Hl).
  split; [|split; auto].
  eapply Forall2_impl; [|exact HF]. intros r r' Hr. split; [exact Hr|]. split.
  - intros Hc. apply (cluster_untouched_default ns r r' Hc Hr).
  - intros Hc Hm. apply (moved_default ns r r' Hm Hc Hr).
Qed.

Theorem outermost_wins_default : forall (ds : list string) (obj obj' : node),
  meta_not_seq obj = true -> obj_cluster_scoped gen_ns_scope obj = false ->
  outermost ds <> "" -> ns_chain gen_ns_scope gen_namespace_fs ds obj = Ok obj' ->
  obj_namespace obj' = outermost ds.
Proof. apply (outermost_wins gen_ns_scope gen_namespace_fs gen_namespace_rows_clear). Qed.

(* whole trees: every output resource of a build comes from a resource of some layer, and if that resource is
   not cluster-scoped it sits in the namespace of the outermost directive between its layer and the root *)
Theorem build_outermost_wins : forall (l : nlayer) (out : list node),
  accumulate_ns gen_ns_scope gen_namespace_fs l = Ok out ->
  Forall (fun o => exists r ch, nreaches l r ch /\
                   (meta_not_seq r = true -> obj_cluster_scoped gen_ns_scope r = false ->
                    outermost ch <> "" -> obj_namespace o = outermost ch)) out.
Proof.
  intros l out H. pose proof (ns_build_outputs_are_chain_images gen_ns_scope gen_namespace_fs l out H) as HF.
  eapply Forall_impl; [|exact HF]. intros o (r & ch & Hr & Hc). exists r, ch. split; [exact Hr|].
  intros Hm Hcs Ho. apply (outermost_wins_default ch r o Hm Hcs Ho Hc).
Qed.

(* ----- examples (non-vacuity and the error branch) ----- *)
Definition sc (s : string) : node := Scalar TStr SPlain s.
Definition ex_obj (av kind name : string) (extra_meta : list (string * node)) (rest : list (string * node)) : node :=
  Map ([("apiVersion", sc av); ("kind", sc kind); ("metadata", Map (("name", sc name) :: extra_meta))] ++ rest).

Example ex_moved :
  let d := ex_obj "apps/v1" "Deployment" "web" [("namespace", sc "old")] [] in
  meta_not_seq d = true /\ obj_cluster_scoped gen_ns_scope d = false /\
  exists d', ns_filter gen_ns_scope (default_ns "prod") d = Ok d' /\ obj_namespace d' = "prod".
Proof. cbv zeta. repeat split; try (vm_compute; reflexivity). eexists. split; vm_compute; reflexivity. Qed.

Example ex_cluster :
  let r := ex_obj "rbac.authorization.k8s.io/v1" "ClusterRole" "admin" [] [] in
  obj_cluster_scoped gen_ns_scope r = true /\
  ns_filter gen_ns_scope (default_ns "prod") r = Ok r.
Proof. cbv zeta. split; vm_compute; reflexivity. Qed.

(* two ConfigMaps named alike in different namespaces collide after the move: the transformer fails *)
Example ex_collision :
  ns_transform gen_ns_scope (default_ns "prod")
    [ex_obj "v1" "ConfigMap" "cm" [("namespace", sc "a")] []; ex_obj "v1" "ConfigMap" "cm" [("namespace", sc "b")] []] = Err.
Proof. vm_compute. reflexivity. Qed.

Example ex_subjects :
  let b := ex_obj "rbac.authorization.k8s.io/v1" "RoleBinding" "rb" []
             [("subjects", Seq [Map [("kind", sc "ServiceAccount"); ("name", sc "default")];
                                Map [("kind", sc "ServiceAccount"); ("name", sc "other"); ("namespace", sc "x")]])] in
  exists b', ns_filter gen_ns_scope (default_ns "prod") b = Ok b' /\
             get_at ["subjects"] b' =
             Some (Seq [Map [("kind", sc "ServiceAccount"); ("name", sc "default"); ("namespace", sc "prod")];
                        Map [("kind", sc "ServiceAccount"); ("name", sc "other"); ("namespace", sc "x")]]).
Proof. cbv zeta. eexists. split; vm_compute; reflexivity. Qed.
