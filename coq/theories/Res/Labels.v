(* Model of
     api/filters/labels/labels.go, api/filters/annotations/annotations.go  (label_filter),
     api/filters/filtersutil.SetEntry                                      (set_entry),
     api/types/fieldspec.go: effectivelyEquals / index / MergeOne / MergeAll,
     kyaml/resid/gvk.go: Gvk.IsSelected,
     api/internal/target/kusttarget_configplugin.go: the LabelTransformer and
       AnnotationsTransformer configurators                                (label_fs, label_transformers),
     api/internal/builtins/{Label,Annotations}Transformer.go               (run_label_transformer),
   and of the way layers compose (accumulateTarget: bases first, then this layer's transformers
   over everything accumulated).
   filtersutil.SetEntry builds a fresh value node on every invocation (since /repo f5952a1), so no two
   locations of a document share a yaml.Node and the copying semantics below is exact for whole builds.
   Definitions only; proofs live in Res/LabelsProofs.v. *)
From KV Require Export Yaml.FieldSpec.

(* ---------- yaml.SortedMapKeys over a Go map[string]string ----------
   A Go map is given as an association list (the harness sends unique keys);
   insertion sort with Go's byte-wise string order. *)
Definition pairs := list (string * string).

Fixpoint insert_kv (kv : string * string) (l : pairs) : pairs :=
  match l with
  | [] => [kv]
  | x :: t => if String.ltb (fst kv) (fst x) then kv :: x :: t else x :: insert_kv kv t
  end.
Definition sort_pairs (l : pairs) : pairs := fold_right insert_kv [] l.

Section WithOracle.
  (* yaml.IsValueNonString (go-yaml v2 resolution), used by FieldSetter to force quotes *)
  Variable nonstr : string -> bool.

  (* filtersutil.SetEntry(k, v, "!!str"): FieldSetter{Name: k, Value: scalar v tagged !!str} *)
  Definition set_entry (k v : string) (n : node) : res node :=
    set_field nonstr k (Some (Scalar TStr SPlain v)) false n.

  (* one fsslice.Filter run: CreateKind = MappingNode, CreateTag = "!!map" *)
  Definition key_pass (fss : list fieldspec) (kv : string * string) (obj : node) : res node :=
    fsslice_apply (Some KMap) TOther (set_entry (fst kv) (snd kv)) fss obj.

  Fixpoint keys_pass (fss : list fieldspec) (kvs : pairs) (obj : node) : res node :=
    match kvs with
    | [] => Ok obj
    | kv :: t => do o <- key_pass fss kv obj; keys_pass fss t o
    end.

  (* labels.Filter / annotations.Filter on one node: sorted keys, one fsslice pass per key *)
  Definition label_filter (labels : pairs) (fss : list fieldspec) (obj : node) : res node :=
    keys_pass fss (sort_pairs labels) obj.

  (* LabelTransformerPlugin.Transform / AnnotationsTransformerPlugin.Transform over a resmap:
     nothing at all when the map is empty *)
  Definition run_label_transformer (labels : pairs) (fss : list fieldspec) (rs : list node)
    : res (list node) :=
    match labels with
    | [] => Ok rs
    | _ => mapM (label_filter labels fss) rs
    end.
End WithOracle.

(* ---------- types.FsSlice merging ---------- *)

(* x.Gvk.IsSelected(&sel.Gvk): empty selector fields are wildcards *)
Definition gvk_selected (x sel : fieldspec) : bool :=
  (String.eqb (fs_group sel) "" || String.eqb (fs_group x) (fs_group sel)) &&
  (String.eqb (fs_version sel) "" || String.eqb (fs_version x) (fs_version sel)) &&
  (String.eqb (fs_kind sel) "" || String.eqb (fs_kind x) (fs_kind sel)).

(* x.effectivelyEquals(other) *)
Definition effectively_equals (x other : fieldspec) : bool :=
  gvk_selected x other && String.eqb (fs_path x) (fs_path other).

(* FsSlice.index: first element effectively equal to fs *)
Fixpoint fs_index (s : list fieldspec) (fs : fieldspec) : option fieldspec :=
  match s with
  | [] => None
  | x :: t => if effectively_equals x fs then Some x else fs_index t fs
  end.

Definition merge_one (s : list fieldspec) (x : fieldspec) : res (list fieldspec) :=
  match fs_index s x with
  | Some y => if Bool.eqb (fs_create y) (fs_create x) then Ok s else Err
  | None => Ok (s ++ [x])%list
  end.

Fixpoint merge_all (s incoming : list fieldspec) : res (list fieldspec) :=
  match incoming with
  | [] => Ok s
  | x :: t => do s' <- merge_one s x; merge_all s' t
  end.

(* ---------- kustomization directives and transformer configuration ---------- *)

(* types.Label *)
Record label_dir := mkLD {
  ld_pairs : pairs;
  ld_selectors : bool;          (* includeSelectors *)
  ld_templates : bool;          (* includeTemplates *)
  ld_fields : list fieldspec    (* fields *)
}.

(* the label / annotation part of one kustomization file *)
Record dirs := mkDirs {
  d_labels : list label_dir;    (* labels: *)
  d_common_labels : pairs;      (* commonLabels: *)
  d_common_annos : pairs        (* commonAnnotations: *)
}.

(* the part of builtinconfig.TransformerConfig used here *)
Record tconfig := mkTc {
  tc_common_labels : list fieldspec;
  tc_labels : list fieldspec;
  tc_template_labels : list fieldspec;
  tc_common_annotations : list fieldspec
}.

Definition metadata_labels_fs : fieldspec := mkFs "" "" "" "metadata/labels" true.

(* field specs of the LabelTransformer configured for one [labels] entry *)
Definition label_fs (tc : tconfig) (e : label_dir) : res (list fieldspec) :=
  do fss <- merge_all (ld_fields e) (tc_labels tc);
  if ld_selectors e then merge_all fss (tc_common_labels tc)
  else
    do fss' <- (if ld_templates e then merge_all fss (tc_template_labels tc) else Ok fss);
    merge_one fss' metadata_labels_fs.

(* transformerConfigurators[LabelTransformer]: (labels, field specs) per configured plugin, in order *)
Definition label_transformers (tc : tconfig) (d : dirs) : res (list (pairs * list fieldspec)) :=
  match d_labels d, d_common_labels d with
  | [], [] => Ok []
  | _, _ =>
      do l <- mapM (fun e => do fss <- label_fs tc e; Ok (ld_pairs e, fss)) (d_labels d);
      Ok (l ++ [(d_common_labels d, tc_common_labels tc)])%list
  end.

Section Build.
  Variable nonstr : string -> bool.
  Variable tc : tconfig.


  Fixpoint run_transformers (lts : list (pairs * list fieldspec)) (rs : list node) : res (list node) :=
    match lts with
    | [] => Ok rs
    | (p, fss) :: t => do rs' <- run_label_transformer nonstr p fss rs; run_transformers t rs'
    end.

  (* the label and annotation transformers of one kustomization, in the builtin order
     (LabelTransformer before AnnotationsTransformer), over everything accumulated so far *)
  Definition apply_dirs (d : dirs) (rs : list node) : res (list node) :=
    do lts <- label_transformers tc d;
    do rs1 <- run_transformers lts rs;
    run_label_transformer nonstr (d_common_annos d) (tc_common_annotations tc) rs1.

  (* one resource through the directives of its layer chain, innermost layer first *)
  Fixpoint apply_chain (ds : list dirs) (obj : node) : res node :=
    match ds with
    | [] => Ok obj
    | d :: t => do l <- apply_dirs d [obj];
                match l with
                | [o] => apply_chain t o
                | _ => Err
                end
    end.

  (* a kustomization: its directives, the resources of its own files, its bases
     (the harness lists bases before files in [resources:]) *)
  Inductive layer := Layer (d : dirs) (own : list node) (bases : list layer).

  Fixpoint accumulate (l : layer) : res (list node) :=
    match l with
    | Layer d own bases =>
        do bs <- (fix go (bl : list layer) : res (list node) :=
                    match bl with
                    | [] => Ok []
                    | b :: t => do x <- accumulate b; do y <- go t; Ok (x ++ y)%list
                    end) bases;
        apply_dirs d (bs ++ own)%list
    end.

  Definition build (l : layer) : res (list node) := accumulate l.
End Build.

(* ---------- reading label maps back (the observables of the property) ---------- *)

(* follow mapping fields (first field with the name, as kyaml does) *)
Fixpoint get_at (path : list string) (obj : node) : option node :=
  match path with
  | [] => Some obj
  | p :: rest =>
      match obj with
      | Map kvs => match find_field p kvs with Some x => get_at rest x | None => None end
      | _ => None
      end
  end.

(* a label map as ordered (key, value text) pairs; anything that is not a mapping reads as empty *)
Definition lmap (o : option node) : pairs :=
  match o with
  | Some (Map kvs) => map (fun kv => (fst kv, node_value (snd kv))) kvs
  | _ => []
  end.

Definition labels_at (path : list string) (obj : node) : pairs := lmap (get_at path obj).

Fixpoint lookup (k : string) (m : pairs) : option string :=
  match m with
  | [] => None
  | (k', v) :: t => if String.eqb k' k then Some v else lookup k t
  end.

(* every requirement of the selector [s] is met by the label map [l] (matchLabels semantics) *)
Definition sub (s l : pairs) : Prop := forall k v, lookup k s = Some v -> lookup k l = Some v.
Definition subb (s l : pairs) : bool :=
  forallb (fun kv => match lookup (fst kv) s, lookup (fst kv) l with
                     | Some v, Some v' => String.eqb v v'
                     | Some _, None => false
                     | None, _ => true
                     end) s.

(* FieldSetter on a label map, read through lmap: replace the first entry with the key, else append *)
Fixpoint upd (k v : string) (m : pairs) : pairs :=
  match m with
  | [] => [(k, v)]
  | (k', v') :: t => if String.eqb k' k then (k', v) :: t else (k', v') :: upd k v t
  end.
Definition upd_all (l m : pairs) : pairs := fold_left (fun acc kv => upd (fst kv) (snd kv) acc) l m.

(* ---------- where Kubernetes reads selectors and pod labels (API facts, not kustomize tables) ---------- *)

(* kind, own selector path (matchLabels form or the v1 map form), pod-template label path *)
Definition k8s_workloads : list (string * option string * string) := [
  ("Deployment", Some "spec/selector/matchLabels", "spec/template/metadata/labels");
  ("ReplicaSet", Some "spec/selector/matchLabels", "spec/template/metadata/labels");
  ("DaemonSet", Some "spec/selector/matchLabels", "spec/template/metadata/labels");
  ("StatefulSet", Some "spec/selector/matchLabels", "spec/template/metadata/labels");
  ("Job", Some "spec/selector/matchLabels", "spec/template/metadata/labels");
  ("CronJob", Some "spec/jobTemplate/spec/selector/matchLabels", "spec/jobTemplate/spec/template/metadata/labels");
  ("ReplicationController", Some "spec/selector", "spec/template/metadata/labels");
  ("Pod", None, "metadata/labels")
].

(* selecting kinds that are not workloads: kind, pod selector path *)
Definition k8s_selectors : list (string * string) := [
  ("Service", "spec/selector");
  ("NetworkPolicy", "spec/podSelector/matchLabels");
  ("PodDisruptionBudget", "spec/selector/matchLabels")
].

(* the apiVersion each of these kinds has in a current cluster (used for table totality) *)
Definition k8s_canonical_gv : list (string * (string * string)) := [
  ("Deployment", ("apps", "v1")); ("ReplicaSet", ("apps", "v1")); ("DaemonSet", ("apps", "v1"));
  ("StatefulSet", ("apps", "v1")); ("Job", ("batch", "v1")); ("CronJob", ("batch", "v1"));
  ("ReplicationController", ("", "v1")); ("Pod", ("", "v1"));
  ("Service", ("", "v1")); ("NetworkPolicy", ("networking.k8s.io", "v1"));
  ("PodDisruptionBudget", ("policy", "v1"))
].

Fixpoint assoc3 (k : string) (l : list (string * option string * string)) : option (option string * string) :=
  match l with
  | [] => None
  | (k', a, b) :: t => if String.eqb k' k then Some (a, b) else assoc3 k t
  end.
Fixpoint assoc2 {A} (k : string) (l : list (string * A)) : option A :=
  match l with
  | [] => None
  | (k', a) :: t => if String.eqb k' k then Some a else assoc2 k t
  end.

(* own selector path of an object (as a kustomize path string), by kind *)
Definition sel_path_of (obj : node) : option string :=
  match assoc3 (obj_kind obj) k8s_workloads with
  | Some (s, _) => s
  | None => assoc2 (obj_kind obj) k8s_selectors
  end.
(* pod label path of a workload *)
Definition tmpl_path_of (obj : node) : option string :=
  match assoc3 (obj_kind obj) k8s_workloads with
  | Some (_, t) => Some t
  | None => None
  end.

Definition opt_labels_at (p : option string) (obj : node) : pairs :=
  match p with
  | Some s => labels_at (path_splitter s) obj
  | None => []
  end.

(* selector requirements of a selecting object / pod labels of a workload *)
Definition sel_of (obj : node) : pairs := opt_labels_at (sel_path_of obj) obj.
Definition pod_labels_of (obj : node) : pairs := opt_labels_at (tmpl_path_of obj) obj.
Definition meta_labels_of (obj : node) : pairs := labels_at ["metadata"; "labels"] obj.
Definition meta_annos_of (obj : node) : pairs := labels_at ["metadata"; "annotations"] obj.

(* [s] selects the pods of workload [w] (matchLabels only; matchExpressions are never touched by kustomize) *)
Definition selects (s w : node) : Prop := sub (sel_of s) (pod_labels_of w).
Definition selectsb (s w : node) : bool := subb (sel_of s) (pod_labels_of w).
