(* Proofs about KV.Res.Image. *)
From KV Require Import Base.Regex Base.RegexProofs Res.Image.

Ltac inv H := inversion H; subst; clear H.

(* ---------- obligations over the generated source pieces ---------- *)
Lemma gen_image_pattern_shape :
  gen_image_match_pattern =
  [PLit "^"; PQuote "t"; PLit "(:[a-zA-Z0-9_.{}-]*)?(@sha256:[a-zA-Z0-9_.{}-]*)?$"].
Proof. reflexivity. Qed.

(* the compile error is checked, and makes IsImageMatched answer false *)
Lemma gen_image_compile_error_handled :
  gen_image_compile_error_ignored = false /\ gen_image_compile_error_returns_false = true.
Proof. split; reflexivity. Qed.

Lemma gen_legacy_fields_shape :
  gen_legacy_image_fields = ["containers"; "initContainers"] /\
  gen_legacy_skip_kinds = ["CustomResourceDefinition"] /\
  gen_fsfilter_skip_kinds = ["CustomResourceDefinition"].
Proof. repeat split. Qed.

(* every default images field spec ends in the field "image" *)
Lemma gen_images_fs_leaf :
  forallb (fun fs => has_suffix "/image" (fs_path fs)) gen_images_fs = true.
Proof. vm_compute. reflexivity. Qed.

Definition img_suffix : string := "(:[a-zA-Z0-9_.{}-]*)?(@sha256:[a-zA-Z0-9_.{}-]*)?$".

Lemma img_pattern_text t : img_pattern t = Some ("^" ++ quote_meta t ++ img_suffix).
Proof. unfold img_pattern. rewrite gen_image_pattern_shape. cbn. reflexivity. Qed.

(* ---------- take / drop / index_of ---------- *)
Lemma take_drop n : forall s, take n s ++ drop n s = s.
Proof. induction n; intros [|c s]; cbn; auto. rewrite IHn; auto. Qed.

Lemma drop_drop a : forall b s, drop a (drop b s) = drop (a + b) s.
Proof.
  intros b; revert a. induction b; intros a s.
  - rewrite Nat.add_0_r; reflexivity.
  - destruct s as [|c s]; cbn.
    + destruct a; cbn; rewrite ?Nat.add_succ_r; reflexivity.
    + rewrite Nat.add_succ_r. cbn. apply IHb.
Qed.

Lemma index_of_drop c : forall s i, index_of c s = Some i -> drop i s = String c (drop (S i) s).
Proof.
  induction s as [|a s IH]; cbn; intros i H; [discriminate|].
  destruct (Ascii.eqb a c) eqn:E.
  - inv H. apply Ascii.eqb_eq in E; subst. reflexivity.
  - destruct (index_of c s) as [j|] eqn:F; cbn in H; inv H. cbn. apply IH; auto.
Qed.

(* the reference text with explicit separators *)
Definition join_ref (n t d : string) (ct cd : bool) : string :=
  n ++ (if ct then ":" ++ t else "") ++ (if cd then "@" ++ d else "").

Lemma trim_colon s : trim_prefix ":" (String ":" s) = s.
Proof. reflexivity. Qed.
Lemma trim_at s : trim_prefix "@" (String "@" s) = s.
Proof. reflexivity. Qed.

(* image.Split loses nothing: the input is name [":" tag] ["@" digest], and a separator that is
   reported absent comes with an empty component *)
Lemma split_image_join s :
  forall n t d, split_image s = (n, t, d) ->
  exists ct cd : bool, s = join_ref n t d ct cd /\ (ct = false -> t = "") /\ (cd = false -> d = "").
Proof.
  intros n t d. unfold split_image.
  set (slash := match index_of "/" s with Some (S k) => S k | _ => 0 end).
  destruct (index_of "@" (drop slash s)) as [di|] eqn:Ed;
    destruct (index_of ":" (drop slash s)) as [ci|] eqn:Ec.
  - (* both *)
    apply index_of_drop in Ed. apply index_of_drop in Ec.
    rewrite drop_drop in Ed, Ec.
    destruct (Nat.ltb di ci) eqn:L.
    + intros H; inv H. exists false, true. unfold join_ref. rewrite Ed, trim_at.
      split; [|split; auto; discriminate].
      rewrite <- (take_drop (di + slash) s) at 1. rewrite Ed. reflexivity.
    + apply Nat.ltb_ge in L. intros H; inv H.
      set (c' := ci + slash) in *. set (d' := di + slash) in *.
      assert (Hd : drop (d' - c') (drop c' s) = drop d' s).
      { rewrite drop_drop. f_equal. unfold c', d'. lia. }
      assert (Hs : s = take c' s ++ take (d' - c') (drop c' s) ++ drop d' s).
      { rewrite <- Hd, take_drop, take_drop; reflexivity. }
      rewrite Ed in Hs |- *. rewrite trim_at.
      rewrite Ec in Hs |- *.
      destruct (d' - c') as [|k] eqn:K; cbn [take] in Hs |- *.
      * exists false, true. unfold join_ref. split; [exact Hs|]. split; auto; discriminate.
      * rewrite trim_colon. exists true, true. unfold join_ref. split; [|split; discriminate].
        exact Hs.
  - (* digest only *)
    apply index_of_drop in Ed. rewrite drop_drop in Ed.
    intros H; inv H. exists false, true. unfold join_ref. rewrite Ed, trim_at.
    split; [|split; auto; discriminate].
    rewrite <- (take_drop (di + slash) s) at 1. rewrite Ed. reflexivity.
  - (* tag only *)
    apply index_of_drop in Ec. rewrite drop_drop in Ec.
    intros H; inv H. exists true, false. unfold join_ref. rewrite Ec, trim_colon.
    split; [|split; auto; discriminate].
    rewrite <- (take_drop (ci + slash) s) at 1. rewrite Ec. cbn. rewrite app_empty_r. reflexivity.
  - intros H; inv H. exists false, false. unfold join_ref. cbn. rewrite app_empty_r. auto.
Qed.

(* ---------- exactness of IsImageMatched for literal entry names ---------- *)
Definition tag_part (x : string) : Prop :=
  x = "" \/ exists y, x = ":" ++ y /\ all_in tag_cls y = true.
Definition digest_part (x : string) : Prop :=
  x = "" \/ exists y, x = "@sha256:" ++ y /\ all_in tag_cls y = true.

(* "s is the entry name, optionally followed by :tag and by @sha256:digest" *)
Definition image_ref_of (t s : string) : Prop :=
  exists tag dig, s = t ++ tag ++ dig /\ tag_part tag /\ digest_part dig.

Lemma M_sep_part sep b e w :
  M (Opt (Group (Cat (lit sep) (Star (Cls tag_cls))))) b e w <->
  (w = "" \/ exists y, w = sep ++ y /\ all_in tag_cls y = true).
Proof.
  unfold Group. rewrite M_Opt, M_Cat_iff. split.
  - intros [(w1 & w2 & -> & H1 & H2)| ->]; auto.
    apply M_lit in H1; subst. apply M_star_cls in H2. right; eauto.
  - intros [-> | (y & -> & H)]; auto. left. exists sep, y. split; auto.
    split; [apply M_lit; auto|apply M_star_cls; auto].
Qed.

Lemma matches_img_re t s : matches (img_re t) s = true <-> image_ref_of t s.
Proof.
  rewrite matches_spec. unfold img_re, image_ref_of. split.
  - intros (w0 & w1 & w2 & E & H).
    apply M_Cat_inv in H; destruct H as (u1 & u2 & E1 & H1 & H2).
    apply M_Bol_inv in H1; destruct H1 as [-> Hb]. apply emp_true in Hb; subst w0.
    apply M_Cat_inv in H2; destruct H2 as (v1 & v2 & E2 & H3 & H4).
    apply M_lit in H3; subst v1.
    apply M_Cat_inv in H4; destruct H4 as (x1 & x2 & E3 & H5 & H6).
    apply M_sep_part in H5.
    apply M_Cat_inv in H6; destruct H6 as (y1 & y2 & E4 & H7 & H8).
    apply M_sep_part in H7.
    apply M_Eol_inv in H8; destruct H8 as [-> He]. apply emp_true in He; subst w2.
    subst. cbn. rewrite !app_empty_r. exists x1, y1. split; auto.
  - intros (tag & dig & -> & Ht & Hd).
    exists "", (t ++ tag ++ dig), "". split; [cbn; rewrite app_empty_r; auto|].
    change (t ++ tag ++ dig) with ("" ++ (t ++ tag ++ dig)).
    apply MCat; [constructor|]. apply MCat; [apply M_lit; auto|].
    apply MCat; [apply M_sep_part; exact Ht|].
    rewrite <- (app_empty_r dig). apply MCat; [apply M_sep_part; exact Hd|].
    cbn. constructor.
Qed.

Section Exact.
  Variable parse : string -> option re.
  (* Go's parser on the pattern the code builds — "^" ++ QuoteMeta(t) ++ suffix — yields an AST that
     matches like [img_re t] (the quoted name is read back as the literal t). The correspondence
     compares the AST the harness ships with img_re for EVERY entry name it generates (KImgAst;
     ast_check_sound turns that check into this hypothesis). *)
  Hypothesis parse_quoted : forall t,
    exists r, parse ("^" ++ quote_meta t ++ img_suffix) = Some r /\ forall s, matches r s = matches (img_re t) s.

  (* for EVERY entry name: matched exactly the references name[:tag][@sha256:digest] of that name *)
  Theorem image_exact s t : is_matched parse s t = Ok true <-> image_ref_of t s.
  Proof.
    unfold is_matched. rewrite img_pattern_text.
    destruct (parse_quoted t) as (r & -> & Hr). rewrite Hr. rewrite <- matches_img_re.
    split; intros H; [inv H; auto|rewrite H; auto].
  Qed.

  (* in particular the match never panics and never fails *)
  Corollary image_match_total s t : exists b, is_matched parse s t = Ok b.
  Proof.
    unfold is_matched. rewrite img_pattern_text.
    destruct (parse_quoted t) as (r & -> & _). eauto.
  Qed.
End Exact.

(* a name whose pattern does not compile (impossible after QuoteMeta, but the code handles it): no match, no panic *)
Lemma image_compile_error_is_false :
  forall (parse : string -> option re) s t p,
    img_pattern t = Some p -> parse p = None -> is_matched parse s t = Ok false.
Proof.
  intros parse s t p Hp Hn. unfold is_matched. rewrite Hp, Hn.
  destruct gen_image_compile_error_handled as [-> ->]. reflexivity.
Qed.

(* non-vacuity: a literal name, a reference of it, and a near miss *)
Example image_ref_example : literal_text "reg/x-1" = true /\ image_ref_of "x" "x:1@sha256:ab".
Proof.
  split; [reflexivity|]. exists ":1", "@sha256:ab". split; [reflexivity|].
  split; right; [exists "1"|exists "ab"]; split; reflexivity.
Qed.

(* ---------- regression witnesses of the defects repaired by /repo d3b6ede ---------- *)
(* the entry x.y no longer matches the image xzy:1, the entry a+b matches the image a+b:1, and the
   entry a( matches a(:1 — with the ASTs Go's parser yields for the quoted patterns *)
Definition quoted_tab : string -> option re :=
  parse_of [("^x\.y" ++ img_suffix, Some (img_re "x.y"));
            ("^a\+b" ++ img_suffix, Some (img_re "a+b"));
            ("^a\(" ++ img_suffix, Some (img_re "a("))].

Lemma image_regressions :
  is_matched quoted_tab "xzy:1" "x.y" = Ok false /\
  is_matched quoted_tab "x.y:1" "x.y" = Ok true /\
  is_matched quoted_tab "a+b:1" "a+b" = Ok true /\
  is_matched quoted_tab "a(:1" "a(" = Ok true /\
  is_matched quoted_tab "a:1" "a(" = Ok false.
Proof. repeat split; vm_compute; reflexivity. Qed.

(* ---------- composition table of SetImageValue ---------- *)
Definition nonempty (s : string) : Prop := s <> "".

Lemma eqb_empty_false s : s <> "" -> String.eqb s "" = false.
Proof. intros H. apply String.eqb_neq; auto. Qed.

Lemma compose_table im v n t d :
  split_image v = (n, t, d) ->
  let n' := if String.eqb (im_new_name im) "" then n else im_new_name im in
  (im_new_tag im <> "" -> im_digest im <> "" ->
     compose im v = build_image n' (im_new_tag im) (im_digest im)) /\
  (im_new_tag im <> "" -> im_digest im = "" ->
     compose im v = build_image n' (im_new_tag im) "") /\
  (im_new_tag im = "" -> im_digest im <> "" ->
     compose im v = build_image n' "" (im_digest im)) /\
  (im_new_tag im = "" -> im_digest im = "" -> im_tag_suffix im <> "" ->
     compose im v = build_image n' (t ++ im_tag_suffix im) "") /\
  (im_new_tag im = "" -> im_digest im = "" -> im_tag_suffix im = "" ->
     compose im v = build_image n' t d).
Proof.
  intros Hs n'. unfold compose. rewrite Hs. subst n'.
  repeat split; intros;
    repeat match goal with
           | H : ?x <> "" |- _ => rewrite (eqb_empty_false x H)
           | H : ?x = "" |- _ => rewrite H
           end; cbn; reflexivity.
Qed.

(* a matched image whose entry changes nothing is rebuilt from its own parts: unchanged as soon as
   no separator stands before an empty component *)
Lemma build_of_join n t d ct cd :
  (ct = false -> t = "") -> (cd = false -> d = "") ->
  (ct = true -> t <> "") -> (cd = true -> d <> "") ->
  build_image n t d = join_ref n t d ct cd.
Proof.
  intros A B C D. unfold build_image, join_ref.
  destruct ct, cd;
    rewrite ?(eqb_empty_false t (C eq_refl)), ?(eqb_empty_false d (D eq_refl)),
            ?(A eq_refl), ?(B eq_refl); cbn; reflexivity.
Qed.

(* ---------- the transformer applies an entry twice (legacy filter, then field-spec filter) ---------- *)
(* the proposed repair (a Visited set shared by the two filters) was declined: the source still runs
   both filters independently *)
Lemma gen_image_transform_independent :
  gen_image_transform_filters = 2 /\ gen_image_transform_shares_visited = false.
Proof. split; reflexivity. Qed.

Definition twice_doc : node :=
  Map [("kind", Scalar TStr SPlain "Pod");
       ("spec", Map [("containers", Seq [Map [("name", Scalar TStr SPlain "c");
                                              ("image", Scalar TStr SPlain "x:1")]])])].
Definition twice_entry : image := mkImage "x" "" "-s" "" "".
Definition twice_parse : string -> option re :=
  parse_of [("^x(:[a-zA-Z0-9_.{}-]*)?(@sha256:[a-zA-Z0-9_.{}-]*)?$", Some (img_re "x"))].

(* one application gives x:1-s; the transformer gives x:1-s-s *)
Lemma image_suffix_twice_lemma :
  update_value twice_parse twice_entry "x:1" = Ok (Some "x:1-s") /\
  image_transform twice_parse twice_entry gen_images_fs [twice_doc] =
  Ok [Map [("kind", Scalar TStr SPlain "Pod");
           ("spec", Map [("containers", Seq [Map [("name", Scalar TStr SPlain "c");
                                                  ("image", Scalar TNone SPlain "x:1-s-s")]])])]].
Proof. split; vm_compute; reflexivity. Qed.

(* the transformer is the legacy filter over every resource followed by the field-spec filter over every resource *)
Lemma image_transform_sequential parse im fss rs :
  image_transform parse im fss rs =
  (do rs1 <- mapM (legacy_filter parse im) rs; mapM (image_fs_filter parse im fss) rs1).
Proof. unfold image_transform. destruct gen_image_transform_independent as [_ ->]. reflexivity. Qed.
