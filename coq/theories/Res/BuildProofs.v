(* Provenance through the rename model: every resource the layers accumulate is its leaf document with the
   renaming transformers of the kustomizations on its way (innermost first) applied, then the hash. *)
From KV Require Import Res.Rename Res.RenameProofs Res.FsFacts.

(* ---------- induction on layerings (nested through list and item) ---------- *)
Section LayerInd.
  Variable P : layer -> Prop.
  Definition sub_layers_ok (it : item layer) : Prop := match it with ISub l => P l | _ => True end.
  Hypothesis H : forall ns pfx sfx touches items, Forall sub_layers_ok items -> P (Layer ns pfx sfx touches items).

  Fixpoint layer_ind' (l : layer) : P l :=
    match l with
    | Layer ns pfx sfx touches items =>
        H ns pfx sfx touches items
          ((fix go (its : list (item layer)) : Forall sub_layers_ok its :=
              match its with
              | [] => @Forall_nil (item layer) sub_layers_ok
              | it :: t =>
                  @Forall_cons (item layer) sub_layers_ok it t
                    (match it as i return sub_layers_ok i with
                     | IRes _ => I
                     | IGen _ => I
                     | ISub l' => layer_ind' l'
                     end) (go t)
              end) items)
    end.
End LayerInd.

(* the renaming transformers one kustomization runs, in the order of the builtin plugin list *)
Definition layer_steps (ns pfx sfx : string) : list rename_step :=
  ((if String.eqb ns "" then [] else [SNamespace ns]) ++
   (if String.eqb pfx "" then [] else [SPrefix pfx]) ++
   (if String.eqb sfx "" then [] else [SSuffix sfx]))%list.

Fixpoint items_prov (prov : layer -> list (resource * list rename_step)) (its : list (item layer))
  : list (resource * list rename_step) :=
  match its with
  | [] => []
  | IRes r :: t => (r, []) :: items_prov prov t
  | IGen r :: t => (r, []) :: items_prov prov t
  | ISub sub :: t => (prov sub ++ items_prov prov t)%list
  end.

(* the patch entries of one kustomization: a selected resource gets the step STouch *)
Fixpoint touch_prov (sel : list bool) (prov : list (resource * list rename_step))
  : list (resource * list rename_step) :=
  match prov, sel with
  | p :: t, b :: sel' => (fst p, if b then (snd p ++ [STouch])%list else snd p) :: touch_prov sel' t
  | _, _ => prov
  end.
Definition touches_prov (touches : list (list bool)) (prov : list (resource * list rename_step))
  : list (resource * list rename_step) :=
  fold_left (fun pv sel => touch_prov sel pv) touches prov.

(* every leaf of a layering with the transformers on its way, in accumulation order *)
Fixpoint layer_prov (l : layer) : list (resource * list rename_step) :=
  match l with
  | Layer ns pfx sfx touches items =>
      map (fun p => (fst p, (snd p ++ layer_steps ns pfx sfx)%list))
        (touches_prov touches
          ((fix go (its : list (item layer)) : list (resource * list rename_step) :=
              match its with
              | [] => []
              | IRes r :: t => (r, []) :: go t
              | IGen r :: t => (r, []) :: go t
              | ISub sub :: t => (layer_prov sub ++ go t)%list
              end) items))
  end.

Lemma layer_prov_eq ns pfx sfx touches items :
  layer_prov (Layer ns pfx sfx touches items) =
  map (fun p => (fst p, (snd p ++ layer_steps ns pfx sfx)%list)) (touches_prov touches (items_prov layer_prov items)).
Proof.
  cbn [layer_prov]. do 2 f_equal. induction items as [|[r|r|sub] t IH]; cbn [items_prov]; try rewrite IH; reflexivity.
Qed.

(* ... and the content hash at the top *)
Fixpoint prov_hash (prov : list (resource * list rename_step)) (hs : list string)
  : list (resource * list rename_step) :=
  match prov, hs with
  | p :: t, h :: hs' => (fst p, (snd p ++ [SHash h])%list) :: prov_hash t hs'
  | _, _ => []
  end.

Definition build_prov (l : layer) (hs : list string) : list (resource * list rename_step) :=
  prov_hash (layer_prov l) hs.

Section Provenance.
  Variable cs : string -> string -> bool.
  Variable nonstr : string -> bool.
  Variable prefix_fs suffix_fs namespace_fs : list fieldspec.
  Variable prefix_skip suffix_skip : list gvk.

  Notation steps := (apply_steps cs nonstr prefix_fs suffix_fs namespace_fs prefix_skip suffix_skip).
  Notation step := (apply_step cs nonstr prefix_fs suffix_fs namespace_fs prefix_skip suffix_skip).

  (* the resource is the leaf with its transformers applied *)
  Definition came_from (p : resource * list rename_step) (r : resource) : Prop := steps (snd p) (fst p) = Ok r.

  Lemma steps_app l1 l2 r : steps (l1 ++ l2)%list r = do r1 <- steps l1 r; steps l2 r1.
  Proof.
    revert r. induction l1 as [|st t IH]; intros r; cbn [app apply_steps bind]; [reflexivity|].
    destruct (step st r); cbn [bind]; auto.
  Qed.

  Lemma steps_snoc l st r r1 r2 : steps l r = Ok r1 -> step st r1 = Ok r2 -> steps (l ++ [st])%list r = Ok r2.
  Proof. intros H1 H2. rewrite steps_app, H1. cbn [bind apply_steps]. rewrite H2. reflexivity. Qed.

  Lemma mapM_Forall2 {A B} (f : A -> res B) l l' : mapM f l = Ok l' -> Forall2 (fun x y => f x = Ok y) l l'.
  Proof.
    revert l'. induction l as [|a t IH]; intros l' H; cbn [mapM] in H.
    - inv H. constructor.
    - destruct (f a) as [b| | |] eqn:Fa; cbn [bind] in H; try discriminate.
      destruct (mapM f t) as [t'| | |] eqn:Ft; cbn [bind] in H; try discriminate. inv H. constructor; auto.
  Qed.

  (* one transformer over the whole map *)
  Lemma lift_step st prov m m' :
    Forall2 came_from prov m -> Forall2 (fun r r' => step st r = Ok r') m m' ->
    Forall2 came_from (map (fun p => (fst p, (snd p ++ [st])%list)) prov) m'.
  Proof.
    intros H. revert m'. induction H as [|p r prov m Hp Hm IH]; intros m' H'; inversion H'; subst; cbn [map].
    - constructor.
    - constructor; [|auto]. unfold came_from in *. cbn [fst snd]. eapply steps_snoc; eauto.
  Qed.

  Lemma ns_loop_Forall2 ns : forall todo done out,
    ns_loop cs namespace_fs ns done todo = Ok out ->
    exists todo', out = (done ++ todo')%list /\ Forall2 (fun r r' => ns_one cs namespace_fs ns r = Ok r') todo todo'.
  Proof.
    induction todo as [|r t IH]; intros done out H; cbn [ns_loop] in H.
    - inv H. exists []. split; [now rewrite app_nil_r|constructor].
    - destruct (ns_one cs namespace_fs ns r) as [r2| | |] eqn:E; cbn [bind] in H; try discriminate.
      destruct (Nat.eqb _ 1); [|discriminate].
      destruct (IH _ _ H) as (todo' & -> & HF). exists (r2 :: todo'). split; [now rewrite <- app_assoc|].
      constructor; assumption.
  Qed.

  Lemma map_map_steps (prov : list (resource * list rename_step)) l1 l2 :
    map (fun p => (fst p, (snd p ++ l2)%list)) (map (fun p => (fst p, (snd p ++ l1)%list)) prov) =
    map (fun p => (fst p, (snd p ++ (l1 ++ l2))%list)) prov.
  Proof. rewrite map_map. apply map_ext. intros [r l]. cbn. now rewrite app_assoc. Qed.

  Lemma map_steps_nil (prov : list (resource * list rename_step)) :
    map (fun p => (fst p, (snd p ++ [])%list)) prov = prov.
  Proof. rewrite <- (map_id prov) at 2. apply map_ext. intros [r l]. cbn. now rewrite app_nil_r. Qed.

  (* the three transformers of one kustomization *)
  Lemma layer_transformers ns pfx sfx prov m m1 m2 m3 :
    Forall2 came_from prov m ->
    namespace_transform cs namespace_fs ns m = Ok m1 ->
    prefix_transform cs prefix_fs prefix_skip pfx m1 = Ok m2 ->
    suffix_transform cs suffix_fs suffix_skip sfx m2 = Ok m3 ->
    Forall2 came_from (map (fun p => (fst p, (snd p ++ layer_steps ns pfx sfx)%list)) prov) m3.
  Proof.
    intros H0 H1 H2 H3. unfold layer_steps.
    assert (A1: Forall2 came_from (map (fun p => (fst p, (snd p ++ (if String.eqb ns "" then [] else [SNamespace ns]))%list)) prov) m1).
    { unfold namespace_transform in H1. destruct (String.eqb ns "").
      - inv H1. now rewrite map_steps_nil.
      - destruct (ns_loop_Forall2 ns _ _ _ H1) as (todo' & -> & HF). cbn [app]. eapply lift_step; eauto. }
    assert (A2: Forall2 came_from
                  (map (fun p => (fst p, (snd p ++ ((if String.eqb ns "" then [] else [SNamespace ns]) ++
                                                    (if String.eqb pfx "" then [] else [SPrefix pfx])))%list)) prov) m2).
    { rewrite <- map_map_steps. unfold prefix_transform in H2. destruct (String.eqb pfx "").
      - inv H2. now rewrite map_steps_nil.
      - eapply lift_step; eauto. apply mapM_Forall2 in H2. exact H2. }
    rewrite app_assoc. rewrite <- map_map_steps. unfold suffix_transform in H3. destruct (String.eqb sfx "").
    - inv H3. now rewrite map_steps_nil.
    - eapply lift_step; eauto. apply mapM_Forall2 in H3. exact H3.
  Qed.

  (* the patch entries *)
  Lemma touch_sel_prov : forall sel prov m,
    Forall2 came_from prov m -> Forall2 came_from (touch_prov sel prov) (touch_sel cs sel m).
  Proof.
    intros sel prov m H. revert sel. induction H as [|p r prov m Hp Hm IH]; intros sel; cbn [touch_prov touch_sel].
    - destruct sel; constructor.
    - destruct sel as [|b sel]; [constructor; assumption|]. constructor; [|apply IH].
      destruct b; unfold came_from in *; cbn [fst snd]; [|exact Hp].
      eapply steps_snoc; [exact Hp|reflexivity].
  Qed.

  Lemma touches_prov_ok : forall touches prov m,
    Forall2 came_from prov m -> Forall2 came_from (touches_prov touches prov) (touch_all cs touches m).
  Proof.
    induction touches as [|sel t IH]; intros prov m H; cbn [touches_prov touch_all fold_left]; [exact H|].
    apply IH. apply touch_sel_prov. exact H.
  Qed.

  Lemma append_one_eq m r m' : append_one cs m r = Ok m' -> m' = (m ++ [r])%list.
  Proof. unfold append_one. destruct (Nat.eqb _ 0); intros H; now inv H. Qed.

  Lemma append_all_eq l : forall m m', append_all cs m l = Ok m' -> m' = (m ++ l)%list.
  Proof.
    induction l as [|r t IH]; intros m m' H; cbn [append_all] in H.
    - inv H. now rewrite app_nil_r.
    - destruct (append_one cs m r) as [m1| | |] eqn:E; cbn [bind] in H; try discriminate.
      apply append_one_eq in E. subst m1. rewrite (IH _ _ H), <- app_assoc. reflexivity.
  Qed.

  Lemma absorb_create_eq m r m' : absorb_create cs m r = Ok m' -> m' = (m ++ [r])%list.
  Proof.
    unfold absorb_create. destruct (no_any_id_match cs _ m) as [[|]| | |]; cbn [bind]; try discriminate.
    apply append_one_eq.
  Qed.

  Lemma came_from_leaf r : came_from (r, []) r.
  Proof. reflexivity. Qed.

  (* KustTarget.accumulateTarget: what comes out is every leaf with the transformers on its way *)
  Theorem accumulate_prov l : forall out,
    accumulate cs prefix_fs suffix_fs namespace_fs prefix_skip suffix_skip l = Ok out ->
    Forall2 came_from (layer_prov l) out.
  Proof.
    induction l as [ns pfx sfx touches items IH] using layer_ind'. intros out H.
    rewrite layer_prov_eq. cbn [accumulate] in H.
    match type of H with (do m <- ?g items []; _) = _ =>
      assert (Hgo: forall its, Forall (fun it => match it with
                                                 | ISub l => forall out, accumulate cs prefix_fs suffix_fs namespace_fs prefix_skip suffix_skip l = Ok out ->
                                                                         Forall2 came_from (layer_prov l) out
                                                 | _ => True end) its ->
                               forall m0 m, g its m0 = Ok m ->
                                            exists new, m = (m0 ++ new)%list /\ Forall2 came_from (items_prov layer_prov its) new)
    end.
    { induction its as [|it t IHt]; intros Hall m0 m Hg.
      - inv Hg. exists []. split; [now rewrite app_nil_r|constructor].
      - pose proof (Forall_inv Hall) as Hit. pose proof (Forall_inv_tail Hall) as Ht.
        destruct it as [r|r|sub].
        + destruct (append_one cs m0 r) as [m1| | |] eqn:E; cbn [bind] in Hg; try discriminate.
          apply append_one_eq in E. subst m1. destruct (IHt Ht _ _ Hg) as (new & -> & HF).
          exists (r :: new). split; [now rewrite <- app_assoc|]. cbn [items_prov]. constructor; [apply came_from_leaf|assumption].
        + destruct (absorb_create cs m0 r) as [m1| | |] eqn:E; cbn [bind] in Hg; try discriminate.
          apply absorb_create_eq in E. subst m1. destruct (IHt Ht _ _ Hg) as (new & -> & HF).
          exists (r :: new). split; [now rewrite <- app_assoc|]. cbn [items_prov]. constructor; [apply came_from_leaf|assumption].
        + destruct (accumulate cs prefix_fs suffix_fs namespace_fs prefix_skip suffix_skip sub) as [s| | |] eqn:Es;
            cbn [bind] in Hg; try discriminate.
          destruct (append_all cs m0 s) as [m1| | |] eqn:E; cbn [bind] in Hg; try discriminate.
          apply append_all_eq in E. subst m1. destruct (IHt Ht _ _ Hg) as (new & -> & HF).
          exists (s ++ new)%list. split; [now rewrite <- app_assoc|]. cbn [items_prov].
          apply Forall2_app; [apply Hit; reflexivity|assumption]. }
    match type of H with (do m <- ?e; _) = _ => destruct e as [m0| | |] eqn:E0 end; cbn [bind] in H; try discriminate.
    destruct (Hgo items IH [] m0 E0) as (new & -> & HF). cbn [app] in *.
    destruct (namespace_transform cs namespace_fs ns (touch_all cs touches new)) as [m1| | |] eqn:E1; cbn [bind] in H; try discriminate.
    destruct (prefix_transform cs prefix_fs prefix_skip pfx m1) as [m2| | |] eqn:E2; cbn [bind] in H; try discriminate.
    eapply layer_transformers; [apply touches_prov_ok; exact HF|eauto..].
  Qed.

  Lemma hash_renames_prov prov : forall hs m m',
    Forall2 came_from prov m -> hash_renames cs nonstr hs m = Ok m' ->
    Forall2 came_from (prov_hash prov hs) m'.
  Proof.
    induction prov as [|p prov IH]; intros hs m m' HF Hh.
    - inversion HF; subst. destruct hs; cbn [hash_renames] in Hh; inv Hh; constructor.
    - inversion HF as [|p0 y prov0 l' Hpy Hrest]; subst.
      destruct hs as [|h hs]; cbn [hash_renames] in Hh; [discriminate|].
      destruct (hash_one cs nonstr h y) as [r'| | |] eqn:E; cbn [bind] in Hh; try discriminate.
      destruct (hash_renames cs nonstr hs l') as [t'| | |] eqn:Et; cbn [bind] in Hh; try discriminate. inv Hh.
      cbn [prov_hash]. constructor; [|eapply IH; eauto].
      unfold came_from in *. cbn [fst snd]. eapply steps_snoc; eauto.
  Qed.

  Lemma hash_prov prov hs m m' :
    Forall2 came_from prov m -> hash_transform cs nonstr hs m = Ok m' ->
    Forall2 came_from (prov_hash prov hs) m'.
  Proof.
    intros HF Hh. unfold hash_transform in Hh.
    destruct (hash_renames cs nonstr hs m) as [m1| | |] eqn:E; cbn [bind] in Hh; try discriminate.
    destruct (hash_ids_distinct cs m1); inv Hh. eapply hash_renames_prov; eauto.
  Qed.

  (* makeCustomizedResMap up to FixBackReferences *)
  Theorem build_names_prov l hs m :
    build_names cs nonstr prefix_fs suffix_fs namespace_fs prefix_skip suffix_skip l hs = Ok m ->
    Forall2 came_from (build_prov l hs) m.
  Proof.
    unfold build_names. intros H.
    destruct (accumulate cs prefix_fs suffix_fs namespace_fs prefix_skip suffix_skip l) as [m0| | |] eqn:E;
      cbn [bind] in H; try discriminate.
    eapply hash_prov; eauto. apply accumulate_prov. assumption.
  Qed.
End Provenance.
