(* C06 — model of the ConfigMap/Secret generator path of a kustomize build:
     api/kv/kv.go                         key/value sources (env files, literals, files)        -> [kv_load]
     api/internal/generators/utils.go     makeValidatedDataMap, ParseFileSource                  -> [validated_map], [parse_file_source]
     api/internal/generators/{configmap,secret}.go + kyaml/yaml/datamap.go                       -> [make_generated]
     api/types/generatoroptions.go        MergeGlobalOptionsIntoLocal                            -> [merge_opts]
     api/resource/resource.go             CopyMergeMetaDataFieldsFrom, Merge(Binary)DataMapFrom  -> [copy_merge_meta], [merge_data]
     api/resmap/reswrangler.go            Append, AppendAll, Replace, AbsorbAll/appendReplaceOrMerge -> [rm_append] ... [absorb]
     api/internal/target/kusttarget.go    accumulateTarget (bases, generators, transformers), addHashesToNames -> [accumulate], [build]
     api/internal/builtins/{Namespace,Prefix,Suffix,Label,Annotations,Hash}Transformer.go restricted to
     generated ConfigMaps/Secrets (name, namespace, metadata labels/annotations).
   The decision tables (behaviour names, the 0/1/many x behaviour table of appendReplaceOrMerge) are the
   generated ones of Gen/HasherTables.v.  Definitions only; proofs are in GeneratorsProofs.v. *)
From KV Require Export Res.Hash.
From KV Require Export Gen.HasherTables.
Local Open Scope string_scope.

(* ------------------------------------------------------------------ dictionaries (Go map[string]string, kept sorted by key) *)

Definition dict := list (string * string).

Fixpoint dict_set (k v : string) (d : dict) : dict :=
  match d with
  | [] => [(k, v)]
  | (k', v') :: t =>
      match String.compare k k' with
      | Eq => (k, v) :: t
      | Lt => (k, v) :: d
      | Gt => (k', v') :: dict_set k v t
      end
  end.

Fixpoint dict_get (k : string) (d : dict) : option string :=
  match d with
  | [] => None
  | (k', v) :: t => if String.eqb k k' then Some v else dict_get k t
  end.

(* mergeStringMaps(base, over): entries of [over] win *)
Definition dict_override (base over : dict) : dict :=
  fold_left (fun d kv => dict_set (fst kv) (snd kv) d) over base.

Definition dict_of_pairs (l : list (string * string)) : dict := dict_override [] l.

Fixpoint assoc (k : string) (l : list (string * string)) : option string :=
  match l with
  | [] => None
  | (k', v) :: t => if String.eqb k k' then Some v else assoc k t
  end.

(* ------------------------------------------------------------------ behaviours *)

Inductive behavior := BUnspecified | BCreate | BReplace | BMerge.

Definition behavior_of_ident (s : string) : behavior :=
  if String.eqb s "BehaviorReplace" then BReplace
  else if String.eqb s "BehaviorMerge" then BMerge
  else if String.eqb s "BehaviorCreate" then BCreate
  else BUnspecified.

(* types.NewGenerationBehavior, from the generated switch table *)
Definition new_behavior (s : string) : behavior :=
  behavior_of_ident (match assoc s behavior_table with Some i => i | None => behavior_default end).

Definition behavior_ident (b : behavior) : string :=
  match b with
  | BUnspecified => "types.BehaviorUnspecified"
  | BCreate => "types.BehaviorCreate"
  | BReplace => "types.BehaviorReplace"
  | BMerge => "types.BehaviorMerge"
  end.

Inductive action := AError | AAppend | AReplace | AMerge | AUnclassified.

Definition action_of (s : string) : action :=
  if String.eqb s "error" then AError
  else if String.eqb s "append" then AAppend
  else if String.eqb s "replace" then AReplace
  else if String.eqb s "merge" then AMerge
  else AUnclassified.

Fixpoint absorb_row (cls beh : string) (tbl : list (string * string * string)) : option string :=
  match tbl with
  | [] => None
  | (c, b, a) :: t => if String.eqb c cls && String.eqb b beh then Some a else absorb_row cls beh t
  end.

(* the clause of appendReplaceOrMerge taken for [n] matches and behaviour [b] (explicit case, else default) *)
Definition absorb_action (n : nat) (b : behavior) : action :=
  let cls := match n with O => "0" | S O => "1" | _ => "many" end in
  match absorb_row cls (behavior_ident b) absorb_table with
  | Some a => action_of a
  | None =>
      match absorb_row cls "default" absorb_table with
      | Some a => action_of a
      | None => match absorb_row cls "*" absorb_table with Some a => action_of a | None => AUnclassified end
      end
  end.

(* ------------------------------------------------------------------ key/value sources (api/kv/kv.go) *)

Definition last_char (s : string) : option ascii :=
  match str_rev s with String c _ => Some c | EmptyString => None end.

(* removeQuotes *)
Definition remove_quotes (s : string) : string :=
  match s with
  | String c r =>
      if (2 <=? String.length s)%nat then
        match last_char s with
        | Some l =>
            if Ascii.eqb l c && (Ascii.eqb c """"%char || Ascii.eqb c "'"%char)
            then take (String.length r - 1) r else s
        | None => s
        end
      else s
  | EmptyString => s
  end.

(* parseLiteralSource *)
Definition parse_literal (s : string) : res (string * string) :=
  match s with
  | String "=" _ => Err
  | _ => match split_first "=" s with
         | Some (k, v) => Ok (k, remove_quotes v)
         | None => Err
         end
  end.

Fixpoint count_char (c : ascii) (s : string) : nat :=
  match s with
  | EmptyString => O
  | String a r => (if Ascii.eqb a c then 1 else 0) + count_char c r
  end.

Fixpoint strip_leading (c : ascii) (s : string) : string :=
  match s with String a r => if Ascii.eqb a c then strip_leading c r else s | EmptyString => s end.

Fixpoint take_until (c : ascii) (s : string) : string :=
  match s with
  | String a r => if Ascii.eqb a c then EmptyString else String a (take_until c r)
  | EmptyString => EmptyString
  end.

(* Go path.Base *)
Definition path_base (p : string) : string :=
  match p with
  | EmptyString => "."
  | _ =>
      let r := strip_leading "/" (str_rev p) in
      match str_rev (take_until "/" r) with
      | EmptyString => "/"
      | b => b
      end
  end.

(* generators.ParseFileSource: (key, path) *)
Definition parse_file_source (s : string) : res (string * string) :=
  match count_char "=" s with
  | O => Ok (path_base s, s)
  | S O =>
      if has_prefix "=" s then Err
      else if has_suffix "=" s then Err
      else match split_first "=" s with Some kv => Ok kv | None => Err end
  | _ => Err
  end.

(* bufio.ScanLines: lines end at "\n", one trailing "\r" is dropped, a non-empty unterminated last line counts *)
Definition drop_cr_rev (rev_line : string) : string :=
  match rev_line with
  | String c t => if (N_of_ascii c =? 13)%N then str_rev t else str_rev rev_line
  | EmptyString => EmptyString
  end.

Fixpoint scan_lines (cur_rev : string) (s : string) : list string :=
  match s with
  | EmptyString => match cur_rev with EmptyString => [] | _ => [drop_cr_rev cur_rev] end
  | String c r =>
      if (N_of_ascii c =? 10)%N then drop_cr_rev cur_rev :: scan_lines EmptyString r
      else scan_lines (String c cur_rev) r
  end.

(* bytes.TrimLeftFunc(line, unicode.IsSpace) on valid UTF-8 *)
Fixpoint trim_left_uspace (s : string) : string :=
  match s with
  | EmptyString => s
  | String c r =>
      let n := N_of_ascii c in
      if ((9 <=? n) && (n <=? 13) || (n =? 32))%N then trim_left_uspace r
      else
        match r with
        | String c1 r1 =>
            let n1 := N_of_ascii c1 in
            if ((n =? 194) && ((n1 =? 133) || (n1 =? 160)))%N then trim_left_uspace r1
            else
              match r1 with
              | String c2 r2 =>
                  let n2 := N_of_ascii c2 in
                  if (((n =? 225) && (n1 =? 154) && (n2 =? 128)) ||
                      ((n =? 226) && (n1 =? 128) && ((128 <=? n2) && (n2 <=? 138) || (n2 =? 168) || (n2 =? 169) || (n2 =? 175))) ||
                      ((n =? 226) && (n1 =? 129) && (n2 =? 159)) ||
                      ((n =? 227) && (n1 =? 128) && (n2 =? 128)))%N
                  then trim_left_uspace r2 else s
              | EmptyString => s
              end
        | EmptyString => s
        end
  end.

Definition utf8_bom : string := sb [239; 187; 191]%N.

(* keyValuesFromLine: None = blank line, comment, or empty key *)
Definition env_line (first : bool) (line : string) : res (option (string * string)) :=
  if negb (valid_utf8 line) then Err
  else
    let l1 := if first then trim_prefix utf8_bom line else line in
    let l2 := trim_left_uspace l1 in
    match l2 with
    | EmptyString => Ok None
    | String c _ =>
        if Ascii.eqb c "#" then Ok None
        else match split_first "=" l2 with
             | Some (k, v) => match k with EmptyString => Ok None | _ => Ok (Some (k, v)) end
             | None => Ok (Some (l2, EmptyString))
             end
    end.

Fixpoint env_lines (first : bool) (ls : list string) : res (list (string * string)) :=
  match ls with
  | [] => Ok []
  | l :: t =>
      do p <- env_line first l;
      do ps <- env_lines false t;
      Ok (match p with Some kv => kv :: ps | None => ps end)
  end.

(* the files of the kustomization directory, as the loader serves them *)
Definition load (files : list (string * string)) (path : string) : res string :=
  match assoc path files with Some c => Ok c | None => Err end.

Fixpoint concat_res {A} (l : list (res (list A))) : res (list A) :=
  match l with
  | [] => Ok []
  | r :: t => do x <- r; do xs <- concat_res t; Ok (x ++ xs)%list
  end.

Record genargs := mkGenArgs {
  ga_secret : bool;                 (* secretGenerator entry (false: configMapGenerator) *)
  ga_name : string;
  ga_ns : string;
  ga_behavior : string;
  ga_envs : list string;
  ga_literals : list string;
  ga_files : list string;
  ga_type : string;                 (* secrets only *)
  ga_has_opts : bool;               (* options: present *)
  ga_labels : dict;
  ga_annos : dict;
  ga_disable_hash : bool;
  ga_immutable : bool
}.

(* loader.Load: env files, then literals, then files *)
Definition kv_load (files : list (string * string)) (a : genargs) : res (list (string * string)) :=
  do e <- concat_res (map (fun p => do c <- load files p; env_lines true (scan_lines EmptyString c)) (ga_envs a));
  do l <- mapM parse_literal (ga_literals a);
  do f <- mapM (fun s => do kp <- parse_file_source s; do c <- load files (snd kp); Ok (fst kp, c)) (ga_files a);
  Ok (e ++ l ++ f)%list.

(* makeValidatedDataMap: a repeated key is an error (the key validators of the default FieldValidator accept everything) *)
Fixpoint validated_map (pairs : list (string * string)) (acc : dict) : res dict :=
  match pairs with
  | [] => Ok acc
  | (k, v) :: t =>
      match dict_get k acc with
      | Some _ => Err
      | None => validated_map t (dict_set k v acc)
      end
  end.

(* ------------------------------------------------------------------ generator options *)

Record gopts := mkGopts { go_labels : dict; go_annos : dict; go_disable_hash : bool; go_immutable : bool }.

Definition local_opts (a : genargs) : option gopts :=
  if ga_has_opts a then Some (mkGopts (ga_labels a) (ga_annos a) (ga_disable_hash a) (ga_immutable a)) else None.

(* types.MergeGlobalOptionsIntoLocal *)
Definition merge_opts (local global : option gopts) : option gopts :=
  match global with
  | None => local
  | Some g =>
      let l := match local with Some l => l | None => mkGopts [] [] false false end in
      Some (mkGopts (dict_override (go_labels g) (go_labels l)) (dict_override (go_annos g) (go_annos l))
                    (go_disable_hash l || go_disable_hash g) (go_immutable l || go_immutable g))
  end.

(* ------------------------------------------------------------------ generated objects *)

Record gobj := mkGobj {
  g_secret : bool;                          (* kind Secret (false: ConfigMap); apiVersion v1 for both *)
  g_name : string;
  g_ns : string;
  g_prev : list (string * string);          (* previous (name, effective namespace) ids, oldest first *)
  g_labels : dict;
  g_annos : dict;                           (* user-visible annotations only *)
  g_behavior : behavior;                    (* build annotation generatorBehavior *)
  g_hash : bool;                            (* build annotation needsHashSuffix *)
  g_data : option dict;                     (* None: no data field *)
  g_bin : dict;                             (* [] : no binaryData field *)
  g_type : string;
  g_immutable : bool
}.

Definition set_name (o : gobj) (n : string) : gobj :=
  mkGobj (g_secret o) n (g_ns o) (g_prev o) (g_labels o) (g_annos o) (g_behavior o) (g_hash o) (g_data o) (g_bin o) (g_type o) (g_immutable o).
Definition set_ns (o : gobj) (n : string) : gobj :=
  mkGobj (g_secret o) (g_name o) n (g_prev o) (g_labels o) (g_annos o) (g_behavior o) (g_hash o) (g_data o) (g_bin o) (g_type o) (g_immutable o).
Definition set_prev (o : gobj) (p : list (string * string)) : gobj :=
  mkGobj (g_secret o) (g_name o) (g_ns o) p (g_labels o) (g_annos o) (g_behavior o) (g_hash o) (g_data o) (g_bin o) (g_type o) (g_immutable o).
Definition set_labels (o : gobj) (l : dict) : gobj :=
  mkGobj (g_secret o) (g_name o) (g_ns o) (g_prev o) l (g_annos o) (g_behavior o) (g_hash o) (g_data o) (g_bin o) (g_type o) (g_immutable o).
Definition set_annos (o : gobj) (l : dict) : gobj :=
  mkGobj (g_secret o) (g_name o) (g_ns o) (g_prev o) (g_labels o) l (g_behavior o) (g_hash o) (g_data o) (g_bin o) (g_type o) (g_immutable o).

(* resid.EffectiveNamespace for a namespaced kind *)
Definition eff_ns (ns : string) : string :=
  match ns with EmptyString => "default" | _ => ns end.

Definition id_eqb (a b : string * string) : bool :=
  String.eqb (fst a) (fst b) && String.eqb (eff_ns (snd a)) (eff_ns (snd b)).

Definition cur_id (o : gobj) : string * string := (g_name o, g_ns o).

(* Resource.StorePreviousId *)
Definition store_prev (o : gobj) : gobj := set_prev o (g_prev o ++ [(g_name o, eff_ns (g_ns o))])%list.

Definition matches_cur (secret : bool) (id : string * string) (o : gobj) : bool :=
  Bool.eqb (g_secret o) secret && id_eqb id (cur_id o).

(* one of PrevIds ++ [CurId] equals id *)
Definition matches_any (secret : bool) (id : string * string) (o : gobj) : bool :=
  Bool.eqb (g_secret o) secret && existsb (id_eqb id) (g_prev o ++ [cur_id o])%list.

Fixpoint indices_from {A} (f : A -> bool) (i : nat) (l : list A) : list nat :=
  match l with
  | [] => []
  | x :: t => if f x then i :: indices_from f (S i) t else indices_from f (S i) t
  end.
Definition indices {A} (f : A -> bool) (l : list A) : list nat := indices_from f O l.

Definition resmap := list gobj.

(* resWrangler.Append *)
Definition rm_append (rm : resmap) (o : gobj) : res resmap :=
  if existsb (matches_cur (g_secret o) (cur_id o)) rm then Err else Ok (rm ++ [o])%list.

(* resWrangler.AppendAll *)
Fixpoint rm_append_all (rm : resmap) (l : list gobj) : res resmap :=
  match l with
  | [] => Ok rm
  | o :: t => do rm' <- rm_append rm o; rm_append_all rm' t
  end.

(* resWrangler.Replace: index of the unique resource with the same current id *)
Definition rm_replace (rm : resmap) (o : gobj) : res (nat * resmap) :=
  match indices (matches_cur (g_secret o) (cur_id o)) rm with
  | [i] => Ok (i, replace_nth i o rm)
  | _ => Err
  end.

(* Resource.CopyMergeMetaDataFieldsFrom: labels/annotations of [old] overridden by [r]'s, name and namespace of
   [old], build annotations (previous ids, behaviour) of [old]; the hash request survives only if both have it *)
Definition copy_merge_meta (r old : gobj) : gobj :=
  mkGobj (g_secret r) (g_name old) (g_ns old) (g_prev old)
         (dict_override (g_labels old) (g_labels r)) (dict_override (g_annos old) (g_annos r))
         (g_behavior old) (g_hash old && g_hash r)
         (g_data r) (g_bin r) (g_type r) (g_immutable r).

Definition dict_of_opt (d : option dict) : dict := match d with Some m => m | None => [] end.

(* the entries of [d] whose key is not a key of [other] (resource.go withoutKeysOf) *)
Definition dict_without (d other : dict) : dict :=
  filter (fun kv => match dict_get (fst kv) other with Some _ => false | None => true end) d.

(* MergeDataMapFrom + MergeBinaryDataMapFrom: entries of [r] win; a key [r] defines in the other map is dropped
   from the old object's map (a key lives in only one of data / binaryData); an empty result removes the field *)
Definition merge_data (r old : gobj) : gobj :=
  let d := dict_override (dict_without (dict_of_opt (g_data old)) (g_bin r)) (dict_of_opt (g_data r)) in
  let b := dict_override (dict_without (g_bin old) d) (g_bin r) in
  mkGobj (g_secret r) (g_name r) (g_ns r) (g_prev r) (g_labels r) (g_annos r) (g_behavior r) (g_hash r)
         (match d with [] => None | _ => Some d end) b (g_type r) (g_immutable r).

(* resWrangler.appendReplaceOrMerge *)
Definition absorb (rm : resmap) (r : gobj) : res resmap :=
  let ms := indices (matches_any (g_secret r) (cur_id r)) rm in
  match absorb_action (List.length ms) (g_behavior r) with
  | AAppend => rm_append rm r
  | AReplace | AMerge =>
      match ms with
      | [i] =>
          match nth_error rm i with
          | Some old =>
              let r1 := copy_merge_meta r old in
              let r2 := match absorb_action (List.length ms) (g_behavior r) with
                        | AMerge => merge_data r1 old
                        | _ => r1
                        end in
              do ir <- rm_replace rm r2;
              if Nat.eqb (fst ir) i then Ok (snd ir) else Err
          | None => Err
          end
      | _ => Err
      end
  | AError | AUnclassified => Err
  end.

(* resWrangler.AbsorbAll *)
Fixpoint absorb_all (rm : resmap) (l : list gobj) : res resmap :=
  match l with
  | [] => Ok rm
  | o :: t => do rm' <- absorb rm o; absorb_all rm' t
  end.

(* ------------------------------------------------------------------ MakeConfigMap / MakeSecret *)

Fixpoint split_data (m : dict) : dict * dict :=      (* (data, binaryData) of LoadMapIntoConfigMapData *)
  match m with
  | [] => ([], [])
  | (k, v) :: t =>
      let '(d, b) := split_data t in
      if valid_utf8 v then ((k, v) :: d, b) else (d, (k, encode_base64 v) :: b)
  end.

Definition make_generated (files : list (string * string)) (global : option gopts) (a : genargs) : res gobj :=
  match ga_name a with
  | EmptyString => Err                                   (* makeBaseNode *)
  | _ =>
      do pairs <- kv_load files a;
      do m <- validated_map pairs [];
      let opts := merge_opts (local_opts a) global in
      let labels := match opts with Some o => go_labels o | None => [] end in
      let annos := match opts with Some o => go_annos o | None => [] end in
      let hash := match opts with Some o => negb (go_disable_hash o) | None => true end in
      let imm := match opts with Some o => go_immutable o | None => false end in
      if ga_secret a then
        Ok (mkGobj true (ga_name a) (ga_ns a) [] labels annos (new_behavior (ga_behavior a)) hash
                   (Some (map (fun kv => (fst kv, encode_base64 (snd kv))) m)) []
                   (match ga_type a with EmptyString => "Opaque" | t => t end) imm)
      else
        let '(d, b) := split_data m in
        Ok (mkGobj false (ga_name a) (ga_ns a) [] labels annos (new_behavior (ga_behavior a)) hash
                   (match d with [] => None | _ => Some d end) b EmptyString imm)
  end.

(* ------------------------------------------------------------------ one kustomization *)

Record ldecl := mkLdecl {
  l_files : list (string * string);
  l_cmgens : list genargs;
  l_secgens : list genargs;
  l_has_genopts : bool;
  l_genopts : gopts;
  l_ns : string;
  l_prefix : string;
  l_suffix : string;
  l_labels : dict;                 (* commonLabels *)
  l_annos : dict;                  (* commonAnnotations *)
  l_extra : bool                   (* further resource files (never ConfigMaps/Secrets) are listed *)
}.

Inductive layer := Layer (bases : list layer) (d : ldecl).

(* Kustomization.CheckEmpty for the fields a [layer] can carry (absent when empty) *)
Definition decl_empty (nbases : nat) (d : ldecl) : bool :=
  Nat.eqb nbases 0 && negb (l_extra d) &&
  match l_cmgens d, l_secgens d with [], [] => true | _, _ => false end &&
  negb (l_has_genopts d) &&
  String.eqb (l_ns d) "" && String.eqb (l_prefix d) "" && String.eqb (l_suffix d) "" &&
  match l_labels d, l_annos d with [], [] => true | _, _ => false end.

(* runGenerators: configMapGenerator entries, then secretGenerator entries, each absorbed in turn *)
Fixpoint run_generators (d : ldecl) (gens : list genargs) (rm : resmap) : res resmap :=
  match gens with
  | [] => Ok rm
  | a :: t =>
      do o <- make_generated (l_files d) (if l_has_genopts d then Some (l_genopts d) else None) a;
      do rm' <- absorb rm o;
      run_generators d t rm'
  end.

(* NamespaceTransformer: every object in turn: store the id, set the namespace, demand a unique current id *)
Fixpoint ns_loop (ns : string) (todo : nat) (i : nat) (rm : resmap) : res resmap :=
  match todo with
  | O => Ok rm
  | S todo' =>
      match nth_error rm i with
      | None => Ok rm
      | Some o =>
          let o' := set_ns (store_prev o) ns in
          let rm' := replace_nth i o' rm in
          match indices (matches_cur (g_secret o') (cur_id o')) rm' with
          | [_] => ns_loop ns todo' (S i) rm'
          | _ => Err
          end
      end
  end.

Definition ns_transform (ns : string) (rm : resmap) : res resmap :=
  match ns with EmptyString => Ok rm | _ => ns_loop ns (List.length rm) O rm end.

(* PrefixTransformer / SuffixTransformer (configured only for a non-empty value) *)
Definition prefix_transform (p : string) (rm : resmap) : resmap :=
  match p with EmptyString => rm | _ => map (fun o => set_name (store_prev o) (p ++ g_name o)) rm end.
Definition suffix_transform (s : string) (rm : resmap) : resmap :=
  match s with EmptyString => rm | _ => map (fun o => set_name (store_prev o) (g_name o ++ s)) rm end.

(* LabelTransformer / AnnotationsTransformer on metadata/labels, metadata/annotations *)
Definition labels_transform (l : dict) (rm : resmap) : resmap :=
  map (fun o => set_labels o (dict_override (g_labels o) l)) rm.
Definition annos_transform (l : dict) (rm : resmap) : resmap :=
  map (fun o => set_annos o (dict_override (g_annos o) l)) rm.

Definition run_transformers (d : ldecl) (rm : resmap) : res resmap :=
  do rm1 <- ns_transform (l_ns d) rm;
  Ok (annos_transform (l_annos d) (labels_transform (l_labels d) (suffix_transform (l_suffix d) (prefix_transform (l_prefix d) rm1)))).

(* KustTarget.accumulateTarget *)
Fixpoint accumulate (l : layer) : res resmap :=
  match l with
  | Layer bases d =>
      if decl_empty (List.length bases) d then Err
      else
        do rm0 <- (fix acc_bases (bs : list layer) (rm : resmap) : res resmap :=
                     match bs with
                     | [] => Ok rm
                     | b :: bs' => do sub <- accumulate b; do rm' <- rm_append_all rm sub; acc_bases bs' rm'
                     end) bases [];
        do rm1 <- run_generators d (l_cmgens d ++ l_secgens d)%list rm0;
        run_transformers d rm1
  end.

(* ------------------------------------------------------------------ addHashesToNames (HashTransformer), top level only *)

Definition content_of (o : gobj) : content :=
  mkContent (g_secret o) (g_data o) (if g_secret o then [] else g_bin o) (if g_secret o then g_type o else EmptyString).

Definition add_hash (o : gobj) : res gobj :=
  if g_hash o then
    do h <- hash_content (content_of o);
    Ok (set_name (store_prev o) (g_name o ++ "-" ++ h))
  else Ok o.

(* HashTransformer (since 9a490e0): every renamed object must be the only one with its new id *)
Definition hash_ids_unique (out : resmap) : bool :=
  forallb (fun o => negb (g_hash o) ||
                    match indices (matches_cur (g_secret o) (cur_id o)) out with [_] => true | _ => false end) out.

(* KustTarget.makeCustomizedResMap restricted to generated objects *)
Definition build (l : layer) : res resmap :=
  do rm <- accumulate l;
  do out <- mapM add_hash rm;
  if hash_ids_unique out then Ok out else Err.
