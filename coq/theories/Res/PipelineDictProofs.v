(* C06 over the integrated pipeline, part 2: layering of generators on DOCUMENTS is the dictionary step of C06. *)
From KV Require Import Res.Pipeline Res.PipelineProofs Res.PipelineGenProofs Res.PipelineHashProofs.
From KV Require Res.Generators Res.GeneratorsProofs.
Notation dict := Generators.dict.
From KV Require Import Yaml.FieldSpecSpec Yaml.FieldSpecProofs.
Local Open Scope string_scope.

(* the two maps of a ConfigMap / Secret document, as the model of C06 sees them *)
Definition pdata_of (n : node) : option dict * dict :=
  (node_dict (map_field_value "data" n), node_pairs (map_field_value "binaryData" n)).

(* ---------- sorted dictionaries ---------- *)

Lemma dict_override_dsorted over : forall base, dsorted base -> dsorted (Generators.dict_override base over).
Proof.
  unfold Generators.dict_override. induction over as [|[k v] t IH]; intros base H; cbn [fold_left]; [exact H|].
  apply IH. apply dict_set_sorted. exact H.
Qed.

Lemma dict_of_pairs_dsorted l : dsorted (Generators.dict_of_pairs l).
Proof. apply dict_override_dsorted. exact I. Qed.

Lemma dsorted_filter (f : string * string -> bool) d : dsorted d -> dsorted (filter f d).
Proof.
  induction d as [|[k v] t IH]; cbn; intro H; [exact I|]. destruct H as [H1 H2].
  destruct (f (k, v)); [|auto]. split; [|auto]. intros k' v' Hin. apply filter_In in Hin as [Hin _]. eauto.
Qed.

Lemma dict_without_dsorted d o : dsorted d -> dsorted (Generators.dict_without d o).
Proof. apply dsorted_filter. Qed.

Lemma node_pairs_dsorted o : dsorted (node_pairs o).
Proof. unfold node_pairs. destruct o as [[| |]|]; try exact I. apply dict_of_pairs_dsorted. Qed.

Lemma dict_of_opt_node_dict o : Generators.dict_of_opt (node_dict o) = node_pairs o.
Proof. unfold node_dict, node_pairs. destruct o as [[| |]|]; reflexivity. Qed.

(* reading back a map field written from a sorted dictionary *)
Lemma read_str_map (m : dict) : dsorted m ->
  Generators.dict_of_pairs (map (fun kv : string * node => (fst kv, node_value (snd kv))) (map (fun kv => (fst kv, str_node (snd kv))) m)) = m.
Proof.
  intro H. rewrite map_map. cbn [fst snd]. 
  assert (E : map (fun x : string * string => (fst x, node_value (str_node (snd x)))) m = m).
  { clear H. induction m as [|[k v] t IH]; [reflexivity|]. cbn [map fst snd]. f_equal. exact IH. }
  rewrite E. apply dict_of_pairs_sorted. exact H.
Qed.

(* ---------- steps that touch only metadata ---------- *)

Lemma walk_key_top {A} cr name ps (k : node -> res (node * A)) n n' r f :
  walk cr (PKey name :: ps) k n = Ok (n', r) -> f <> name -> map_field_value f n' = map_field_value f n.
Proof.
  intros H Hf. cbn [walk] in H. destruct n as [t s v|kvs|es].
  - destruct (is_null (Scalar t s v)); [inv H; reflexivity|discriminate].
  - destruct (find_field name kvs) as [x|] eqn:E.
    + destruct (walk cr ps k x) as [[x' a]| | |]; cbn [bind] in H; try discriminate. inv H.
      cbn [map_field_value fst]. apply pp_find_set_first_other. exact Hf.
    + destruct cr as [leaf|]; [|inv H; reflexivity].
      cbv zeta in H. destruct (walk (Some leaf) ps k _) as [[x' a]| | |]; cbn [bind] in H; try discriminate. inv H.
      cbn [map_field_value fst]. rewrite pp_find_app. destruct (find_field f kvs); [reflexivity|].
      cbn [find_field]. destruct (String.eqb name f) eqn:E2; [apply String.eqb_eq in E2; congruence|reflexivity].
  - destruct (is_null (Seq es)); [inv H; reflexivity|discriminate].
Qed.

Section Steps.
  Variable nonstr : string -> bool.

  Lemma set_meta_map_top f m n n' g :
    set_meta_map f m n = Ok n' -> g <> "metadata" -> map_field_value g n' = map_field_value g n.
  Proof.
    intros H Hg. unfold set_meta_map in H. destruct n as [| kvs |]; try discriminate.
    destruct (find_field "metadata" kvs) as [[| mkvs |]|]; try discriminate. inv H.
    cbn [map_field_value]. apply pp_find_set_first_other. exact Hg.
  Qed.

  Lemma set_name_top_any v n n' g :
    set_name nonstr v n = Ok n' -> g <> "metadata" -> map_field_value g n' = map_field_value g n.
  Proof.
    intros H Hg. unfold set_name, put in H.
    destruct (walk _ _ _ n) as [[x a]| | |] eqn:E; cbn [bind] in H; try discriminate. inv H.
    eapply walk_key_top; eauto.
  Qed.

  Lemma set_namespace_top ns n n' g :
    set_namespace nonstr ns n = Ok n' -> g <> "metadata" -> map_field_value g n' = map_field_value g n.
  Proof.
    intros H Hg. unfold set_namespace in H. destruct (String.eqb ns "").
    - unfold clear_at in H. destruct (walk _ _ _ n) as [[x a]| | |] eqn:E; cbn [bind] in H; try discriminate. inv H.
      eapply walk_key_top; eauto.
    - unfold put in H. destruct (walk _ _ _ n) as [[x a]| | |] eqn:E; cbn [bind] in H; try discriminate. inv H.
      eapply walk_key_top; eauto.
  Qed.

  (* Resource.CopyMergeMetaDataFieldsFrom does not touch data / binaryData *)
  Lemma copy_merge_meta_pdata r old r1 : copy_merge_meta nonstr r old = Ok r1 -> pdata_of (r_node r1) = pdata_of (r_node r).
  Proof.
    intros H. unfold copy_merge_meta in H.
    destruct (set_meta_map "labels" _ (r_node r)) as [n1| | |] eqn:E1; cbn [bind] in H; try discriminate.
    destruct (set_meta_map "annotations" _ n1) as [n2| | |] eqn:E2; cbn [bind] in H; try discriminate.
    destruct (set_name nonstr _ n2) as [n3| | |] eqn:E3; cbn [bind] in H; try discriminate.
    destruct (set_namespace nonstr _ n3) as [n4| | |] eqn:E4; cbn [bind] in H; try discriminate. inv H.
    cbn [r_node]. unfold pdata_of.
    rewrite (set_namespace_top _ _ _ "data" E4), (set_namespace_top _ _ _ "binaryData" E4) by discriminate.
    rewrite (set_name_top_any _ _ _ "data" E3), (set_name_top_any _ _ _ "binaryData" E3) by discriminate.
    rewrite (set_meta_map_top _ _ _ _ "data" E2), (set_meta_map_top _ _ _ _ "binaryData" E2) by discriminate.
    rewrite (set_meta_map_top _ _ _ _ "data" E1), (set_meta_map_top _ _ _ _ "binaryData" E1) by discriminate.
    reflexivity.
  Qed.
End Steps.

(* the top-level keys of a document are pairwise distinct *)
Definition top_unique (n : node) : Prop := match n with Map kvs => NoDup (map fst kvs) | _ => True end.

Lemma find_none_notin f (kvs : list (string * node)) : ~ In f (map fst kvs) -> find_field f kvs = None.
Proof.
  induction kvs as [|[k x] t IH]; cbn; intro H; [reflexivity|].
  destruct (String.eqb k f) eqn:E; [apply String.eqb_eq in E; subst; tauto|apply IH; tauto].
Qed.

Lemma remove_first_keys f (kvs : list (string * node)) k : In k (map fst (remove_first f kvs)) -> In k (map fst kvs).
Proof.
  induction kvs as [|[k0 x] t IH]; cbn; [tauto|]. destruct (String.eqb k0 f); cbn; [tauto|]. intros [H|H]; auto.
Qed.

Lemma remove_first_nodup f (kvs : list (string * node)) :
  NoDup (map fst kvs) -> NoDup (map fst (remove_first f kvs)) /\ ~ In f (map fst (remove_first f kvs)).
Proof.
  induction kvs as [|[k0 x] t IH]; cbn; intro H; [split; [constructor|tauto]|].
  inversion H as [|? ? Hn Ht]; subst. destruct (String.eqb k0 f) eqn:E.
  - apply String.eqb_eq in E. subst. split; assumption.
  - destruct (IH Ht) as [I1 I2]. cbn. split.
    + constructor; [intro Hin; apply Hn; eapply remove_first_keys; eauto|exact I1].
    + intros [H1|H1]; [subst; rewrite String.eqb_refl in E; discriminate|tauto].
Qed.

Lemma NoDup_app_single (l : list string) f : NoDup l -> ~ In f l -> NoDup (l ++ [f])%list.
Proof.
  induction l as [|x t IH]; cbn; intros H Hf; [constructor; [tauto|constructor]|].
  inversion H as [|? ? Hn Ht]; subst. constructor; [|apply IH; tauto].
  intro Hin. apply in_app_or in Hin as [Hin|[Hin|[]]]; [tauto|subst; tauto].
Qed.

Lemma set_top_map_read f m n n' : top_unique n -> dsorted m -> set_top_map f m n = Ok n' ->
  top_unique n' /\
  node_pairs (map_field_value f n') = m /\
  node_dict (map_field_value f n') = (match m with [] => None | _ => Some m end) /\
  forall g, g <> f -> map_field_value g n' = map_field_value g n.
Proof.
  intros Hu Hs H. unfold set_top_map in H. destruct n as [|kvs|]; try discriminate. inv H. cbn [map_field_value].
  cbn [top_unique] in Hu. destruct (remove_first_nodup f kvs Hu) as [N1 N2].
  pose proof (find_none_notin f _ N2) as Hf.
  split; [|repeat split].
  - cbn [top_unique]. rewrite map_app. destruct m; cbn [map]; [rewrite app_nil_r; exact N1|].
    apply NoDup_app_single; assumption.
  - rewrite pp_find_app, Hf. destruct m as [|p t]; [reflexivity|]. cbn [find_field]. rewrite String.eqb_refl.
    cbn [node_pairs]. apply read_str_map. exact Hs.
  - rewrite pp_find_app, Hf. destruct m as [|p t]; [reflexivity|]. cbn [find_field]. rewrite String.eqb_refl.
    cbn [node_dict]. f_equal. apply read_str_map. exact Hs.
  - intros g Hg. rewrite pp_find_app, pp_find_remove_first_other by exact Hg.
    destruct (find_field g kvs); [reflexivity|]. destruct m; [reflexivity|]. cbn [find_field].
    destruct (String.eqb f g) eqn:E; [apply String.eqb_eq in E; congruence|reflexivity].
Qed.

(* Resource.MergeDataMapFrom + MergeBinaryDataMapFrom on documents IS the dictionary merge of C06 *)
Lemma merge_data_from_pdata r old r2 : top_unique (r_node r) -> merge_data_from r old = Ok r2 ->
  pdata_of (r_node r2) = GeneratorsProofs.merge_dd (pdata_of (r_node old)) (pdata_of (r_node r)) /\ top_unique (r_node r2).
Proof.
  intros Hu H. unfold merge_data_from in H.
  destruct (set_top_map "data" _ (r_node r)) as [n1| | |] eqn:E1; cbn [bind] in H; try discriminate.
  destruct (set_top_map "binaryData" _ n1) as [n2| | |] eqn:E2; cbn [bind] in H; try discriminate. inv H.
  cbn [r_node with_node].
  destruct (set_top_map_read _ _ _ _ Hu (dict_override_dsorted _ _ (dict_without_dsorted _ _ (node_pairs_dsorted _))) E1) as (U1 & A1 & A2 & A3).
  destruct (set_top_map_read _ _ _ _ U1 (dict_override_dsorted _ _ (dict_without_dsorted _ _ (node_pairs_dsorted _))) E2) as (U2 & B1 & B2 & B3).
  split; [|exact U2].
  unfold pdata_of, GeneratorsProofs.merge_dd. cbn [fst snd]. rewrite !dict_of_opt_node_dict.
  rewrite (B3 "data") by discriminate. rewrite A2, B1, A1. reflexivity.
Qed.

(* ---------- what a generator declares, read off the generated document ---------- *)

Definition decl_maps (secret : bool) (m : dict) : option dict * dict :=
  if secret then (Some (map (fun kv => (fst kv, Hash.encode_base64 (snd kv))) m), [])
  else let '(d, b) := Generators.split_data m in (match d with [] => None | _ => Some d end, b).

Lemma split_data_dsorted m : dsorted m -> dsorted (fst (Generators.split_data m)) /\ dsorted (snd (Generators.split_data m)) /\
  (forall k v, In (k, v) (fst (Generators.split_data m)) -> exists v', In (k, v') m) /\
  (forall k v, In (k, v) (snd (Generators.split_data m)) -> exists v', In (k, v') m).
Proof.
  induction m as [|[k v] t IH]; cbn [Generators.split_data]; intro H; [cbn; repeat split; auto; intros ? ? []|].
  destruct H as [H1 H2]. destruct (IH H2) as (I1 & I2 & I3 & I4).
  destruct (Generators.split_data t) as [d b]. cbn [fst snd] in *.
  assert (M3 : forall k' v', In (k', v') d -> exists v2, In (k', v2) ((k, v) :: t))
    by (intros k' v' Hin; destruct (I3 _ _ Hin) as [v2 Hv2]; exists v2; right; exact Hv2).
  assert (M4 : forall k' v', In (k', v') b -> exists v2, In (k', v2) ((k, v) :: t))
    by (intros k' v' Hin; destruct (I4 _ _ Hin) as [v2 Hv2]; exists v2; right; exact Hv2).
  assert (L3 : forall k' v', In (k', v') d -> String.compare k k' = Lt)
    by (intros k' v' Hin; destruct (I3 _ _ Hin) as [v2 Hv2]; eauto).
  assert (L4 : forall k' v', In (k', v') b -> String.compare k k' = Lt)
    by (intros k' v' Hin; destruct (I4 _ _ Hin) as [v2 Hv2]; eauto).
  destruct (Hash.valid_utf8 v); cbn [fst snd dsorted]; repeat split; auto.
  - intros k' v' [E|Hin]; [injection E as E1 E2; subst k'; eexists; left; reflexivity|eauto].
  - intros k' v' [E|Hin]; [injection E as E1 E2; subst k'; eexists; left; reflexivity|eauto].
Qed.

Lemma gen_node_pdata secret g n : gen_node secret g = Ok n ->
  exists kvs m, gen_pairs g = Ok kvs /\ Generators.validated_map kvs [] = Ok m /\ pdata_of n = decl_maps secret m.
Proof.
  unfold gen_node. destruct (String.eqb (pg_name g) ""); [discriminate|].
  destruct (gen_pairs g) as [kvs| | |] eqn:EP; cbn [bind]; try discriminate.
  destruct (Generators.validated_map kvs []) as [m| | |] eqn:EV; cbn [bind]; try discriminate.
  intro H. inv H. exists kvs, m. split; [reflexivity|]. split; [exact EV|].
  pose proof (validated_map_sorted kvs [] m I EV) as Hs.
  unfold pdata_of, decl_maps, data_field. destruct secret.
  - cbn [map_field_value app find_field String.eqb Ascii.eqb Bool.eqb]. cbn.
    unfold node_dict, node_pairs. f_equal. f_equal.
    change (fun kv : string * string => (fst kv, str_node (Hash.encode_base64 (snd kv))))
      with (fun kv : string * string => (fst kv, str_node (snd ((fun kv0 : string * string => (fst kv0, Hash.encode_base64 (snd kv0))) kv)))).
    rewrite <- (map_map (fun kv0 : string * string => (fst kv0, Hash.encode_base64 (snd kv0))) (fun kv => (fst kv, str_node (snd kv)))).
    apply read_str_map. apply dsorted_map. exact Hs.
  - destruct (split_data_dsorted m Hs) as (S1 & S2 & _).
    destruct (Generators.split_data m) as [d b]. cbn [fst snd] in S1, S2.
    unfold map_field. destruct d as [|pd td], b as [|pb tb]; cbn; unfold node_dict, node_pairs; cbn.
    + reflexivity.
    + f_equal. apply (read_str_map (pb :: tb)). exact S2.
    + f_equal. f_equal. apply (read_str_map (pd :: td)). exact S1.
    + f_equal; [f_equal; apply (read_str_map (pd :: td)); exact S1|apply (read_str_map (pb :: tb)); exact S2].
Qed.

Lemma set_first_keys name (v : node) kvs : map fst (set_first name v kvs) = map fst kvs.
Proof. induction kvs as [|[k x] t IH]; cbn; [reflexivity|]. destruct (String.eqb k name); cbn; [reflexivity|f_equal; exact IH]. Qed.

(* a walk into an existing top-level field keeps the top-level keys *)
Lemma walk_key_unique {A} cr name ps (k : node -> res (node * A)) n n' r :
  walk cr (PKey name :: ps) k n = Ok (n', r) -> map_field_value name n <> None -> top_unique n ->
  top_unique n' /\ map_field_value name n' <> None.
Proof.
  intros H Hm Hu. cbn [walk] in H. destruct n as [t s v|kvs|es]; try (cbn in Hm; congruence).
  cbn [map_field_value] in Hm. destruct (find_field name kvs) as [x|] eqn:E; [|congruence].
  destruct (walk cr ps k x) as [[x' a]| | |]; cbn [bind] in H; try discriminate. inv H. cbn [fst].
  split; [cbn [top_unique]; rewrite set_first_keys; exact Hu|].
  cbn [map_field_value]. rewrite (pp_find_set_first_same _ _ _ _ E). discriminate.
Qed.

Section Steps2.
  Variable nonstr : string -> bool.

  Lemma set_meta_map_unique f m n n' : set_meta_map f m n = Ok n' -> top_unique n ->
    top_unique n' /\ map_field_value "metadata" n' <> None.
  Proof.
    intros H Hu. unfold set_meta_map in H. destruct n as [| kvs |]; try discriminate.
    destruct (find_field "metadata" kvs) as [[| mkvs |]|] eqn:E; try discriminate. inv H.
    split; [cbn [top_unique]; rewrite set_first_keys; exact Hu|].
    cbn [map_field_value]. rewrite (pp_find_set_first_same _ _ _ _ E). discriminate.
  Qed.

  Lemma copy_merge_meta_unique r old r1 : copy_merge_meta nonstr r old = Ok r1 -> top_unique (r_node r) -> top_unique (r_node r1).
  Proof.
    intros H Hu. unfold copy_merge_meta in H.
    destruct (set_meta_map "labels" _ (r_node r)) as [n1| | |] eqn:E1; cbn [bind] in H; try discriminate.
    destruct (set_meta_map "annotations" _ n1) as [n2| | |] eqn:E2; cbn [bind] in H; try discriminate.
    destruct (Rename.set_name nonstr _ n2) as [n3| | |] eqn:E3; cbn [bind] in H; try discriminate.
    destruct (set_namespace nonstr _ n3) as [n4| | |] eqn:E4; cbn [bind] in H; try discriminate. inv H. cbn [r_node].
    destruct (set_meta_map_unique _ _ _ _ E1 Hu) as [U1 _].
    destruct (set_meta_map_unique _ _ _ _ E2 U1) as [U2 M2].
    unfold Rename.set_name, put in E3.
    destruct (walk _ _ _ n2) as [[x3 a3]| | |] eqn:W3; cbn [bind] in E3; try discriminate. inv E3. cbn [fst].
    destruct (walk_key_unique _ _ _ _ _ _ _ W3 M2 U2) as [U3 M3].
    unfold set_namespace in E4. destruct (String.eqb _ "").
    - unfold clear_at in E4. destruct (walk _ _ _ n3) as [[x4 a4]| | |] eqn:W4; cbn [bind] in E4; try discriminate. inv E4.
      exact (proj1 (walk_key_unique _ _ _ _ _ _ _ W4 M3 U3)).
    - unfold put in E4. destruct (walk _ _ _ n3) as [[x4 a4]| | |] eqn:W4; cbn [bind] in E4; try discriminate. inv E4.
      exact (proj1 (walk_key_unique _ _ _ _ _ _ _ W4 M3 U3)).
  Qed.

  Lemma gen_node_unique secret g n : gen_node secret g = Ok n -> top_unique n.
  Proof.
    unfold gen_node. destruct (String.eqb (pg_name g) ""); [discriminate|].
    destruct (gen_pairs g) as [kvs| | |]; cbn [bind]; try discriminate.
    destruct (Generators.validated_map kvs []) as [m| | |]; cbn [bind]; try discriminate.
    intro H. inv H. cbn [top_unique]. unfold data_field. destruct secret.
    - cbn. repeat constructor; cbn; intuition discriminate.
    - destruct (Generators.split_data m) as [d b]. unfold map_field.
      destruct d, b; cbn; repeat constructor; cbn; intuition discriminate.
  Qed.

  (* ---------- resWrangler.appendReplaceOrMerge on documents: the data of what it puts back ---------- *)

  (* merge: exactly one match [old]; the resource put in its place carries the C06 dictionary merge of the two *)
  Theorem absorb_merge_pdata m r m' i old :
    top_unique (r_node r) ->
    matching_any (cur_id pipe_cs r) 0 m = Ok [i] -> nth_error m i = Some old ->
    absorb nonstr m Generators.BMerge r = Ok m' ->
    exists r2, m' = replace_nth i r2 m /\
               pdata_of (r_node r2) = GeneratorsProofs.merge_dd (pdata_of (r_node old)) (pdata_of (r_node r)).
  Proof.
    intros Hu Hm Hn H. unfold absorb in H. rewrite Hm in H. cbn [bind List.length] in H.
    rewrite GeneratorsProofs.absorb_action_1 in H. rewrite Hn in H.
    destruct (copy_merge_meta nonstr r old) as [r1| | |] eqn:E1; cbn [bind] in H; try discriminate.
    destruct (merge_data_from r1 old) as [r2| | |] eqn:E2; cbn [bind] in H; try discriminate.
    destruct (index_of_cur _ m) as [[j|]| | |]; cbn [bind] in H; try discriminate.
    destruct (Nat.eqb j i); [|discriminate]. inv H. exists r2. split; [reflexivity|].
    destruct (merge_data_from_pdata _ _ _ (copy_merge_meta_unique _ _ _ E1 Hu) E2) as [D _].
    rewrite D, (copy_merge_meta_pdata nonstr _ _ _ E1). reflexivity.
  Qed.

  (* replace: the resource put back carries the declared maps *)
  Theorem absorb_replace_pdata m r m' i old :
    matching_any (cur_id pipe_cs r) 0 m = Ok [i] -> nth_error m i = Some old ->
    absorb nonstr m Generators.BReplace r = Ok m' ->
    exists r1, m' = replace_nth i r1 m /\ pdata_of (r_node r1) = pdata_of (r_node r).
  Proof.
    intros Hm Hn H. unfold absorb in H. rewrite Hm in H. cbn [bind List.length] in H.
    rewrite GeneratorsProofs.absorb_action_1 in H. rewrite Hn in H.
    destruct (copy_merge_meta nonstr r old) as [r1| | |] eqn:E1; cbn [bind] in H; try discriminate.
    destruct (index_of_cur _ m) as [[j|]| | |]; cbn [bind] in H; try discriminate.
    destruct (Nat.eqb j i); [|discriminate]. inv H. exists r1. split; [reflexivity|].
    exact (copy_merge_meta_pdata nonstr _ _ _ E1).
  Qed.

  (* the error laws, on documents *)
  Theorem absorb_errors_pdata m r ms :
    matching_any (cur_id pipe_cs r) 0 m = Ok ms ->
    (ms = [] -> absorb nonstr m Generators.BMerge r = Err /\ absorb nonstr m Generators.BReplace r = Err) /\
    (forall i, ms = [i] -> absorb nonstr m Generators.BCreate r = Err /\ absorb nonstr m Generators.BUnspecified r = Err) /\
    (forall i j t b, ms = i :: j :: t -> absorb nonstr m b r = Err).
  Proof.
    intros Hm. repeat split; intros; subst; unfold absorb; rewrite Hm; cbn [bind List.length];
      try rewrite GeneratorsProofs.absorb_action_0; try rewrite GeneratorsProofs.absorb_action_1;
      try rewrite GeneratorsProofs.absorb_action_many; reflexivity.
  Qed.
End Steps2.

(* ---------- non-vacuity: a 3-layer chain with an env file, explicit-key files (one binary) and literals ---------- *)
Definition d3_gen0 : pgen :=
  mkPGenX "cfg" "" "" ["lit=0"] "" false [] [] false
          [sb [239;187;191;65;61;49;10;66;61;116;119;111;10;35;32;99;10;69;77;80;84;89;10]%N]   (* BOM A=1\nB=two\n# c\nEMPTY\n *)
          [("blob=blob.bin", sb [255; 0; 1]%N)].
Definition d3_gen1 : pgen :=
  mkPGenX "cfg" "" "merge" ["C=3"] "" false [] [] false [] [("B=b.txt", "b from file"); ("blob=blob2.bin", sb [254; 2]%N)].
Definition d3_gen2 : pgen :=
  mkPGenX "cfg" "" "merge" ["A='quoted'"; "blob=text now"] "" false [] [] false [" B=top" ++ sb [13; 10]%N] [].
Definition d3_tree : ptree :=
  PDir "top" (mkPDirs "" "" "-s" [] [] [] [d3_gen2] [])
    [PDir "mid" (mkPDirs "ns1" "" "" [] [("app", "x")] [] [d3_gen1] [])
       [PDir "base" (mkPDirsG "" "p-" "" [] [] [] [d3_gen0] [] (Some (mkPGopts [("g", "1")] [] false))) []]].

Definition fold3 : res (option (option dict * dict)) :=
  match gen_node false d3_gen0, gen_node false d3_gen1, gen_node false d3_gen2 with
  | Ok n0, Ok n1, Ok n2 =>
      do s1 <- GeneratorsProofs.dstep None (Generators.new_behavior (pg_behavior d3_gen0)) (pdata_of n0);
      do s2 <- GeneratorsProofs.dstep s1 (Generators.new_behavior (pg_behavior d3_gen1)) (pdata_of n1);
      GeneratorsProofs.dstep s2 (Generators.new_behavior (pg_behavior d3_gen2)) (pdata_of n2)
  | _, _, _ => Err
  end.

Example pipeline_dictionary_example3 :
  exists c, build (fun _ => false) PSortNone d3_tree = Ok [c] /\
            fold3 = Ok (Some (pdata_of c)) /\
            pdata_of c = (Some [("A", "quoted"); ("B", "top"); ("C", "3"); ("EMPTY", ""); ("blob", "text now"); ("lit", "0")], []) /\
            Hash.hash_content (content_of_node c) = Ok "52c42ck5cf" /\ get_name c = "p-cfg-s-52c42ck5cf".
Proof. eexists. split; [vm_compute; reflexivity|]. vm_compute. repeat split. Qed.
