(* The normal form [norm] used by the correspondence to compare the AST Go's parser produced with
   [img_re] preserves the language: equal normal forms match the same subjects. *)
From KV Require Import Base.Regex Base.RegexProofs Res.Image.

Ltac inv H := inversion H; subst; clear H.

Definition equiv (r r' : re) : Prop := forall b e w, M r b e w <-> M r' b e w.

Lemma equiv_refl r : equiv r r.
Proof. intros b e w; tauto. Qed.
Lemma equiv_sym r r' : equiv r r' -> equiv r' r.
Proof. intros H b e w; symmetry; apply H. Qed.
Lemma equiv_trans r1 r2 r3 : equiv r1 r2 -> equiv r2 r3 -> equiv r1 r3.
Proof. intros H1 H2 b e w. rewrite (H1 b e w). apply H2. Qed.

Lemma M_ctx r b e w b' e' : M r b e w -> b = b' -> e = e' -> M r b' e' w.
Proof. intros; subst; auto. Qed.

Lemma equiv_Cat a a' c c' : equiv a a' -> equiv c c' -> equiv (Cat a c) (Cat a' c').
Proof.
  intros Ha Hc b e w. rewrite !M_Cat_iff. split; intros (w1 & w2 & E & H1 & H2); exists w1, w2;
    (split; [auto|split; [apply Ha; auto|apply Hc; auto]]).
Qed.

Lemma equiv_Alt a a' c c' : equiv a a' -> equiv c c' -> equiv (Alt a c) (Alt a' c').
Proof.
  intros Ha Hc b e w. split; intros H; apply M_Alt_inv in H; destruct H as [H|H];
    first [apply MAltL, Ha; assumption|apply MAltR, Hc; assumption].
Qed.

Lemma star_mono a a' : (forall b e w, M a b e w -> M a' b e w) ->
  forall b e w, M (Star a) b e w -> M (Star a') b e w.
Proof.
  intros Ha b e w H. remember (Star a) as sa eqn:E. induction H; try discriminate.
  - constructor.
  - inv E. apply MStarS; auto.
Qed.

Lemma equiv_Star a a' : equiv a a' -> equiv (Star a) (Star a').
Proof. intros Ha b e w. split; apply star_mono; intros; apply Ha; auto. Qed.

Lemma equiv_Cat_Eps_l r : equiv (Cat Eps r) r.
Proof.
  intros b e w. split.
  - intros H. apply M_Cat_inv in H. destruct H as (w1 & w2 & -> & H1 & H2).
    apply M_Eps_inv in H1; subst. cbn in *. rewrite andb_true_r in H2. auto.
  - apply M_Cat_Eps_l.
Qed.

Lemma equiv_Cat_Eps_r r : equiv (Cat r Eps) r.
Proof.
  intros b e w. split.
  - intros H. apply M_Cat_inv in H. destruct H as (w1 & w2 & -> & H1 & H2).
    apply M_Eps_inv in H2; subst. cbn in *. rewrite andb_true_r, app_empty_r in *. auto.
  - apply M_Cat_Eps_r.
Qed.

Lemma equiv_Cat_assoc a c d : equiv (Cat (Cat a c) d) (Cat a (Cat c d)).
Proof.
  intros b e w. split; intros H.
  - apply M_Cat_inv in H. destruct H as (w12 & w3 & -> & H12 & H3).
    apply M_Cat_inv in H12. destruct H12 as (w1 & w2 & -> & H1 & H2).
    rewrite app_assoc_s. apply MCat.
    + eapply M_ctx; [exact H1|auto|]. rewrite emp_app. destruct e, (emp w2), (emp w3); reflexivity.
    + apply MCat.
      * eapply M_ctx; [exact H2|auto|auto].
      * eapply M_ctx; [exact H3| |auto]. rewrite emp_app. destruct b, (emp w1), (emp w2); reflexivity.
  - apply M_Cat_inv in H. destruct H as (w1 & w23 & -> & H1 & H23).
    apply M_Cat_inv in H23. destruct H23 as (w2 & w3 & -> & H2 & H3).
    rewrite <- app_assoc_s. apply MCat.
    + apply MCat.
      * eapply M_ctx; [exact H1|auto|]. rewrite emp_app. destruct e, (emp w2), (emp w3); reflexivity.
      * eapply M_ctx; [exact H2|auto|auto].
    + eapply M_ctx; [exact H3| |auto]. rewrite emp_app. destruct b, (emp w1), (emp w2); reflexivity.
Qed.

Lemma col_cons x l : equiv (cat_of_list (x :: l)) (Cat x (cat_of_list l)).
Proof.
  destruct l as [|y t]; cbn [cat_of_list].
  - apply equiv_sym, equiv_Cat_Eps_r.
  - apply equiv_refl.
Qed.

Lemma col_app : forall l1 l2, equiv (cat_of_list (l1 ++ l2)) (Cat (cat_of_list l1) (cat_of_list l2)).
Proof.
  induction l1 as [|x t IH]; intros l2.
  - cbn. apply equiv_sym, equiv_Cat_Eps_l.
  - change ((x :: t) ++ l2)%list with (x :: (t ++ l2))%list.
    eapply equiv_trans; [apply col_cons|].
    eapply equiv_trans; [apply equiv_Cat; [apply equiv_refl|apply IH]|].
    eapply equiv_trans; [apply equiv_sym, equiv_Cat_assoc|].
    apply equiv_Cat; [apply equiv_sym, col_cons|apply equiv_refl].
Qed.

Theorem norm_equiv r : equiv (norm r) r.
Proof.
  unfold norm. induction r; cbn [flat cat_of_list]; try apply equiv_refl.
  - eapply equiv_trans; [apply col_app|]. apply equiv_Cat; auto.
  - apply equiv_Alt; auto.
  - apply equiv_Star; auto.
Qed.

Lemma equiv_matches r r' : equiv r r' -> forall s, matches r s = matches r' s.
Proof.
  intros H s. apply eq_true_iff_eq. rewrite !matches_spec.
  split; intros (w0 & w1 & w2 & E & Hm); exists w0, w1, w2; split; auto; apply H; auto.
Qed.

(* what the correspondence checks for every literal entry name implies the hypothesis of image_exact *)
Theorem ast_check_sound r t :
  re_eqb (norm r) (norm (img_re t)) = true -> forall s, matches r s = matches (img_re t) s.
Proof.
  intros H. apply re_eqb_eq in H. apply equiv_matches.
  eapply equiv_trans; [apply equiv_sym, norm_equiv|]. rewrite H. apply norm_equiv.
Qed.
