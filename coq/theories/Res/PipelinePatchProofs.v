(* patches: entries of the pipeline model (Res/Pipeline.v [patch_transform]): what an entry with a target leaves
   alone, and the two spellings of one patch that the implementation (and hence the model) treats differently. *)
From KV Require Import Res.Pipeline Res.PipelineProofs.
From KV Require Res.Selector Corr.SchemaTable.
Local Open Scope string_scope.

Section Patch.
  Variable nonstr : string -> bool.

  (* resWrangler.ApplySmPatch: a resource whose id is not in the selected set goes through unchanged (unless it
     was already nil / empty), in place *)
  Lemma apply_selected_unselected sch ids patch m : forall l,
    apply_selected nonstr sch ids patch m = Ok l ->
    forall r, In r m -> existsb (resid_raw_eqb (cur_id pipe_cs r)) ids = false ->
              nil_or_empty (r_node r) = false -> In r l.
  Proof.
    induction m as [|x t IH]; intros l H r Hin Hsel Hne; [destruct Hin|].
    cbn [apply_selected] in H.
    destruct (if existsb (resid_raw_eqb (cur_id pipe_cs x)) ids then _ else _) as [x'| | |] eqn:EX;
      cbn [bind] in H; try discriminate.
    destruct (apply_selected nonstr sch ids patch t) as [t'| | |] eqn:ET; cbn [bind] in H; try discriminate.
    inv H. destruct Hin as [->|Hin].
    - rewrite Hsel in EX. inv EX. rewrite Hne. left. reflexivity.
    - destruct (nil_or_empty (r_node x')); [|right]; eapply IH; eauto.
  Qed.

  (* the resources a patches: entry with a target selects, as ids *)
  Definition selected_ids (s : Selector.selector) (m : list resource) : res (list resid) :=
    do idx <- Selector.select RegexParse.re_parse sel_cs Selector.simple_lsel s (map materialize m);
    Ok (flat_map (fun i => match nth_error m i with Some r => [cur_id pipe_cs r] | None => [] end) idx).

  (* C10 at the level of one patches: entry: it changes only what its target selects *)
  Theorem patch_changes_only_selected p s m m' :
    pp_target p = Some s -> patch_transform nonstr p m = Ok m' ->
    exists ids, selected_ids s m = Ok ids /\
      forall r, In r m -> existsb (resid_raw_eqb (cur_id pipe_cs r)) ids = false ->
                nil_or_empty (r_node r) = false -> In r m'.
  Proof.
    intros Ht H. unfold patch_transform in H. rewrite Ht in H.
    destruct (pp_docs p) as [|patch [|]]; try discriminate.
    unfold selected_ids.
    destruct (Selector.select _ _ _ s (map materialize m)) as [idx| | |]; cbn [bind] in H |- *; try discriminate.
    eexists. split; [reflexivity|]. intros r Hin Hsel Hne.
    unfold apply_to_set in H.
    destruct (apply_selected nonstr _ _ patch m) as [l| | |] eqn:EL; cbn [bind] in H; try discriminate.
    apply append_all_spec in H as [-> _]. cbn [app].
    eapply apply_selected_unselected; eauto.
  Qed.
End Patch.

(* ---------- one patch, two spellings, two results (finding PIPE/patch-spelling) ----------
   A patch that deletes a label with null and sets a numeric label value:
     patches: [{path: p.yaml}]                            deletes `keep`, sets n: 1       (Resource.ApplySmPatch directly)
     patches: [{path: p.yaml, target: {kind: Deployment}}]  keeps `keep` as the STRING "null", sets n: "1"
   because resWrangler.ApplySmPatch first rewrites the labels / annotations of its copy of the patch through
   map[string]string (CopyMergeMetaDataFieldsFrom(patch) on itself).  patchesStrategicMerge: behaves like the second
   form, so `kustomize edit fix` (which turns it into the first) changes the build. *)
Definition spelling_target : node :=
  Map [("apiVersion", Scalar TStr SPlain "apps/v1"); ("kind", Scalar TStr SPlain "Deployment");
       ("metadata", Map [("name", Scalar TStr SPlain "web");
                         ("labels", Map [("keep", Scalar TStr SPlain "me")])])].
Definition spelling_patch : node :=
  Map [("apiVersion", Scalar TStr SPlain "apps/v1"); ("kind", Scalar TStr SPlain "Deployment");
       ("metadata", Map [("name", Scalar TStr SPlain "web");
                         ("labels", Map [("n", Scalar TInt SPlain "1"); ("keep", Scalar TNull SPlain "null")])])].
Definition spelling_tree (tgt : option Selector.selector) : ptree :=
  PDir "t" (mkPDirsP "" "" "" [] [] [] [] [] None [] [] [mkPPatch [spelling_patch] tgt []])
       [PFile [spelling_target]].
Definition kind_only : Selector.selector :=
  Selector.mkSel (Selector.mkId (Selector.mkGvk "" "" "Deployment") "" "") "" "".

Definition labels_of (r : res (list node)) : list (string * node) :=
  match r with
  | Ok [Map kvs] =>
      match find_field "metadata" kvs with
      | Some (Map mkvs) => match find_field "labels" mkvs with Some (Map l) => l | _ => [] end
      | _ => []
      end
  | _ => []
  end.

Example spelling_without_target :
  labels_of (build (fun s => String.eqb s "1") PSortNone (spelling_tree None)) = [("n", Scalar TInt SPlain "1")].
Proof. vm_compute. reflexivity. Qed.

Example spelling_with_target :
  labels_of (build (fun s => String.eqb s "1") PSortNone (spelling_tree (Some kind_only))) =
  [("keep", Scalar TStr SPlain "null"); ("n", Scalar TStr SDouble "1")].
Proof. vm_compute. reflexivity. Qed.
