(* Non-vacuity of C07_fixpoint_build: a tree with a name prefix, a name reference that follows it and an
   annotation that the build removes meets every hypothesis of the theorem. *)
From KV Require Import Res.Pipeline Res.PipelineProofs Res.PipelineWfProofs Res.PipelineFixProofs.
Local Open Scope string_scope.

Definition fx_str (s : string) := Scalar TStr SPlain s.
Definition fx_cm : node :=
  Map [("apiVersion", fx_str "v1"); ("kind", fx_str "ConfigMap");
       ("metadata", Map [("name", fx_str "a");
                         ("annotations", Map [("note", fx_str "x"); ("config.kubernetes.io/path", fx_str "f.yaml")])]);
       ("data", Map [("k", fx_str "v")])].
Definition fx_dep : node :=
  Map [("apiVersion", fx_str "apps/v1"); ("kind", fx_str "Deployment"); ("metadata", Map [("name", fx_str "d")]);
       ("spec", Map [("template", Map [("spec", Map [("volumes",
          Seq [Map [("name", fx_str "v"); ("configMap", Map [("name", fx_str "a")])]])])])])].
Definition fx_tree : ptree := PDir "top" (mkPDirs "" "p-" "" [] [] [] [] []) [PFile [fx_dep; fx_cm]].
Definition fx_ns (s : string) := false.

Definition fx_pre : list node :=
  Eval vm_compute in match build_pre fx_ns PSortNone fx_tree with Ok p => p | _ => [] end.
Definition fx_rules : list nbr := Eval vm_compute in match pipe_rules with Ok r => r | _ => [] end.

Lemma fx_build_pre : build_pre fx_ns PSortNone fx_tree = Ok fx_pre.
Proof. vm_compute. reflexivity. Qed.

Lemma fx_rules_ok : pipe_rules = Ok fx_rules.
Proof. vm_compute. reflexivity. Qed.

Lemma fx_changed : List.length fx_pre = 2 /\ map strip_node fx_pre <> fx_pre.
Proof. split; [reflexivity|]. vm_compute. intros X. discriminate. Qed.

Lemma fx_clean : Forall meta_clean fx_pre.
Proof.
  unfold fx_pre. constructor; [|constructor; [|constructor]].
  - split; [reflexivity|]. vm_compute. constructor.
  - split; [reflexivity|]. vm_compute. constructor; [intros [H|[]]; discriminate|].
    constructor; [intros []|constructor].
Qed.

Lemma fx_guard : distinct_node_ids (map strip_node fx_pre).
Proof.
  vm_compute. split; [|split; [|exact I]]; intros x H.
  - destruct H as [<-|[]]. reflexivity.
  - destruct H.
Qed.

Lemma fx_nameref :
  nameref_transform pipe_cs fx_ns fx_rules (map load (map strip_node fx_pre)) = Ok (map load (map strip_node fx_pre)).
Proof. vm_compute. reflexivity. Qed.

(* all hypotheses hold, so the second build returns the first one's output *)
Example fixpoint_build_example :
  build fx_ns PSortNone (leaf "again" (map strip_node fx_pre)) = Ok (map strip_node fx_pre).
Proof. exact (build_fixpoint fx_ns PSortNone fx_tree fx_pre fx_rules "again" fx_build_pre fx_clean fx_guard fx_rules_ok fx_nameref). Qed.
