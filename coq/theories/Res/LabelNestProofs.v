(* Proofs about label layering (C11): every output resource carries, for every key, the value of the
   outermost layer that sets it. *)
From KV Require Import Res.LabelNest.
Open Scope string_scope.
Open Scope list_scope.

Section LTreeInd.
  Variable P : ltree -> Prop.
  Hypothesis HFile : forall docs, P (LFile docs).
  Hypothesis HDir : forall ents lbls common, Forall P ents -> P (LDir ents lbls common).
  Fixpoint ltree_ind' (t : ltree) : P t :=
    match t with
    | LFile docs => HFile docs
    | LDir ents lbls common =>
        HDir ents lbls common ((fix go (l : list ltree) : Forall P l :=
                                  match l with
                                  | [] => Forall_nil P
                                  | e :: l' => Forall_cons e (ltree_ind' e) (go l')
                                  end) ents)
    end.
End LTreeInd.

Lemma lookup_set_entry : forall k k' v l,
  lookup k (set_entry k' v l) = if String.eqb k k' then Some v else lookup k l.
Proof.
  induction l as [|[k0 v0] t IH]; simpl.
  - destruct (String.eqb k k'); auto.
  - destruct (String.eqb_spec k' k0) as [E|N]; simpl.
    + subst k0. destruct (String.eqb k k'); auto.
    + rewrite IH. destruct (String.eqb_spec k k0) as [E2|N2]; auto.
      subst k0. destruct (String.eqb_spec k k') as [E3|N3]; auto; congruence.
Qed.

Lemma lookup_apply : forall k m l,
  lookup k (apply_labels m l) = match lookup k m with Some v => Some v | None => lookup k l end.
Proof.
  induction m as [|[k' v] m IH]; intros l; simpl; auto.
  rewrite lookup_set_entry. destruct (String.eqb k k'); auto.
Qed.

Lemma lookup_fold_entries : forall k lbls l,
  lookup k (fold_left (fun acc m => apply_labels m acc) lbls l) =
  match lookup_entries k lbls with Some v => Some v | None => lookup k l end.
Proof.
  induction lbls as [|m rest IH]; intros l; simpl; auto.
  rewrite IH. destruct (lookup_entries k rest); auto using lookup_apply.
Qed.

Lemma lookup_layer : forall k lbls common l,
  lookup k (layer_labels lbls common l) =
  match lookup k common with
  | Some v => Some v
  | None => match lookup_entries k lbls with Some v => Some v | None => lookup k l end
  end.
Proof. intros. unfold layer_labels. rewrite lookup_apply, lookup_fold_entries. auto. Qed.

(* a document with its own labels occurs below these layers (outermost first) *)
Inductive loccurs : ltree -> rid * labels -> list (list labels * labels) -> Prop :=
| locc_file : forall docs d, In d docs -> loccurs (LFile docs) d []
| locc_dir : forall ents lbls common e d layers,
    In e ents -> loccurs e d layers -> loccurs (LDir ents lbls common) d ((lbls, common) :: layers).

(* C11_label_nesting *)
Theorem label_nesting : forall t d l,
  In (d, l) (lflat t) ->
  exists own layers, loccurs t (d, own) layers /\ forall k, lookup k l = nest_lookup k layers own.
Proof.
  induction t using ltree_ind'; intros d l I; simpl in I.
  - exists l, []. split; [constructor; auto|]. auto.
  - apply in_map_iff in I. destruct I as [[d0 l0] [E I]]. simpl in E. inversion E; subst d0 l. clear E.
    apply in_concat in I. destruct I as [x [Ix Id]].
    apply in_map_iff in Ix. destruct Ix as [e [<- Ie]].
    rewrite Forall_forall in H. destruct (H _ Ie _ _ Id) as [own [layers [O L]]].
    exists own, ((lbls, common) :: layers). split.
    + econstructor; eauto.
    + intros k. rewrite lookup_layer. simpl. rewrite L. auto.
Qed.

(* every document of the tree is in the output, in accumulation order (no resource is lost or duplicated) *)
Theorem lflat_ids : forall t, map fst (lflat t) =
  (fix ids (t : ltree) : list rid :=
     match t with
     | LFile docs => map fst docs
     | LDir ents _ _ => List.concat (map ids ents)
     end) t.
Proof.
  induction t using ltree_ind'; simpl; auto.
  rewrite map_map. simpl.
  rewrite <- (map_map (fun dl => dl) fst). rewrite map_id.
  rewrite concat_map, map_map.
  f_equal. apply map_ext_in. intros e Ie. rewrite Forall_forall in H. auto.
Qed.

Example ex_label_nesting :
  let d := mkId (mkGvk "" "v1" "ConfigMap") "" "c" in
  let t := LDir [LDir [LFile [(d, [("app", "own"); ("keep", "k")])]] [[("app", "inner")]; [("tier", "t1")]] [("env", "e1")]]
                [[("tier", "t2")]] [("app", "outer")] in
  lflat t = [(d, [("app", "outer"); ("keep", "k"); ("tier", "t2"); ("env", "e1")])].
Proof. vm_compute. reflexivity. Qed.
