(* Proofs about the tail of a build (hash names, IgnoreLocal, sort, strip), the operation traces,
   the refutation witnesses and the model-level fixpoint facts of C07. *)
From KV Require Import Base.Prelude Res.HygieneTypes Gen.Annotations Res.Hygiene Res.HygieneProofs
  Res.ResMapModel Res.ResMapProofs.
Open Scope list_scope.

(* ---------- decidable form of Inv (for witnesses) ---------- *)

Fixpoint inv_b (m : rmap) : bool :=
  match m with
  | [] => true
  | r :: t => negb (existsb (fun x => id_equals (cur r) (cur x)) t) && inv_b t
  end.

Lemma inv_b_iff m : inv_b m = true <-> Inv m.
Proof.
  unfold Inv. induction m as [|r t IH]; cbn.
  - split; [constructor | reflexivity].
  - rewrite andb_true_iff, negb_true_iff, IH. split.
    + intros [E N]. constructor; auto. intros X. apply existsb_equals_in in X. congruence.
    + intros N. inv N. split; auto.
      destruct (existsb _ t) eqn:E; auto. apply existsb_equals_in in E. contradiction.
Qed.

(* ---------- hash suffixes ---------- *)

(* what HashTransformer does to one resource, as a total function *)
Definition hashed_name (h : list (string * string)) (r : mres) : string :=
  match assoc (m_tag r) h with
  | Some hv => (i_name (cur r) ++ "-" ++ hv)%string
  | None => i_name (cur r)
  end.

Lemma hash_one_cur h r r' : hash_one h r = Ok r' ->
  cur r' = if needs_hash r then mkId (i_gvk (cur r)) (hashed_name h r) (i_ns (cur r)) else cur r.
Proof.
  unfold hash_one, hashed_name. destruct (needs_hash r); [|intros H; inv H; reflexivity].
  destruct (assoc (m_tag r) h); intros H; inv H. reflexivity.
Qed.

Lemma mapM_all_ok {A B} (f : A -> res B) l l' : mapM f l = Ok l' -> forall a, In a l -> exists b, f a = Ok b.
Proof.
  revert l'. induction l as [|x t IH]; cbn; intros l' H a Ha; [destruct Ha|].
  destruct (f x) as [y| | |] eqn:E1; cbn in H; try discriminate.
  destruct (mapM f t) as [ys| | |] eqn:E2; cbn in H; try discriminate.
  destruct Ha as [<-|Ha]; eauto.
Qed.

Lemma ann_get_set_other k k' v a : k <> k' -> ann_get k (ann_set k' v a) = ann_get k a.
Proof.
  intros N. induction a as [|[k1 v1] t IH]; cbn.
  - destruct (String.eqb k' k) eqn:E; [apply String.eqb_eq in E; congruence|reflexivity].
  - destruct (String.eqb k1 k') eqn:E; cbn.
    + apply String.eqb_eq in E. subst k1.
      destruct (String.eqb k' k) eqn:E2; [apply String.eqb_eq in E2; congruence|reflexivity].
    + destruct (String.eqb k1 k); [reflexivity|exact IH].
Qed.

Lemma ann_get_append_csv_other k k' v a : k <> k' -> ann_get k (append_csv k' v a) = ann_get k a.
Proof. intros N. unfold append_csv. destruct (String.eqb v ""); [reflexivity|apply ann_get_set_other; exact N]. Qed.

Lemma needs_hash_ann_store_prev r :
  ann_get K_utils_BuildAnnotationsGenAddHashSuffix (m_ann (store_prev r)) =
  ann_get K_utils_BuildAnnotationsGenAddHashSuffix (m_ann r).
Proof.
  unfold store_prev. cbn [m_ann set_ann].
  rewrite !ann_get_append_csv_other by (intros X; vm_compute in X; discriminate). reflexivity.
Qed.

Lemma hash_one_needs h r r' : hash_one h r = Ok r' -> needs_hash r' = needs_hash r.
Proof.
  unfold hash_one. destruct (needs_hash r) eqn:EN; [|intros H; inv H; exact EN].
  destruct (assoc (m_tag r) h) as [hv|]; intros H; inv H.
  unfold needs_hash in *. cbn [m_ann set_name]. rewrite needs_hash_ann_store_prev. exact EN.
Qed.

Lemma filter_two {A} (p : A -> bool) (g : A -> A) l a b :
  In a l -> In b l -> a <> b -> p (g a) = true -> p (g b) = true -> 2 <= List.length (filter p (map g l)).
Proof.
  induction l as [|x t IH]; cbn; intros Ha Hb N Pa Pb; [destruct Ha|].
  assert (one : forall c, In c t -> p (g c) = true -> 1 <= List.length (filter p (map g t))).
  { clear. induction t as [|y u IHu]; cbn; intros c Hc Pc; [destruct Hc|].
    destruct Hc as [<-|Hc]; [rewrite Pc; cbn; lia|]. destruct (p (g y)); cbn; [lia|eauto]. }
  destruct Ha as [<-|Ha], Hb as [<-|Hb].
  - congruence.
  - rewrite Pa. cbn. specialize (one b Hb Pb). lia.
  - rewrite Pb. cbn. specialize (one a Ha Pa). lia.
  - destruct (p (g x)); cbn; [specialize (IH Ha Hb N Pa Pb); lia|auto].
Qed.

(* with the re-check of the fix the hash step preserves uniqueness, no side condition *)
Lemma hash_all_inv h m m' : Inv m -> hash_all h m = Ok m' -> Inv m'.
Proof.
  intros I H. unfold hash_all in H.
  destruct (mapM (hash_one h) m) as [m1| | |] eqn:EM; cbn [bind] in H; try discriminate.
  destruct (hash_conflict_free m1) eqn:EC; inv H.
  pose (g := fun r => match hash_one h r with Ok x => x | _ => r end).
  assert (E : m' = map g m).
  { eapply mapM_ok_map; [|exact EM]. intros a b Hab. unfold g. rewrite Hab. reflexivity. }
  pose proof (mapM_all_ok _ _ _ EM) as OK.
  subst m'. unfold Inv. rewrite map_map.
  apply (NoDup_map_rel key (fun r => id_key (cur (g r))) m I).
  intros a b Ha Hb Eq.
  destruct (id_equals (cur a) (cur b)) eqn:Eab; [apply id_equals_key; exact Eab|]. exfalso.
  assert (Nab : a <> b) by (intros ->; rewrite id_equals_refl in Eab; discriminate).
  assert (Egab : id_equals (cur (g a)) (cur (g b)) = true) by (apply id_equals_key; exact Eq).
  unfold hash_conflict_free in EC. rewrite forallb_forall in EC.
  destruct (OK a Ha) as [a' Ea]. destruct (OK b Hb) as [b' Eb].
  assert (Ga : g a = a') by (unfold g; rewrite Ea; reflexivity).
  assert (Gb : g b = b') by (unfold g; rewrite Eb; reflexivity).
  destruct (needs_hash a) eqn:Na.
  - (* a was renamed: its new id must be unique in the new map, but g b carries it too *)
    pose proof (EC (g a) (in_map g m a Ha)) as Ca.
    assert (Nga : needs_hash (g a) = true) by (rewrite Ga, (hash_one_needs _ _ _ Ea); exact Na).
    rewrite Nga in Ca. cbn [negb orb] in Ca. apply Nat.eqb_eq in Ca.
    pose proof (filter_two (fun x => id_equals (cur (g a)) (cur x)) g m a b Ha Hb Nab (id_equals_refl _) Egab) as T.
    lia.
  - destruct (needs_hash b) eqn:Nb.
    + pose proof (EC (g b) (in_map g m b Hb)) as Cb.
      assert (Ngb : needs_hash (g b) = true) by (rewrite Gb, (hash_one_needs _ _ _ Eb); exact Nb).
      rewrite Ngb in Cb. cbn [negb orb] in Cb. apply Nat.eqb_eq in Cb.
      assert (Eba : id_equals (cur (g b)) (cur (g a)) = true).
      { apply id_equals_key. symmetry. apply id_equals_key. exact Egab. }
      pose proof (filter_two (fun x => id_equals (cur (g b)) (cur x)) g m b a Hb Ha (fun X => Nab (eq_sym X))
                             (id_equals_refl _) Eba) as T.
      lia.
    + (* neither renamed: the ids are the old ones *)
      unfold hash_one in Ea, Eb. rewrite Na in Ea. rewrite Nb in Eb. injection Ea as Ea. injection Eb as Eb.
      rewrite Ga, Gb, <- Ea, <- Eb in Egab. congruence.
Qed.

(* regression (C07 finding, fixed): a plain ConfigMap that already carries the hashed name of a generated one used to
   leave the hash step with two equal ids; the step now fails *)
Definition cm_gvk : gvk := mkGvk "" "v1" "ConfigMap" false.
Definition w_gen : mres :=
  mkRes (mkId cm_gvk "x" "") [(K_utils_BuildAnnotationsGenAddHashSuffix, K_utils_Enabled)] false "gen".
Definition w_plain : mres := mkRes (mkId cm_gvk "x-bdg947hgcc" "") [] false "plain".
Definition w_local : mres :=
  mkRes (mkId cm_gvk "x-bdg947hgcc" "") [(K_konfig_IgnoredByKustomizeAnnotation, "true")] false "local".
Definition w_hash : list (string * string) := [("gen", "bdg947hgcc")].

Example hash_all_clash_regression :
  Inv [w_plain; w_gen] /\ hash_all w_hash [w_plain; w_gen] = Err /\ hash_all w_hash [w_local; w_gen] = Err.
Proof. split; [apply inv_b_iff; vm_compute; reflexivity|]. split; vm_compute; reflexivity. Qed.

(* ... and an ordinary generated resource still gets its suffix *)
Example hash_all_still_renames :
  exists m', hash_all w_hash [w_gen; mkRes (mkId cm_gvk "conf" "") [] false "c"] = Ok m' /\
             map (fun r => i_name (cur r)) m' = ["x-bdg947hgcc"; "conf"]%string.
Proof. eexists. split; vm_compute; reflexivity. Qed.

(* ---------- IgnoreLocal ---------- *)

Lemma intersect_spec other ids : forall m m', intersect ids other m = Ok m' ->
  (forall r, In r m' -> In r m) /\
  (forall r id, In r m' -> In id ids -> id_same (cur r) id = true -> existsb (id_same id) other = true) /\
  (Inv m -> Inv m').
Proof.
  induction ids as [|id t IH]; cbn; intros m m' H.
  - inv H. repeat split; auto; try (intros r id _ []).
  - destruct (existsb (id_same id) other) eqn:E.
    + destruct (IH _ _ H) as [A [B C]]. repeat split; auto.
      intros r id' Hr [<-|Hi] S; eauto.
    + destruct (remove id m) as [m1| | |] eqn:R; cbn in H; try discriminate.
      destruct (IH _ _ H) as [A [B C]]. repeat split.
      * intros r Hr. apply A in Hr. destruct (remove_spec _ _ _ R r Hr) as [X _]. exact X.
      * intros r id' Hr [<-|Hi] S; [|eauto].
        apply A in Hr. destruct (remove_spec _ _ _ R r Hr) as [_ X]. congruence.
      * intros I. apply C. eapply remove_inv; eauto.
Qed.

Lemma validated_wellformed r : validated r = true -> wellformed r.
Proof.
  unfold validated, wellformed. rewrite andb_true_iff, orb_true_iff, !negb_true_iff, !String.eqb_neq. tauto.
Qed.

Lemma ignore_local_spec m m' : ignore_local m = Ok m' ->
  (forall r, In r m' -> In r m) /\ Forall wellformed m' /\ (Inv m -> Inv m')
  /\ (forall r, In r m' -> exists v, In v m /\ m_empty v = false /\ is_local v = false /\ id_same (cur r) (cur v) = true).
Proof.
  unfold ignore_local. intros H.
  destruct (forallb validated (filter (fun r => negb (m_empty r)) m)) eqn:V; cbn in H; [|discriminate].
  destruct (append_all _ []) as [other| | |] eqn:A; try discriminate.
  apply append_all_app in A. cbn in A. subst other.
  destruct (intersect_spec _ _ _ _ H) as [S1 [S2 S3]].
  assert (W : forall r, In r m' ->
            exists v, In v m /\ m_empty v = false /\ is_local v = false /\ id_same (cur r) (cur v) = true).
  { intros r Hr.
    assert (X : existsb (id_same (cur r)) (map cur (filter (fun r0 => negb (is_local r0))
                                                   (filter (fun r0 => negb (m_empty r0)) m))) = true).
    { eapply S2; eauto. apply in_map. auto. apply id_same_refl. }
    apply existsb_exists in X as [i [Hi Si]].
    apply in_map_iff in Hi as [v [<- Hv]].
    apply filter_In in Hv as [Hv L]. apply filter_In in Hv as [Hv Em].
    exists v. rewrite negb_true_iff in L, Em. auto. }
  repeat split; auto.
  apply Forall_forall. intros r Hr.
  destruct (W r Hr) as [v [Hv [Em [_ Sv]]]].
  rewrite forallb_forall in V.
  assert (Vv : validated v = true).
  { apply V. apply filter_In. rewrite Em. auto. }
  apply validated_wellformed in Vv. apply id_same_fields in Sv as [K [N _]].
  unfold wellformed in *. rewrite K, N. exact Vv.
Qed.

Lemma ignore_local_inv m m' : Inv m -> ignore_local m = Ok m' -> Inv m'.
Proof. intros I H. destruct (ignore_local_spec _ _ H) as [_ [_ [X _]]]. auto. Qed.

Lemma ignore_local_wellformed m m' : ignore_local m = Ok m' -> Forall wellformed m'.
Proof. intros H. destruct (ignore_local_spec _ _ H) as [_ [X _]]. exact X. Qed.

(* ---------- sorting ---------- *)

Lemma insert_by_in lt x l y : In y (insert_by lt x l) <-> y = x \/ In y l.
Proof.
  induction l as [|h t IH]; cbn.
  - split; intros H; intuition (subst; auto).
  - destruct (lt h x); cbn; rewrite ?IH; split; intros H; intuition (subst; auto).
Qed.

Lemma isort_by_in lt l y : In y (isort_by lt l) <-> In y l.
Proof.
  induction l as [|h t IH]; cbn; [tauto|]. rewrite insert_by_in, IH. split; intros [H|H]; auto.
Qed.

(* adjacent elements are in order *)
Fixpoint sorted_by (lt : mres -> mres -> bool) (l : rmap) : bool :=
  match l with
  | [] => true
  | x :: t => match t with
              | [] => true
              | y :: _ => negb (lt y x) && sorted_by lt t
              end
  end.

(* sorting a sorted list changes nothing (no assumption on the order) *)
Lemma isort_sorted_id lt l : sorted_by lt l = true -> isort_by lt l = l.
Proof.
  induction l as [|x t IH]; cbn [isort_by]; auto.
  intros S. destruct t as [|y t']; [reflexivity|].
  cbn [sorted_by] in S. apply andb_true_iff in S as [L S]. rewrite (IH S).
  cbn. apply negb_true_iff in L. rewrite L. reflexivity.
Qed.

Section Asym.
  Variable lt : mres -> mres -> bool.
  Hypothesis asym : forall a b, lt a b = true -> lt b a = false.

  Lemma insert_sorted x l : sorted_by lt l = true -> sorted_by lt (insert_by lt x l) = true.
  Proof.
    induction l as [|y t IH]; cbn [insert_by]; intros S; [reflexivity|].
    destruct (lt y x) eqn:E.
    - destruct t as [|z t'].
      + cbn. rewrite (asym _ _ E). reflexivity.
      + cbn [sorted_by] in S. apply andb_true_iff in S as [L S].
        specialize (IH S). cbn [insert_by] in *.
        destruct (lt z x) eqn:E2.
        * cbn [sorted_by] in *. rewrite L. cbn. exact IH.
        * cbn [sorted_by] in *. rewrite (asym _ _ E). cbn. exact IH.
    - cbn [sorted_by]. rewrite E. cbn. exact S.
  Qed.

  Lemma isort_sorted l : sorted_by lt (isort_by lt l) = true.
  Proof. induction l as [|x t IH]; cbn [isort_by]; [reflexivity|]. apply insert_sorted. exact IH. Qed.

  Lemma isort_idem l : isort_by lt (isort_by lt l) = isort_by lt l.
  Proof. apply isort_sorted_id. apply isort_sorted. Qed.
End Asym.

(* ---------- the legacy order is asymmetric ---------- *)

Lemma ltb_asym (a b : string) : String.ltb a b = true -> String.ltb b a = false.
Proof.
  unfold String.ltb. rewrite (String.compare_antisym a b).
  destruct (String.compare b a); cbn; congruence.
Qed.

Lemma gvk_equals_sym a b : gvk_equals a b = gvk_equals b a.
Proof. unfold gvk_equals. rewrite (String.eqb_sym (g_group a)), (String.eqb_sym (g_version a)), (String.eqb_sym (g_kind a)). reflexivity. Qed.

Lemma gvk_less_asym a b : gvk_less a b = true -> gvk_less b a = false.
Proof.
  unfold gvk_less. rewrite (Z.eqb_sym (type_order (g_kind b))).
  destruct (Z.eqb (type_order (g_kind a)) (type_order (g_kind b))) eqn:E; cbn.
  - rewrite (andb_comm (String.eqb (g_kind b) "Namespace")), (orb_comm (String.eqb (g_group b) "")).
    destruct (_ && _); apply ltb_asym.
  - rewrite !Z.ltb_lt, Z.ltb_ge. lia.
Qed.

Lemma legacy_less_asym a b : legacy_less a b = true -> legacy_less b a = false.
Proof.
  unfold legacy_less. rewrite (gvk_equals_sym (i_gvk b)).
  destruct (gvk_equals (i_gvk a) (i_gvk b)); cbn; [apply ltb_asym | apply gvk_less_asym].
Qed.

Lemma res_less_asym a b : res_less a b = true -> res_less b a = false.
Proof. apply legacy_less_asym. Qed.

(* ---------- strip keeps identities ---------- *)

Lemma strip_all_keys bm m : map key (strip_all bm m) = map key m.
Proof. unfold strip_all. rewrite map_map. reflexivity. Qed.

Lemma strip_all_inv bm m : Inv m -> Inv (strip_all bm m).
Proof. unfold Inv. intros I. change (NoDup (map key (strip_all bm m))). rewrite strip_all_keys. exact I. Qed.

Lemma strip_all_wellformed bm m : Forall wellformed m -> Forall wellformed (strip_all bm m).
Proof.
  intros F. apply Forall_forall. intros r Hr. apply in_map_iff in Hr as [x [<- Hx]].
  rewrite Forall_forall in F. apply (F x Hx).
Qed.

(* ---------- the tail of krusty.Run ---------- *)

Lemma finalize_parts h legacy bm m out : finalize h legacy bm m = Ok out ->
  exists m1 m2 m3, hash_all h m = Ok m1 /\ ignore_local m1 = Ok m2 /\
                   (if legacy then sort_legacy m2 else Ok m2) = Ok m3 /\ out = strip_all bm m3.
Proof.
  unfold finalize. intros H.
  destruct (hash_all h m) as [m1| | |] eqn:E1; cbn in H; try discriminate.
  destruct (ignore_local m1) as [m2| | |] eqn:E2; cbn in H; try discriminate.
  destruct (if legacy then sort_legacy m2 else Ok m2) as [m3| | |] eqn:E3; cbn in H; try discriminate.
  inv H. exists m1, m2, m3. repeat split; auto.
Qed.

(* default (legacy) order: a successful build has unique ids — for EVERY accumulated map *)
Lemma finalize_legacy_unique h bm m out : finalize h true bm m = Ok out -> Inv out.
Proof.
  intros H. apply finalize_parts in H as [m1 [m2 [m3 [_ [_ [S ->]]]]]].
  apply strip_all_inv. eapply sort_legacy_inv; eauto.
Qed.

(* fifo / no order: with the re-check of the hash step, unique ids in give unique ids out *)
Lemma finalize_fifo_unique h bm m out : Inv m -> finalize h false bm m = Ok out -> Inv out.
Proof.
  intros I H. apply finalize_parts in H as [m1 [m2 [m3 [Hh [Hi [S ->]]]]]]. inv S.
  apply strip_all_inv. apply (ignore_local_inv m1 m3); [|exact Hi]. apply (hash_all_inv h m m1 I Hh).
Qed.

(* regression (C07 finding, fixed): a resource marked local-config whose name equals the hashed name of a generated
   ConfigMap used to survive IgnoreLocal next to it (two outputs with one id under fifo); the build now fails at
   the hash step, for every order; so does the clash with a plain resource, which used to panic *)
Example finalize_collision_regression :
  Inv [w_local; w_gen] /\ finalize w_hash false [] [w_local; w_gen] = Err /\
  finalize w_hash true [] [w_local; w_gen] = Err /\ finalize w_hash false [] [w_plain; w_gen] = Err.
Proof. split; [apply inv_b_iff; vm_compute; reflexivity|]. repeat split; vm_compute; reflexivity. Qed.

Lemma sort_legacy_in m m' : sort_legacy m = Ok m' -> forall r, In r m' -> In r m.
Proof.
  unfold sort_legacy. intros H r Hr. apply append_all_app in H. cbn in H. subst m'.
  apply isort_by_in in Hr. exact Hr.
Qed.

(* every emitted resource has a kind, and a name unless its kind ends in "List" *)
Lemma finalize_wellformed h legacy bm m out : finalize h legacy bm m = Ok out -> Forall wellformed out.
Proof.
  intros H. apply finalize_parts in H as [m1 [m2 [m3 [_ [Hi [S ->]]]]]].
  apply strip_all_wellformed. apply ignore_local_wellformed in Hi.
  destruct legacy.
  - apply Forall_forall. intros r Hr. rewrite Forall_forall in Hi. apply Hi. eapply sort_legacy_in; eauto.
  - inv S. exact Hi.
Qed.

(* the literal statement "has a kind and a name" fails for a nameless FooList without items *)
Definition w_list : mres := mkRes (mkId (mkGvk "example.com" "v1" "FooList" false) "" "") [] false "l".
Lemma finalize_name_refuted :
  exists h legacy bm m out, finalize h legacy bm m = Ok out /\ ~ Forall has_kind_and_name out.
Proof.
  exists [], true, [], [w_list]. eexists. split; [vm_compute; reflexivity|].
  intros F. inv F. destruct H1 as [_ N]. apply N. reflexivity.
Qed.

(* no internal annotation on any emitted resource unless it was asked for *)
Lemma finalize_hygiene h legacy bm m out : finalize h legacy bm m = Ok out ->
  forall r k, In r out -> In k internal_keys -> ~ In k (requested_keys bm) -> ~ In k (map fst (m_ann r)).
Proof.
  intros H r k Hr Hk Hn. apply finalize_parts in H as [m1 [m2 [m3 [_ [_ [_ ->]]]]]].
  apply in_map_iff in Hr as [x [<- _]]. cbn. apply hygiene; assumption.
Qed.

(* ---------- identity in the property's own terms ---------- *)

Lemma raw_identity_unique m : Inv m -> scope_consistent m -> NoDup (map raw_identity m).
Proof.
  intros I SC. apply (NoDup_map_rel key raw_identity m I).
  intros a b Ha Hb E. unfold raw_identity in E. inv E.
  assert (G : gvk_equals (i_gvk (cur a)) (i_gvk (cur b)) = true).
  { unfold gvk_equals. rewrite H0, H1, H2, !String.eqb_refl. reflexivity. }
  pose proof (SC a b Ha Hb G) as C.
  unfold key, id_key, eff_ns. rewrite H0, H1, H2, H3, H4, C. reflexivity.
Qed.

(* ---------- operations and traces ---------- *)

(* side condition of one step: what the operation itself does not re-check *)
Definition safe (o : op) (m : rmap) : Prop :=
  match o with
  | OPrefix _ | OSuffix _ => uniform m
  | ONamespace _ _ => no_empties m
  | ORawRename _ _ => False            (* unchecked identity rewrite: outside the property's domain *)
  (* domain of the model, not needed by the proof: CopyMergeMetaDataFieldsFrom and ApplySmPatch write the old name
     back with SetName, which turns a missing metadata.name into `name: ""`; the model does not distinguish the
     two, so absorbed resources and patched resources have a name (the loader rejects nameless ones) *)
  | OAbsorbAll rs => forall r, In r rs -> i_name (cur r) <> ""%string
  | OSmPatch _ sel _ _ _ _ _ =>
      forall r, In r m -> existsb (id_same (cur r)) sel = true -> i_name (cur r) <> ""%string
  | _ => True
  end.

Lemma step_inv o m m' : Inv m -> safe o m -> step o m = Ok m' -> Inv m'.
Proof.
  intros I S H. destruct o; cbn in *.
  - eapply append_inv; eauto.
  - eapply append_all_inv; eauto.
  - destruct (replace_res r m) as [[i m1]| | |] eqn:E; cbn in H; inv H. eapply replace_res_inv; eauto.
  - eapply remove_inv; eauto.
  - eapply absorb_all_inv; eauto.
  - inv H. apply drop_empties_inv. exact I.
  - inv H. apply Inv_nil.
  - eapply prefix_all_inv; eauto.
  - eapply suffix_all_inv; eauto.
  - eapply ns_all_inv; eauto.
  - eapply hash_all_inv; eauto.
  - eapply sort_legacy_inv; eauto.
  - eapply sm_patch_inv; eauto.
  - destruct S.
  - eapply ignore_local_inv; eauto.
  - inv H. apply strip_all_inv. exact I.
Qed.

Fixpoint safe_trace (ops : list op) (m : rmap) : Prop :=
  match ops with
  | [] => True
  | o :: t => safe o m /\ forall m', step o m = Ok m' -> safe_trace t m'
  end.

Lemma run_inv ops : forall m m', Inv m -> safe_trace ops m -> run ops m = Ok m' -> Inv m'.
Proof.
  induction ops as [|o t IH]; cbn; intros m m' I S H.
  - inv H. exact I.
  - destruct S as [S1 S2]. destruct (step o m) as [m1| | |] eqn:E; cbn in H; try discriminate.
    eapply IH; [|apply S2; reflexivity|exact H]. eapply step_inv; eauto.
Qed.

(* non-vacuity: a trace with a cross-layer append_all, a prefix, a namespace change, a generator merge and a
   patch meets the side conditions and runs *)
Definition ex_dep : mres := mkRes (mkId (mkGvk "apps" "v1" "Deployment" false) "web" "") [] false "d".
Definition ex_cm : mres := mkRes (mkId cm_gvk "conf" "") [] false "c".
Definition ex_ns : mres := mkRes (mkId (mkGvk "" "v1" "Namespace" true) "prod" "") [] false "n".
Definition ex_gen : mres :=
  mkRes (mkId cm_gvk "conf" "") [(K_utils_BuildAnnotationsGenBehavior, "merge")] false "g".
Definition ex_ops : list op :=
  [ OAppendAll [ex_dep; ex_cm; ex_ns]; OAbsorbAll [ex_gen]; OPrefix "p-"; ONamespace "prod" false; OSortLegacy ].

Example ex_trace_runs : exists m', run ex_ops [] = Ok m' /\ List.length m' = 3.
Proof. eexists. split; vm_compute; reflexivity. Qed.

Lemma uniform_no_prev m :
  (forall r, In r m -> ann_get K_utils_BuildAnnotationPreviousNames (m_ann r) = None) -> uniform m.
Proof.
  intros H r o Hr O. unfold org_id, prev_ids in O. rewrite (H r Hr) in O. cbn in O. inv O. reflexivity.
Qed.

(* ---------- model-level fixpoint: building the output again gives the output ---------- *)

From Coq Require Import Permutation.

Lemma id_same_eq a b : id_same a b = true -> a = b.
Proof.
  destruct a as [[g v k c] n s], b as [[g' v' k' c'] n' s']. unfold id_same, gvk_equals. cbn.
  rewrite !andb_true_iff, !String.eqb_eq. intros [[[[[G V] K] C] N] S].
  apply Bool.eqb_prop in C. congruence.
Qed.

Lemma insert_perm lt x l : Permutation (insert_by lt x l) (x :: l).
Proof.
  induction l as [|y t IH]; cbn; auto.
  destruct (lt y x); auto. rewrite IH. apply perm_swap.
Qed.

Lemma isort_perm lt l : Permutation (isort_by lt l) l.
Proof. induction l as [|x t IH]; cbn; auto. rewrite insert_perm. constructor. exact IH. Qed.

Lemma Inv_perm a b : Permutation a b -> Inv a -> Inv b.
Proof. unfold Inv. intros P. apply Permutation_NoDup. apply Permutation_map. exact P. Qed.

Lemma NoDup_map_inj_in {A B} (f : A -> B) l a b :
  NoDup (map f l) -> In a l -> In b l -> f a = f b -> a = b.
Proof.
  induction l as [|x t IH]; cbn; intros N Ha Hb E; [destruct Ha|].
  inv N. destruct Ha as [<-|Ha], Hb as [<-|Hb]; auto.
  - exfalso. apply H1. rewrite E. apply in_map. exact Hb.
  - exfalso. apply H1. rewrite <- E. apply in_map. exact Ha.
Qed.

Lemma mapM_id {A} (f : A -> res A) l : (forall a, In a l -> f a = Ok a) -> mapM f l = Ok l.
Proof.
  induction l as [|x t IH]; cbn; intros H; auto.
  rewrite (H x (or_introl eq_refl)). cbn. rewrite IH; auto.
Qed.

Lemma filter_all {A} (p : A -> bool) l : (forall a, In a l -> p a = true) -> filter p l = l.
Proof.
  induction l as [|x t IH]; cbn; intros H; auto.
  rewrite (H x (or_introl eq_refl)). rewrite IH; auto.
Qed.

Lemma intersect_all_present other ids m :
  (forall id, In id ids -> existsb (id_same id) other = true) -> intersect ids other m = Ok m.
Proof.
  induction ids as [|id t IH]; cbn; intros H; auto.
  rewrite (H id (or_introl eq_refl)). apply IH. intros i Hi. apply H. right. exact Hi.
Qed.

(* an element whose id occurs among the kept ids is never removed *)
Lemma intersect_keeps other ids : forall m m' v,
  intersect ids other m = Ok m' -> In v m -> existsb (id_same (cur v)) other = true -> In v m'.
Proof.
  induction ids as [|id t IH]; cbn; intros m m' v H Hv E.
  - inv H. exact Hv.
  - destruct (existsb (id_same id) other) eqn:X.
    + eapply IH; eauto.
    + destruct (remove id m) as [m1| | |] eqn:R; cbn in H; try discriminate.
      eapply IH; eauto.
      unfold remove in R. destruct (Nat.eqb _ _); inv R.
      apply filter_In. split; auto. apply negb_true_iff.
      destruct (id_same (cur v) id) eqn:S; auto.
      apply id_same_eq in S. subst id. congruence.
Qed.

Lemma ann_get_remove_other k ks a : ~ In k ks -> ann_get k (ann_remove_all ks a) = ann_get k a.
Proof.
  intros N. unfold ann_remove_all. induction a as [|[k' v] t IH]; cbn; auto.
  destruct (str_in k' ks) eqn:E; cbn.
  - destruct (String.eqb k' k) eqn:Ek; auto.
    apply String.eqb_eq in Ek. subst k'. apply str_in_iff in E. contradiction.
  - rewrite IH. reflexivity.
Qed.

Lemma ann_get_removed k ks a : In k ks -> ann_get k (ann_remove_all ks a) = None.
Proof.
  intros H. unfold ann_remove_all. induction a as [|[k' v] t IH]; cbn; auto.
  destruct (str_in k' ks) eqn:E; cbn; auto.
  destruct (String.eqb k' k) eqn:Ek; auto.
  apply String.eqb_eq in Ek. subst k'. apply str_in_iff in H. congruence.
Qed.

(* finite checks on the generated tables: with nothing requested the needs-hash mark is removed and
   local-config is left alone *)
Lemma gen_needs_hash_stripped : str_in K_utils_BuildAnnotationsGenAddHashSuffix (run_stripped_keys []) = true.
Proof. vm_compute. reflexivity. Qed.
Lemma gen_local_config_kept : str_in K_konfig_IgnoredByKustomizeAnnotation (run_stripped_keys []) = false.
Proof. vm_compute. reflexivity. Qed.

Lemma needs_hash_stripped r : needs_hash (strip_res [] r) = false.
Proof.
  unfold needs_hash, strip_res. cbn [m_ann]. rewrite strip_run_eq.
  rewrite ann_get_removed; auto. apply str_in_iff. exact gen_needs_hash_stripped.
Qed.

Lemma is_local_stripped r : is_local (strip_res [] r) = is_local r.
Proof.
  unfold is_local, strip_res. cbn [m_ann]. rewrite strip_run_eq.
  rewrite ann_get_remove_other; auto. apply str_in_false. exact gen_local_config_kept.
Qed.

Lemma strip_res_idem bm r : strip_res bm (strip_res bm r) = strip_res bm r.
Proof.
  unfold strip_res. cbn [m_id m_ann m_empty m_tag]. rewrite strip_run_idem. f_equal.
  destruct (m_empty r), (rewrites_metadata bm); reflexivity.
Qed.

Lemma sorted_by_strip bm m : sorted_by res_less (strip_all bm m) = sorted_by res_less m.
Proof.
  induction m as [|x t IH]; cbn [strip_all map sorted_by]; auto.
  destruct t as [|y t']; cbn [map]; auto.
  cbn [strip_all map] in IH. rewrite IH. reflexivity.
Qed.

Lemma hash_one_nonempty h r r' : m_empty r = false -> hash_one h r = Ok r' -> m_empty r' = false.
Proof.
  unfold hash_one. intros E. destruct (needs_hash r); [|intros H; inv H; exact E].
  destruct (assoc _ h); intros H; inv H. cbn. rewrite E. reflexivity.
Qed.

Lemma hash_all_nonempty h m m' : no_empties m -> hash_all h m = Ok m' -> no_empties m'.
Proof.
  unfold hash_all. intros NE H.
  destruct (mapM (hash_one h) m) as [m1| | |] eqn:EM; cbn [bind] in H; try discriminate.
  destruct (hash_conflict_free m1); inv H.
  unfold no_empties in *. revert m' EM NE. induction m as [|x t IH]; cbn; intros m' H NE r Hr.
  - inv H. destruct Hr.
  - destruct (hash_one h x) as [y| | |] eqn:E1; cbn in H; try discriminate.
    destruct (mapM (hash_one h) t) as [ys| | |] eqn:E2; cbn in H; try discriminate.
    inv H. destruct Hr as [<-|Hr].
    + eapply hash_one_nonempty; eauto.
    + eapply IH; eauto.
Qed.

(* a second build: load the emitted resources into an empty accumulator, then the same tail with no
   directives (legacy order, no buildMetadata) *)
Definition rebuild (h : list (string * string)) (out : rmap) : res rmap :=
  do m0 <- append_all out []; finalize h true [] m0.

Lemma finalize_fixpoint h m out :
  no_empties m -> finalize h true [] m = Ok out -> forall h', rebuild h' out = Ok out.
Proof.
  intros NE H h'. apply finalize_parts in H as [m1 [m2 [m3 [Hh [Hi [Hs ->]]]]]].
  pose proof (hash_all_nonempty _ _ _ NE Hh) as NE1.
  destruct (ignore_local_spec _ _ Hi) as [Sub [WF [_ Wit]]].
  pose proof (sort_legacy_inv _ _ Hs) as I3.
  pose proof Hs as Hs'. unfold sort_legacy in Hs'. apply append_all_app in Hs'. cbn in Hs'.
  assert (I2 : Inv m2). { eapply Inv_perm; [apply isort_perm|]. rewrite <- Hs'. exact I3. }
  (* facts about m2 *)
  assert (NE2 : no_empties m2). { intros r Hr. apply NE1. apply Sub. exact Hr. }
  assert (NL2 : forall r, In r m2 -> is_local r = false).
  { intros r Hr. destruct (Wit r Hr) as [v [Hv [Ev [Lv Sv]]]].
    assert (Hv2 : In v m2).
    { unfold ignore_local in Hi.
      destruct (forallb validated _); cbn in Hi; [|discriminate].
      destruct (append_all _ []) as [other| | |] eqn:A; try discriminate.
      apply append_all_app in A. cbn in A. subst other.
      eapply intersect_keeps; eauto.
      apply existsb_exists. exists (cur v). split; [|apply id_same_refl].
      apply in_map. apply filter_In. split; [|rewrite Lv; reflexivity].
      apply filter_In. split; auto. rewrite Ev. reflexivity. }
    apply id_same_fields in Sv as [_ [_ K]].
    assert (r = v) by (eapply (NoDup_map_inj_in key); eauto).
    subst v. exact Lv. }
  (* facts about m3 and the output *)
  assert (In3 : forall r, In r m3 -> In r m2). { intros r Hr. rewrite Hs' in Hr. apply isort_by_in in Hr. exact Hr. }
  set (out := strip_all [] m3).
  assert (Iout : Inv out) by (apply strip_all_inv; exact I3).
  assert (Eout : forall r, In r out -> m_empty r = false /\ is_local r = false /\ validated r = true /\ needs_hash r = false).
  { intros r Hr. apply in_map_iff in Hr as [x [<- Hx]]. pose proof (In3 x Hx) as Hx2.
    repeat split.
    - cbn. rewrite (NE2 x Hx2). reflexivity.
    - rewrite is_local_stripped. apply NL2. exact Hx2.
    - rewrite Forall_forall in WF. pose proof (WF x Hx2) as [K N].
      unfold validated. cbn. apply andb_true_iff. split.
      + apply negb_true_iff. apply String.eqb_neq. exact K.
      + apply orb_true_iff. destruct N as [N|N]; [left; exact N | right; apply negb_true_iff; apply String.eqb_neq; exact N].
    - apply needs_hash_stripped. }
  assert (Sout : sorted_by res_less out = true).
  { unfold out. rewrite sorted_by_strip. rewrite Hs'. apply isort_sorted. apply res_less_asym. }
  (* the second build *)
  assert (A0 : append_all out [] = Ok out). { apply (append_all_ok out []). exact Iout. }
  unfold rebuild. rewrite A0. cbn [bind]. unfold finalize.
  assert (Hh2 : hash_all h' out = Ok out).
  { unfold hash_all.
    rewrite (mapM_id (hash_one h') out) by (intros r Hr; unfold hash_one; destruct (Eout r Hr) as [_ [_ [_ Nh]]]; rewrite Nh; reflexivity).
    cbn [bind].
    assert (C : hash_conflict_free out = true).
    { unfold hash_conflict_free. apply forallb_forall. intros r Hr. destruct (Eout r Hr) as [_ [_ [_ Nh]]]. rewrite Nh. reflexivity. }
    rewrite C. reflexivity. }
  rewrite Hh2. cbn [bind].
  assert (Hi2 : ignore_local out = Ok out).
  { unfold ignore_local.
    rewrite (filter_all (fun r => negb (m_empty r)) out) by (intros r Hr; destruct (Eout r Hr) as [E _]; rewrite E; reflexivity).
    assert (V : forallb validated out = true) by (apply forallb_forall; intros r Hr; apply (Eout r Hr)).
    rewrite V. cbn [negb].
    rewrite (filter_all (fun r => negb (is_local r)) out) by (intros r Hr; destruct (Eout r Hr) as [_ [L _]]; rewrite L; reflexivity).
    rewrite A0. apply intersect_all_present.
    intros id Hid. apply existsb_exists. exists id. split; auto. apply id_same_refl. }
  rewrite Hi2. cbn [bind].
  unfold sort_legacy. rewrite (isort_sorted_id _ _ Sout). rewrite A0. cbn [bind].
  f_equal. unfold strip_all, out, strip_all. rewrite map_map. apply map_ext. intros r. apply strip_res_idem.
Qed.

(* non-vacuity of the fixpoint statement *)
Example fixpoint_example : exists out, finalize [] true [] [ex_dep; ex_ns; ex_cm] = Ok out /\ List.length out = 3
                                       /\ rebuild [] out = Ok out.
Proof. eexists. repeat split; vm_compute; reflexivity. Qed.

(* ---------- non-vacuity of the step / trace theorems ---------- *)

Ltac in_cases H := repeat (destruct H as [<-|H]; [|]); try destruct H.

Example ex_trace_safe : Inv [] /\ safe_trace ex_ops [].
Proof.
  split; [apply Inv_nil|].
  cbn [ex_ops safe_trace safe]. split; [exact I|]. intros m1 H1. vm_compute in H1. inv H1.
  split; [intros r Hr; cbn in Hr; in_cases Hr; discriminate|]. intros m2 H2. vm_compute in H2. inv H2.
  split.
  { apply uniform_no_prev. intros r Hr. cbn in Hr. in_cases Hr; reflexivity. }
  intros m3 H3. vm_compute in H3. inv H3.
  split.
  { intros r Hr. cbn in Hr. in_cases Hr; reflexivity. }
  intros m4 H4. vm_compute in H4. inv H4.
  split; [exact I|]. intros m5 H5. exact I.
Qed.


(* ---------- layers ---------- *)

Section LayerInd.
  Variable P : layer -> Prop.
  Hypothesis H : forall bases ops, Forall P bases -> P (Layer bases ops).
  Fixpoint layer_ind' (l : layer) : P l :=
    match l with
    | Layer bases ops =>
        H bases ops ((fix go (bs : list layer) : Forall P bs :=
                        match bs with
                        | [] => Forall_nil P
                        | b :: t => Forall_cons b (layer_ind' b) (go t)
                        end) bases)
    end.
End LayerInd.

Lemma accumulate_unfold bases ops :
  accumulate (Layer bases ops) = (do m <- merge_with accumulate bases []; run ops m).
Proof. reflexivity. Qed.

(* side conditions of a whole tree of layers: those of every base, and those of the layer's own trace on
   the map its bases merge into *)
Definition bases_safe (safe_base : layer -> Prop) (ops : list op) : list layer -> rmap -> Prop :=
  fix go (bs : list layer) (m : rmap) {struct bs} : Prop :=
    match bs with
    | [] => safe_trace ops m
    | b :: t => safe_base b /\ forall mb m', accumulate b = Ok mb -> append_all mb m = Ok m' -> go t m'
    end.

Fixpoint layer_safe (l : layer) : Prop :=
  match l with
  | Layer bases ops =>
      (fix go (bs : list layer) (m : rmap) {struct bs} : Prop :=
         match bs with
         | [] => safe_trace ops m
         | b :: t => layer_safe b /\ forall mb m', accumulate b = Ok mb -> append_all mb m = Ok m' -> go t m'
         end) bases []
  end.

Lemma layer_safe_unfold bases ops : layer_safe (Layer bases ops) = bases_safe layer_safe ops bases [].
Proof. reflexivity. Qed.

Lemma merge_inv ops bs : forall m0 m1,
  Forall (fun b => forall m, layer_safe b -> accumulate b = Ok m -> Inv m) bs ->
  Inv m0 -> bases_safe layer_safe ops bs m0 -> merge_with accumulate bs m0 = Ok m1 ->
  Inv m1 /\ safe_trace ops m1.
Proof.
  induction bs as [|b t IH]; cbn; intros m0 m1 F I S H.
  - inv H. auto.
  - inv F. destruct S as [Sb St].
    destruct (accumulate b) as [mb| | |] eqn:Eb; cbn in H; try discriminate.
    destruct (append_all mb m0) as [m'| | |] eqn:Ea; cbn in H; try discriminate.
    apply (IH m' m1 H3).
    + eapply append_all_inv; eauto.
    + apply (St mb m' eq_refl Ea).
    + exact H.
Qed.

(* identities stay unique through the accumulation of a whole tree of layers: each layer starts from the
   empty map, merges its bases with AppendAll (which re-checks) and runs a safe trace *)
Lemma accumulate_inv : forall l m, layer_safe l -> accumulate l = Ok m -> Inv m.
Proof.
  apply (layer_ind' (fun l => forall m, layer_safe l -> accumulate l = Ok m -> Inv m)).
  intros bases ops F m S H. rewrite layer_safe_unfold in S. rewrite accumulate_unfold in H.
  destruct (merge_with accumulate bases []) as [m0| | |] eqn:E; cbn in H; try discriminate.
  destruct (merge_inv ops bases [] m0 F Inv_nil S E) as [I0 S0].
  eapply run_inv; eauto.
Qed.

(* non-vacuity: an overlay over two bases, each adding its own prefix, merges and stays unique; the same
   two bases without distinct prefixes collide in AppendAll *)
Definition ex_base (p : string) : layer := Layer [] [OAppendAll [ex_dep; ex_cm]; OPrefix p].
Definition ex_overlay : layer := Layer [ex_base "a-"; ex_base "b-"] [ONamespace "prod" false; OSortLegacy].

Example ex_overlay_runs : exists m, accumulate ex_overlay = Ok m /\ List.length m = 4.
Proof. eexists. split; vm_compute; reflexivity. Qed.

Example ex_overlay_clash : accumulate (Layer [ex_base "a-"; ex_base "a-"] []) = Err.
Proof. vm_compute. reflexivity. Qed.

Example ex_overlay_safe : layer_safe ex_overlay.
Proof.
  assert (B : forall p, layer_safe (ex_base p)).
  { intros p. cbn [ex_base layer_safe safe_trace safe]. split; [exact I|]. intros m1 H1. vm_compute in H1. inv H1.
    split; [|intros; exact I].
    apply uniform_no_prev. intros r Hr. cbn in Hr. in_cases Hr; reflexivity. }
  unfold ex_overlay. rewrite layer_safe_unfold. cbn [bases_safe].
  split; [apply B|]. intros mb1 m1 A1 M1. vm_compute in A1. inv A1. vm_compute in M1. inv M1.
  split; [apply B|]. intros mb2 m2 A2 M2. vm_compute in A2. inv A2. vm_compute in M2. inv M2.
  cbn [safe_trace safe]. split.
  { intros r Hr. cbn in Hr. in_cases Hr; reflexivity. }
  intros m3 H3. split; [exact I|]. intros; exact I.
Qed.
