(* C03 through the integrated build (Res/Pipeline.v): what krusty.Run emits are the documents just after
   FixBackReferences, some dropped (IgnoreLocal), reordered (legacy sort) and with their annotations
   rewritten (RemoveBuildAnnotations) -- none of which touches a reference field outside metadata or a
   name.  Hence the transformer-level progress theorem speaks about the OUTPUT of the build. *)
From KV Require Import Res.Pipeline Res.PipelineProofs Res.PipelineFrameProofs.
From KV Require Import Res.FsFacts Res.NameRefProofs Res.RewriteProofs Res.ProgressProofs Res.C03Facts.
From Coq Require Import Sorting.Permutation.

Section PipelineRefs.
  Variable nonstr : string -> bool.

  (* the resource map just before FixBackReferences: accumulateTarget, then addHashesToNames *)
  Definition before_refs (t : ptree) : res (list resource) :=
    do m <- accumulate nonstr t; mapM (hash_res nonstr) m.

  Lemma pipe_rules_eq : pipe_rules = effective_rules gen_gvk_order_first gen_gvk_order_last gen_nameref_raw.
  Proof. vm_compute. reflexivity. Qed.

  Lemma subrel_in {A} (l l' : list A) x : subrel eq l l' -> In x l' -> In x l.
  Proof.
    induction 1 as [|a b t t' -> _ IH|a t t' _ IH]; intros Hin; [contradiction| |right; auto].
    destruct Hin as [<-|Hin]; [left; reflexivity|right; auto].
  Qed.

  (* every emitted document is the stripped document of a resource as FixBackReferences left it *)
  Theorem build_outputs o t outs :
    build nonstr o t = Ok outs ->
    exists m1 m2 rules,
      before_refs t = Ok m1 /\ pipe_rules = Ok rules /\
      nameref_transform pipe_cs nonstr rules m1 = Ok m2 /\
      forall n, In n outs -> exists r2, In r2 m2 /\ n = strip_node (r_node r2).
  Proof.
    intros H. unfold build in H. destruct t as [docs|nm d ents]; [discriminate|].
    destruct (accumulate nonstr (PDir nm d ents)) as [m| | |] eqn:EA; cbn [bind] in H; try discriminate.
    destruct (mapM (hash_res nonstr) m) as [m1| | |] eqn:EH; cbn [bind] in H; try discriminate.
    destruct (hash_check m1) as [[]| | |]; cbn [bind] in H; try discriminate.
    destruct pipe_rules as [rules| | |] eqn:ER; cbn [bind] in H; try discriminate.
    destruct (nameref_transform pipe_cs nonstr rules m1) as [m2| | |] eqn:EN; cbn [bind] in H; try discriminate.
    destruct (ignore_local m2) as [m2l| | |] eqn:EL; cbn [bind] in H; try discriminate.
    destruct (sort_resources o m2l) as [m3| | |] eqn:ES; cbn [bind] in H; try discriminate.
    inv H. exists m1, m2, rules. unfold before_refs. rewrite EA. cbn [bind]. repeat split; auto.
    intros n Hin. apply in_map_iff in Hin as (r3 & <- & Hin3).
    exists r3. split; [|reflexivity].
    apply (subrel_in _ _ _ (ignore_local_subrel _ _ EL)).
    eapply Permutation_in; [apply (sort_perm o _ _ ES)|exact Hin3].
  Qed.

  (* the strip only rewrites metadata *)
  Lemma strip_node_other_root a n :
    match a with AKey k :: _ => k <> "metadata" | _ => False end ->
    get_addr a (strip_node n) = get_addr a n.
  Proof.
    destruct a as [|[k|i] rest]; try contradiction. intros Hk.
    unfold strip_node. destruct (annos_of n); [reflexivity|].
    destruct n as [t s v|kvs|es]; try reflexivity.
    destruct (find_field "metadata" kvs) as [[t s v|mkvs|es]|]; try reflexivity.
    cbn [get_addr]. rewrite find_set_first_other by exact Hk. reflexivity.
  Qed.

  Lemma strip_node_name n : get_name (strip_node n) = get_name n.
  Proof. pose proof (strip_node_ident n) as H. unfold ident in H. now inversion H. Qed.

  Lemma Forall2_nth_both {A B} (R : A -> B -> Prop) l l' k x y :
    Forall2 R l l' -> nth_error l k = Some x -> nth_error l' k = Some y -> R x y.
  Proof.
    intros H. revert k. induction H as [|a b l l' Hab Hl IH]; intros [|k] H1 H2; cbn in *; try discriminate.
    - inv H1. inv H2. assumption.
    - eauto.
  Qed.

  (* C03 at the level of the integrated build.  The hypotheses speak about the resource map just before
     FixBackReferences ([before_refs t = Ok m1]); the conclusion about two EMITTED documents: the referrer's
     reference field holds the metadata.name of the referent's document. *)
  Theorem refs_follow_pipeline o t outs m1 m2 rules C :
    build nonstr o t = Ok outs ->
    before_refs t = Ok m1 -> pipe_rules = Ok rules -> nameref_transform pipe_cs nonstr rules m1 = Ok m2 ->
    mapM (view pipe_cs) m1 = Ok C -> no_empty_prev C = true ->
    forall i r r' org row fs flags cands j b b2 a t0 s old,
      nth_error m1 i = Some r -> nth_error m2 i = Some r' -> org_id pipe_cs r = Ok org ->
      In row rules -> In fs (nb_referrers row) -> gvk_is_selected (id_gvk org) (fs_gvk fs) = true ->
      roleref_sieve (make_ctx pipe_cs r (fs_path fs) (nb_gvk row)) b = true ->
      (has_suffix "roleRef/name" (fs_path fs) = false \/
       exists g, roleref_gvk (r_node r) = Some g /\ external C (g_group g) /\ external C (g_kind g)) ->
      referencable pipe_cs m1 r = Ok flags -> mapM (view pipe_cs) (select_by flags m1) = Ok cands ->
      no_ns_key a -> match a with AKey k :: _ => k <> "metadata" | _ => False end ->
      reaches (path_splitter (fs_path fs)) a (r_node r) = true ->
      get_addr a (r_node r) = Some (Scalar t0 s old) -> is_null (Scalar t0 s old) = false ->
      nth_error C j = Some b -> nth_error m2 j = Some b2 ->
      filter (name_kind_match (make_ctx pipe_cs r (fs_path fs) (nb_gvk row)) old) cands = [b] ->
      namespace_sieve (make_ctx pipe_cs r (fs_path fs) (nb_gvk row)) b = true ->
      (forall c, In c C -> prev_name_matches old c = true -> c_name c = c_name b) ->
      (forall c, In c C -> prev_name_matches (c_name b) c = true -> c_name c = c_name b) ->
      exists t' s',
        get_addr a (strip_node (r_node r')) = Some (Scalar t' s' (get_name (strip_node (r_node b2)))).
  Proof.
    intros _ _ ER EN HC Hne i r r' org row fs flags cands j b b2 a t0 s old.
    intros Hr Hr' Horg Hrow Hfs Hsel Hnr1 Hnr2 Hflags Hcands Hns Hroot Hreach Hg Hnn Hb Hb2 Hu Hvis Hc1 Hc2.
    rewrite pipe_rules_eq in ER.
    destruct (gen_refs_follow_transform pipe_cs nonstr rules m1 m2 C ER HC Hne EN
                i r r' org row fs flags cands b a t0 s old Hr Hr' Horg Hrow Hfs Hsel Hnr1 Hnr2 Hflags Hcands
                Hns Hreach Hg Hnn Hu Hvis Hc1 Hc2) as (t' & s' & Hfield).
    exists t', s'. rewrite strip_node_other_root by exact Hroot. rewrite Hfield.
    (* the referent's emitted name is its name before FixBackReferences *)
    destruct (mapM_nth_r _ _ _ _ _ HC Hb) as (rb & Hrb & Hvb).
    assert (Hname: c_name b = get_name (r_node rb)).
    { unfold view in Hvb. destruct (prev_ids rb); cbn [bind] in Hvb; try discriminate. inv Hvb. reflexivity. }
    pose proof (gen_transform_identity pipe_cs nonstr rules m1 m2 ER EN) as Hid.
    destruct (Forall2_nth_both _ _ _ _ _ _ Hid Hrb Hb2) as [Hident _].
    assert (Hn: get_name (r_node b2) = get_name (r_node rb)) by (unfold ident in Hident; congruence).
    rewrite strip_node_name, Hn, Hname. reflexivity.
  Qed.
End PipelineRefs.
