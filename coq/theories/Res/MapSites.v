(* Hand-justified allow-list for the map-range sites that the translator classifies as MROther
   (Gen/MapRanges.v, regenerated from /repo on every run). Keyed by (package, function) — not by line.
   A site classified Other that is not listed here breaks the obligation Gen_mapranges_ok: that is what
   happens when a sort is dropped after collecting map keys, or when a new map range is added to the
   build path.  Justifications:
     JSetOrBool          the loop only builds a set / map / boolean / finds the unique match: order-insensitive
                         (read at the pinned commit; the classifier is too weak to see it syntactically)
     JNotOnBuildPath     code that krusty.Run never reaches for the generated domain (kio tree/package writers,
                         KRM function runtime, bindata asset tables, plugin-name listing, debug printing,
                         ); for the two `crds:` loader sites (makeConfigFromApiMap, loadCrdIntoConfig) the claim is
                         weaker and stated here: they ARE reached by builds with a `crds:` field; what they collect
                         (field specs and name-reference rules) is merged and sorted by TransformerConfig.Merge before
                         use, and the C01 repetition / fresh-process oracle builds trees with a `crds:` file (family
                         "+crds") to check that the build result does not depend on the iteration order
     JCommutes           the name-reference loop over a pointer-keyed map: each filter writes only its own
                         referrer (see Res/NameRefOrder.v / design.d/C01.md); only the identity of the error
                         returned when several referrers fail can depend on the order
     JLogOnly            the result only feeds a log message on stderr, not the build result
     JErrorIdentityOnly  order decides only WHICH of several malformed entries an error message names
     JNodeKeyOrderErased order decides only the position of keys inside a YAML mapping node, which the final
                         emission (node -> JSON with sorted keys -> YAML) erases *)
From KV Require Export Res.MapSiteTypes.
Open Scope string_scope.

Inductive justification :=
| JSetOrBool | JNotOnBuildPath | JCommutes | JLogOnly | JErrorIdentityOnly | JNodeKeyOrderErased.

Definition map_site_allow : list (string * string * justification) := [
  ("api/internal/accumulator", "debug", JNotOnBuildPath);
  ("api/internal/accumulator", "loadCrdIntoConfig", JNotOnBuildPath);
  ("api/internal/accumulator", "makeConfigFromApiMap", JNotOnBuildPath);
  ("api/internal/accumulator", "nameReferenceTransformer.Transform", JCommutes);
  ("api/internal/accumulator", "refVarTransformer.UnusedVars", JLogOnly);
  ("api/krusty", "GetBuiltinPluginNames", JNotOnBuildPath);
  ("api/types", "Kustomization.FixKustomizationPreMarshalling", JSetOrBool);
  ("api/types", "VarSet.AbsorbSet", JSetOrBool);
  ("api/types", "VarSet.MergeSet", JSetOrBool);
  ("api/types", "overrideMap", JSetOrBool);
  ("kyaml/filesys", "fsNode.Name", JSetOrBool);
  ("kyaml/filesys", "fsNode.ReadDir", JSetOrBool);
  ("kyaml/filesys", "fsNode.Remove", JSetOrBool);
  ("kyaml/fn/runtime/runtimeutil", "ContainerEnv.Raw", JNotOnBuildPath);
  ("kyaml/fn/runtime/runtimeutil", "StringToStorageMount", JNotOnBuildPath);
  ("kyaml/kio", "LocalPackageReadWriter.Write", JNotOnBuildPath);
  ("kyaml/kio", "LocalPackageWriter.Write", JNotOnBuildPath);
  ("kyaml/kio", "TreeWriter.getFields", JNotOnBuildPath);
  ("kyaml/kio", "TreeWriter.graphStructure", JNotOnBuildPath);
  ("kyaml/kio", "TreeWriter.packageStructure", JNotOnBuildPath);
  ("kyaml/kio", "TreeWriter.sort", JNotOnBuildPath);
  ("kyaml/kio", "determineAnnotationsFormat", JNotOnBuildPath);
  ("kyaml/kio/kioutil", "ConfirmInternalAnnotationUnchanged", JSetOrBool);
  ("kyaml/kio/kioutil", "CopyInternalAnnotations", JSetOrBool);
  ("kyaml/openapi", "AddDefinitions", JSetOrBool);
  ("kyaml/openapi", "findNamespaceability", JSetOrBool);
  ("kyaml/openapi/kubernetesapi/v1_21_2", "AssetDir", JNotOnBuildPath);
  ("kyaml/openapi/kubernetesapi/v1_21_2", "AssetNames", JNotOnBuildPath);
  ("kyaml/openapi/kustomizationapi", "AssetDir", JNotOnBuildPath);
  ("kyaml/openapi/kustomizationapi", "AssetNames", JNotOnBuildPath);
  ("kyaml/runfn", "RunFns.mergeContainerEnv", JNotOnBuildPath);
  ("kyaml/sets", "String.Difference", JSetOrBool);
  ("kyaml/sets", "String.Intersection", JSetOrBool);
  ("kyaml/sets", "String.List", JSetOrBool);
  ("kyaml/sets", "String.SymmetricDifference", JSetOrBool);
  ("kyaml/yaml", "NewMapRNode", JNodeKeyOrderErased);
  ("kyaml/yaml", "RNode.validateDataMap", JNotOnBuildPath);
  ("kyaml/yaml", "hasNilEntryInList", JErrorIdentityOnly);
  ("kyaml/yaml/internal/k8sgen/pkg/labels", "AreLabelsInWhiteList", JSetOrBool);
  ("kyaml/yaml/internal/k8sgen/pkg/labels", "Conflicts", JSetOrBool);
  ("kyaml/yaml/internal/k8sgen/pkg/labels", "Equals", JSetOrBool);
  ("kyaml/yaml/internal/k8sgen/pkg/labels", "ValidatedSelectorFromSet", JSetOrBool);
  ("kyaml/yaml/internal/k8sgen/pkg/util/errors", "CreateAggregateFromMessageCountMap", JSetOrBool);
  ("kyaml/yaml/internal/k8sgen/pkg/util/sets", "String.PopAny", JSetOrBool);
  ("kyaml/yaml/internal/k8sgen/pkg/util/sets", "String.UnsortedList", JSetOrBool)
].

(* The justification of a function covers the map ranges that were READ when it was written, identified by their
   ordinal among the map ranges of the function: ordinal 0 unless listed here. A new range added to an allow-listed
   function (seeded C01-h: a second loop in openapi.AddDefinitions, over the accumulated definitions instead of the
   incoming ones) has a new ordinal and breaks Gen_mapranges_ok. *)
Definition map_site_ords : list (string * string * list nat) := [
  ("api/krusty", "GetBuiltinPluginNames", [0; 1]);
  ("kyaml/kio", "LocalPackageReadWriter.Write", [0; 1]);
  ("kyaml/kio", "LocalPackageWriter.Write", [0; 1; 2]);
  ("kyaml/kio", "TreeWriter.getFields", [0; 1]);
  ("kyaml/kio/kioutil", "ConfirmInternalAnnotationUnchanged", [0; 1]);
  ("kyaml/sets", "String.SymmetricDifference", [0; 1])
].

Definition allowed_ords (s : map_site) : list nat :=
  match find (fun e => String.eqb (fst (fst e)) (ms_pkg s) && String.eqb (snd (fst e)) (ms_fn s)) map_site_ords with
  | Some e => snd e
  | None => [0]
  end.

Definition allowed_site (s : map_site) : bool :=
  existsb (fun e => String.eqb (fst (fst e)) (ms_pkg s) && String.eqb (snd (fst e)) (ms_fn s)) map_site_allow &&
  existsb (Nat.eqb (ms_ord s)) (allowed_ords s).

Definition site_ok (s : map_site) : bool :=
  match ms_class s with
  | MROther => allowed_site s
  | _ => true
  end.
