(* Proofs about KV.Res.Replica. *)
From KV Require Import Res.Selector Res.Replica.

Ltac inv H := inversion H; subst; clear H.

(* ---------- obligations over the generated table ---------- *)
(* every default replicas field spec names a kind and the path spec/replicas, and may create it *)
Lemma gen_replicas_fs_shape :
  forallb (fun fs => String.eqb (fs_path fs) "spec/replicas" && negb (String.eqb (fs_kind fs) "") && fs_create fs)
          gen_replicas_fs = true.
Proof. vm_compute. reflexivity. Qed.

(* ---------- mapM ---------- *)
Lemma mapM_nth {A B} (f : A -> res B) : forall l l',
  mapM f l = Ok l' ->
  List.length l' = List.length l /\
  forall i x, nth_error l i = Some x -> exists y, f x = Ok y /\ nth_error l' i = Some y.
Proof.
  induction l as [|a t IH]; intros l' H; cbn in H.
  - inv H. split; auto. intros [|i] x Hx; discriminate.
  - destruct (f a) as [b| | |] eqn:E; cbn in H; try discriminate.
    destruct (mapM f t) as [t'| | |] eqn:M; cbn in H; inv H.
    destruct (IH t' eq_refl) as [L N]. split; [cbn; congruence|].
    intros [|i] x Hx; cbn in Hx.
    + inv Hx. eauto.
    + apply N; auto.
Qed.

Lemma mapM_all_ok {A B} (f : A -> res B) (g : A -> B) : forall l,
  (forall x, In x l -> f x = Ok (g x)) -> mapM f l = Ok (map g l).
Proof.
  induction l as [|a t IH]; intros H; cbn; auto.
  rewrite (H a (or_introl eq_refl)). cbn. rewrite IH; auto. intros; apply H; right; auto.
Qed.

(* ---------- apply_hits ---------- *)
Lemma apply_hits_frame rp fs : forall rs hits rs',
  apply_hits rp fs rs hits = Ok rs' ->
  List.length rs' = List.length rs /\
  forall i obj, nth_error rs i = Some obj -> nth_error hits i = Some false -> nth_error rs' i = Some obj.
Proof.
  induction rs as [|r t IH]; intros hits rs' H.
  - cbn in H. inv H. split; auto.
  - destruct hits as [|h ht]; cbn in H.
    + inv H. split; auto.
    + destruct (if h then replica_filter rp fs r else Ok r) as [r'| | |] eqn:E; cbn in H; try discriminate.
      destruct (apply_hits rp fs t ht) as [t'| | |] eqn:A; cbn in H; inv H.
      destruct (IH ht t' A) as [L N]. split; [cbn; congruence|].
      intros [|i] obj Ho Hh; cbn in *.
      * inv Ho. inv Hh. inv E. auto.
      * apply N; auto.
Qed.

Lemma apply_hits_none rp fs : forall rs hits,
  (forall b, In b hits -> b = false) -> apply_hits rp fs rs hits = Ok rs.
Proof.
  induction rs as [|r t IH]; intros hits H; cbn; auto.
  destruct hits as [|h ht]; auto.
  rewrite (H h (or_introl eq_refl)). cbn. rewrite IH; auto. intros; apply H; right; auto.
Qed.

(* ---------- the transformer leaves every resource it does not match untouched ---------- *)
Lemma replica_loop_frame rp : forall fss found rs found' rs',
  replica_loop rp fss found rs = Ok (found', rs') ->
  List.length rs' = List.length rs /\
  forall i obj, nth_error rs i = Some obj ->
    (forall fs, In fs fss -> replica_hits rp fs obj = Ok false) -> nth_error rs' i = Some obj.
Proof.
  induction fss as [|fs t IH]; intros found rs found' rs' H; cbn in H.
  - inv H. auto.
  - unfold replica_hit_list in H.
    destruct (mapM (replica_hits rp fs) rs) as [hits| | |] eqn:M; cbn in H; try discriminate.
    destruct (apply_hits rp fs rs hits) as [rs1| | |] eqn:A; cbn in H; try discriminate.
    destruct (mapM_nth _ _ _ M) as [Lh Nh]. destruct (apply_hits_frame _ _ _ _ _ A) as [L1 N1].
    destruct (IH _ _ _ _ H) as [L2 N2]. split; [congruence|].
    intros i obj Ho Hno. apply N2.
    + apply N1; auto. destruct (Nh i obj Ho) as (b & Hb & Hi).
      rewrite (Hno fs (or_introl eq_refl)) in Hb. inv Hb. auto.
    + intros fs' Hin. apply Hno. right; auto.
Qed.

Theorem replica_untouched rp fss rs rs' :
  replica_transform rp fss rs = Ok rs' ->
  List.length rs' = List.length rs /\
  forall i obj, nth_error rs i = Some obj ->
    (forall fs, In fs fss -> replica_hits rp fs obj = Ok false) -> nth_error rs' i = Some obj.
Proof.
  unfold replica_transform. intros H.
  destruct (replica_loop rp fss false rs) as [[f r]| | |] eqn:L; cbn in H; try discriminate.
  destruct f; inv H. eapply replica_loop_frame; eauto.
Qed.

(* a resource none of whose ids (previous or current) carries the entry's name is not matched *)
Lemma replica_hits_other_name rp fs obj prev :
  prev_ids_opt obj = Some prev ->
  (forall id, In id (prev ++ [cur_id obj]) -> id_name id <> rp_name rp) ->
  replica_hits rp fs obj = Ok false.
Proof.
  intros Hp Hn. unfold replica_hits, resource_prev_ids. rewrite Hp.
  destruct (nil_or_empty obj); auto. cbn. f_equal.
  apply not_true_is_false. intros E. apply existsb_exists in E. destruct E as (id & Hin & Hm).
  unfold replica_matcher in Hm. apply andb_prop in Hm. destruct Hm as [Hm _].
  apply String.eqb_eq in Hm. apply (Hn id Hin); auto.
Qed.

(* ... nor is a resource none of whose ids has a kind (group, version) of the field spec *)
Lemma replica_hits_other_kind rp fs obj prev :
  prev_ids_opt obj = Some prev ->
  (forall id, In id (prev ++ [cur_id obj]) -> gvk_selected (id_gvk id) (fs_gvk fs) = false) ->
  replica_hits rp fs obj = Ok false.
Proof.
  intros Hp Hn. unfold replica_hits, resource_prev_ids. rewrite Hp.
  destruct (nil_or_empty obj); auto. cbn. f_equal.
  apply not_true_is_false. intros E. apply existsb_exists in E. destruct E as (id & Hin & Hm).
  unfold replica_matcher in Hm. apply andb_prop in Hm. destruct Hm as [_ Hm].
  rewrite (Hn id Hin) in Hm. discriminate.
Qed.

(* an entry that matches no resource at all is an error *)
Lemma replica_loop_none rp : forall fss rs,
  (forall fs obj, In fs fss -> In obj rs -> replica_hits rp fs obj = Ok false) ->
  replica_loop rp fss false rs = Ok (false, rs).
Proof.
  induction fss as [|fs t IH]; intros rs H; cbn; auto.
  unfold replica_hit_list.
  rewrite (mapM_all_ok _ (fun _ => false)); [|intros; apply H; auto; left; auto].
  cbn. rewrite apply_hits_none; [|intros b Hb; apply in_map_iff in Hb; destruct Hb as (? & <- & _); auto].
  cbn. replace (existsb (fun b : bool => b) (map (fun _ : node => false) rs)) with false.
  - apply IH. intros; apply H; auto. right; auto.
  - symmetry. clear. induction rs; cbn; auto.
Qed.

Theorem replica_no_match_is_error rp fss rs :
  (forall fs obj, In fs fss -> In obj rs -> replica_hits rp fs obj = Ok false) ->
  replica_transform rp fss rs = Err.
Proof.
  intros H. unfold replica_transform. rewrite replica_loop_none; auto.
Qed.

(* ---------- what a matched resource becomes: only spec.replicas, as an int scalar ---------- *)
Lemma replica_filter_spec rp fs kvs skvs t st v :
  is_match_gvk fs (Map kvs) = true ->
  fs_path fs = "spec/replicas" ->
  find_field "spec" kvs = Some (Map skvs) ->
  find_field "replicas" skvs = Some (Scalar t st v) ->
  replica_filter rp fs (Map kvs) =
  Ok (Map (set_first "spec" (Map (set_first "replicas" (Scalar TInt st (rp_count rp)) skvs)) kvs)).
Proof.
  intros Hg Hp Hs Hr. unfold replica_filter, fs_apply. rewrite Hg, Hp.
  change (path_splitter "spec/replicas") with ["spec"; "replicas"].
  destruct (fs_create fs);
    cbn -[find_field set_first]; rewrite Hs; cbn -[find_field set_first]; rewrite Hr;
    destruct t; cbn; reflexivity.
Qed.

(* non-vacuity and the "previous name" clause: a Deployment renamed from x to p-x is matched by the entry x *)
Example replica_example :
  let d := Map [("apiVersion", Scalar TStr SPlain "apps/v1"); ("kind", Scalar TStr SPlain "Deployment");
                ("metadata", Map [("name", Scalar TStr SPlain "p-x");
                                  ("annotations", Map [(ann_prev_names, Scalar TStr SPlain "x");
                                                       (ann_prev_namespaces, Scalar TStr SPlain "default");
                                                       (ann_prev_kinds, Scalar TStr SPlain "Deployment")])]);
                ("spec", Map [("replicas", Scalar TInt SPlain "1")])] in
  let other := Map [("apiVersion", Scalar TStr SPlain "apps/v1"); ("kind", Scalar TStr SPlain "Deployment");
                    ("metadata", Map [("name", Scalar TStr SPlain "ax")]);
                    ("spec", Map [("replicas", Scalar TInt SPlain "1")])] in
  exists d', replica_transform (mkReplica "x" "5") gen_replicas_fs [d; other] = Ok [d'; other] /\ d' <> d.
Proof. eexists. split; [vm_compute; reflexivity|discriminate]. Qed.
