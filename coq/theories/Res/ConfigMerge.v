(* C11: how the nameReference rule table of `configurations:` files accumulates through nested kustomizations,
   and which rule therefore acts first on a referrer at the top.
     api/internal/plugins/builtinconfig/transformerconfig.go   MakeDefaultConfig, MakeTransformerConfig, Merge, sortFields
     api/internal/plugins/builtinconfig/loaddefaultconfig.go   loadDefaultConfig, makeTransformerConfigFromBytes
     api/internal/plugins/builtinconfig/namebackreferences.go  nbrSlice.mergeAll / mergeOne / Less  (= Res/NameRef.v)
     api/internal/target/kusttarget.go                         accumulateTarget (MergeConfig of the layer's config),
                                                               accumulateDirectory -> MergeAccumulator (MergeConfig of the child's)
     api/internal/accumulator/namereferencetransformer.go      determineFilters: rule rows in table order
   Only the NameReference part of a TransformerConfig is modelled.  Definitions only. *)
From KV Require Export Res.NameRef.
Local Open Scope string_scope.

(* a kustomization tree, reduced to what decides the accumulated rule table: per directory the nameReference
   sections of its `configurations:` files (in order) and its sub-directories (in `resources:` order; files
   contribute no configuration) *)
Inductive ctree :=
| CDir (cfgs : list (list nbr)) (subs : list ctree).

Section ConfigMerge.
  Variable ofirst olast : list string.      (* kyaml/resid/gvk.go orderFirst / orderLast *)
  Variable default : list nbr.              (* the builtin nameReference table, as written (Gen/NameRefRules.v) *)

  Definition sortn : list nbr -> list nbr := nbr_sort ofirst olast.

  (* TransformerConfig.Merge: mergeAll, then sortFields *)
  Definition merge_sorted (t inc : list nbr) : res (list nbr) :=
    do m <- nbr_merge_all t inc; Ok (sortn m).

  (* loadDefaultConfig: the files merged one after the other into an empty config, each parsed and sorted first *)
  Fixpoint load_custom (acc : list nbr) (cfgs : list (list nbr)) : res (list nbr) :=
    match cfgs with
    | [] => Ok acc
    | c :: t => do a <- merge_sorted acc (sortn c); load_custom a t
    end.

  (* MakeTransformerConfig: the (parsed, sorted, un-merged) default table, merged with the custom files if any *)
  Definition layer_config (cfgs : list (list nbr)) : res (list nbr) :=
    match cfgs with
    | [] => Ok (sortn default)
    | _ => do c <- load_custom [] cfgs; merge_sorted (sortn default) c
    end.

  (* the table ResAccumulator.tConfig holds when accumulateTarget returns *)
  Fixpoint acc_config (t : ctree) : res (list nbr) :=
    match t with
    | CDir cfgs subs =>
        do t0 <- (fix go (l : list ctree) (acc : list nbr) : res (list nbr) :=
                    match l with
                    | [] => Ok acc
                    | s :: l' => do c <- acc_config s; do a <- merge_sorted acc c; go l' a
                    end) subs [];
        do lc <- layer_config cfgs;
        merge_sorted t0 lc
    end.

  (* determineFilters on one referrer + the sequence of filters: the first row (in table order) that has a field
     spec selecting the referrer at the path and whose target Gvk selects one of the candidate kinds (resources
     carrying the referenced name) rewrites the field; later rows no longer see the old name.  Result: the
     candidate it selects. *)
  Definition row_applies (ref : gvk) (path : string) (b : nbr) : bool :=
    existsb (fun f => gvk_is_selected ref (fs_gvk f) && String.eqb (fs_path f) path) (nb_referrers b).

  Fixpoint winner (ref : gvk) (path : string) (cands : list gvk) (table : list nbr) : option gvk :=
    match table with
    | [] => None
    | b :: t =>
        if row_applies ref path b then
          match filter (fun c => gvk_is_selected c (nb_gvk b)) cands with
          | c :: _ => Some c
          | [] => winner ref path cands t
          end
        else winner ref path cands t
    end.

  Definition resolve (ref : gvk) (path : string) (cands : list gvk) (t : ctree) : res (option gvk) :=
    do table <- acc_config t; Ok (winner ref path cands table).
End ConfigMerge.
