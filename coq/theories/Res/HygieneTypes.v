(* Types used by the GENERATED file Gen/Annotations.v (property C07). Definitions only. *)
From KV Require Import Base.Prelude.

(* Condition under which krusty.Run executes one of its Remove*Annotations calls:
   GAlways              unconditionally
   GUnlessRequested o   inside `if !utils.StringSliceContains(kt.Kustomization().BuildMetadata, o)`
   GUnknown             under a condition the translator does not recognise: the model treats the call as
                        never executed, so every obligation that needs it fails *)
Inductive strip_guard :=
| GAlways
| GUnlessRequested (opt : string)
| GUnknown.
