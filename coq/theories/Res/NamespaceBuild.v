(* C09_subjects over Pipeline.build: a kustomization whose only directive is `namespace: ns`, over entries that are
   well-formed trees without namespace directives (PipelineWfProofs.tree_wf). *)
From KV Require Import Res.Pipeline Res.PipelineProofs Res.PipelineFrameProofs Res.PipelinePermProofs Res.PipelineWfProofs
                       Res.RenameProofs Res.NameRefProofs Res.RewriteProofs Res.C03Facts.
From KV Require Import Yaml.FieldSpecSpec.
From KV Require Res.Namespace.
From KV Require Import Res.NamespaceProofs Res.NamespaceGen Res.NamespaceSubjects.
Local Open Scope string_scope.

Ltac inv H := inversion H; subst; clear H.

(* the directives of a kustomization that only says `namespace: ns` *)
Definition ns_only (ns : string) : pdirs := mkPDirs ns "" "" [] [] [] [] [].

Section Bridge.
  Variable nonstr : string -> bool.

  Lemma drop_empties_nonempty m : Forall (fun r => nil_or_empty (r_node r) = false) m -> drop_empties m = m.
  Proof.
    unfold drop_empties. induction 1 as [|r t Hr _ IH]; cbn; [reflexivity|]. rewrite Hr. cbn. f_equal. exact IH.
  Qed.

  (* what the kustomization accumulates: its entries, moved by the namespace transformer *)
  Lemma accumulate_ns_only name ns ents m0 m :
    ns <> "" -> acc_list (accumulate nonstr) ents [] = Ok m0 ->
    Forall (fun r => nil_or_empty (r_node r) = false) m0 ->
    accumulate nonstr (PDir name (ns_only ns) ents) = Ok m ->
    exists m1, namespace_transform ns m0 = Ok m1 /\ m = drop_empties m1.
  Proof.
    intros Hns H0 Hne H. rewrite accumulate_dir in H.
    assert (He : is_empty_kust (ns_only ns) ents = false).
    { unfold is_empty_kust, dirs_empty, ns_only, mkPDirs, mkPDirsG, mkPDirsX. cbn [pd_ns]. destruct ents; [|reflexivity].
      destruct (String.eqb ns "") eqn:E; [apply String.eqb_eq in E; contradiction|reflexivity]. }
    rewrite He, H0 in H. cbn [bind] in H.
    change (run_generators nonstr (ns_only ns) m0) with (Ok m0 : res (list resource)) in H. cbn [bind] in H.
    unfold run_transformers in H.
    change (Labels.label_transformers LabelsDefaults.default_tc (label_dirs (ns_only ns))) with (Ok [] : res (list (Labels.pairs * list fieldspec))) in H.
    cbn [bind] in H. unfold gen_transformer_order in H.
    cbn [run_order] in H.
    repeat (match type of H with
            | context [run_kind nonstr ?k (ns_only ns) ?mm] =>
                let k' := eval cbv in (String.eqb k "NamespaceTransformer") in
                match k' with
                | true => fail 1
                | false => change (run_kind nonstr k (ns_only ns) mm) with (Ok mm : res (list resource)) in H; cbn [bind] in H
                end
            end).
    rewrite !(drop_empties_nonempty m0 Hne) in H.
    change (run_kind nonstr "NamespaceTransformer" (ns_only ns) m0) with (namespace_transform ns m0) in H.
    destruct (namespace_transform ns m0) as [m1| | |] eqn:E1; cbn [bind] in H; try discriminate.
    exists m1. split; [reflexivity|].
    repeat (match type of H with
            | context [run_kind nonstr ?k (ns_only ns) ?mm] =>
                change (run_kind nonstr k (ns_only ns) mm) with (Ok mm : res (list resource)) in H; cbn [bind] in H
            end).
    inv H.
    assert (Hid : forall l, drop_empties (drop_empties l) = drop_empties l).
    { intros l. unfold drop_empties. induction l as [|r t IH]; cbn; [reflexivity|].
      destruct (nil_or_empty (r_node r)) eqn:E; cbn; [exact IH|rewrite E; cbn; f_equal; exact IH]. }
    rewrite !Hid. reflexivity.
  Qed.

  Lemma ns_one_keeps ns r r' :
    W r -> ns_one ns r = Ok r' ->
    nil_or_empty (r_node r') = false /\ r_needs_hash r' = r_needs_hash r.
  Proof.
    intros HW H. unfold ns_one in H.
    destruct (Namespace.ns_filter gen_ns_scope (ns_config ns) (r_node (store_previous_id pipe_cs r))) as [n'| | |] eqn:EF;
      cbn [bind] in H; try discriminate. inv H. cbn [r_node with_node r_needs_hash].
    change (r_node (store_previous_id pipe_cs r)) with (r_node r) in EF. split; [|reflexivity].
    destruct HW as [[_ (kvs & mkvs & tn & sn & name & kn & E & Hm & _ & _ & _ & Hk & _)] _].
    assert (Hg : LabelsProofs.gvk_same (r_node r) n').
    { destruct (Namespace.obj_cluster_scoped gen_ns_scope (r_node r)) eqn:Ec.
      - apply (cluster_untouched_default ns _ _ Ec EF).
      - apply (moved_default ns _ _) in EF; [apply EF| |exact Ec].
        rewrite E. unfold meta_not_seq. rewrite Hm. reflexivity. }
    destruct Hg as [Hg _]. rewrite E in Hg. cbn [Labels.get_at] in Hg. rewrite Hk in Hg. cbn [Labels.get_at] in Hg.
    destruct n' as [| kvs' |]; cbn [Labels.get_at] in Hg; try discriminate.
    destruct kvs'; [discriminate|reflexivity].
  Qed.

  Lemma mapM_hash_id m :
    Forall (fun r => r_needs_hash r = false) m -> mapM (hash_res nonstr) m = Ok m.
  Proof.
    induction 1 as [|r t Hr _ IH]; [reflexivity|]. cbn [mapM]. unfold hash_res at 1. rewrite Hr. cbn [bind]. rewrite IH. reflexivity.
  Qed.

  Lemma F2_length {A B} (P : A -> B -> Prop) l l' : Forall2 P l l' -> List.length l' = List.length l.
  Proof. induction 1; cbn; auto. Qed.

  (* the stages of a build of such a kustomization, when nothing is dropped as local configuration *)
  Lemma build_ns_only_stages o name ns ents m0 out :
    (o = PSortNone \/ o = PSortFifo) -> ns <> "" -> Forall tree_wf ents ->
    acc_list (accumulate nonstr) ents [] = Ok m0 ->
    Forall (fun r => r_needs_hash r = false) m0 ->
    build nonstr o (PDir name (ns_only ns) ents) = Ok out ->
    List.length out = List.length m0 ->
    exists rules m1 m2,
      pipe_rules = Ok rules /\ namespace_transform ns m0 = Ok m1 /\
      nameref_transform pipe_cs nonstr rules m1 = Ok m2 /\
      out = map (fun r => strip_node (r_node r)) m2.
  Proof.
    intros Ho Hns Hwf H0 Hnh H Hlen. unfold build in H.
    destruct (accumulate nonstr (PDir name (ns_only ns) ents)) as [m| | |] eqn:EA; cbn [bind] in H; try discriminate.
    (* the accumulated entries are well-formed resources *)
    assert (HW0 : Forall W m0).
    { destruct (acc_list_char _ _ _ _ H0) as (subs & F0 & -> & _). cbn [app].
      clear -Hwf F0. revert subs F0. induction ents as [|e t IHe]; intros subs F0; inv F0; cbn; [constructor|].
      inversion Hwf; subst. apply Forall_app. split; [|auto].
      match goal with Hx : accumulate nonstr e = Ok _ |- _ => destruct (accumulate_Inv nonstr e _ ltac:(assumption) Hx) as [Wx _]; exact Wx end. }
    assert (Hne0 : Forall (fun r => nil_or_empty (r_node r) = false) m0)
      by (eapply Forall_impl; [|exact HW0]; intros r Hr; apply W_not_empty; exact Hr).
    destruct (accumulate_ns_only name ns ents m0 m Hns H0 Hne0 EA) as (m1 & E1 & ->).
    (* the moved resources are non-empty and ask for no hash *)
    assert (Hm1 : Forall (fun r => nil_or_empty (r_node r) = false /\ r_needs_hash r = false) m1).
    { unfold namespace_transform in E1. destruct (String.eqb ns "") eqn:E; [apply String.eqb_eq in E; contradiction|].
      destruct (pipe_ns_loop_spec ns m0 [] m1 E1) as (imgs & -> & HF). cbn [app].
      clear -HF HW0 Hnh. induction HF as [|r0 r1 t0 t1 Hr _ IH]; [constructor|].
      inversion HW0; subst. inversion Hnh; subst. constructor; [|auto].
      destruct Hr as [[Hn0 ->]|Hone].
      - split; [apply W_not_empty; assumption|assumption].
      - destruct (ns_one_keeps ns r0 r1 ltac:(assumption) Hone) as [A B]. split; [exact A|congruence]. }
    rewrite (drop_empties_nonempty m1) in H by (eapply Forall_impl; [|exact Hm1]; intros r [A _]; exact A).
    rewrite (mapM_hash_id m1) in H by (eapply Forall_impl; [|exact Hm1]; intros r [_ B]; exact B). cbn [bind] in H.
    destruct (hash_check m1) as [[]| | |]; cbn [bind] in H; try discriminate.
    destruct pipe_rules as [rules| | |] eqn:ER; cbn [bind] in H; try discriminate.
    destruct (nameref_transform pipe_cs nonstr rules m1) as [m2| | |] eqn:EN; cbn [bind] in H; try discriminate.
    destruct (ignore_local m2) as [m2l| | |] eqn:EL; cbn [bind] in H; try discriminate.
    assert (Hs : sort_resources o m2l = Ok m2l) by (destruct Ho as [-> | ->]; reflexivity).
    rewrite Hs in H. cbn [bind] in H. inv H.
    exists rules, m1, m2. split; [reflexivity|]. split; [exact E1|]. split; [exact EN|].
    (* nothing was dropped: same length *)
    assert (Hok : forall b0 f, In b0 rules -> In f (nb_referrers b0) -> rule_ok f).
    { intros b0 f Hb0 Hf. unfold pipe_rules in ER. eapply gen_rule_ok; eauto. }
    pose proof (F2_length _ _ _ (nameref_transform_identity pipe_cs nonstr rules m1 m2 Hok EN)) as L2.
    assert (L1 : List.length m1 = List.length m0).
    { unfold namespace_transform in E1. destruct (String.eqb ns ""); [inv E1; reflexivity|].
      destruct (pipe_ns_loop_spec ns m0 [] m1 E1) as (imgs & -> & HF). cbn [app]. apply (F2_length _ _ _ HF). }
    rewrite map_length in Hlen.
    pose proof (subrel_same_length _ _ _ (ignore_local_subrel _ _ EL) ltac:(congruence)) as HF.
    assert (m2l = m2) by (clear -HF; induction HF; [reflexivity|subst; f_equal; assumption]).
    subst m2l. reflexivity.
  Qed.
End Bridge.

(* ---------- RemoveBuildAnnotations only rewrites metadata.annotations ---------- *)
Lemma strip_top_field q n : q <> "metadata" -> map_field_value q (strip_node n) = map_field_value q n.
Proof.
  intros Hq. unfold strip_node. destruct (annos_of n) as [|a0 at_]; [reflexivity|].
  destruct n as [| kvs |]; try reflexivity.
  destruct (find_field "metadata" kvs) as [md|] eqn:Em; [|reflexivity].
  destruct md as [| mkvs |]; try reflexivity.
  unfold map_field_value. apply pp_find_set_first_other. exact Hq.
Qed.

Lemma strip_meta_string f n : f <> "annotations" -> meta_string f (strip_node n) = meta_string f n.
Proof.
  intros Hf. unfold strip_node. destruct (annos_of n) as [|a0 at_] eqn:EA; [reflexivity|].
  destruct n as [| kvs |]; try reflexivity.
  destruct (find_field "metadata" kvs) as [md|] eqn:Em; [|reflexivity].
  destruct md as [| mkvs |]; try reflexivity.
  unfold meta_string, get_meta. rewrite (pp_find_set_first_same _ _ _ _ Em), Em.
  (* annotations is a field of mkvs (annos_of is non-empty), so both metadata mappings are non-empty *)
  assert (Hne : mkvs <> []).
  { intros ->. unfold annos_of, get_meta in EA. rewrite Em in EA. cbn in EA. discriminate. }
  set (new := (remove_first "annotations" mkvs ++ meta_map_field "annotations" (Hygiene.strip_run [] (a0 :: at_)))%list).
  assert (Hfind : find_field f new = find_field f mkvs).
  { unfold new. rewrite pp_find_app, pp_find_remove_first_other by exact Hf.
    destruct (find_field f mkvs); [reflexivity|].
    unfold meta_map_field. destruct (Hygiene.strip_run [] (a0 :: at_)); [reflexivity|].
    cbn [find_field]. destruct (String.eqb "annotations" f) eqn:E; [apply String.eqb_eq in E; congruence|reflexivity]. }
  destruct mkvs as [|kv0 mt]; [congruence|]. cbn [nil_or_empty].
  destruct new as [|n0 nt] eqn:En.
  - (* the rebuilt metadata is empty: then f is not in mkvs either *)
    cbn [nil_or_empty]. rewrite <- Hfind. reflexivity.
  - cbn [nil_or_empty]. rewrite Hfind. reflexivity.
Qed.

Section BuildSubjects.
  Variable nonstr : string -> bool.

  (* C09_subjects over a whole build. The target is a kustomization whose only directive is `namespace: ns`; its
     entries are well-formed trees without namespace directives and m0 is what they accumulate (a function of the
     source tree). Guards: unsorted output (no sortOptions / fifo), no resource asks for a name hash, nothing is
     dropped as local configuration (as many output documents as accumulated resources); the designation
     hypotheses are those of C09_subjects, stated on m0 and on its image under the namespace transformer. *)
  Theorem subjects_build :
    forall (o : psort) (name ns : string) (ents : list ptree) (m0 m1 : list resource) (out : list node)
           (rules : list nbr) (i j k : nat) (r a0 a : resource) (org : resid) (fs0 : fieldspec) (tg0 : gvk)
           (rest : list (fieldspec * gvk)) (kvs ekvs : list (string * node)) (es : list node) (name_node : node)
           (cands : list cand) (b : cand),
      (o = PSortNone \/ o = PSortFifo) -> ns <> "" -> Forall tree_wf ents ->
      acc_list (accumulate nonstr) ents [] = Ok m0 ->
      Forall (fun r => r_needs_hash r = false) m0 ->
      build nonstr o (PDir name (ns_only ns) ents) = Ok out ->
      List.length out = List.length m0 ->
      pipe_rules = Ok rules -> namespace_transform ns m0 = Ok m1 ->
      nth_error m1 i = Some r -> org_id pipe_cs r = Ok org ->
      filters_for rules org = (fs0, tg0) :: rest -> binding_rules_ok ((fs0, tg0) :: rest) = true ->
      r_node r = Map kvs -> find_field "subjects" kvs = Some (Seq es) ->
      nth_error es k = Some (Map ekvs) -> find_field "name" ekvs = Some name_node ->
      nth_error m0 j = Some a0 -> nth_error m1 j = Some a ->
      Namespace.obj_cluster_scoped gen_ns_scope (r_node a0) = false ->
      view pipe_cs a = Ok b -> c_name b <> "" ->
      cands_at pipe_cs m1 i = Ok cands ->
      let x := make_ctx pipe_cs r "subjects" tg0 in
      filter (name_kind_match x (node_value name_node)) (mapping_cands ekvs cands) = [b] ->
      roleref_sieve x b && namespace_sieve x b = true ->
      exists dr da es' e',
        nth_error out i = Some dr /\ nth_error out j = Some da /\
        map_field_value "subjects" dr = Some (Seq es') /\ nth_error es' k = Some e' /\
        subj_str "name" e' = get_name da /\ subj_str "namespace" e' = get_namespace da /\
        get_namespace da = ns.
  Proof.
    intros o name ns ents m0 m1 out rules i j k r a0 a org fs0 tg0 rest kvs ekvs es name_node cands b
           Ho Hns Hwf H0 Hnh Hb Hlen Hrules Hm1 Hr Horg Hfl Hbr Hn Hs He Hname Ha0 Ha Hcs Hview Hcn Hc x Hu Hvis.
    destruct (build_ns_only_stages nonstr o name ns ents m0 out Ho Hns Hwf H0 Hnh Hb Hlen)
      as (rules' & m1' & m2 & Hr' & Hm1' & Hrun & ->).
    rewrite Hrules in Hr'. inv Hr'. rewrite Hm1 in Hm1'. inv Hm1'.
    (* the account is a well-formed resource of m0 *)
    assert (HW0 : W a0).
    { destruct (acc_list_char _ _ _ _ H0) as (subs & F0 & -> & _). cbn [app] in Ha0.
      assert (HWall : Forall W (List.concat subs)).
      { clear -Hwf F0. revert subs F0. induction ents as [|e t IHe]; intros subs F0; inv F0; cbn; [constructor|].
        inversion Hwf; subst. apply Forall_app. split; [|auto].
        match goal with Hx : accumulate nonstr e = Ok _ |- _ => destruct (accumulate_Inv nonstr e _ ltac:(assumption) Hx) as [Wx _]; exact Wx end. }
      rewrite Forall_forall in HWall. apply HWall. eapply nth_error_In; eauto. }
    assert (Hne : nil_or_empty (r_node a0) = false) by (apply W_not_empty; exact HW0).
    assert (Hms : meta_not_seq (r_node a0) = true).
    { destruct HW0 as [[_ (kvs0 & mkvs & tn & sn & nm & kn & E & Hm & _)] _]. rewrite E. unfold meta_not_seq. rewrite Hm. reflexivity. }
    destruct (subjects_follow_account nonstr ns m0 m1' m2 rules' i j k r a0 a org fs0 tg0 rest kvs ekvs es name_node cands b
                Hns Hm1 Hrules Hrun Hr Horg Hfl Hbr Hn Hs He Hname Ha0 Ha Hne Hms Hcs Hview Hcn Hc Hu Hvis)
      as (r' & a' & kvs' & es' & e' & H1 & H2 & H3 & H4 & H5 & H6 & H7 & H8).
    exists (strip_node (r_node r')), (strip_node (r_node a')), es', e'.
    split; [rewrite nth_error_map, H1; reflexivity|]. split; [rewrite nth_error_map, H2; reflexivity|].
    split; [rewrite strip_top_field by discriminate; rewrite H3; unfold map_field_value; exact H4|].
    split; [exact H5|].
    unfold get_name, get_namespace. rewrite !strip_meta_string by discriminate.
    repeat split; assumption.
  Qed.
End BuildSubjects.

(* non-vacuity: a build whose hypotheses hold *)
Example subjects_build_example :
  let docs := [r_node (sj_sa "sa1"); r_node (sj_rb [Map [("kind", sj_sc "ServiceAccount"); ("name", sj_sc "sa1")]])] in
  exists out dr,
    build sj_nq PSortNone (PDir "top" (ns_only "prod") [PFile docs]) = Ok out /\ List.length out = 2 /\
    nth_error out 1 = Some dr /\
    option_map (fun s => match s with Seq es => map (fun e => (subj_str "name" e, subj_str "namespace" e)) es | _ => [] end)
               (map_field_value "subjects" dr) = Some [("sa1", "prod")].
Proof. cbv zeta. do 2 eexists. split; [vm_compute; reflexivity|]. split; [reflexivity|]. split; [reflexivity|vm_compute; reflexivity]. Qed.
