(* Which resources a `patches:` entry applies to (PatchTransformerPlugin.Transform):
   - an entry with a target: the resources resWrangler.Select returns for the selector
     (transformStrategicMerge: Select + ApplySmPatch over the set of their current ids;
      transformJson6902: Select + a loop);
   - a strategic-merge entry without target: the ONE resource one of whose ids (previous or
     current) EQUALS the id of the patch body (resWrangler.GetById = demandOneMatch over
     GetMatchingResourcesByAnyId); none or several is an error.
   The patch application itself (merge2 / json-patch, C04) is the parameter [apply]. *)
From KV Require Export Res.Selector.

(* ResId.Equals: same effective namespace, same name, same group/version/kind.
   [acs] / [bcs]: the cluster-scope flags the two ids carry (see Selector.effective_ns) *)
Definition id_equals (a : resid) (acs : bool) (b : resid) (bcs : bool) : bool :=
  String.eqb (effective_ns acs a) (effective_ns bcs b) &&
  String.eqb (id_name a) (id_name b) && gvk_eqb (id_gvk a) (id_gvk b).

Inductive patch_entry :=
| PTarget (s : selector)       (* patches: [{target: s, patch: ...}] *)
| PById (id : resid).          (* patches: [{patch: <body with apiVersion, kind, metadata.name/namespace>}] *)

Fixpoint true_indices (i : nat) (l : list bool) : list nat :=
  match l with
  | [] => []
  | b :: t => if b then i :: true_indices (S i) t else true_indices (S i) t
  end.

Fixpoint nat_in (i : nat) (l : list nat) : bool :=
  match l with [] => false | x :: t => Nat.eqb i x || nat_in i t end.

Section Patch.
  Variable parse : string -> option re.
  Variable cluster_scoped : gvk -> bool.
  Variable lsel : string -> list (string * string) -> option bool.

  (* GetMatchingResourcesByAnyId(id.Equals) for one resource; the patch id comes from resid.GvkFromNode
     (openapi flag), previous ids never carry the flag, the current id does *)
  Definition any_id_equals (pid : resid) (obj : node) : res bool :=
    if nil_or_empty obj then Ok false else
    do prev <- resource_prev_ids obj;
    let pcs := cluster_scoped (id_gvk pid) in
    Ok (existsb (fun x => id_equals pid pcs x false) prev ||
        id_equals pid pcs (cur_id obj) (cluster_scoped (gvk_of obj))).

  (* the indices of the resources the entry applies to, in order *)
  Definition patch_targets (e : patch_entry) (rs : list node) : res (list nat) :=
    match e with
    | PTarget s => select parse cluster_scoped lsel s rs
    | PById id =>
        do hits <- mapM (any_id_equals id) rs;
        match true_indices 0 hits with
        | [i] => Ok [i]
        | _ => Err            (* "no matches for Id" / "multiple matches for Id" *)
        end
    end.

  Variable apply : node -> res node.      (* the patch, applied to one resource *)

  Fixpoint apply_at (idx : list nat) (i : nat) (rs : list node) : res (list node) :=
    match rs with
    | [] => Ok []
    | r :: t =>
        do r' <- (if nat_in i idx then apply r else Ok r);
        do t' <- apply_at idx (S i) t;
        Ok (r' :: t')
    end.

  Definition patch_transform (e : patch_entry) (rs : list node) : res (list node) :=
    do idx <- patch_targets e rs;
    apply_at idx 0 rs.
End Patch.
