(* Model of kyaml/resid (ResId, Gvk.IsSelected, IsSelectedBy, EffectiveNamespace), the id functions of
   api/resource and api/internal/utils (CurId, PrevIds, OrgId, MakeResIds), api/types/selector.go
   (SelectorRegex, anchorRegex) and resWrangler.Select (api/resmap/reswrangler.go). *)
From KV Require Export Base.Regex Yaml.FieldSpec.
From KV Require Export Gen.C10Patterns.

Record gvk := mkGvk { g_group : string; g_version : string; g_kind : string }.
Record resid := mkId { id_gvk : gvk; id_name : string; id_ns : string }.

Definition gvk_eqb (a b : gvk) : bool :=
  String.eqb (g_group a) (g_group b) && String.eqb (g_version a) (g_version b) && String.eqb (g_kind a) (g_kind b).

(* Gvk.IsSelected(selector): empty selector fields are wildcards, others compare by equality *)
Definition gvk_selected (x sel : gvk) : bool :=
  (String.eqb (g_group sel) "" || String.eqb (g_group x) (g_group sel)) &&
  (String.eqb (g_version sel) "" || String.eqb (g_version x) (g_version sel)) &&
  (String.eqb (g_kind sel) "" || String.eqb (g_kind x) (g_kind sel)).

(* ResId.EffectiveNamespace. Whether an id counts as cluster scoped is NOT a function of its gvk: the
   flag Gvk.isClusterScoped is set only by resid.NewGvk (openapi lookup); ids whose Gvk is a struct
   literal or was unmarshalled — the previous ids of utils.PrevIds, every id of utils.MakeResIds, the
   ids inside selectors — carry false. [cs] is that flag. *)
Definition effective_ns (cs : bool) (id : resid) : string :=
  if cs then "_non_namespaceable_"
  else if String.eqb (id_ns id) "" || String.eqb (id_ns id) "default" then "default"
  else id_ns id.

(* ResId.IsSelectedBy(selector) for ids and selectors built without NewGvk (replacements) *)
Definition id_selected_by (id sel : resid) : bool :=
  (String.eqb (id_name sel) "" || String.eqb (id_name sel) (id_name id)) &&
  (String.eqb (id_ns sel) "" || String.eqb (effective_ns false sel) (effective_ns false id)) &&
  gvk_selected (id_gvk id) (id_gvk sel).

(* ResId.IsEmpty *)
Definition id_is_empty (id : resid) : bool :=
  String.eqb (g_group (id_gvk id)) "" && String.eqb (g_version (id_gvk id)) "" &&
  String.eqb (g_kind (id_gvk id)) "" && String.eqb (id_name id) "" && String.eqb (id_ns id) "".

(* ---------- ids of a resource document ---------- *)
(* IsYNodeNilOrEmpty on a present node *)
Definition nil_or_empty (n : node) : bool :=
  match n with
  | Scalar TNull _ _ => true
  | Map [] => true
  | Seq [] => true
  | _ => false
  end.

Definition metadata_of (obj : node) : option (list (string * node)) :=
  match map_field_value "metadata" obj with
  | Some (Map kvs) => Some kvs
  | _ => None
  end.

(* RNode.getMetaStringField *)
Definition meta_string (fld : string) (obj : node) : string :=
  match metadata_of obj with
  | Some kvs =>
      match find_field fld kvs with
      | Some v => if nil_or_empty v then "" else node_value v
      | None => ""
      end
  | None => ""
  end.

(* metadata.labels / metadata.annotations as key/value texts (domain: no duplicate keys) *)
Definition meta_map (fld : string) (obj : node) : list (string * string) :=
  match metadata_of obj with
  | Some kvs =>
      match find_field fld kvs with
      | Some (Map l) => map (fun kv => (fst kv, node_value (snd kv))) l
      | _ => []
      end
  | None => []
  end.

Fixpoint assoc (k : string) (l : list (string * string)) : option string :=
  match l with
  | [] => None
  | (a, b) :: t => if String.eqb a k then Some b else assoc k t
  end.

Definition gvk_of (obj : node) : gvk :=
  let (g, v) := parse_group_version (obj_api_version obj) in mkGvk g v (obj_kind obj).

Definition cur_id (obj : node) : resid :=
  mkId (gvk_of obj) (meta_string "name" obj) (meta_string "namespace" obj).

Definition ann_prev_names := "internal.config.kubernetes.io/previousNames".
Definition ann_prev_namespaces := "internal.config.kubernetes.io/previousNamespaces".
Definition ann_prev_kinds := "internal.config.kubernetes.io/previousKinds".

Fixpoint zip3 (a b c : list string) : option (list (string * string * string)) :=
  match a, b, c with
  | [], [], [] => Some []
  | x :: a', y :: b', z :: c' => option_map (cons (x, y, z)) (zip3 a' b' c')
  | _, _, _ => None
  end.

Definition opt_csv (o : option string) : list string :=
  match o with Some s => split_on ","%char s | None => split_on ","%char "" end.

(* utils.PrevIds: None = "number of previous names ... not equal" *)
Definition prev_ids_opt (obj : node) : option (list resid) :=
  let anns := meta_map "annotations" obj in
  match assoc ann_prev_names anns with
  | None => Some []
  | Some names =>
      let g := gvk_of obj in
      match zip3 (split_on ","%char names)
                 (opt_csv (assoc ann_prev_namespaces anns))
                 (opt_csv (assoc ann_prev_kinds anns)) with
      | Some l => Some (map (fun t => match t with (n, ns, k) => mkId (mkGvk (g_group g) (g_version g) k) n ns end) l)
      | None => None
      end
  end.

(* utils.MakeResIds (error) and Resource.PrevIds (panic) *)
Definition make_res_ids (obj : node) : res (list resid) :=
  match prev_ids_opt obj with Some l => Ok (cur_id obj :: l) | None => Err end.
Definition resource_prev_ids (obj : node) : res (list resid) :=
  match prev_ids_opt obj with Some l => Ok l | None => Panic end.
(* Resource.OrgId with the cluster-scope flag of the id it returns: a previous id never carries it,
   the current id (resid.GvkFromNode = NewGvk) carries the openapi answer [ccs] *)
Definition org_id (ccs : bool) (obj : node) : res (resid * bool) :=
  do l <- resource_prev_ids obj;
  Ok (match l with x :: _ => (x, false) | [] => (cur_id obj, ccs) end).

(* ---------- types.Selector / SelectorRegex ---------- *)
Record selector := mkSel {
  sel_id : resid;
  sel_ann : string;      (* annotationSelector *)
  sel_lab : string       (* labelSelector *)
}.

(* types.anchorRegex *)
Definition anchor_text (p : string) : option string :=
  if gen_anchor_empty_guard && String.eqb p "" then Some p else render gen_anchor_pattern p.

Record selrx := mkSelRx {
  rx_group : re; rx_version : re; rx_kind : re; rx_name : re; rx_ns : re
}.

Section Select.
  Variable parse : string -> option re.          (* regexp.Compile *)
  Variable cluster_scoped : gvk -> bool.         (* openapi: is this gvk certainly cluster scoped *)

  Definition compile_anchored (p : string) : res re :=
    match anchor_text p with
    | None => Err
    | Some t => match parse t with Some r => Ok r | None => Err end
    end.

  (* types.NewSelectorRegex: all five patterns are compiled, in this order *)
  Definition new_selector_regex (s : selector) : res selrx :=
    let g := id_gvk (sel_id s) in
    do a <- compile_anchored (g_group g);
    do b <- compile_anchored (g_version g);
    do c <- compile_anchored (g_kind g);
    do d <- compile_anchored (id_name (sel_id s));
    do e <- compile_anchored (id_ns (sel_id s));
    Ok (mkSelRx a b c d e).

  Definition match_opt (pat : string) (r : re) (s : string) : bool :=
    if String.eqb pat "" then true else matches r s.

  Definition match_gvk (s : selector) (rx : selrx) (g : gvk) : bool :=
    let sg := id_gvk (sel_id s) in
    match_opt (g_group sg) (rx_group rx) (g_group g) &&
    match_opt (g_version sg) (rx_version rx) (g_version g) &&
    match_opt (g_kind sg) (rx_kind rx) (g_kind g).

  (* the k8s label-selector library (labels.Parse + Matches) on a selector text and a key/value
     map: None = the text does not parse.  External; the correspondence instantiates it with
     [simple_lsel] below, the only grammar the generators use. *)
  Variable lsel : string -> list (string * string) -> option bool.

  (* does Select keep this resource?  Err when a selector text does not parse and the resource got that far *)
  Definition select_one (s : selector) (rx : selrx) (obj : node) : res bool :=
    let ccs := cluster_scoped (gvk_of obj) in
    do orgc <- org_id ccs obj;
    let org := fst orgc in
    let cur := cur_id obj in
    let pns := id_ns (sel_id s) in
    let pn := id_name (sel_id s) in
    if negb (match_opt pns (rx_ns rx) (effective_ns (snd orgc) org)) &&
       negb (match_opt pns (rx_ns rx) (effective_ns ccs cur)) then Ok false
    else if negb (match_opt pn (rx_name rx) (id_name org)) &&
            negb (match_opt pn (rx_name rx) (id_name cur)) then Ok false
    else if negb (match_gvk s rx (gvk_of obj)) then Ok false
    else match lsel (sel_lab s) (meta_map "labels" obj) with
         | None => Err
         | Some false => Ok false
         | Some true =>
             match lsel (sel_ann s) (meta_map "annotations" obj) with
             | None => Err
             | Some b => Ok b
             end
         end.

  Fixpoint select_from (s : selector) (rx : selrx) (i : nat) (rs : list node) : res (list nat) :=
    match rs with
    | [] => Ok []
    | r :: t =>
        do keep <- select_one s rx r;
        do rest <- select_from s rx (S i) t;
        Ok (if keep then i :: rest else rest)
    end.

  (* resWrangler.Select: indices of the selected resources, in order *)
  Definition select (s : selector) (rs : list node) : res (list nat) :=
    do rx <- new_selector_regex s;
    select_from s rx 0 rs.
End Select.

(* ---------- the selector grammar used by the generators ----------
   comma-separated requirements  k=v | k==v | k!=v | k | !k  over tokens without blanks or
   parentheses; the empty text selects everything.  Anything else: None (treated as "does not parse"). *)
Fixpoint plain_token (s : string) : bool :=
  match s with
  | EmptyString => true
  | String c s' =>
      let n := N_of_ascii c in
      negb ((n =? 32) || (n =? 40) || (n =? 41) || (n =? 61) || (n =? 33) || (n =? 44))%N && plain_token s'
  end.

Definition simple_req (r : string) (m : list (string * string)) : option bool :=
  match split_first "="%char r with
  | None =>
      if has_prefix "!" r then
        let k := drop 1 r in
        if plain_token k && negb (String.eqb k "") then Some (match assoc k m with Some _ => false | None => true end) else None
      else if plain_token r && negb (String.eqb r "") then Some (match assoc r m with Some _ => true | None => false end)
      else None
  | Some (k, v) =>
      if has_suffix "!" k then
        let k' := take (String.length k - 1) k in
        if plain_token k' && negb (String.eqb k' "") && plain_token v
        then Some (match assoc k' m with Some x => negb (String.eqb x v) | None => true end) else None
      else
        let v' := trim_prefix "=" v in
        if plain_token k && negb (String.eqb k "") && plain_token v'
        then Some (match assoc k m with Some x => String.eqb x v' | None => false end) else None
  end.

Fixpoint simple_reqs (rs : list string) (m : list (string * string)) : option bool :=
  match rs with
  | [] => Some true
  | r :: t =>
      match simple_req r m, simple_reqs t m with
      | Some a, Some b => Some (a && b)
      | _, _ => None
      end
  end.

Definition simple_lsel (text : string) (m : list (string * string)) : option bool :=
  if String.eqb text "" then Some true else simple_reqs (split_on ","%char text) m.
