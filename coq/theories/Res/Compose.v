(* Compositional model of accumulation (property C11), names and order only:
     api/internal/target/kusttarget.go      accumulateTarget, accumulateResources, accumulateFile,
                                            accumulateDirectory, runTransformers (prefix, suffix)
     api/internal/accumulator/resaccumulator.go   AppendAll, MergeAccumulator
     api/resmap/reswrangler.go              Append (id-collision check), appendAll
     api/internal/builtins/PrefixTransformer.go / SuffixTransformer.go  Transform, shouldSkip
     api/krusty/kustomizer.go               applySortOrder
   A kustomization tree is abstracted to what decides names and order: a directory is its [resources]
   list (files of resource ids, sub-directories) plus namePrefix/nameSuffix.  A resource is its original
   id (Resource.OrgId: the skip lists look at it) and its current id (Resource.CurId).
   Out of scope (absent from model-compared trees): every other directive, generators, components,
   `kind: List` documents, names containing ',' (PrevIds panics: defect F7 of C12), load errors.
   Definitions only. *)
From KV Require Export Res.LegacySort.
Open Scope string_scope.

Record resource := mkRes { r_org : rid; r_cur : rid }.

Inductive tree :=
| File (docs : list rid)                              (* a resource file: its documents' ids, in order *)
| Dir (ents : list tree) (pfx sfx : string).          (* a kustomization directory *)

Definition set_name (n : string) (i : rid) : rid := mkId (id_gvk i) (id_ns i) n.

Section Compose.
  Variable cluster_scoped : gvk -> bool.          (* Gvk.isClusterScoped, see LegacySort.id_equals *)
  Variable pfx_fs sfx_fs : list fieldspec.        (* TransformerConfig.NamePrefix / NameSuffix *)
  Variable pfx_skip sfx_skip : list fieldspec.    (* prefixFieldSpecsToSkip / suffixFieldSpecsToSkip *)
  Variable guarded : bool.                        (* does gvkLessThan carry the rank guard? (generated flag) *)

  (* shouldSkip(r.OrgId()) *)
  Definition should_skip (skip : list fieldspec) (org : rid) : bool :=
    existsb (fun fs => gvk_selected fs (id_gvk org)) skip.

  (* number of field specs that select the resource and address metadata/name: each of them runs the
     prefix filter once on the name.  (A field spec with another path would edit a field this model does
     not carry; obligation Gen_name_fs_only_name states there is none.) *)
  Definition name_hits (tbl : list fieldspec) (org : rid) : nat :=
    List.length (filter (fun fs => gvk_selected fs (id_gvk org) && String.eqb (fs_path fs) "metadata/name") tbl).

  Fixpoint iter_prefix (k : nat) (p n : string) : string :=
    match k with O => n | S k' => p ++ iter_prefix k' p n end.
  Fixpoint iter_suffix (k : nat) (s n : string) : string :=
    match k with O => n | S k' => iter_suffix k' s n ++ s end.

  (* PrefixTransformerPlugin.Transform on one resource *)
  Definition add_prefix (p : string) (r : resource) : resource :=
    if should_skip pfx_skip (r_org r) then r
    else mkRes (r_org r) (set_name (iter_prefix (name_hits pfx_fs (r_org r)) p (id_name (r_cur r))) (r_cur r)).

  (* SuffixTransformerPlugin.Transform on one resource *)
  Definition add_suffix (s : string) (r : resource) : resource :=
    if should_skip sfx_skip (r_org r) then r
    else mkRes (r_org r) (set_name (iter_suffix (name_hits sfx_fs (r_org r)) s (id_name (r_cur r))) (r_cur r)).

  (* runTransformers, restricted to the two name transformers: each is configured only when its
     directive is non-empty (kusttarget_configplugin.go) *)
  Definition run_transformers (p s : string) (acc : list resource) : list resource :=
    let acc := if String.eqb p "" then acc else map (add_prefix p) acc in
    if String.eqb s "" then acc else map (add_suffix s) acc.

  (* resWrangler.appendAll: Append every resource, failing on a current-id collision *)
  Fixpoint append_all (acc l : list resource) : res (list resource) :=
    match l with
    | [] => Ok acc
    | r :: t =>
        if existsb (fun x => id_equals cluster_scoped (r_cur r) (r_cur x)) acc then Err
        else append_all (acc ++ [r]) t
    end.

  Definition load (d : rid) : resource := mkRes d d.

  (* Kustomization.CheckEmpty (KustTarget.Load): a kustomization file with no field at all is rejected.
     In this abstraction the fields are the resources list, namePrefix, nameSuffix (and, for the top
     directory only, sortOptions: see [build]). *)
  Definition is_empty_kust (t : tree) : bool :=
    match t with
    | Dir [] p s => String.eqb p "" && String.eqb s ""
    | _ => false
    end.

  (* accumulateResources: the entries of a resources list in order; each entry's result is appended
     (AppendAll / MergeAccumulator) with the collision check.  [f] is the recursive call. *)
  Definition acc_list (f : tree -> res (list resource)) : list tree -> list resource -> res (list resource) :=
    fix go (l : list tree) (acc : list resource) : res (list resource) :=
      match l with
      | [] => Ok acc
      | e :: t' => do sub <- f e; do acc' <- append_all acc sub; go t' acc'
      end.

  (* accumulateTarget of a directory / accumulateFile of a file.  The result of a directory is what
     accumulateDirectory merges into the parent (MergeAccumulator = AppendAll of the child's ResMap). *)
  Fixpoint accumulate (t : tree) : res (list resource) :=
    match t with
    | File docs => append_all [] (map load docs)          (* rFactory.FromFile builds a ResMap: same check *)
    | Dir ents p s =>
        if is_empty_kust (Dir ents p s) then Err else
        do acc <- acc_list accumulate ents [];
        Ok (run_transformers p s acc)
    end.

  (* sortOptions of the top kustomization, as krusty.Run with MakeDefaultOptions applies them *)
  Inductive sort_opt :=
  | SortNone                                        (* no sortOptions field (Options.Reorder = none) *)
  | SortFifo                                        (* sortOptions: {order: fifo} *)
  | SortLegacy (first last : list string).          (* sortOptions: {order: legacy} with these lists *)

  Definition has_sort_field (o : sort_opt) : bool := match o with SortNone => false | _ => true end.

  (* the ids of the output documents, in output order.  A top kustomization whose only field is
     sortOptions is not empty for CheckEmpty and builds to nothing. *)
  Definition build (o : sort_opt) (t : tree) : res (list rid) :=
    if is_empty_kust t && has_sort_field o then Ok [] else
    do acc <- accumulate t;
    match o with
    | SortNone | SortFifo => Ok (map r_cur acc)
    | SortLegacy first last => Ok (sort_legacy_g guarded first last (map r_cur acc))
    end.

  (* ---------- closed form used by the theorems (ComposeProofs.v shows accumulate = this) ---------- *)

  Fixpoint nocoll_b (l : list resource) : bool :=
    match l with
    | [] => true
    | x :: t => forallb (fun y => negb (id_equals cluster_scoped (r_cur x) (r_cur y))) t && nocoll_b t
    end.

  Fixpoint flat (t : tree) : list resource :=
    match t with
    | File docs => map load docs
    | Dir ents p s => run_transformers p s (List.concat (map flat ents))
    end.

  Fixpoint okb (t : tree) : bool :=
    match t with
    | File docs => nocoll_b (map load docs)
    | Dir ents p s => negb (is_empty_kust (Dir ents p s)) && forallb okb ents && nocoll_b (List.concat (map flat ents))
    end.
End Compose.

(* the documents of a tree in depth-first load order: what `sortOptions: fifo` promises *)
Fixpoint dfs_docs (t : tree) : list rid :=
  match t with
  | File docs => docs
  | Dir ents _ _ => List.concat (map dfs_docs ents)
  end.

(* the metamorphic transformations of the property, on the abstract tree *)
Definition wrap (t : tree) : tree := Dir [t] "" "".

(* a chain of overlays (outermost first) around an innermost tree *)
Fixpoint chain (layers : list (string * string)) (inner : tree) : tree :=
  match layers with
  | [] => inner
  | (p, s) :: rest => Dir [chain rest inner] p s
  end.
