(* SPECIFICATION, not the model of /repo: the name reference transformer in which the filters applied to one
   referrer share a set of reference fields that have been resolved to a referral; a field in the set is left
   alone by the filters of the other kinds.  This is what the current code (Res/NameRef.v, the faithful model)
   is refuted against in the rewrite-cascade findings: on their witnesses this transformer keeps the field at
   the referent's name (the cascade_repaired examples of C03Facts), and it agrees with Res/NameRef.v on inputs without a
   shared field hit (resolved_agrees_closed).  A repair of this shape (/tmp/fixes/S-nameref-shared-field.patch,
   nameref.ResolvedFields + Filter.Resolved) was proposed and DECLINED in fix wave 4 (new exported type and
   Filter field: a design decision for the maintainers), so the cascade classes stay findings.
   A field is identified by its concrete address in the referrer's document, which the traversal threads
   together with the set.  Definitions only.  Everything not mentioned here is shared with Res/NameRef.v. *)
From KV Require Export Res.NameRef Res.Addr.

Definition addr := list astep.

Definition astep_eqb (a b : astep) : bool :=
  match a, b with
  | AKey k, AKey k' => String.eqb k k'
  | AIdx i, AIdx j => Nat.eqb i j
  | _, _ => false
  end.
Fixpoint addr_eqb (a b : addr) : bool :=
  match a, b with
  | [], [] => true
  | x :: a', y :: b' => astep_eqb x y && addr_eqb a' b'
  | _, _ => false
  end.
Definition addr_mem (a : addr) (l : list addr) : bool := existsb (addr_eqb a) l.

(* fieldspec.Filter with CreateKind 0 (nothing is ever created), threading a state and the address of the
   node SetValue is called on.  Same traversal as Yaml/FieldSpec.v fs_filter None _ _ _ (lemma fs_filter_s_plain
   in the proofs relates the two). *)
Section Traversal.
  Context {S : Type}.
  Variable seta : S -> addr -> node -> res (node * S).

  Fixpoint fs_filter_s (path : list string) {struct path} : S -> addr -> node -> res (node * S) :=
    match path with
    | [] => seta
    | p :: rest =>
        fix go (st : S) (a : addr) (obj : node) {struct obj} : res (node * S) :=
          if is_null obj then Ok (obj, st) else
          match obj with
          | Seq es =>
              do r <- (fix goes (st : S) (i : nat) (l : list node) {struct l} : res (list node * S) :=
                         match l with
                         | [] => Ok ([], st)
                         | e :: t =>
                             do e' <- go st (a ++ [AIdx i])%list e;
                             do t' <- goes (snd e') (Datatypes.S i) t;
                             Ok (fst e' :: fst t', snd t')
                         end) st 0 es;
              Ok (Seq (fst r), snd r)
          | Map _ =>
              let (field_name, is_seq) := is_sequence_field p in
              if String.eqb field_name "" then Err else
              let ps := parse_path [field_name] in
              let step := match ps with [PKey k] => [AKey k] | _ => [] end in
              do r <- walk None ps
                        (fun field =>
                           let field' := if is_seq then promote KSeq TNone field else field in
                           fs_filter_s rest st (a ++ step)%list field') obj;
              Ok (fst r, match snd r with Some st' => st' | None => st end)
          | Scalar _ _ _ => Err
          end
    end.
End Traversal.

Section Resolved.
  Variable cs : string -> string -> bool.
  Variable nonstr : string -> bool.

  (* Filter.setScalar with the resolved set *)
  Definition nr_unit_scalar (x : referrer_ctx) (cands : list cand) (resolved : list addr) (a : addr) (n : node)
    : res (node * list addr) :=
    if addr_mem a resolved then Ok (n, resolved) else
    do r <- select_referral x (node_value n) cands all_names_same;
    match r with
    | None => Ok (n, resolved)
    | Some c =>
        do n' <- (if String.eqb (c_name c) (node_value n) then Ok n else set_string_scalar (c_name c) n);
        Ok (n', a :: resolved)
    end.

  (* Filter.setMapping with the resolved set *)
  Definition nr_unit_mapping (x : referrer_ctx) (cands : list cand) (resolved : list addr) (a : addr) (n : node)
    : res (node * list addr) :=
    match n with
    | Map kvs =>
        if addr_mem a resolved then Ok (n, resolved) else
        match find_field "name" kvs with
        | None => Err
        | Some name_node =>
            let old := node_value name_node in
            do r <- select_referral x old (mapping_cands kvs cands) all_names_and_namespaces_same;
            match r with
            | None => Ok (n, resolved)
            | Some c =>
                do n' <- (if String.eqb (c_name c) old && String.eqb (c_ns c) "" then Ok n
                          else
                            do n1 <- set_string_field nonstr "name" (c_name c) n;
                            if String.eqb (c_ns c) "" then Ok n1
                            else set_string_field nonstr "namespace" (c_ns c) n1);
                Ok (n', a :: resolved)
            end
        end
    | _ => Err
    end.

  (* Filter.set *)
  Definition nr_set_s (x : referrer_ctx) (cands : list cand) (resolved : list addr) (a : addr) (n : node)
    : res (node * list addr) :=
    if is_null n then Ok (n, resolved) else
    match n with
    | Scalar _ _ _ => nr_unit_scalar x cands resolved a n
    | Map _ => nr_unit_mapping x cands resolved a n
    | Seq es =>
        do r <- (fix goes (resolved : list addr) (i : nat) (l : list node) {struct l} : res (list node * list addr) :=
                   match l with
                   | [] => Ok ([], resolved)
                   | e :: t =>
                       do e' <- (if is_null e then Ok (e, resolved) else
                                 match e with
                                 | Scalar _ _ _ => nr_unit_scalar x cands resolved (a ++ [AIdx i])%list e
                                 | Map _ => nr_unit_mapping x cands resolved (a ++ [AIdx i])%list e
                                 | Seq _ => Err
                                 end);
                       do t' <- goes (snd e') (Datatypes.S i) t;
                       Ok (fst e' :: fst t', snd t')
                   end) resolved 0 es;
        Ok (Seq (fst r), snd r)
    end.

  Definition apply_rule_r (cands : list cand) (fs : fieldspec) (target : gvk) (resolved : list addr)
             (referrer : resource) : res (resource * list addr) :=
    let x := make_ctx cs referrer (fs_path fs) target in
    do r <- fs_filter_s (nr_set_s x cands) (path_splitter (fs_path fs)) resolved [] (r_node referrer);
    Ok (with_node referrer (fst r), snd r).

  (* the filters of one referrer share one set *)
  Fixpoint apply_rules_r (m_before m_after : list resource) (flags : list bool)
           (fl : list (fieldspec * gvk)) (resolved : list addr) (referrer : resource) : res resource :=
    match fl with
    | [] => Ok referrer
    | (fs, tg) :: t =>
        do cands <- mapM (view cs) (select_by flags (m_before ++ referrer :: m_after)%list);
        do r' <- apply_rule_r cands fs tg resolved referrer;
        apply_rules_r m_before m_after flags t (snd r') (fst r')
    end.

  Fixpoint transform_loop_r (filters : list (list (fieldspec * gvk)))
           (done todo : list resource) : res (list resource) :=
    match todo, filters with
    | [], _ => Ok done
    | r :: t, fl :: filters' =>
        match fl with
        | [] => transform_loop_r filters' (done ++ [r])%list t
        | _ =>
            do flags <- referencable cs (done ++ r :: t)%list r;
            do r' <- apply_rules_r done t flags fl [] r;
            transform_loop_r filters' (done ++ [r'])%list t
        end
    | _ :: _, [] => Ok (done ++ todo)%list
    end.

  Definition nameref_transform_r (rules : list nbr) (m : list resource) : res (list resource) :=
    do orgs <- mapM (org_id cs) m;
    transform_loop_r (map (filters_for rules) orgs) [] m.
End Resolved.
