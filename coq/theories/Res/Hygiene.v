(* C07 — annotation hygiene: what krusty.Run removes from metadata.annotations before returning.
   Definitions only (proofs: Res/HygieneProofs.v). Every list used here is GENERATED from /repo
   (Gen/Annotations.v): resource.BuildAnnotations, the Remove*Annotations calls of krusty.Run with their
   guards, the keys each of them deletes, and every annotation-like string constant of api/ and kyaml/. *)
From KV Require Import Base.Prelude Res.HygieneTypes Gen.Annotations.

(* metadata.annotations as Go sees it through RNode.GetAnnotations: a map (unique keys) *)
Definition annmap := list (string * string).

Fixpoint ann_get (k : string) (a : annmap) : option string :=
  match a with
  | [] => None
  | (k', v) :: t => if String.eqb k' k then Some v else ann_get k t
  end.

Definition ann_has (k : string) (a : annmap) : bool :=
  match ann_get k a with Some _ => true | None => false end.

Definition ann_remove (k : string) (a : annmap) : annmap :=
  filter (fun kv => negb (String.eqb (fst kv) k)) a.

Definition ann_remove_all (ks : list string) (a : annmap) : annmap :=
  filter (fun kv => negb (str_in (fst kv) ks)) a.

(* map assignment a[k] = v *)
Fixpoint ann_set (k v : string) (a : annmap) : annmap :=
  match a with
  | [] => [(k, v)]
  | (k', v') :: t => if String.eqb k' k then (k, v) :: t else (k', v') :: ann_set k v t
  end.

(* ---------- krusty.Run: RemoveBuildAnnotations / RemoveOriginAnnotations / RemoveTransformerAnnotations ---------- *)

Definition method_keys (m : string) : list string :=
  match find (fun e => String.eqb (fst e) m) gen_strip_method_keys with
  | Some e => snd e
  | None => []
  end.

(* bm = the kustomization's buildMetadata list *)
Definition guard_active (bm : list string) (g : strip_guard) : bool :=
  match g with
  | GAlways => true
  | GUnlessRequested o => negb (str_in o bm)
  | GUnknown => false
  end.

(* the calls are executed one after the other, each deleting its keys *)
Definition strip_run (bm : list string) (a : annmap) : annmap :=
  fold_left (fun acc c => if guard_active bm (snd c) then ann_remove_all (method_keys (fst c)) acc else acc)
            gen_run_strips a.

(* all keys removed for a given buildMetadata *)
Definition run_stripped_keys (bm : list string) : list string :=
  flat_map (fun c => if guard_active bm (snd c) then method_keys (fst c) else []) gen_run_strips.

(* keys that stay because the kustomization asked for them (origin / transformations) *)
Definition requested_keys (bm : list string) : list string :=
  flat_map (fun c => match snd c with
                     | GUnlessRequested o => if str_in o bm then method_keys (fst c) else []
                     | _ => []
                     end) gen_run_strips.

(* ---------- which keys count as kustomize-internal bookkeeping ---------- *)

(* key families owned by kustomize / kyaml (everything the scan of api/ and kyaml/ finds lives in one of them) *)
Definition internal_prefixes : list string :=
  [ "internal.config.kubernetes.io/"; "config.kubernetes.io/"; "config.k8s.io/";
    "alpha.config.kubernetes.io/"; "kustomize.config.k8s.io/" ].

Definition is_internal_key (k : string) : bool := existsb (fun p => has_prefix p k) internal_prefixes.

(* Strings of these families that are NOT bookkeeping written by the build path; (value, justification).
   Anything in the generated scan that is neither removed by krusty.Run nor listed here breaks
   Gen_every_written_is_stripped — so a new internal annotation must be stripped or consciously allowed. *)
Definition allow_list : list (string * string) :=
  [ ("config.kubernetes.io/local-config",
     "user-facing input directive (konfig.IgnoredByKustomizeAnnotation, filters.LocalConfigAnnotation): written by users, read by the build (resources carrying it are dropped); the build never adds it to an output resource (fnplugin injects it into the function config only)");
    ("config.kubernetes.io/function",
     "KRM-function spec key set by users on function configs (runtimeutil.FunctionAnnotationKey); read, never written, by the build");
    ("config.k8s.io/function",
     "deprecated spelling of the previous key (runtimeutil.oldFunctionAnnotationKey); read only");
    ("config.kubernetes.io/container",
     "legacy KRM-function key read by runtimeutil.getFunctionSpecFromAnnotation; read only");
    ("config.kubernetes.io/formatting",
     "kyaml FormatFilter opt-out key (filters.FmtAnnotation) read by `kustomize cfg fmt`; not on the build path, read only");
    ("config.kubernetes.io/merge-source",
     "kyaml Merge3 filter marker (filters.mergeSourceAnnotation): written and removed inside filters.Merge3.Filter, which krusty never calls");
    ("kustomize.config.k8s.io/id",
     "exec/fn plugin protocol (plugins/utils.idAnnotation): set on the copy handed to a plugin transformer, deleted by UpdateResMapValues -> removeIDAnnotation from EVERY resource read back (obligation Gen_plugin_protocol_removed; oracle: builds with an exec function that renames / moves resources)");
    ("kustomize.config.k8s.io/needs-hash",
     "exec/fn plugin protocol (plugins/utils.HashAnnotation): written by plugins, consumed and deleted by UpdateResourceOptions");
    ("kustomize.config.k8s.io/behavior",
     "exec/fn plugin protocol (plugins/utils.BehaviorAnnotation): written by plugins, consumed and deleted by UpdateResourceOptions");
    ("config.kubernetes.io/v1",
     "an apiVersion (kio.ResourceListAPIVersion), not an annotation key");
    ("config.kubernetes.io/v1alpha1",
     "an apiVersion (framework.FunctionDefinitionGroupVersion), not an annotation key");
    ("kustomize.config.k8s.io/v1alpha1",
     "an apiVersion (types.ComponentVersion), not an annotation key");
    ("kustomize.config.k8s.io/v1beta1",
     "an apiVersion (types.KustomizationVersion), not an annotation key") ].

Definition allowed (k : string) : bool := str_in k (map fst allow_list).

Fixpoint dedup (l : list string) : list string :=
  match l with
  | [] => []
  | x :: t => if str_in x t then dedup t else x :: dedup t
  end.

(* every annotation-like string the source defines or uses (values only) *)
Definition annotation_like_values : list string :=
  dedup (map snd gen_annotation_like ++ map snd gen_build_annotations
         ++ filter (fun v => existsb (fun p => has_prefix p v)
                               [ "internal.config.kubernetes.io/"; "config.kubernetes.io/"; "config.k8s.io/";
                                 "alpha.config.kubernetes.io/"; "kustomize.config.k8s.io/" ])
                  (map snd gen_qualified_strings)).

(* the internal bookkeeping keys: internal family, not allow-listed *)
Definition internal_keys : list string :=
  filter (fun k => is_internal_key k && negb (allowed k)) annotation_like_values.

(* for a given buildMetadata: the keys that must not appear in any output resource *)
Definition must_be_absent (bm : list string) : list string :=
  filter (fun k => negb (str_in k (requested_keys bm))) internal_keys.

(* boolean form of the generated-table obligation (buildMetadata = []: nothing requested) *)
Definition every_written_is_stripped_b : bool :=
  forallb (fun k => str_in k (run_stripped_keys [])) internal_keys.

(* no call of krusty.Run sits under an unrecognised guard, no delete site was left unclassified,
   and every element of resource.BuildAnnotations was resolved to a constant *)
Definition strips_classified_b : bool :=
  forallb (fun c => match snd c with GUnknown => false | _ => true end) gen_run_strips
  && match gen_strip_unclassified with [] => true | _ => false end
  && forallb (fun e => negb (String.eqb (snd e) "<unresolved>")) gen_build_annotations.

(* a requested key is not also removed unconditionally *)
Definition requested_survive_b : bool :=
  forallb (fun o => forallb (fun k => negb (str_in k (run_stripped_keys [o]))) (requested_keys [o]))
          gen_buildmeta_options.

(* ---------- the order of the build tail that ResMapModel.finalize assumes ---------- *)

Definition tail_steps : list string :=
  [ "MakeCustomizedResMap"; "AccumulateTarget"; "addHashesToNames"; "FixBackReferences"; "ResolveVars"; "IgnoreLocal";
    "DropLocalNodes"; "Intersection"; "FromResourceSlice"; "New"; "Append"; "applySortOrder"; "Transform";
    "RemoveBuildAnnotations"; "RemoveOriginAnnotations"; "RemoveTransformerAnnotations" ].

Definition only_tail_steps (l : list string) : list string := filter (fun c => str_in c tail_steps) l.

Fixpoint str_list_eq (a b : list string) : bool :=
  match a, b with
  | [], [] => true
  | x :: a', y :: b' => String.eqb x y && str_list_eq a' b'
  | _, _ => false
  end.

(* makeCustomizedResMap: accumulate, hash names, fix references, resolve vars, IgnoreLocal — in this order;
   IgnoreLocal: DropLocalNodes, a fresh ResMap filled with Append (an id conflict is an error: fix 66fde0c replaced
   Factory.FromResourceSlice, which panicked), then Intersection with it;
   Run: MakeCustomizedResMap, sort, (managed-by label transformer), then the three removals *)
Definition tail_order_b : bool :=
  str_list_eq (only_tail_steps gen_make_customized_calls)
              ["AccumulateTarget"; "addHashesToNames"; "FixBackReferences"; "ResolveVars"; "IgnoreLocal"]
  && str_list_eq (only_tail_steps gen_ignore_local_calls) ["DropLocalNodes"; "New"; "Append"; "Intersection"]
  && str_list_eq (only_tail_steps gen_run_calls)
              ["MakeCustomizedResMap"; "applySortOrder"; "Transform";
               "RemoveBuildAnnotations"; "RemoveOriginAnnotations"; "RemoveTransformerAnnotations"].

(* ---------- every qualified string of api/ and kyaml/ is classified ---------- *)

Fixpoint drop_digits (s : string) : string :=
  match s with
  | String c s' => if is_digit c then drop_digits s' else s
  | EmptyString => EmptyString
  end.

(* v<digits>, optionally followed by alpha<digits> / beta<digits> *)
Definition is_version_name (s : string) : bool :=
  match s with
  | String "v"%char r =>
      let r1 := drop_digits r in
      Nat.ltb (String.length r1) (String.length r) &&
      (String.eqb r1 "" ||
       let tail := if has_prefix "alpha" r1 then Some (drop 5 r1)
                   else if has_prefix "beta" r1 then Some (drop 4 r1) else None in
       match tail with
       | Some t => negb (String.eqb t "") && String.eqb (drop_digits t) ""
       | None => false
       end)
  | _ => false
  end.

(* "<group>/<version>": an apiVersion, not a key *)
Definition is_api_version (v : string) : bool :=
  match split_first "/"%char v with
  | Some (_, suffix) => is_version_name suffix
  | None => false
  end.

(* key families that are not kustomize's; (prefix, why it is outside annotation hygiene) *)
Definition foreign_families : list (string * string) :=
  [ ("app.kubernetes.io/",
     "the recommended Kubernetes LABEL keys; konfig.ManagedbyLabelKey is a label added only when buildMetadata asks for managedByLabel") ].

Definition qualified_values : list string := dedup (map snd gen_qualified_strings).

(* every "<domain>/<name>" string anywhere in non-test code of api/ and kyaml/ is an apiVersion, belongs to a
   kustomize-owned key family (then it is subject to Gen_every_written_is_stripped: it occurs in
   [annotation_like_values]) or belongs to a listed foreign family; no annotation key is concatenated at run time
   from one of the kustomize domains *)
Definition qualified_classified_b : bool :=
  forallb (fun v => is_api_version v
                    || (is_internal_key v && str_in v annotation_like_values)
                    || existsb (fun f => has_prefix (fst f) v) foreign_families) qualified_values
  && match gen_dynamic_key_concats with [] => true | _ => false end.

(* ---------- annotation write sites, including writes through helper functions ---------- *)

(* sites whose key (or whole map) is not a constant; "file:function" with the reason why no kustomize-internal key
   can be introduced there that is not already covered by a constant site *)
Definition dynamic_write_ok : list (string * string) :=
  [ ("api/internal/builtins/AnnotationsTransformer.go:Transform",
     "the user's commonAnnotations map");
    ("api/internal/builtins/PatchJson6902Transformer.go:Transform",
     "puts back the internal annotations the resource carried before the JSON patch (kioutil.GetInternalAnnotations): existing keys only");
    ("api/internal/builtins/PatchTransformer.go:transformJson6902",
     "same restore loop as PatchJson6902Transformer");
    ("api/internal/generators/utils.go:copyLabelsAndAnnotations",
     "the user's generator options annotations");
    ("api/resource/resource.go:CopyMergeMetaDataFieldsFrom",
     "union of the existing annotations of two resources, build annotations taken from the absorbed-into resource (mergeStringMapsWithBuildAnnotations): existing keys only");
    ("kyaml/kio/byteio_reader.go:decode",
     "writes the entries of ByteReader.SetAnnotations: the constant index / seqindent keys set in the same function and the path keys of pkgio_reader (constant sites); kustomize's loader uses kio.FromBytes with OmitReaderAnnotations");
    ("kyaml/kio/kioutil/kioutil.go:CopyInternalAnnotations",
     "copies existing internal annotations from one node to another (kyaml function framework): existing keys only");
    ("kyaml/kio/pkgio_reader.go:Read", "hands LocalPackageReader.SetAnnotations (caller supplied + the constant path keys) to the ByteReader");
    ("kyaml/kio/pkgio_reader.go:readFile", "same map as in Read");
    ("kyaml/yaml/rnode.go:GetMeta", "not a write to a document: fills the ResourceMeta struct while reading") ].

Definition write_site_ok (s : string * string * string * string) : bool :=
  let '(file, fn, kind, text) := s in
  if String.eqb kind "const"
  then negb (is_internal_key text) || allowed text || str_in text (run_stripped_keys [])
  else str_in (file ++ ":" ++ fn) (map fst dynamic_write_ok).

(* every place that writes an annotation key — directly, through yaml.SetAnnotation, through a map later stored
   with SetAnnotations, or through a helper that forwards a parameter as the key — writes a constant that is
   removed by krusty.Run (or is allow-listed / not kustomize's), or is one of the reviewed dynamic sites *)
Definition write_sites_covered_b : bool := forallb write_site_ok gen_annotation_writes.

(* ---------- the plugin protocol keys are allow-listed only because the protocol removes them on every path ---------- *)

(* every allow-listed key of the exec / KRM-function plugin protocol family has a removal that the translator found to
   be evaluated unconditionally for every resource (gen_plugin_protocol_removals): idAnnotation by
   UpdateResMapValues -> removeIDAnnotation on every resource read back from the plugin (not only on those whose id
   the old map already holds), HashAnnotation / BehaviorAnnotation by UpdateResourceOptions *)
Definition plugin_protocol_removed_b : bool :=
  forallb (fun k => is_api_version k
                    || existsb (fun e => let '(key, _, st) := e in String.eqb key k && String.eqb st "unconditional")
                               gen_plugin_protocol_removals)
          (filter (fun k => has_prefix "kustomize.config.k8s.io/" k) (map fst allow_list)).
