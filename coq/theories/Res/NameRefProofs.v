(* Proofs about KV.Res.NameRef (kept out of the model file). *)
From KV Require Import Res.NameRef.

Lemma sieve4_sound x old l c :
  In c (sieve4 x old l) ->
  In c l /\ prev_name_matches old c = true /\ prev_id_selected_by (x_target x) c = true /\
  roleref_sieve x c = true /\ namespace_sieve x c = true.
Proof.
  unfold sieve4. intros H.
  apply filter_In in H as [H H4]. apply filter_In in H as [H H3].
  apply filter_In in H as [H H2]. apply filter_In in H as [H H1]. auto.
Qed.

Lemma select_referral_in x old l identical c :
  select_referral x old l identical = Ok (Some c) -> In c (sieve4 x old l).
Proof.
  unfold select_referral.
  set (l4 := sieve4 x old l).
  assert (Hsub: forall l5 b, incl (filter (prefix_suffix_sieve x b) l5) l5)
    by (intros l5 b y Hy; apply filter_In in Hy; tauto).
  destruct l4 as [|a [|a' t]] eqn:E4.
  - cbn. discriminate.
  - intros H; inversion H; subst; left; reflexivity.
  - remember (filter (prefix_suffix_sieve x true) (a :: a' :: t)) as l5.
    assert (H5: incl l5 (a :: a' :: t)) by (subst l5; apply Hsub).
    remember (match l5 with
              | _ :: _ :: _ => filter (prefix_suffix_sieve x false) l5
              | _ => l5
              end) as l6.
    assert (H6: incl l6 l5).
    { subst l6. destruct l5 as [|u [|u' t5]]; try apply incl_refl. apply Hsub. }
    intros H. destruct l6 as [|u [|u' t6]].
    + discriminate.
    + inversion H; subst c. apply H5, H6. left; reflexivity.
    + destruct (identical (u :: u' :: t6)); [|discriminate].
      inversion H; subst c. apply H5, H6. left; reflexivity.
Qed.

Lemma select_referral_sound x old cands identical c :
  select_referral x old cands identical = Ok (Some c) ->
  In c cands /\ prev_name_matches old c = true /\ prev_id_selected_by (x_target x) c = true.
Proof.
  intros H. apply select_referral_in in H. apply sieve4_sound in H. tauto.
Qed.
