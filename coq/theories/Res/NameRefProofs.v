(* Proofs about KV.Res.NameRef (kept out of the model file). *)
From KV Require Import Res.NameRef.

Lemma sieve4_sound x old l c :
  In c (sieve4 x old l) ->
  In c l /\ prev_name_matches old c = true /\ prev_id_selected_by (x_target x) c = true /\
  roleref_sieve x c = true /\ namespace_sieve x c = true.
Proof.
  unfold sieve4. intros H.
  apply filter_In in H as [H H4]. apply filter_In in H as [H H3].
  apply filter_In in H as [H H2]. apply filter_In in H as [H H1]. auto.
Qed.

Lemma select_referral_in x old l identical c :
  select_referral x old l identical = Ok (Some c) -> In c (sieve4 x old l).
Proof.
  unfold select_referral.
  set (l4 := sieve4 x old l).
  assert (Hsub: forall l5 b, incl (filter (prefix_suffix_sieve x b) l5) l5)
    by (intros l5 b y Hy; apply filter_In in Hy; tauto).
  destruct l4 as [|a [|a' t]] eqn:E4.
  - cbn. discriminate.
  - intros H; inversion H; subst; left; reflexivity.
  - remember (filter (prefix_suffix_sieve x true) (a :: a' :: t)) as l5.
    assert (H5: incl l5 (a :: a' :: t)) by (subst l5; apply Hsub).
    remember (match l5 with
              | _ :: _ :: _ => filter (prefix_suffix_sieve x false) l5
              | _ => l5
              end) as l6.
    assert (H6: incl l6 l5).
    { subst l6. destruct l5 as [|u [|u' t5]]; try apply incl_refl. apply Hsub. }
    intros H. destruct l6 as [|u [|u' t6]].
    + discriminate.
    + inversion H; subst c. apply H5, H6. left; reflexivity.
    + destruct (identical (u :: u' :: t6)); [|discriminate].
      inversion H; subst c. apply H5, H6. left; reflexivity.
Qed.

Lemma select_referral_sound x old cands identical c :
  select_referral x old cands identical = Ok (Some c) ->
  In c cands /\ prev_name_matches old c = true /\ prev_id_selected_by (x_target x) c = true.
Proof.
  intros H. apply select_referral_in in H. apply sieve4_sound in H. tauto.
Qed.

(* ================= unique candidates ================= *)

From KV Require Import Res.FsFacts.

(* the first two sieves together: "had this name, and was of the kind the rule is about" *)
Definition name_kind_match (x : referrer_ctx) (old : string) (c : cand) : bool :=
  prev_name_matches old c && prev_id_selected_by (x_target x) c.

Lemma filter_filter {A} (f g : A -> bool) l :
  filter g (filter f l) = filter (fun a => f a && g a) l.
Proof.
  induction l as [|a t IH]; [reflexivity|]. cbn.
  destruct (f a); cbn; [destruct (g a); cbn; rewrite IH; reflexivity|assumption].
Qed.

Lemma sieve4_eq x old l :
  sieve4 x old l = filter (namespace_sieve x) (filter (roleref_sieve x) (filter (name_kind_match x old) l)).
Proof. unfold sieve4, name_kind_match. now rewrite (filter_filter (prev_name_matches old)). Qed.

(* When exactly one candidate ever had the referenced name with the right kind, the outcome is decided
   by the two visibility sieves alone: that candidate, or nothing.  Never an error, never another one. *)
Lemma select_unique x old l identical b :
  filter (name_kind_match x old) l = [b] ->
  select_referral x old l identical =
  if roleref_sieve x b && namespace_sieve x b then Ok (Some b) else Ok None.
Proof.
  intros H. unfold select_referral. rewrite sieve4_eq, H. cbn [filter].
  destruct (roleref_sieve x b); cbn [filter andb]; [|reflexivity].
  destruct (namespace_sieve x b); reflexivity.
Qed.

Lemma select_unique_visible x old l identical b :
  filter (name_kind_match x old) l = [b] ->
  roleref_sieve x b = true -> namespace_sieve x b = true ->
  select_referral x old l identical = Ok (Some b).
Proof. intros H H1 H2. rewrite (select_unique _ _ _ _ _ H), H1, H2. reflexivity. Qed.

(* Several candidates survive the first four sieves, but exactly one lives in a prefix/suffix context
   compatible with the referrer's (the SameEndingSubSlice condition, coarse pass): it is chosen. *)
Lemma select_unique_in_context x old l identical b :
  filter (prefix_suffix_sieve x true) (sieve4 x old l) = [b] ->
  select_referral x old l identical = Ok (Some b).
Proof.
  intros H. unfold select_referral.
  destruct (sieve4 x old l) as [|c [|c' t]] eqn:E.
  - discriminate.
  - cbn [filter] in H. destruct (prefix_suffix_sieve x true c); inv H. reflexivity.
  - rewrite H. reflexivity.
Qed.

(* ... and when the coarse pass leaves several, exactly one of them matches strictly *)
Lemma select_unique_strict x old l identical b c1 c2 t :
  filter (prefix_suffix_sieve x true) (sieve4 x old l) = c1 :: c2 :: t ->
  filter (prefix_suffix_sieve x false) (c1 :: c2 :: t) = [b] ->
  select_referral x old l identical = Ok (Some b).
Proof.
  intros H5 H6. unfold select_referral.
  destruct (sieve4 x old l) as [|c [|c' t']] eqn:E.
  - discriminate.
  - cbn [filter] in H5. destruct (prefix_suffix_sieve x true c); discriminate.
  - rewrite H5, H6. reflexivity.
Qed.

(* no candidate ever had the name: nothing is selected *)
Lemma select_none x old l identical :
  (forall c, In c l -> prev_name_matches old c = false) ->
  select_referral x old l identical = Ok None.
Proof.
  intros H. unfold select_referral, sieve4.
  assert (E: filter (prev_name_matches old) l = []).
  { induction l as [|a t IH]; [reflexivity|]. cbn. rewrite (H a (or_introl eq_refl)).
    apply IH. intros c Hc. apply H. now right. }
  rewrite E. reflexivity.
Qed.

(* ================= the scalar rewrite ================= *)

Lemma set_scalar_plain t s v name :
  is_null (Scalar t s v) = false ->
  set_scalar (Some (Scalar TNone SPlain name)) (Scalar t s v) = Ok (Scalar TNone s name).
Proof. intros H. unfold set_scalar. rewrite H. reflexivity. Qed.

(* setScalar either leaves the scalar alone or writes the current name of the selected candidate *)
Lemma nr_set_scalar_spec x cands t s v n' :
  is_null (Scalar t s v) = false ->
  nr_set_scalar x cands (Scalar t s v) = Ok n' ->
  (n' = Scalar t s v /\
   (select_referral x v cands all_names_same = Ok None \/
    exists c, select_referral x v cands all_names_same = Ok (Some c) /\ c_name c = v)) \/
  (exists c, select_referral x v cands all_names_same = Ok (Some c) /\ c_name c <> v /\
             n' = Scalar TNone s (c_name c)).
Proof.
  intros Hn H. unfold nr_set_scalar in H. cbn [node_value] in H.
  destruct (select_referral x v cands all_names_same) as [[c|]| | |] eqn:E; cbn [bind] in H; try discriminate.
  - destruct (String.eqb (c_name c) v) eqn:En.
    + inv H. apply String.eqb_eq in En. left. split; [reflexivity|]. right. eauto.
    + right. exists c. apply String.eqb_neq in En. repeat split; auto.
      unfold set_string_scalar in H. destruct (String.eqb (c_name c) ""); [discriminate|].
      unfold str_scalar in H. rewrite set_scalar_plain in H by assumption. now inv H.
  - inv H. left. auto.
Qed.

Section RuleLevel.
  Variable cs : string -> string -> bool.
  Variable nonstr : string -> bool.

  (* the paths of a rule: every segment is an ordinary field name *)
  Definition rule_path_plain (fs : fieldspec) : Prop :=
    Forall (fun p => plain_key p = true) (path_splitter (fs_path fs)).

  (* One rule applied to one referrer: a scalar field the rule's path reaches, holding a name that exactly
     one visible candidate ever had (with the kind the rule is about), holds that candidate's CURRENT name
     afterwards. *)
  Lemma refs_follow_rule cands fs tg referrer r' a t s old b :
    rule_path_plain fs ->
    reaches (path_splitter (fs_path fs)) a (r_node referrer) = true ->
    get_addr a (r_node referrer) = Some (Scalar t s old) ->
    is_null (Scalar t s old) = false ->
    let x := make_ctx cs referrer (fs_path fs) tg in
    filter (name_kind_match x old) cands = [b] ->
    roleref_sieve x b = true -> namespace_sieve x b = true ->
    apply_rule cs nonstr cands fs tg referrer = Ok r' ->
    exists t', get_addr a (r_node r') = Some (Scalar t' s (c_name b)).
  Proof.
    intros Hplain Hr Hg Hnn x Hu Hrr Hns H.
    unfold apply_rule in H. fold x in H.
    destruct (fs_filter None TNone (nr_set nonstr x cands) (fs_create fs)
                        (path_splitter (fs_path fs)) (r_node referrer)) as [n'| | |] eqn:HF;
      cbn [bind] in H; try discriminate. inv H. cbn [r_node with_node].
    destruct (fs_filter_at None TNone _ (fs_create fs) _ a Hplain (or_intror eq_refl) _ _ _ Hr Hg HF)
      as (leaf' & Hs & Hg').
    unfold nr_set in Hs. rewrite Hnn in Hs.
    destruct (nr_set_scalar_spec _ _ _ _ _ _ Hnn Hs) as [[-> Hsel]|(c & Hsel & Hne & ->)].
    - rewrite (select_unique_visible _ _ _ _ _ Hu Hrr Hns) in Hsel.
      destruct Hsel as [Hsel|(c & Hsel & Hc)]; [discriminate|]. inv Hsel. eauto.
    - rewrite (select_unique_visible _ _ _ _ _ Hu Hrr Hns) in Hsel. inv Hsel. eauto.
  Qed.

  (* One rule applied to one referrer never retargets: a reached scalar field either keeps its text or
     receives the current name of a candidate that once had exactly that text as its name and was of the
     kind the rule is about. *)
  Lemma no_retarget_rule cands fs tg referrer r' a t s old :
    rule_path_plain fs ->
    reaches (path_splitter (fs_path fs)) a (r_node referrer) = true ->
    get_addr a (r_node referrer) = Some (Scalar t s old) ->
    is_null (Scalar t s old) = false ->
    apply_rule cs nonstr cands fs tg referrer = Ok r' ->
    get_addr a (r_node r') = Some (Scalar t s old) \/
    exists c, In c cands /\ prev_name_matches old c = true /\ prev_id_selected_by tg c = true /\
              get_addr a (r_node r') = Some (Scalar TNone s (c_name c)).
  Proof.
    intros Hplain Hr Hg Hnn H.
    unfold apply_rule in H.
    set (x := make_ctx cs referrer (fs_path fs) tg) in *.
    destruct (fs_filter None TNone (nr_set nonstr x cands) (fs_create fs)
                        (path_splitter (fs_path fs)) (r_node referrer)) as [n'| | |] eqn:HF;
      cbn [bind] in H; try discriminate. inv H. cbn [r_node with_node].
    destruct (fs_filter_at None TNone _ (fs_create fs) _ a Hplain (or_intror eq_refl) _ _ _ Hr Hg HF)
      as (leaf' & Hs & Hg').
    unfold nr_set in Hs. rewrite Hnn in Hs.
    destruct (nr_set_scalar_spec _ _ _ _ _ _ Hnn Hs) as [[-> Hsel]|(c & Hsel & Hne & ->)].
    - left. assumption.
    - right. exists c. apply select_referral_sound in Hsel as (Hin & H1 & H2). auto.
  Qed.

  (* One rule applied to one referrer leaves a reached scalar alone when no candidate ever had that name
     (references to objects outside the build). *)
  Lemma external_untouched_rule cands fs tg referrer r' a t s old :
    rule_path_plain fs ->
    reaches (path_splitter (fs_path fs)) a (r_node referrer) = true ->
    get_addr a (r_node referrer) = Some (Scalar t s old) ->
    (forall c, In c cands -> prev_name_matches old c = false) ->
    apply_rule cs nonstr cands fs tg referrer = Ok r' ->
    get_addr a (r_node r') = Some (Scalar t s old).
  Proof.
    intros Hplain Hr Hg Hno H.
    unfold apply_rule in H.
    set (x := make_ctx cs referrer (fs_path fs) tg) in *.
    destruct (fs_filter None TNone (nr_set nonstr x cands) (fs_create fs)
                        (path_splitter (fs_path fs)) (r_node referrer)) as [n'| | |] eqn:HF;
      cbn [bind] in H; try discriminate. inv H. cbn [r_node with_node].
    destruct (fs_filter_at None TNone _ (fs_create fs) _ a Hplain (or_intror eq_refl) _ _ _ Hr Hg HF)
      as (leaf' & Hs & Hg').
    unfold nr_set in Hs.
    destruct (is_null (Scalar t s old)) eqn:Hnn.
    - inv Hs. assumption.
    - unfold nr_set_scalar in Hs. cbn [node_value] in Hs.
      rewrite (select_none _ _ _ _ Hno) in Hs. cbn [bind] in Hs. inv Hs. assumption.
  Qed.
End RuleLevel.

(* ================= FixBackReferences never changes what a resource is called ================= *)

From KV Require Import Res.RenameProofs.

(* the path of a rule cannot reach the fields a resource is identified by *)
Definition identity_safe (segs : list string) : bool :=
  match segs with
  | [] => false
  | s1 :: rest =>
      if String.eqb s1 "metadata" then
        match rest with
        | [] => false
        | s2 :: _ => negb (String.eqb s2 "name") && negb (String.eqb s2 "namespace")
        end
      else negb (String.eqb s1 "kind") && negb (String.eqb s1 "apiVersion")
  end.

Definition ident (n : node) : string * string * string * string :=
  (get_api_version n, get_kind n, get_name n, get_namespace n).

Lemma set_first_nil_iff name (v : node) kvs : set_first name v kvs = [] <-> kvs = [].
Proof.
  destruct kvs as [|[k x] t]; cbn; [tauto|]. destruct (String.eqb k name); split; discriminate.
Qed.

Lemma ident_of_getters n n' :
  get_name n' = get_name n -> get_namespace n' = get_namespace n -> get_kind n' = get_kind n ->
  get_api_version n' = get_api_version n -> ident n' = ident n.
Proof. unfold ident. intros -> -> -> ->. reflexivity. Qed.

Section IdentitySafe.
  Variable set : node -> res node.
  Notation F := (fs_filter None TNone set).

  (* one level below the root: the metadata mapping *)
  Lemma meta_fields_frame create s2 rest md md' :
    plain_key s2 = true -> s2 <> "name" -> s2 <> "namespace" ->
    F create (s2 :: rest) md = Ok md' ->
    forall kvs kvs',
      find_field "metadata" kvs = Some md -> find_field "metadata" kvs' = Some md' ->
      meta_string "name" (Map kvs') = meta_string "name" (Map kvs) /\
      meta_string "namespace" (Map kvs') = meta_string "namespace" (Map kvs).
  Proof.
    intros Hp H1 H2 HF kvs kvs' Hm Hm'. unfold meta_string, get_meta. rewrite Hm, Hm'.
    destruct md as [t s v|mkvs|es].
    - destruct (is_null (Scalar t s v)) eqn:E.
      + rewrite fs_filter_null in HF by assumption. inv HF. auto.
      + rewrite fs_filter_scalar in HF by assumption. discriminate.
    - destruct (fs_filter_root_frame _ _ _ _ _ _ _ _ Hp HF) as (mkvs' & -> & Hfr).
      assert (Hemp: mkvs' = [] <-> mkvs = []).
      { rewrite fs_filter_map_nocreate in HF by auto.
        destruct (find_field s2 mkvs); [|inv HF; tauto].
        destruct (F create rest n); cbn in HF; try discriminate. inv HF. apply set_first_nil_iff. }
      cbn [nil_or_empty].
      destruct mkvs as [|kv t]; destruct mkvs' as [|kv' t']; auto;
        try (exfalso; destruct Hemp as [A B]; (specialize (A eq_refl) || specialize (B eq_refl)); discriminate).
      rewrite !Hfr by congruence. auto.
    - rewrite fs_filter_seq in HF.
      destruct (mapM (F create (s2 :: rest)) es) as [es'| | |] eqn:Hm2; cbn in HF; try discriminate. inv HF.
      pose proof (mapM_length _ _ _ Hm2) as Hl.
      destruct es, es'; cbn in Hl; try discriminate; auto.
  Qed.

  Lemma fs_filter_identity_safe create path n n' :
    Forall (fun p => plain_key p = true) path -> identity_safe path = true ->
    F create path n = Ok n' -> ident n' = ident n.
  Proof.
    intros Hplain Hsafe HF.
    destruct path as [|s1 rest]; [discriminate|].
    inversion Hplain as [|? ? Hp Hrest]; subst.
    destruct n as [t s v|kvs|es].
    - destruct (is_null (Scalar t s v)) eqn:E.
      + rewrite fs_filter_null in HF by assumption. now inv HF.
      + rewrite fs_filter_scalar in HF by assumption. discriminate.
    - cbn [identity_safe] in Hsafe.
      destruct (String.eqb s1 "metadata") eqn:Em.
      + apply String.eqb_eq in Em; subst s1.
        destruct rest as [|s2 rest']; [discriminate|].
        apply andb_true_iff in Hsafe as [H1 H2]. apply negb_true_iff in H1, H2.
        apply String.eqb_neq in H1, H2.
        inversion Hrest as [|? ? Hp2 _]; subst.
        rewrite fs_filter_map_nocreate in HF by auto.
        destruct (find_field "metadata" kvs) as [md|] eqn:Fm; [|now inv HF].
        destruct (F create (s2 :: rest') md) as [md'| | |] eqn:Fmd; cbn in HF; try discriminate. inv HF.
        assert (Hm': find_field "metadata" (set_first "metadata" md' kvs) = Some md')
          by (eapply find_set_first_same; eauto).
        destruct (meta_fields_frame _ _ _ _ _ Hp2 H1 H2 Fmd kvs _ Fm Hm') as [N1 N2].
        apply ident_of_getters; auto.
        * unfold get_kind, obj_kind, map_field_value. now rewrite find_set_first_other by discriminate.
        * unfold get_api_version, obj_api_version, map_field_value.
          now rewrite find_set_first_other by discriminate.
      + apply String.eqb_neq in Em. apply andb_true_iff in Hsafe as [H1 H2].
        apply negb_true_iff in H1, H2. apply String.eqb_neq in H1, H2.
        destruct (fs_filter_root_frame _ _ _ _ _ _ _ _ Hp HF) as (kvs' & -> & Hfr).
        destruct (getters_ext kvs kvs' (Hfr _ (not_eq_sym Em)) (Hfr _ (not_eq_sym H1)) (Hfr _ (not_eq_sym H2)))
          as (G1 & G2 & G3 & G4).
        apply ident_of_getters; auto.
    - rewrite fs_filter_seq in HF.
      destruct (mapM (F create (s1 :: rest)) es) as [es'| | |]; cbn in HF; try discriminate. now inv HF.
  Qed.
End IdentitySafe.

Definition rule_ok (f : fieldspec) : Prop :=
  rule_path_plain f /\ identity_safe (path_splitter (fs_path f)) = true.

(* what never changes: everything but the document *)
Definition same_bookkeeping (r r' : resource) : Prop :=
  r_pnames r' = r_pnames r /\ r_pnss r' = r_pnss r /\ r_pkinds r' = r_pkinds r /\
  r_prefixes r' = r_prefixes r /\ r_suffixes r' = r_suffixes r /\ r_needs_hash r' = r_needs_hash r.

Definition same_identity (r r' : resource) : Prop :=
  ident (r_node r') = ident (r_node r) /\ same_bookkeeping r r'.

Lemma same_identity_refl r : same_identity r r.
Proof. repeat split. Qed.

Lemma same_identity_trans a b c : same_identity a b -> same_identity b c -> same_identity a c.
Proof.
  intros [I1 (A1 & A2 & A3 & A4 & A5 & A6)] [I2 (B1 & B2 & B3 & B4 & B5 & B6)].
  split; [congruence|]. repeat split; congruence.
Qed.

Section TransformIdentity.
  Variable cs : string -> string -> bool.
  Variable nonstr : string -> bool.

  Lemma apply_rule_identity cands fs tg r r' :
    rule_ok fs -> apply_rule cs nonstr cands fs tg r = Ok r' -> same_identity r r'.
  Proof.
    intros [Hp Hs] H. unfold apply_rule in H.
    match type of H with (do n' <- ?e; _) = _ => destruct e as [n'| | |] eqn:HF end;
      cbn [bind] in H; try discriminate. inv H.
    split; [|repeat split]. cbn [r_node with_node].
    eapply fs_filter_identity_safe; eauto.
  Qed.

  Lemma apply_rules_identity mb ma flags fl r r' :
    Forall (fun p => rule_ok (fst p)) fl ->
    apply_rules cs nonstr mb ma flags fl r = Ok r' -> same_identity r r'.
  Proof.
    revert r. induction fl as [|[fs tg] t IH]; intros r Hok H; cbn [apply_rules] in H.
    - inv H. apply same_identity_refl.
    - inversion Hok as [|? ? H1 H2]; subst. cbn [fst] in H1.
      destruct (mapM (view cs) _) as [cands| | |]; cbn [bind] in H; try discriminate.
      destruct (apply_rule cs nonstr cands fs tg r) as [r1| | |] eqn:E; cbn [bind] in H; try discriminate.
      eapply same_identity_trans; [eapply apply_rule_identity; eauto|eauto].
  Qed.

  Lemma transform_loop_identity filters :
    Forall (Forall (fun p => rule_ok (fst p))) filters ->
    forall done todo out,
      transform_loop cs nonstr filters done todo = Ok out ->
      exists tail, out = (done ++ tail)%list /\ Forall2 same_identity todo tail.
  Proof.
    induction filters as [|fl filters IH]; intros Hok done todo out H.
    - destruct todo; cbn in H; inv H.
      + exists []. split; [now rewrite app_nil_r|constructor].
      + eexists. split; [reflexivity|].
        clear. induction (r :: todo); constructor; auto using same_identity_refl.
    - inversion Hok as [|? ? Hfl Hrest]; subst.
      destruct todo as [|r t]; cbn [transform_loop] in H.
      + inv H. exists []. split; [now rewrite app_nil_r|constructor].
      + destruct fl as [|f0 fl'].
        * destruct (IH Hrest _ _ _ H) as (tail & -> & HF).
          exists (r :: tail). split; [now rewrite <- app_assoc|].
          constructor; [apply same_identity_refl|assumption].
        * destruct (referencable cs _ r) as [flags| | |]; cbn [bind] in H; try discriminate.
          destruct (apply_rules cs nonstr done t flags (f0 :: fl') r) as [r'| | |] eqn:E;
            cbn [bind] in H; try discriminate.
          destruct (IH Hrest _ _ _ H) as (tail & -> & HF).
          exists (r' :: tail). split; [now rewrite <- app_assoc|].
          constructor; [eapply apply_rules_identity; eauto|assumption].
  Qed.

  Lemma filters_for_ok rules org :
    (forall b f, In b rules -> In f (nb_referrers b) -> rule_ok f) ->
    Forall (fun p => rule_ok (fst p)) (filters_for rules org).
  Proof.
    intros Hok. apply Forall_forall. intros [fs tg] Hin. cbn [fst].
    unfold filters_for in Hin. apply in_flat_map in Hin as (b & Hb & Hin).
    apply in_flat_map in Hin as (f & Hf & Hin).
    destruct (gvk_is_selected _ _); [|contradiction].
    destruct Hin as [E|[]]. inv E. eauto.
  Qed.

  (* nameReferenceTransformer.Transform only rewrites documents, and never the fields a resource is
     identified by: same number of resources, in the same order, each with the same apiVersion, kind,
     name, namespace and rename history as before. *)
  Theorem nameref_transform_identity rules m m' :
    (forall b f, In b rules -> In f (nb_referrers b) -> rule_ok f) ->
    nameref_transform cs nonstr rules m = Ok m' -> Forall2 same_identity m m'.
  Proof.
    intros Hok H. unfold nameref_transform in H.
    destruct (mapM (org_id cs) m) as [orgs| | |]; cbn [bind] in H; try discriminate.
    assert (HF: Forall (Forall (fun p => rule_ok (fst p))) (map (filters_for rules) orgs)).
    { apply Forall_forall. intros fl Hin. apply in_map_iff in Hin as (org & <- & _).
      apply filters_for_ok. assumption. }
    destruct (transform_loop_identity _ HF [] m m' H) as (tail & -> & H2). exact H2.
  Qed.
End TransformIdentity.
