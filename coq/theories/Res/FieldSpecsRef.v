(* Reference copy of the default field-spec tables at the pinned commit: "the directives' documented field sets".
   Committed by hand (cp of Gen/FieldSpecs.v with gen_ -> ref_); the obligation Gen_fieldspecs_eq_ref compares the
   tables regenerated from /repo on every run with this copy. *)
From KV Require Import Yaml.FieldSpecTypes.
Open Scope string_scope.

Definition ref_name_prefix_fs : list fieldspec := [
  mkFs "" "" "" "metadata/name" false
].

Definition ref_name_suffix_fs : list fieldspec := [
  mkFs "" "" "" "metadata/name" false
].

Definition ref_common_labels_fs : list fieldspec := [
  mkFs "" "v1" "Service" "spec/selector" true;
  mkFs "" "v1" "ReplicationController" "spec/selector" true;
  mkFs "" "" "Deployment" "spec/selector/matchLabels" true;
  mkFs "apps" "" "Deployment" "spec/template/spec/affinity/podAffinity/preferredDuringSchedulingIgnoredDuringExecution/podAffinityTerm/labelSelector/matchLabels" false;
  mkFs "apps" "" "Deployment" "spec/template/spec/affinity/podAffinity/requiredDuringSchedulingIgnoredDuringExecution/labelSelector/matchLabels" false;
  mkFs "apps" "" "Deployment" "spec/template/spec/affinity/podAntiAffinity/preferredDuringSchedulingIgnoredDuringExecution/podAffinityTerm/labelSelector/matchLabels" false;
  mkFs "apps" "" "Deployment" "spec/template/spec/affinity/podAntiAffinity/requiredDuringSchedulingIgnoredDuringExecution/labelSelector/matchLabels" false;
  mkFs "apps" "" "Deployment" "spec/template/spec/topologySpreadConstraints/labelSelector/matchLabels" false;
  mkFs "" "" "ReplicaSet" "spec/selector/matchLabels" true;
  mkFs "" "" "DaemonSet" "spec/selector/matchLabels" true;
  mkFs "apps" "" "StatefulSet" "spec/selector/matchLabels" true;
  mkFs "apps" "" "StatefulSet" "spec/template/spec/affinity/podAffinity/preferredDuringSchedulingIgnoredDuringExecution/podAffinityTerm/labelSelector/matchLabels" false;
  mkFs "apps" "" "StatefulSet" "spec/template/spec/affinity/podAffinity/requiredDuringSchedulingIgnoredDuringExecution/labelSelector/matchLabels" false;
  mkFs "apps" "" "StatefulSet" "spec/template/spec/affinity/podAntiAffinity/preferredDuringSchedulingIgnoredDuringExecution/podAffinityTerm/labelSelector/matchLabels" false;
  mkFs "apps" "" "StatefulSet" "spec/template/spec/affinity/podAntiAffinity/requiredDuringSchedulingIgnoredDuringExecution/labelSelector/matchLabels" false;
  mkFs "apps" "" "StatefulSet" "spec/template/spec/topologySpreadConstraints/labelSelector/matchLabels" false;
  mkFs "batch" "" "Job" "spec/selector/matchLabels" false;
  mkFs "batch" "" "CronJob" "spec/jobTemplate/spec/selector/matchLabels" false;
  mkFs "policy" "" "PodDisruptionBudget" "spec/selector/matchLabels" false;
  mkFs "networking.k8s.io" "" "NetworkPolicy" "spec/podSelector/matchLabels" false;
  mkFs "networking.k8s.io" "" "NetworkPolicy" "spec/ingress/from/podSelector/matchLabels" false;
  mkFs "networking.k8s.io" "" "NetworkPolicy" "spec/egress/to/podSelector/matchLabels" false;
  mkFs "" "" "" "metadata/labels" true;
  mkFs "" "v1" "ReplicationController" "spec/template/metadata/labels" true;
  mkFs "" "" "Deployment" "spec/template/metadata/labels" true;
  mkFs "" "" "ReplicaSet" "spec/template/metadata/labels" true;
  mkFs "" "" "DaemonSet" "spec/template/metadata/labels" true;
  mkFs "apps" "" "StatefulSet" "spec/template/metadata/labels" true;
  mkFs "apps" "" "StatefulSet" "spec/volumeClaimTemplates[]/metadata/labels" true;
  mkFs "batch" "" "Job" "spec/template/metadata/labels" true;
  mkFs "batch" "" "CronJob" "spec/jobTemplate/metadata/labels" true;
  mkFs "batch" "" "CronJob" "spec/jobTemplate/spec/template/metadata/labels" true
].

Definition ref_template_labels_fs : list fieldspec := [
  mkFs "" "" "" "metadata/labels" true;
  mkFs "" "v1" "ReplicationController" "spec/template/metadata/labels" true;
  mkFs "" "" "Deployment" "spec/template/metadata/labels" true;
  mkFs "" "" "ReplicaSet" "spec/template/metadata/labels" true;
  mkFs "" "" "DaemonSet" "spec/template/metadata/labels" true;
  mkFs "apps" "" "StatefulSet" "spec/template/metadata/labels" true;
  mkFs "apps" "" "StatefulSet" "spec/volumeClaimTemplates[]/metadata/labels" true;
  mkFs "batch" "" "Job" "spec/template/metadata/labels" true;
  mkFs "batch" "" "CronJob" "spec/jobTemplate/metadata/labels" true;
  mkFs "batch" "" "CronJob" "spec/jobTemplate/spec/template/metadata/labels" true
].

Definition ref_common_annotations_fs : list fieldspec := [
  mkFs "" "" "" "metadata/annotations" true;
  mkFs "" "v1" "ReplicationController" "spec/template/metadata/annotations" true;
  mkFs "" "" "Deployment" "spec/template/metadata/annotations" true;
  mkFs "" "" "ReplicaSet" "spec/template/metadata/annotations" true;
  mkFs "" "" "DaemonSet" "spec/template/metadata/annotations" true;
  mkFs "" "" "StatefulSet" "spec/template/metadata/annotations" true;
  mkFs "batch" "" "Job" "spec/template/metadata/annotations" true;
  mkFs "batch" "" "CronJob" "spec/jobTemplate/metadata/annotations" true;
  mkFs "batch" "" "CronJob" "spec/jobTemplate/spec/template/metadata/annotations" true
].

Definition ref_namespace_fs : list fieldspec := [
  mkFs "" "" "Namespace" "metadata/name" true;
  mkFs "apiregistration.k8s.io" "" "APIService" "spec/service/namespace" true;
  mkFs "apiextensions.k8s.io" "" "CustomResourceDefinition" "spec/conversion/webhook/clientConfig/service/namespace" false
].

Definition ref_images_fs : list fieldspec := [
  mkFs "" "" "" "spec/containers[]/image" true;
  mkFs "" "" "" "spec/initContainers[]/image" true;
  mkFs "" "" "" "spec/template/spec/containers[]/image" true;
  mkFs "" "" "" "spec/template/spec/initContainers[]/image" true
].

Definition ref_replicas_fs : list fieldspec := [
  mkFs "" "" "Deployment" "spec/replicas" true;
  mkFs "" "" "ReplicationController" "spec/replicas" true;
  mkFs "" "" "ReplicaSet" "spec/replicas" true;
  mkFs "" "" "StatefulSet" "spec/replicas" true
].

Definition ref_var_reference_fs : list fieldspec := [
  mkFs "" "" "CronJob" "spec/jobTemplate/spec/template/spec/containers/args" false;
  mkFs "" "" "CronJob" "spec/jobTemplate/spec/template/spec/containers/command" false;
  mkFs "" "" "CronJob" "spec/jobTemplate/spec/template/spec/containers/env/value" false;
  mkFs "" "" "CronJob" "spec/jobTemplate/spec/template/spec/containers/volumeMounts/mountPath" false;
  mkFs "" "" "CronJob" "spec/jobTemplate/spec/template/spec/initContainers/args" false;
  mkFs "" "" "CronJob" "spec/jobTemplate/spec/template/spec/initContainers/command" false;
  mkFs "" "" "CronJob" "spec/jobTemplate/spec/template/spec/initContainers/env/value" false;
  mkFs "" "" "CronJob" "spec/jobTemplate/spec/template/spec/initContainers/volumeMounts/mountPath" false;
  mkFs "" "" "CronJob" "spec/jobTemplate/spec/template/volumes/nfs/server" false;
  mkFs "" "" "DaemonSet" "spec/template/spec/containers/args" false;
  mkFs "" "" "DaemonSet" "spec/template/spec/containers/command" false;
  mkFs "" "" "DaemonSet" "spec/template/spec/containers/env/value" false;
  mkFs "" "" "DaemonSet" "spec/template/spec/containers/volumeMounts/mountPath" false;
  mkFs "" "" "DaemonSet" "spec/template/spec/initContainers/args" false;
  mkFs "" "" "DaemonSet" "spec/template/spec/initContainers/command" false;
  mkFs "" "" "DaemonSet" "spec/template/spec/initContainers/env/value" false;
  mkFs "" "" "DaemonSet" "spec/template/spec/initContainers/volumeMounts/mountPath" false;
  mkFs "" "" "DaemonSet" "spec/template/spec/volumes/nfs/server" false;
  mkFs "" "" "Deployment" "spec/template/spec/containers/args" false;
  mkFs "" "" "Deployment" "spec/template/spec/containers/command" false;
  mkFs "" "" "Deployment" "spec/template/spec/containers/env/value" false;
  mkFs "" "" "Deployment" "spec/template/spec/containers/volumeMounts/mountPath" false;
  mkFs "" "" "Deployment" "spec/template/spec/initContainers/args" false;
  mkFs "" "" "Deployment" "spec/template/spec/initContainers/command" false;
  mkFs "" "" "Deployment" "spec/template/spec/initContainers/env/value" false;
  mkFs "" "" "Deployment" "spec/template/spec/initContainers/volumeMounts/mountPath" false;
  mkFs "" "" "Deployment" "spec/template/spec/volumes/nfs/server" false;
  mkFs "" "" "Deployment" "spec/template/metadata/annotations" false;
  mkFs "" "" "Ingress" "spec/rules/host" false;
  mkFs "" "" "Ingress" "spec/tls/hosts" false;
  mkFs "" "" "Ingress" "spec/tls/secretName" false;
  mkFs "" "" "Job" "spec/template/spec/containers/args" false;
  mkFs "" "" "Job" "spec/template/spec/containers/command" false;
  mkFs "" "" "Job" "spec/template/spec/containers/env/value" false;
  mkFs "" "" "Job" "spec/template/spec/containers/volumeMounts/mountPath" false;
  mkFs "" "" "Job" "spec/template/spec/initContainers/args" false;
  mkFs "" "" "Job" "spec/template/spec/initContainers/command" false;
  mkFs "" "" "Job" "spec/template/spec/initContainers/env/value" false;
  mkFs "" "" "Job" "spec/template/spec/initContainers/volumeMounts/mountPath" false;
  mkFs "" "" "Job" "spec/template/spec/volumes/nfs/server" false;
  mkFs "" "" "Pod" "spec/containers/args" false;
  mkFs "" "" "Pod" "spec/containers/command" false;
  mkFs "" "" "Pod" "spec/containers/env/value" false;
  mkFs "" "" "Pod" "spec/containers/volumeMounts/mountPath" false;
  mkFs "" "" "Pod" "spec/initContainers/args" false;
  mkFs "" "" "Pod" "spec/initContainers/command" false;
  mkFs "" "" "Pod" "spec/initContainers/env/value" false;
  mkFs "" "" "Pod" "spec/initContainers/volumeMounts/mountPath" false;
  mkFs "" "" "Pod" "spec/volumes/nfs/server" false;
  mkFs "" "" "ReplicaSet" "spec/template/spec/containers/args" false;
  mkFs "" "" "ReplicaSet" "spec/template/spec/containers/command" false;
  mkFs "" "" "ReplicaSet" "spec/template/spec/containers/env/value" false;
  mkFs "" "" "ReplicaSet" "spec/template/spec/containers/volumeMounts/mountPath" false;
  mkFs "" "" "ReplicaSet" "spec/template/spec/initContainers/args" false;
  mkFs "" "" "ReplicaSet" "spec/template/spec/initContainers/command" false;
  mkFs "" "" "ReplicaSet" "spec/template/spec/initContainers/env/value" false;
  mkFs "" "" "ReplicaSet" "spec/template/spec/initContainers/volumeMounts/mountPath" false;
  mkFs "" "" "ReplicaSet" "spec/template/spec/volumes/nfs/server" false;
  mkFs "" "" "Service" "spec/ports/port" false;
  mkFs "" "" "Service" "spec/ports/targetPort" false;
  mkFs "" "" "StatefulSet" "spec/template/spec/containers/args" false;
  mkFs "" "" "StatefulSet" "spec/template/spec/containers/command" false;
  mkFs "" "" "StatefulSet" "spec/template/spec/containers/env/value" false;
  mkFs "" "" "StatefulSet" "spec/template/spec/containers/volumeMounts/mountPath" false;
  mkFs "" "" "StatefulSet" "spec/template/spec/initContainers/args" false;
  mkFs "" "" "StatefulSet" "spec/template/spec/initContainers/command" false;
  mkFs "" "" "StatefulSet" "spec/template/spec/initContainers/env/value" false;
  mkFs "" "" "StatefulSet" "spec/template/spec/initContainers/volumeMounts/mountPath" false;
  mkFs "" "" "StatefulSet" "spec/volumeClaimTemplates/spec/nfs/server" false;
  mkFs "" "" "PersistentVolume" "spec/nfs/server" false;
  mkFs "" "" "" "metadata/labels" false;
  mkFs "" "" "" "metadata/annotations" false
].

