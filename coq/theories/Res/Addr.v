(* Concrete addresses inside a document: a field of a mapping, an element of a sequence. Definitions only. *)
From KV Require Export Yaml.Node.

Inductive astep := AKey (k : string) | AIdx (i : nat).

Fixpoint get_addr (a : list astep) (n : node) : option node :=
  match a with
  | [] => Some n
  | AKey k :: a' =>
      match n with
      | Map kvs => match find_field k kvs with Some x => get_addr a' x | None => None end
      | _ => None
      end
  | AIdx i :: a' =>
      match n with
      | Seq es => match nth_error es i with Some e => get_addr a' e | None => None end
      | _ => None
      end
  end.

