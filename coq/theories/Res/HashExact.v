(* C06 — the exact extent of the findings that remain in the hasher: which contents cannot be hashed, which contents share an encoding. *)
From KV Require Import Res.Hash Res.HashProofs.
Local Open Scope string_scope.

(* ---------- the exact extent of the remaining findings ---------- *)

(* hash-yaml-roundtrip-merge-key: the hash is undefined EXACTLY on the contents that have an entry keyed << *)
Definition has_merge_key (c : content) : Prop :=
  (exists v, In ("<<", v) (match ct_data c with Some m => m | None => [] end)) \/
  (ct_secret c = false /\ exists v, In ("<<", v) (ct_bin c)).

Lemma entries_rt_fail_iff : forall m, entries_rt_fail m = true <-> exists v, In ("<<", v) m.
Proof.
  intro m. unfold entries_rt_fail. rewrite existsb_exists. split.
  - intros [[k v] [Hin Hk]]. unfold yaml_merge_key in Hk. cbn [fst] in Hk. apply String.eqb_eq in Hk. subst. eauto.
  - intros [v Hin]. exists ("<<", v). split; [exact Hin|reflexivity].
Qed.

Theorem hash_defined_iff : forall c, (exists s, hash_content c = Ok s) <-> ~ has_merge_key c.
Proof.
  intro c. split.
  - intros [s Hs] Hm. unfold hash_content in Hs.
    assert (E : content_rt_fails c = true).
    { unfold content_rt_fails. destruct Hm as [[v Hv]|[Hsec [v Hv]]].
      - destruct (ct_data c) as [m|]; [|destruct Hv]. apply orb_true_iff. left. apply entries_rt_fail_iff. eauto.
      - apply orb_true_iff. right. rewrite Hsec. apply entries_rt_fail_iff. eauto. }
    rewrite E in Hs. discriminate.
  - intro Hm. apply hash_content_total. destruct (content_rt_fails c) eqn:E; [|reflexivity]. exfalso. apply Hm.
    unfold content_rt_fails in E. apply orb_true_iff in E as [E|E].
    + left. destruct (ct_data c) as [m|]; [|discriminate]. apply entries_rt_fail_iff. exact E.
    + right. destruct (ct_secret c); [discriminate|]. split; [reflexivity|]. apply entries_rt_fail_iff. exact E.
Qed.

Example hash_defined_iff_examples :
  has_merge_key (mkContent false (Some [("<<", "v")]) [] "") /\
  ~ has_merge_key (mkContent false (Some [("k", sb [9; 120; 10; 121]%N)]) [("b", "//4=")] "").
Proof.
  split; [left; exists "v"; left; reflexivity|].
  intros [[v [H|[]]]|[_ [v [H|[]]]]]; discriminate H.
Qed.

(* hash-ignores-null-named-keys: two (UTF-8) contents get the same encoding EXACTLY when they agree on everything but
   the entries whose key is spelled ~, null, Null, NULL (or is empty) *)
Lemma yaml_null_key_spellings : forall k,
  yaml_null_key k = true <-> (k = "~" \/ k = "null" \/ k = "Null" \/ k = "NULL" \/ k = "").
Proof.
  intro k. unfold yaml_null_key. rewrite !orb_true_iff, !String.eqb_eq. tauto.
Qed.

(* what the encoding reads of a content *)
Definition content_view (c : content) :=
  (ct_secret c,
   option_map hash_view (ct_data c),
   (if ct_secret c then None else match ct_bin c with [] => None | b => Some (hash_view b) end),
   (if ct_secret c then ct_type c else "")).

Theorem encode_eq_iff_view : forall c c',
  content_utf8 c = true -> content_utf8 c' = true ->
  (encode_content c = encode_content c' <-> content_view c = content_view c').
Proof.
  intros c c' Hu Hu'. split.
  - intro H. unfold encode_content, content_view in *.
    destruct (ct_secret c) eqn:Es, (ct_secret c') eqn:Es'.
    + apply encode_secret_inj in H as [E1 E2]; try assumption. unfold view_opt in E1. rewrite E1, E2. reflexivity.
    + exfalso. symmetry in H. eapply encode_kind_differs; [| |exact H]; assumption.
    + exfalso. eapply encode_kind_differs; [| |exact H]; assumption.
    + apply encode_cm_inj in H; try assumption. unfold cm_view, view_opt in H. apply pair_equal_spec in H as [E1 E2].
      rewrite E1, E2. reflexivity.
  - intro H. unfold content_view in H. unfold encode_content.
    destruct (ct_secret c) eqn:Es, (ct_secret c') eqn:Es'; try (apply pair_equal_spec in H as [H _]; apply pair_equal_spec in H as [H _]; apply pair_equal_spec in H as [H _]; discriminate H).
    + apply pair_equal_spec in H as [H E2]. apply pair_equal_spec in H as [H _]. apply pair_equal_spec in H as [_ E1]. unfold encode_secret, enc_data.
      destruct (ct_data c), (ct_data c'); cbn [option_map] in E1; try discriminate E1; [assert (E1' : hash_view l = hash_view l0) by congruence; rewrite E1'|]; rewrite E2; reflexivity.
    + apply pair_equal_spec in H as [H _]. apply pair_equal_spec in H as [H E2]. apply pair_equal_spec in H as [_ E1]. unfold encode_cm, enc_data.
      assert (B : match ct_bin c with [] => "" | b => """binaryData"":" ++ json_obj (hash_view b) ++ "," end =
                  match ct_bin c' with [] => "" | b => """binaryData"":" ++ json_obj (hash_view b) ++ "," end).
      { destruct (ct_bin c) as [|p b], (ct_bin c') as [|p' b']; try discriminate E2; [reflexivity|].
        assert (E3 : hash_view (p :: b) = hash_view (p' :: b')) by congruence. rewrite E3. reflexivity. }
      rewrite B. destruct (ct_data c), (ct_data c'); cbn [option_map] in E1; try discriminate E1; [assert (E1' : hash_view l = hash_view l0) by congruence; rewrite E1'|]; reflexivity.
Qed.

(* non-vacuity: the two directions on concrete contents *)
Example encode_eq_iff_view_examples :
  content_view (mkContent false (Some [("k", "v"); ("null", "a")]) [] "") =
  content_view (mkContent false (Some [("k", "v"); ("null", "b")]) [] "") /\
  content_view (mkContent false (Some [("k", "v")]) [] "") <> content_view (mkContent false (Some [("k", "w")]) [] "").
Proof. split; [reflexivity|]. vm_compute. discriminate. Qed.
