(* Model of api/filters/replacement/replacement.go (Filter, getReplacement, selectSourceNode,
   getRefinedValue, applyReplacement, selectByAnnoAndLabel, containsRejectId, copyValueToTarget,
   setFieldValue) over the PathMatcher model of Yaml/Match.v and the PathGetter model of Yaml/Fns.v. *)
From KV Require Export Res.Selector Yaml.Match.

(* types.FieldOptions *)
Record field_options := mkFO {
  fo_delimiter : string;
  fo_index : Z;
  fo_create : bool
}.

(* types.SourceSelector *)
Record source_selector := mkSS {
  ss_id : resid;
  ss_field_path : string;
  ss_options : option field_options
}.

(* types.TargetSelector (nil entries of Reject are outside the model: C12) *)
Record target_selector := mkTS {
  ts_select : option selector;
  ts_reject : list selector;
  ts_field_paths : list string;
  ts_options : option field_options
}.

(* types.Replacement *)
Record replacement := mkRepl {
  rp_source : option source_selector;
  rp_targets : option (list target_selector);     (* None = nil slice *)
  rp_source_value : option string
}.

(* ---------- strings.Split / strings.Join with an arbitrary non-empty separator ---------- *)
Fixpoint split_str_aux (sep : string) (skip : nat) (cur : string) (s : string) : list string :=
  match s with
  | EmptyString => [str_rev cur]
  | String c s' =>
      match skip with
      | S k => split_str_aux sep k cur s'
      | O =>
          if has_prefix sep s
          then str_rev cur :: split_str_aux sep (String.length sep - 1) EmptyString s'
          else split_str_aux sep O (String c cur) s'
      end
  end.
(* sep must be non-empty (the callers test Delimiter != "") *)
Definition split_str (sep s : string) : list string := split_str_aux sep O EmptyString s.

Definition kind_of (n : node) : kind :=
  match n with Scalar _ _ _ => KScalar | Map _ => KMap | Seq _ => KSeq end.

(* yaml.GetValue *)
Definition get_value (n : node) : string := if is_null n then "" else node_value n.

Definition set_text (v : string) (n : node) : node :=
  match n with Scalar t s _ => Scalar t s v | _ => n end.

(* getRefinedValue *)
Definition refined_value (opts : option field_options) (rn : node) : res node :=
  match opts with
  | None => Ok rn
  | Some o =>
      if String.eqb (fo_delimiter o) "" then Ok rn
      else if negb (is_scalar rn) then Err
      else
        let parts := split_str (fo_delimiter o) (get_value rn) in
        if (fo_index o <? 0)%Z || (Z.of_nat (List.length parts) <=? fo_index o)%Z then Err
        else match nth_error parts (Z.to_nat (fo_index o)) with
             | Some p => Ok (set_text p rn)
             | None => Err
             end
  end.

(* the new text of a target field under the delimiter/index options *)
Definition splice (o : field_options) (target_text v : string) : string :=
  let tv := split_str (fo_delimiter o) target_text in
  let tv' :=
    if (fo_index o <? 0)%Z then v :: tv
    else if (Z.of_nat (List.length tv) <=? fo_index o)%Z then (tv ++ [v])%list
    else replace_nth (Z.to_nat (fo_index o)) v tv in
  join_with (fo_delimiter o) tv'.

(* setFieldValue: with a delimiter the target must be a scalar and gets the spliced text;
   without one a scalar target gets the Value text of the source node (the empty text for a
   mapping or sequence source) and keeps its own tag and style, any other target is overwritten
   by a copy of the source node. *)
Definition set_field_value (opts : option field_options) (value : node) (target : node) : res node :=
  let delim := match opts with
               | Some o => if String.eqb (fo_delimiter o) "" then None else Some o
               | None => None
               end in
  match target, delim with
  | Scalar t s tv, Some o => Ok (Scalar t s (splice o tv (get_value value)))
  | Scalar t s _, None => Ok (Scalar t s (node_value value))
  | _, Some _ => Err
  | _, None => Ok value
  end.

Section Repl.
  Variable parse : string -> option re.
  Variable enc : node -> string.
  Variable nonstr : string -> bool.
  Variable lsel : string -> list (string * string) -> option bool.
  Variable fuel : nat.

  (* selectSourceNode: index of the unique node one of whose ids is selected *)
  Fixpoint select_source (sel : resid) (rs : list node) (found : option node) : res node :=
    match rs with
    | [] => match found with Some n => Ok n | None => Err end
    | n :: t =>
        do ids <- make_res_ids n;
        if existsb (fun id => id_selected_by id sel) ids then
          match found with
          | Some _ => Err
          | None => select_source sel t (Some n)
          end
        else select_source sel t found
    end.

  (* getReplacement *)
  Definition get_replacement (rs : list node) (r : replacement) : res node :=
    match rp_source_value r, rp_source r with
    | Some _, Some _ => Err
    | Some v, None => Ok (Scalar TNone SPlain v)
    | None, None => Err
    | None, Some src =>
        do source <- select_source (ss_id src) rs None;
        let fp := if String.eqb (ss_field_path src) "" then gen_default_replacement_field_path
                  else ss_field_path src in
        do rn <- lookup (parse_path (smarter_path_splitter "."%char fp)) source;
        match rn with
        | None => Err
        | Some x => if nil_or_empty x then Err else refined_value (ss_options src) x
        end
    end.

  (* matchesAnnoAndLabelSelector: both selectors are evaluated, annotation first *)
  Definition matches_anno_label (n : node) (s : selector) : res bool :=
    match lsel (sel_ann s) (meta_map "annotations" n) with
    | None => Err
    | Some a =>
        match lsel (sel_lab s) (meta_map "labels" n) with
        | None => Err
        | Some l => Ok (a && l)
        end
    end.

  Fixpoint rejected_by_labels (n : node) (rej : list selector) : res bool :=
    match rej with
    | [] => Ok false
    | r :: t =>
        if String.eqb (sel_ann r) "" && String.eqb (sel_lab r) "" then rejected_by_labels n t
        else do m <- matches_anno_label n r; if m then Ok true else rejected_by_labels n t
    end.

  (* selectByAnnoAndLabel *)
  Definition select_by_anno_label (n : node) (sel : selector) (rej : list selector) : res bool :=
    do m <- matches_anno_label n sel;
    if negb m then Ok false
    else do r <- rejected_by_labels n rej; Ok (negb r).

  (* containsRejectId *)
  Definition contains_reject_id (rej : list selector) (ids : list resid) : bool :=
    existsb (fun r => negb (id_is_empty (sel_id r)) &&
                      existsb (fun id => id_selected_by id (sel_id r)) ids) rej.

  (* the ids test of applyReplacement: some id is selected, and no id is rejected *)
  Definition target_selected (sel : selector) (rej : list selector) (ids : list resid) : bool :=
    existsb (fun id => id_selected_by id (sel_id sel)) ids && negb (contains_reject_id rej ids).

  (* write the value through every hit of one PathMatcher run *)
  Fixpoint write_hits (opts : option field_options) (value : node) (hits : list hit) (target : node) : res node :=
    match hits with
    | [] => Ok target
    | HAt a :: t =>
        do target' <- update_at (set_field_value opts value) a target;
        write_hits opts value t target'
    | HDetached x :: t =>
        do _ <- set_field_value opts value x;     (* may fail; never visible *)
        write_hits opts value t target
    end.

  (* the field paths of a target selector (empty list = the default path) *)
  Definition target_field_paths (ts : target_selector) : list string :=
    match ts_field_paths ts with [] => [gen_default_replacement_field_path] | l => l end.

  Definition create_kind (opts : option field_options) (value : node) : option kind :=
    match opts with
    | Some o => if fo_create o then Some (kind_of value) else None
    | None => None
    end.

  (* copyValueToTarget *)
  Fixpoint copy_value_to_target (opts : option field_options) (value : node) (fps : list string) (target : node)
    : res node :=
    match fps with
    | [] => Ok target
    | fp :: t =>
        do r <- pm parse enc nonstr (create_kind opts value) fuel (smarter_path_splitter "."%char fp) target;
        match snd r with
        | [] => Err
        | hits =>
            do target' <- write_hits opts value hits (fst r);
            copy_value_to_target opts value t target'
        end
    end.

  (* one target selector over one node *)
  Definition apply_target_to_node (value : node) (ts : target_selector) (sel : selector) (n : node) : res node :=
    do ids <- make_res_ids n;
    do ok <- select_by_anno_label n sel (ts_reject ts);
    if negb ok then Ok n
    else if target_selected sel (ts_reject ts) ids
         then copy_value_to_target (ts_options ts) value (target_field_paths ts) n
         else Ok n.

  (* applyReplacement *)
  Fixpoint apply_replacement (value : node) (tss : list target_selector) (rs : list node) : res (list node) :=
    match tss with
    | [] => Ok rs
    | ts :: t =>
        match ts_select ts with
        | None => Err
        | Some sel =>
            do rs' <- mapM (apply_target_to_node value ts sel) rs;
            apply_replacement value t rs'
        end
    end.

  (* Filter.Filter *)
  Fixpoint replacement_filter (rps : list replacement) (rs : list node) : res (list node) :=
    match rps with
    | [] => Ok rs
    | r :: t =>
        match rp_targets r with
        | None => Err
        | Some tss =>
            match rp_source_value r, rp_source r with
            | None, None => Err
            | _, _ =>
                do value <- get_replacement rs r;
                do rs' <- apply_replacement value tss rs;
                replacement_filter t rs'
            end
        end
    end.
End Repl.
