(* Model of api/filters/replacement/replacement.go (Filter, getReplacement, selectSourceNode,
   getRefinedValue, applyReplacement, selectByAnnoAndLabel, containsRejectId, copyValueToTarget,
   setFieldValue) over the PathMatcher model of Yaml/Match.v and the PathGetter model of Yaml/Fns.v. *)
From KV Require Export Res.Selector Yaml.Match.

(* types.FieldOptions *)
Record field_options := mkFO {
  fo_delimiter : string;
  fo_index : Z;
  fo_create : bool
}.

(* types.SourceSelector *)
Record source_selector := mkSS {
  ss_id : resid;
  ss_field_path : string;
  ss_options : option field_options
}.

(* types.TargetSelector (nil entries of Reject are outside the model: C12) *)
Record target_selector := mkTS {
  ts_select : option selector;
  ts_reject : list selector;
  ts_field_paths : list string;
  ts_options : option field_options
}.

(* types.Replacement *)
Record replacement := mkRepl {
  rp_source : option source_selector;
  rp_targets : option (list target_selector);     (* None = nil slice *)
  rp_source_value : option string
}.

(* ---------- strings.Split / strings.Join with an arbitrary non-empty separator ---------- *)
Fixpoint split_str_aux (sep : string) (skip : nat) (cur : string) (s : string) : list string :=
  match s with
  | EmptyString => [str_rev cur]
  | String c s' =>
      match skip with
      | S k => split_str_aux sep k cur s'
      | O =>
          if has_prefix sep s
          then str_rev cur :: split_str_aux sep (String.length sep - 1) EmptyString s'
          else split_str_aux sep O (String c cur) s'
      end
  end.
(* sep must be non-empty (the callers test Delimiter != "") *)
Definition split_str (sep s : string) : list string := split_str_aux sep O EmptyString s.

Definition kind_of (n : node) : kind :=
  match n with Scalar _ _ _ => KScalar | Map _ => KMap | Seq _ => KSeq end.

(* yaml.GetValue *)
Definition get_value (n : node) : string := if is_null n then "" else node_value n.

Definition set_text (v : string) (n : node) : node :=
  match n with Scalar t s _ => Scalar t s v | _ => n end.

(* getRefinedValue *)
Definition refined_value (opts : option field_options) (rn : node) : res node :=
  match opts with
  | None => Ok rn
  | Some o =>
      if String.eqb (fo_delimiter o) "" then Ok rn
      else if negb (is_scalar rn) then Err
      else
        let parts := split_str (fo_delimiter o) (get_value rn) in
        if (fo_index o <? 0)%Z || (Z.of_nat (List.length parts) <=? fo_index o)%Z then Err
        else match nth_error parts (Z.to_nat (fo_index o)) with
             | Some p => Ok (set_text p rn)
             | None => Err
             end
  end.

(* the new text of a target field under the delimiter/index options *)
Definition splice (o : field_options) (target_text v : string) : string :=
  let tv := split_str (fo_delimiter o) target_text in
  let tv' :=
    if (fo_index o <? 0)%Z then v :: tv
    else if (Z.of_nat (List.length tv) <=? fo_index o)%Z then (tv ++ [v])%list
    else replace_nth (Z.to_nat (fo_index o)) v tv in
  join_with (fo_delimiter o) tv'.

(* setFieldValue: with a delimiter the target must be a scalar and gets the spliced text;
   without one a scalar target gets the Value text of the source node (the empty text for a
   mapping or sequence source) and keeps its own tag and style, any other target is overwritten
   by a copy of the source node. *)
(* Since the repair of the kept tag ([gen_replacement_retags_undecodable]): after the text is copied the target
   is probed with Node.Decode; a text that cannot be decoded under the tag the target kept (`x` over a
   null or an int) makes the node a string.  [decodes t text] is go-yaml's verdict (an oracle, like [enc]). *)
Definition retag (decodes : tag -> string -> bool) (t : tag) (text : string) : tag :=
  if gen_replacement_retags_undecodable && negb (decodes t text) then TStr else t.

Definition set_field_value (decodes : tag -> string -> bool)
           (opts : option field_options) (value : node) (target : node) : res node :=
  let delim := match opts with
               | Some o => if String.eqb (fo_delimiter o) "" then None else Some o
               | None => None
               end in
  match target, delim with
  | Scalar t s tv, Some o =>
      let x := splice o tv (get_value value) in Ok (Scalar (retag decodes t x) s x)
  | Scalar t s _, None => Ok (Scalar (retag decodes t (node_value value)) s (node_value value))
  | _, Some _ => Err
  | _, None => Ok value
  end.

(* ---------- an address-returning PathGetter (yaml.Lookup): where the node it returns lives ---------- *)
Fixpoint lookup_addr (ps : list part) (n : node) {struct ps} : res (option addr) :=
  match ps with
  | [] => Ok (Some [])
  | p :: ps' =>
      match p with
      | PKey name =>
          match n with
          | Map kvs =>
              match find_field name kvs with
              | Some x => do r <- lookup_addr ps' x; Ok (option_map (cons (index_of_key name kvs)) r)
              | None => Ok None
              end
          | _ => if is_null n then Ok None else Err
          end
      | PIdx i =>
          match n with
          | Seq es =>
              match nth_error es i with
              | Some e => do r <- lookup_addr ps' e; Ok (option_map (cons i) r)
              | None => Ok None
              end
          | _ => if is_null n then Ok None else Err
          end
      | PLast =>
          match n with
          | Seq es =>
              match es with
              | [] => Ok None                 (* no elements: no match (repo fix 5cf7cc6; was elems[-1], a panic) *)
              | _ =>
                  let i := List.length es - 1 in
                  match nth_error es i with
                  | Some e => do r <- lookup_addr ps' e; Ok (option_map (cons i) r)
                  | None => Ok None           (* unreachable *)
                  end
              end
          | _ => if is_null n then Ok None else Err
          end
      | PSel nm v =>
          match n with
          | Seq es =>
              match find_index (sel_match nm v) es with
              | Some i =>
                  match nth_error es i with
                  | Some e => do r <- lookup_addr ps' e; Ok (option_map (cons i) r)
                  | None => Err
                  end
              | None => Ok None
              end
          | _ => if is_null n then Ok None else Err
          end
      | PBadSel | PNeg | PWild => Err
      end
  end.

(* is [a] a proper prefix of [b] *)
Fixpoint proper_prefix (a b : addr) : bool :=
  match a, b with
  | [], _ :: _ => true
  | i :: a', j :: b' => Nat.eqb i j && proper_prefix a' b'
  | _, _ => false
  end.
(* is [a] a prefix of [b] (possibly equal) *)
Fixpoint is_prefix (a b : addr) : bool :=
  match a, b with
  | [], _ => true
  | i :: a', j :: b' => Nat.eqb i j && is_prefix a' b'
  | _, _ => false
  end.

(* The replacement value. getReplacement returns the LIVE source node unless a source delimiter
   made a copy: [vs_live] = Some (i, a) says that the value is the node at address a of resource i
   and follows what is written there; None = a private copy. *)
Record vstate := mkVS { vs_value : node; vs_live : option (nat * addr) }.

(* after a write at address [h] of the document [doc'] that holds the live source at [sa]:
   a write at or inside the source shows through; a write that overwrites an ancestor detaches the
   source (the value keeps its content and is live no more); other writes do not matter *)
Definition refresh (sa : addr) (h : addr) (value : node) (doc' : node) : node * bool :=
  if proper_prefix h sa then (value, false)
  else if is_prefix sa h then (match get_at sa doc' with Some x => x | None => value end, true)
  else (value, true).

Section Repl.
  Variable parse : string -> option re.
  Variable enc : node -> string.
  Variable nonstr : string -> bool.
  Variable decodes : tag -> string -> bool.   (* Node.Decode succeeds on a scalar with this tag and text *)
  Variable lsel : string -> list (string * string) -> option bool.
  Variable fuel : nat.

  (* selectSourceNode: the unique node one of whose ids is selected, with its index *)
  Fixpoint select_source (sel : resid) (i : nat) (rs : list node) (found : option (nat * node)) : res (nat * node) :=
    match rs with
    | [] => match found with Some n => Ok n | None => Err end
    | n :: t =>
        do ids <- make_res_ids n;
        if existsb (fun id => id_selected_by id sel) ids then
          match found with
          | Some _ => Err
          | None => select_source sel (S i) t (Some (i, n))
          end
        else select_source sel (S i) t found
    end.

  (* is the value getRefinedValue returns the node itself (no copy)? *)
  Definition refined_is_live (opts : option field_options) : bool :=
    if gen_replacement_source_copied then false      (* getRefinedValue returns rn.Copy() *)
    else match opts with
         | None => true
         | Some o => String.eqb (fo_delimiter o) ""
         end.

  (* getReplacement *)
  Definition get_replacement (rs : list node) (r : replacement) : res vstate :=
    match rp_source_value r, rp_source r with
    | Some _, Some _ => Err
    | Some v, None => Ok (mkVS (Scalar TNone SPlain v) None)
    | None, None => Err
    | None, Some src =>
        do source <- select_source (ss_id src) 0 rs None;
        let fp := if String.eqb (ss_field_path src) "" then gen_default_replacement_field_path
                  else ss_field_path src in
        do ra <- lookup_addr (parse_path (smarter_path_splitter "."%char fp)) (snd source);
        match ra with
        | None => Err
        | Some a =>
            match get_at a (snd source) with
            | None => Err
            | Some x =>
                if nil_or_empty x then Err
                else do v <- refined_value (ss_options src) x;
                     Ok (mkVS v (if refined_is_live (ss_options src) then Some (fst source, a) else None))
            end
        end
    end.

  (* matchesAnnoAndLabelSelector: both selectors are evaluated, annotation first *)
  Definition matches_anno_label (n : node) (s : selector) : res bool :=
    match lsel (sel_ann s) (meta_map "annotations" n) with
    | None => Err
    | Some a =>
        match lsel (sel_lab s) (meta_map "labels" n) with
        | None => Err
        | Some l => Ok (a && l)
        end
    end.

  Fixpoint rejected_by_labels (n : node) (rej : list selector) : res bool :=
    match rej with
    | [] => Ok false
    | r :: t =>
        if String.eqb (sel_ann r) "" && String.eqb (sel_lab r) "" then rejected_by_labels n t
        else do m <- matches_anno_label n r; if m then Ok true else rejected_by_labels n t
    end.

  (* selectByAnnoAndLabel *)
  Definition select_by_anno_label (n : node) (sel : selector) (rej : list selector) : res bool :=
    do m <- matches_anno_label n sel;
    if negb m then Ok false
    else do r <- rejected_by_labels n rej; Ok (negb r).

  (* containsRejectId *)
  Definition contains_reject_id (rej : list selector) (ids : list resid) : bool :=
    existsb (fun r => negb (id_is_empty (sel_id r)) &&
                      existsb (fun id => id_selected_by id (sel_id r)) ids) rej.

  (* the ids test of applyReplacement: some id is selected, and no id is rejected *)
  Definition target_selected (sel : selector) (rej : list selector) (ids : list resid) : bool :=
    existsb (fun id => id_selected_by id (sel_id sel)) ids && negb (contains_reject_id rej ids).

  (* write the value through every hit of one PathMatcher run. [live] = the address of the live
     source node inside THIS document, if it is here; the result carries the value afterwards and
     whether it is still live. *)
  Fixpoint write_hits (opts : option field_options) (live : option addr) (value : node) (hits : list hit) (target : node)
    : res (node * (node * option addr)) :=
    match hits with
    | [] => Ok (target, (value, live))
    | HAt a :: t =>
        do target' <- update_at (set_field_value decodes opts value) a target;
        match live with
        | None => write_hits opts None value t target'
        | Some sa =>
            let (v', still) := refresh sa a value target' in
            write_hits opts (if still then Some sa else None) v' t target'
        end
    | HDetached x :: t =>
        do _ <- set_field_value decodes opts value x;     (* may fail; never visible *)
        write_hits opts live value t target
    end.

  (* the field paths of a target selector (empty list = the default path) *)
  Definition target_field_paths (ts : target_selector) : list string :=
    match ts_field_paths ts with [] => [gen_default_replacement_field_path] | l => l end.

  Definition create_kind (opts : option field_options) (value : node) : option kind :=
    match opts with
    | Some o => if fo_create o then Some (kind_of value) else None
    | None => None
    end.

  (* the live value as it reads after the document changed under it (PathMatcher's Create) *)
  Definition reread (live : option addr) (value : node) (doc : node) : node :=
    match live with
    | Some sa => match get_at sa doc with Some x => x | None => value end
    | None => value
    end.

  (* copyValueToTarget *)
  Fixpoint copy_value_to_target (opts : option field_options) (live : option addr) (value : node)
           (fps : list string) (target : node) : res (node * (node * option addr)) :=
    match fps with
    | [] => Ok (target, (value, live))
    | fp :: t =>
        do r <- pm parse enc nonstr (create_kind opts value) fuel (smarter_path_splitter "."%char fp) target;
        match snd r with
        | [] => Err
        | hits =>
            do w <- write_hits opts live (reread live value (fst r)) hits (fst r);
            copy_value_to_target opts (snd (snd w)) (fst (snd w)) t (fst w)
        end
    end.

  (* one target selector over one node (number [i] of the list) *)
  Definition apply_target_to_node (vs : vstate) (ts : target_selector) (sel : selector) (i : nat) (n : node)
    : res (node * vstate) :=
    do ids <- make_res_ids n;
    do ok <- select_by_anno_label n sel (ts_reject ts);
    if negb ok then Ok (n, vs)
    else if target_selected sel (ts_reject ts) ids
         then
           let here := match vs_live vs with
                       | Some (j, sa) => if Nat.eqb i j then Some sa else None
                       | None => None
                       end in
           do w <- copy_value_to_target (ts_options ts) here (vs_value vs) (target_field_paths ts) n;
           let live' := match vs_live vs, here with
                        | Some (j, _), Some _ => match snd (snd w) with Some sa => Some (j, sa) | None => None end
                        | l, _ => l
                        end in
           Ok (fst w, mkVS (fst (snd w)) live')
         else Ok (n, vs).

  Fixpoint apply_target_to_nodes (vs : vstate) (ts : target_selector) (sel : selector) (i : nat) (rs : list node)
    : res (list node * vstate) :=
    match rs with
    | [] => Ok ([], vs)
    | n :: t =>
        do r <- apply_target_to_node vs ts sel i n;
        do rt <- apply_target_to_nodes (snd r) ts sel (S i) t;
        Ok (fst r :: fst rt, snd rt)
    end.

  (* applyReplacement *)
  Fixpoint apply_replacement (vs : vstate) (tss : list target_selector) (rs : list node) : res (list node) :=
    match tss with
    | [] => Ok rs
    | ts :: t =>
        match ts_select ts with
        | None => Err
        | Some sel =>
            do r <- apply_target_to_nodes vs ts sel 0 rs;
            apply_replacement (snd r) t (fst r)
        end
    end.

  (* Filter.Filter *)
  Fixpoint replacement_filter (rps : list replacement) (rs : list node) : res (list node) :=
    match rps with
    | [] => Ok rs
    | r :: t =>
        match rp_targets r with
        | None => Err
        | Some tss =>
            match rp_source_value r, rp_source r with
            | None, None => Err
            | _, _ =>
                do vs <- get_replacement rs r;
                do rs' <- apply_replacement vs tss rs;
                replacement_filter t rs'
            end
        end
    end.
End Repl.
