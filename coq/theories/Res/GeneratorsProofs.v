(* C06 — proofs about Res/Generators.v: dictionary algebra, the laws of appendReplaceOrMerge, chains of
   kustomizations declaring one generated object, the hash suffix of a build. *)
From KV Require Import Res.Hash Res.HashProofs Res.Generators.
From Coq Require Import ZifyNat ZifyN ZifyBool.
Local Open Scope string_scope.

(* ------------------------------------------------------------------ dictionaries *)

Lemma compare_refl : forall s : string, String.compare s s = Eq.
Proof.
  intro s. pose proof (String.compare_antisym s s) as H.
  destruct (String.compare s s); [reflexivity|discriminate|discriminate].
Qed.

Lemma compare_eq_eqb : forall a b : string, String.compare a b = Eq <-> String.eqb a b = true.
Proof.
  intros a b. split; intro H.
  - apply String.compare_eq_iff in H. subst. apply String.eqb_refl.
  - apply String.eqb_eq in H. subst. apply compare_refl.
Qed.

Lemma compare_neq_eqb : forall a b : string, String.compare a b <> Eq -> String.eqb a b = false.
Proof.
  intros a b H. destruct (String.eqb a b) eqn:E; [|reflexivity].
  exfalso. apply H, compare_eq_eqb, E.
Qed.

(* writing a key and reading it back *)
Lemma dict_get_set_same : forall k v d, dict_get k (dict_set k v d) = Some v.
Proof.
  intros k v d. induction d as [|[k' v'] t IH]; cbn.
  - rewrite String.eqb_refl. reflexivity.
  - destruct (String.compare k k') eqn:E; cbn.
    + rewrite String.eqb_refl. reflexivity.
    + rewrite String.eqb_refl. reflexivity.
    + rewrite compare_neq_eqb by congruence. exact IH.
Qed.

(* writing a key leaves every other key alone *)
Lemma dict_get_set_other : forall k k' v d, k <> k' -> dict_get k' (dict_set k v d) = dict_get k' d.
Proof.
  intros k k' v d Hne. induction d as [|[k1 v1] t IH]; cbn.
  - destruct (String.eqb_spec k' k); [congruence|reflexivity].
  - destruct (String.compare k k1) eqn:E; cbn.
    + apply String.compare_eq_iff in E. subst k1.
      destruct (String.eqb_spec k' k); [congruence|reflexivity].
    + destruct (String.eqb_spec k' k); [congruence|reflexivity].
    + destruct (String.eqb k' k1); [reflexivity|exact IH].
Qed.

Lemma dict_get_app : forall k (a b : list (string * string)),
  dict_get k (a ++ b)%list = match dict_get k a with Some v => Some v | None => dict_get k b end.
Proof.
  intros k a b. induction a as [|[k' v'] t IH]; cbn; [reflexivity|].
  destruct (String.eqb k k'); [reflexivity|exact IH].
Qed.

(* the dictionary law of merge: the last entry for a key in the overlay wins, other keys keep the base value *)
Lemma dict_get_override : forall k over base,
  dict_get k (dict_override base over) =
  match dict_get k (rev over) with Some v => Some v | None => dict_get k base end.
Proof.
  intros k over. unfold dict_override.
  induction over as [|[k1 v1] t IH]; intro base; cbn [fold_left rev fst snd]; [reflexivity|].
  rewrite IH, dict_get_app. cbn [dict_get].
  destruct (dict_get k (rev t)); [reflexivity|].
  destruct (String.eqb_spec k k1).
  - subst. apply dict_get_set_same.
  - apply dict_get_set_other. congruence.
Qed.

Lemma dict_override_nil : forall d, dict_override d [] = d.
Proof. reflexivity. Qed.

(* dropping the keys of another dictionary *)
Lemma dict_get_without : forall k d other,
  dict_get k (dict_without d other) = match dict_get k other with Some _ => None | None => dict_get k d end.
Proof.
  intros k d other. unfold dict_without. induction d as [|[k1 v1] t IH]; cbn [filter fst dict_get].
  - destruct (dict_get k other); reflexivity.
  - destruct (String.eqb_spec k k1).
    + subst k1. destruct (dict_get k other) eqn:E; cbn [dict_get].
      * rewrite IH. reflexivity.
      * rewrite String.eqb_refl. reflexivity.
    + destruct (dict_get k1 other); cbn [dict_get]; [exact IH|].
      destruct (String.eqb_spec k k1); [congruence|exact IH].
Qed.

Lemma dict_of_opt_norm : forall d : dict, dict_of_opt (match d with [] => None | _ => Some d end) = d.
Proof. intros [|p t]; reflexivity. Qed.

(* ------------------------------------------------------------------ the table of appendReplaceOrMerge *)

(* premises read from the generated table: editing the switch in reswrangler.go changes these facts *)
Lemma absorb_action_0 : forall b, absorb_action 0 b = match b with BMerge | BReplace => AError | _ => AAppend end.
Proof. destruct b; reflexivity. Qed.
Lemma absorb_action_1 : forall b, absorb_action 1 b = match b with BMerge => AMerge | BReplace => AReplace | _ => AError end.
Proof. destruct b; reflexivity. Qed.
Lemma absorb_action_many : forall n b, absorb_action (S (S n)) b = AError.
Proof. destruct b; reflexivity. Qed.

Lemma indices_from_nil : forall {A} (f : A -> bool) l i, indices_from f i l = [] <-> forallb (fun x => negb (f x)) l = true.
Proof.
  intros A f l. induction l as [|x t IH]; intro i; cbn; [tauto|].
  destruct (f x); cbn; [split; discriminate|apply IH].
Qed.

Lemma matches_cur_any : forall s id o, matches_cur s id o = true -> matches_any s id o = true.
Proof.
  unfold matches_cur, matches_any. intros s id o H. apply andb_true_iff in H as [H1 H2].
  rewrite H1. cbn. rewrite existsb_app. cbn. rewrite H2. rewrite !orb_true_r. reflexivity.
Qed.

(* law: nothing matches and the behaviour is create/unspecified -> the object is added *)
Lemma absorb_create : forall rm r,
  indices (matches_any (g_secret r) (cur_id r)) rm = [] ->
  (g_behavior r = BCreate \/ g_behavior r = BUnspecified) ->
  absorb rm r = Ok (rm ++ [r])%list.
Proof.
  intros rm r Hm Hb. unfold absorb. rewrite Hm. cbn [List.length]. rewrite absorb_action_0.
  assert (Hn : existsb (matches_cur (g_secret r) (cur_id r)) rm = false).
  { unfold indices in Hm. apply indices_from_nil in Hm.
    destruct (existsb _ rm) eqn:E; [|reflexivity].
    apply existsb_exists in E as [x [Hx Hc]]. rewrite forallb_forall in Hm.
    specialize (Hm x Hx). rewrite (matches_cur_any _ _ _ Hc) in Hm. discriminate. }
  destruct Hb as [-> | ->]; unfold rm_append; rewrite Hn; reflexivity.
Qed.

(* error laws *)
Lemma absorb_merge_absent : forall rm r,
  indices (matches_any (g_secret r) (cur_id r)) rm = [] -> g_behavior r = BMerge -> absorb rm r = Err.
Proof. intros rm r Hm Hb. unfold absorb. rewrite Hm, Hb. reflexivity. Qed.

Lemma absorb_replace_absent : forall rm r,
  indices (matches_any (g_secret r) (cur_id r)) rm = [] -> g_behavior r = BReplace -> absorb rm r = Err.
Proof. intros rm r Hm Hb. unfold absorb. rewrite Hm, Hb. reflexivity. Qed.

Lemma absorb_create_present : forall rm r i,
  indices (matches_any (g_secret r) (cur_id r)) rm = [i] ->
  (g_behavior r = BCreate \/ g_behavior r = BUnspecified) -> absorb rm r = Err.
Proof. intros rm r i Hm [Hb|Hb]; unfold absorb; rewrite Hm, Hb; reflexivity. Qed.

Lemma absorb_ambiguous : forall rm r i j t,
  indices (matches_any (g_secret r) (cur_id r)) rm = i :: j :: t -> absorb rm r = Err.
Proof.
  intros rm r i j t Hm. unfold absorb. rewrite Hm. cbn [List.length]. rewrite absorb_action_many. reflexivity.
Qed.

(* laws: exactly one match -> the old object is replaced in place; merge keeps the old entries the new
   declaration does not mention, replace keeps none; name, namespace and previous ids stay those of the old object *)
Lemma absorb_merge : forall rm r i old,
  indices (matches_any (g_secret r) (cur_id r)) rm = [i] -> nth_error rm i = Some old ->
  indices (matches_cur (g_secret r) (cur_id old)) rm = [i] ->
  g_behavior r = BMerge ->
  absorb rm r = Ok (replace_nth i (merge_data (copy_merge_meta r old) old) rm).
Proof.
  intros rm r i old Hm Hn Hc Hb. unfold absorb. rewrite Hm, Hb. cbn [List.length]. rewrite absorb_action_1, Hn.
  unfold rm_replace.
  change (cur_id (merge_data (copy_merge_meta r old) old)) with (cur_id old).
  change (g_secret (merge_data (copy_merge_meta r old) old)) with (g_secret r).
  rewrite Hc. cbn [bind fst snd]. rewrite Nat.eqb_refl. reflexivity.
Qed.

Lemma absorb_replace : forall rm r i old,
  indices (matches_any (g_secret r) (cur_id r)) rm = [i] -> nth_error rm i = Some old ->
  indices (matches_cur (g_secret r) (cur_id old)) rm = [i] ->
  g_behavior r = BReplace ->
  absorb rm r = Ok (replace_nth i (copy_merge_meta r old) rm).
Proof.
  intros rm r i old Hm Hn Hc Hb. unfold absorb. rewrite Hm, Hb. cbn [List.length]. rewrite absorb_action_1, Hn.
  unfold rm_replace.
  change (cur_id (copy_merge_meta r old)) with (cur_id old).
  change (g_secret (copy_merge_meta r old)) with (g_secret r).
  rewrite Hc. cbn [bind fst snd]. rewrite Nat.eqb_refl. reflexivity.
Qed.

(* what merge does to the entries: the overlay's entry wins; an old entry survives unless the overlay defines the
   key in either map *)
Lemma merge_data_get : forall r old k,
  dict_get k (dict_of_opt (g_data (merge_data (copy_merge_meta r old) old))) =
  match dict_get k (rev (dict_of_opt (g_data r))) with
  | Some v => Some v
  | None => match dict_get k (g_bin r) with Some _ => None | None => dict_get k (dict_of_opt (g_data old)) end
  end.
Proof.
  intros r old k. cbn [merge_data copy_merge_meta g_data g_bin].
  rewrite dict_of_opt_norm, dict_get_override, dict_get_without. reflexivity.
Qed.

(* ------------------------------------------------------------------ chains declaring one generated object *)

Definition opt_list {A} (o : option A) : list A := match o with Some x => [x] | None => [] end.
Definition res_map {A B} (f : A -> B) (r : res A) : res B :=
  match r with Ok a => Ok (f a) | Err => Err | Panic => Panic | Diverge => Diverge end.

Definition ids (o : gobj) : list (string * string) := (g_prev o ++ [cur_id o])%list.

(* the object still answers to the id (name, default namespace) it was generated under *)
Definition tracks (sec : bool) (name : string) (o : gobj) : Prop :=
  g_secret o = sec /\ existsb (id_eqb (name, "")) (ids o) = true.

Lemma eff_ns_idem : forall ns, eff_ns (eff_ns ns) = eff_ns ns.
Proof. intros [|c s]; reflexivity. Qed.

Lemma id_eqb_refl : forall id, id_eqb id id = true.
Proof. intros [n ns]. unfold id_eqb. cbn. rewrite !String.eqb_refl. reflexivity. Qed.

Lemma id_eqb_eff : forall id n ns, id_eqb id (n, eff_ns ns) = id_eqb id (n, ns).
Proof. intros id n ns. unfold id_eqb. cbn. rewrite eff_ns_idem. reflexivity. Qed.

(* appendReplaceOrMerge on a resmap holding at most the tracked object *)
Definition absorb1 (st : option gobj) (r : gobj) : res (option gobj) :=
  match st with
  | None => match g_behavior r with BMerge | BReplace => Err | _ => Ok (Some r) end
  | Some old =>
      match g_behavior r with
      | BMerge => Ok (Some (merge_data (copy_merge_meta r old) old))
      | BReplace => Ok (Some (copy_merge_meta r old))
      | _ => Err
      end
  end.

Lemma absorb_single : forall sec name st r,
  (forall o, st = Some o -> tracks sec name o) -> g_secret r = sec -> cur_id r = (name, "") ->
  absorb (opt_list st) r = res_map opt_list (absorb1 st r).
Proof.
  intros sec name st r Hinv Hs Hid. destruct st as [old|]; cbn [opt_list absorb1].
  - destruct (Hinv old eq_refl) as [Ho He].
    assert (Hm : indices (matches_any (g_secret r) (cur_id r)) [old] = [O]).
    { unfold indices. cbn. unfold matches_any. rewrite Ho, Hs, Hid. fold (ids old). rewrite He.
      rewrite Bool.eqb_reflx. reflexivity. }
    assert (Hc : indices (matches_cur (g_secret r) (cur_id old)) [old] = [O]).
    { unfold indices. cbn. unfold matches_cur. rewrite Ho, Hs, id_eqb_refl, Bool.eqb_reflx. reflexivity. }
    destruct (g_behavior r) eqn:Hb.
    + eapply absorb_create_present; eauto.
    + eapply absorb_create_present; eauto.
    + rewrite (absorb_replace _ _ O old Hm eq_refl Hc Hb). reflexivity.
    + rewrite (absorb_merge _ _ O old Hm eq_refl Hc Hb). reflexivity.
  - destruct (g_behavior r) eqn:Hb.
    + rewrite absorb_create; auto.
    + rewrite absorb_create; auto.
    + apply absorb_replace_absent; auto.
    + apply absorb_merge_absent; auto.
Qed.

Lemma absorb1_tracks : forall sec name st r o,
  (forall o, st = Some o -> tracks sec name o) -> g_secret r = sec -> cur_id r = (name, "") -> g_prev r = [] ->
  absorb1 st r = Ok (Some o) -> tracks sec name o.
Proof.
  intros sec name st r o Hinv Hs Hid Hp H. destruct st as [old|]; cbn [absorb1] in H.
  - destruct (Hinv old eq_refl) as [Ho He].
    destruct (g_behavior r); try discriminate; inversion H; subst o; split; try assumption; exact He.
  - assert (tracks sec name r).
    { split; [assumption|]. unfold ids. rewrite Hp, Hid. cbn. rewrite id_eqb_refl. reflexivity. }
    destruct (g_behavior r); try discriminate; inversion H; subst; assumption.
Qed.

(* the transformers of one kustomization on a single object *)
Definition ns1 (ns : string) (o : gobj) : gobj :=
  match ns with EmptyString => o | _ => set_ns (store_prev o) ns end.
Definition prefix1 (p : string) (o : gobj) : gobj :=
  match p with EmptyString => o | _ => set_name (store_prev o) (p ++ g_name o) end.
Definition suffix1 (s : string) (o : gobj) : gobj :=
  match s with EmptyString => o | _ => set_name (store_prev o) (g_name o ++ s) end.
Definition labels1 (l : dict) (o : gobj) : gobj := set_labels o (dict_override (g_labels o) l).
Definition annos1 (l : dict) (o : gobj) : gobj := set_annos o (dict_override (g_annos o) l).
Definition xform1 (d : ldecl) (o : gobj) : gobj :=
  annos1 (l_annos d) (labels1 (l_labels d) (suffix1 (l_suffix d) (prefix1 (l_prefix d) (ns1 (l_ns d) o)))).

Lemma run_transformers_single : forall d st,
  run_transformers d (opt_list st) = Ok (opt_list (option_map (xform1 d) st)).
Proof.
  intros d [o|]; unfold run_transformers, xform1; cbn [opt_list option_map].
  - assert (Hn : ns_transform (l_ns d) [o] = Ok [ns1 (l_ns d) o]).
    { unfold ns_transform, ns1. destruct (l_ns d) as [|c s]; [reflexivity|].
      cbn [List.length ns_loop nth_error replace_nth]. unfold indices. cbn [indices_from].
      unfold matches_cur. rewrite id_eqb_refl, Bool.eqb_reflx. reflexivity. }
    rewrite Hn. cbn [bind]. unfold prefix_transform, suffix_transform, labels_transform, annos_transform, prefix1, suffix1.
    destruct (l_prefix d), (l_suffix d); reflexivity.
  - assert (Hn : ns_transform (l_ns d) [] = Ok []) by (unfold ns_transform; destruct (l_ns d); reflexivity).
    rewrite Hn. cbn [bind]. unfold prefix_transform, suffix_transform.
    destruct (l_prefix d), (l_suffix d); reflexivity.
Qed.

Lemma tracks_store_set : forall sec name o (f : gobj -> gobj),
  (forall x, g_secret (f x) = g_secret x) -> (forall x, g_prev (f x) = g_prev x) ->
  tracks sec name o -> tracks sec name (f (store_prev o)).
Proof.
  intros sec name o f Hs Hp [H1 H2]. split; [rewrite Hs; exact H1|].
  unfold ids in *. rewrite Hp. cbn [store_prev set_prev g_prev].
  rewrite existsb_app in H2. rewrite !existsb_app. cbn [existsb] in *.
  rewrite id_eqb_eff. unfold cur_id in H2.
  destruct (existsb (id_eqb (name, "")) (g_prev o)); [reflexivity|].
  cbn in H2. rewrite orb_false_r in H2. rewrite H2. reflexivity.
Qed.

Lemma xform1_tracks : forall sec name d o, tracks sec name o -> tracks sec name (xform1 d o).
Proof.
  intros sec name d o H. unfold xform1.
  assert (H1 : tracks sec name (ns1 (l_ns d) o)).
  { unfold ns1. destruct (l_ns d) as [|c s]; [exact H|].
    apply (tracks_store_set sec name o (fun x => set_ns x (String c s))); auto. }
  assert (H2 : tracks sec name (prefix1 (l_prefix d) (ns1 (l_ns d) o))).
  { unfold prefix1. destruct (l_prefix d) as [|c s]; [exact H1|].
    set (o1 := ns1 (l_ns d) o) in *.
    apply (tracks_store_set sec name o1 (fun x => set_name x (String c s ++ g_name o1))); auto. }
  assert (H3 : tracks sec name (suffix1 (l_suffix d) (prefix1 (l_prefix d) (ns1 (l_ns d) o)))).
  { unfold suffix1. destruct (l_suffix d) as [|c s]; [exact H2|].
    set (o2 := prefix1 (l_prefix d) (ns1 (l_ns d) o)) in *.
    apply (tracks_store_set sec name o2 (fun x => set_name x (g_name o2 ++ String c s))); auto. }
  exact H3.
Qed.

Definition gopts_of (d : ldecl) : option gopts := if l_has_genopts d then Some (l_genopts d) else None.

Lemma make_generated_ids : forall files g a r, make_generated files g a = Ok r ->
  g_secret r = ga_secret a /\ g_name r = ga_name a /\ g_ns r = ga_ns a /\ g_prev r = [] /\
  g_behavior r = new_behavior (ga_behavior a).
Proof.
  intros files g a r H. unfold make_generated in H.
  destruct (ga_name a) as [|c0 s0] eqn:En; [discriminate|].
  destruct (kv_load files a) as [pairs| | |]; try discriminate. cbn [bind] in H.
  destruct (validated_map pairs []) as [m| | |]; try discriminate. cbn [bind] in H.
  destruct (ga_secret a).
  - inversion H. subst r. cbn. auto.
  - destruct (split_data m) as [dd bb]. inversion H. subst r. cbn. auto.
Qed.

Fixpoint gens_sem (d : ldecl) (gens : list genargs) (st : option gobj) : res (option gobj) :=
  match gens with
  | [] => Ok st
  | a :: t =>
      do r <- make_generated (l_files d) (gopts_of d) a;
      do st' <- absorb1 st r;
      gens_sem d t st'
  end.

Definition decl_for (sec : bool) (name : string) (a : genargs) : Prop :=
  ga_secret a = sec /\ ga_name a = name /\ ga_ns a = "".

Lemma run_generators_single : forall sec name d gens st,
  Forall (decl_for sec name) gens ->
  (forall o, st = Some o -> tracks sec name o) ->
  run_generators d gens (opt_list st) = res_map opt_list (gens_sem d gens st) /\
  (forall o, gens_sem d gens st = Ok (Some o) -> tracks sec name o).
Proof.
  intros sec name d gens. induction gens as [|a t IH]; intros st Hf Hinv.
  - cbn. split; [reflexivity|]. intros o H. inversion H. auto.
  - inversion Hf as [|? ? Ha Ht]. subst. destruct Ha as [A1 [A2 A3]].
    cbn [run_generators gens_sem]. fold (gopts_of d).
    destruct (make_generated (l_files d) (gopts_of d) a) as [r| | |] eqn:Em; cbn [bind];
      try (split; [reflexivity|discriminate]).
    destruct (make_generated_ids _ _ _ _ Em) as [R1 [R2 [R3 [R4 R5]]]].
    assert (Hs : g_secret r = sec) by congruence.
    assert (Hid : cur_id r = (name, "")) by (unfold cur_id; congruence).
    rewrite (absorb_single sec name st r Hinv Hs Hid).
    destruct (absorb1 st r) as [st'| | |] eqn:Ea; cbn [res_map bind]; try (split; [reflexivity|discriminate]).
    apply IH; [assumption|].
    intros o Ho. subst st'. eapply absorb1_tracks; eauto.
Qed.

(* a chain, top kustomization first: d over (b over (... )) *)
Fixpoint chain_layer (d : ldecl) (below : list ldecl) : layer :=
  match below with
  | [] => Layer [] d
  | b :: bs => Layer [chain_layer b bs] d
  end.

Definition one_gen (d : ldecl) : list genargs := (l_cmgens d ++ l_secgens d)%list.

(* the single-object reading of a chain *)
Fixpoint chain_sem (d : ldecl) (below : list ldecl) : res (option gobj) :=
  if decl_empty (match below with [] => 0 | _ => 1 end) d then Err
  else
    do st <- match below with [] => Ok None | b :: bs => chain_sem b bs end;
    do st1 <- gens_sem d (one_gen d) st;
    Ok (option_map (xform1 d) st1).

Definition chain_for (sec : bool) (name : string) (ds : list ldecl) : Prop :=
  Forall (fun d => Forall (decl_for sec name) (one_gen d)) ds.

Lemma accumulate_nil : forall d,
  accumulate (Layer [] d) =
  if decl_empty 0 d then Err
  else do rm0 <- Ok []; do rm1 <- run_generators d (l_cmgens d ++ l_secgens d)%list rm0; run_transformers d rm1.
Proof. reflexivity. Qed.

Lemma accumulate_one : forall b d,
  accumulate (Layer [b] d) =
  if decl_empty 1 d then Err
  else do rm0 <- (do sub <- accumulate b; do rm' <- rm_append_all [] sub; Ok rm');
       do rm1 <- run_generators d (l_cmgens d ++ l_secgens d)%list rm0; run_transformers d rm1.
Proof. reflexivity. Qed.

Lemma rm_append_all_single : forall (st : option gobj), rm_append_all [] (opt_list st) = Ok (opt_list st).
Proof. intros [o|]; reflexivity. Qed.

Lemma accumulate_chain : forall sec name below d,
  chain_for sec name (d :: below) ->
  accumulate (chain_layer d below) = res_map opt_list (chain_sem d below) /\
  (forall o, chain_sem d below = Ok (Some o) -> tracks sec name o).
Proof.
  intros sec name below. induction below as [|b bs IH]; intros d Hc.
  - inversion Hc as [|? ? Hd _]. subst.
    cbn [chain_layer chain_sem]. rewrite accumulate_nil.
    destruct (decl_empty 0 d); [split; [reflexivity|discriminate]|]. cbn [bind].
    destruct (run_generators_single sec name d (one_gen d) None Hd) as [G1 G2]; [discriminate|].
    cbn [opt_list] in G1. unfold one_gen in G1 at 1. rewrite G1.
    destruct (gens_sem d (one_gen d) None) as [st1| | |]; cbn [res_map bind]; try (split; [reflexivity|discriminate]).
    rewrite run_transformers_single. split; [reflexivity|].
    intros o Ho. destruct st1 as [o1|]; cbn in Ho; inversion Ho. apply xform1_tracks. apply G2. reflexivity.
  - inversion Hc as [|? ? Hd Hrest]. subst.
    destruct (IH b Hrest) as [I1 I2].
    cbn [chain_layer chain_sem]. rewrite accumulate_one.
    destruct (decl_empty 1 d); [split; [reflexivity|discriminate]|].
    rewrite I1.
    destruct (chain_sem b bs) as [st| | |] eqn:Es; cbn [res_map bind]; try (split; [reflexivity|discriminate]).
    rewrite rm_append_all_single. cbn [bind].
    destruct (run_generators_single sec name d (one_gen d) st Hd) as [G1 G2].
    { intros o Ho. subst. apply I2. reflexivity. }
    unfold one_gen in G1 at 1. rewrite G1.
    destruct (gens_sem d (one_gen d) st) as [st1| | |]; cbn [res_map bind]; try (split; [reflexivity|discriminate]).
    rewrite run_transformers_single. split; [reflexivity|].
    intros o Ho. destruct st1 as [o1|]; cbn in Ho; inversion Ho. apply xform1_tracks. apply G2. reflexivity.
Qed.

(* ------------------------------------------------------------------ the dictionary reading of a chain *)

Definition data_of (o : gobj) : option dict * dict := (g_data o, g_bin o).

(* merge of two declared objects: ONE dictionary per object — the overlay's entry wins and takes the key out of the
   other map of the old object; an empty data map is no data field *)
Definition merge_dd (old new : option dict * dict) : option dict * dict :=
  let d := dict_override (dict_without (dict_of_opt (fst old)) (snd new)) (dict_of_opt (fst new)) in
  (match d with [] => None | _ => Some d end, dict_override (dict_without (snd old) d) (snd new)).

(* one declaration against the dictionary accumulated so far (None: the object does not exist yet) *)
Definition dstep (st : option (option dict * dict)) (b : behavior) (new : option dict * dict)
  : res (option (option dict * dict)) :=
  match st with
  | None => match b with BMerge | BReplace => Err | _ => Ok (Some new) end
  | Some old =>
      match b with
      | BMerge => Ok (Some (merge_dd old new))
      | BReplace => Ok (Some new)
      | _ => Err
      end
  end.

Lemma absorb1_data : forall st r,
  res_map (option_map data_of) (absorb1 st r) = dstep (option_map data_of st) (g_behavior r) (data_of r).
Proof. intros [old|] r; cbn; destruct (g_behavior r); reflexivity. Qed.

Lemma xform1_data : forall d o, data_of (xform1 d o) = data_of o.
Proof.
  intros d o. unfold xform1, ns1, prefix1, suffix1.
  destruct (l_ns d), (l_prefix d), (l_suffix d); reflexivity.
Qed.

Fixpoint gens_data (d : ldecl) (gens : list genargs) (st : option (option dict * dict))
  : res (option (option dict * dict)) :=
  match gens with
  | [] => Ok st
  | a :: t =>
      do r <- make_generated (l_files d) (gopts_of d) a;
      do st' <- dstep st (g_behavior r) (data_of r);
      gens_data d t st'
  end.

Lemma gens_sem_data : forall d gens st,
  res_map (option_map data_of) (gens_sem d gens st) = gens_data d gens (option_map data_of st).
Proof.
  intros d gens. induction gens as [|a t IH]; intro st; cbn [gens_sem gens_data]; [reflexivity|].
  destruct (make_generated (l_files d) (gopts_of d) a) as [r| | |]; cbn [bind]; try reflexivity.
  rewrite <- absorb1_data.
  destruct (absorb1 st r) as [st'| | |]; cbn [res_map bind]; try reflexivity. apply IH.
Qed.

(* final data of a chain = fold of [dstep] over its declarations, bottom kustomization first; an empty
   kustomization file and a failing generator are errors. No ids, names or transformers are involved. *)
Fixpoint chain_data (d : ldecl) (below : list ldecl) : res (option (option dict * dict)) :=
  if decl_empty (match below with [] => 0 | _ => 1 end) d then Err
  else
    do st <- match below with [] => Ok None | b :: bs => chain_data b bs end;
    gens_data d (one_gen d) st.

Lemma chain_sem_data : forall below d,
  res_map (option_map data_of) (chain_sem d below) = chain_data d below.
Proof.
  induction below as [|b bs IH]; intro d; cbn [chain_sem chain_data].
  - destruct (decl_empty 0 d); [reflexivity|]. cbn [bind].
    pose proof (gens_sem_data d (one_gen d) None) as G. cbn [option_map] in G. rewrite <- G. clear G.
    destruct (gens_sem d (one_gen d) None) as [[o|]| | |]; cbn; try reflexivity. rewrite xform1_data. reflexivity.
  - destruct (decl_empty 1 d); [reflexivity|].
    rewrite <- IH.
    destruct (chain_sem b bs) as [st| | |]; cbn [res_map bind]; try reflexivity.
    rewrite <- (gens_sem_data d (one_gen d) st).
    destruct (gens_sem d (one_gen d) st) as [[o|]| | |]; cbn; try reflexivity. rewrite xform1_data. reflexivity.
Qed.

Lemma map_opt_list : forall {A B} (f : A -> B) (o : option A), map f (opt_list o) = opt_list (option_map f o).
Proof. intros A B f [x|]; reflexivity. Qed.

(* C06_dictionary *)
Theorem dictionary_chain : forall sec name d below,
  chain_for sec name (d :: below) ->
  res_map (map data_of) (accumulate (chain_layer d below)) = res_map opt_list (chain_data d below).
Proof.
  intros sec name d below Hc.
  destruct (accumulate_chain sec name below d Hc) as [H _]. rewrite H, <- chain_sem_data.
  destruct (chain_sem d below) as [st| | |]; cbn [res_map]; try reflexivity.
  rewrite map_opt_list. reflexivity.
Qed.

(* the entries of a merged object *)
Lemma merge_dd_get : forall old new k,
  dict_get k (dict_of_opt (fst (merge_dd old new))) =
  match dict_get k (rev (dict_of_opt (fst new))) with
  | Some v => Some v
  | None => match dict_get k (snd new) with Some _ => None | None => dict_get k (dict_of_opt (fst old)) end
  end /\
  dict_get k (snd (merge_dd old new)) =
  match dict_get k (rev (snd new)) with
  | Some v => Some v
  | None => match dict_get k (dict_of_opt (fst (merge_dd old new))) with Some _ => None | None => dict_get k (snd old) end
  end.
Proof.
  intros old new k. unfold merge_dd. cbn [fst snd]. rewrite dict_of_opt_norm. split.
  - rewrite dict_get_override, dict_get_without. reflexivity.
  - rewrite dict_get_override, dict_get_without. reflexivity.
Qed.

(* ------------------------------------------------------------------ the name suffix of a build *)

Lemma mapM_Forall2 : forall {A B} (f : A -> res B) l l',
  mapM f l = Ok l' -> Forall2 (fun x y => f x = Ok y) l l'.
Proof.
  intros A B f. induction l as [|x t IH]; intros l' H; cbn in H.
  - inversion H. constructor.
  - destruct (f x) as [y| | |] eqn:E; try discriminate. cbn [bind] in H.
    destruct (mapM f t) as [ys| | |]; try discriminate. cbn [bind] in H. inversion H. subst.
    constructor; [exact E|]. apply IH. reflexivity.
Qed.

(* what HashTransformer does to one object: the suffix is the hash of the content the object ends up with *)
Definition hashed_from (o o' : gobj) : Prop :=
  if g_hash o
  then exists h, hash_content (content_of o') = Ok h /\ g_name o' = g_name o ++ "-" ++ h /\
                 content_of o' = content_of o /\ g_ns o' = g_ns o /\ g_labels o' = g_labels o /\ g_annos o' = g_annos o
  else o' = o.

Lemma add_hash_spec : forall o o', add_hash o = Ok o' -> hashed_from o o'.
Proof.
  intros o o' H. unfold add_hash, hashed_from in *. destruct (g_hash o); [|inversion H; reflexivity].
  destruct (hash_content (content_of o)) as [h| | |] eqn:E; try discriminate. cbn [bind] in H.
  inversion H. subst o'. exists h. repeat split. exact E.
Qed.

(* C06_name_is_hash *)
Theorem build_name_is_hash : forall l out,
  build l = Ok out -> exists rm, accumulate l = Ok rm /\ Forall2 hashed_from rm out.
Proof.
  intros l out H. unfold build in H. destruct (accumulate l) as [rm| | |]; try discriminate. cbn [bind] in H.
  exists rm. split; [reflexivity|].
  destruct (mapM add_hash rm) as [out'| | |] eqn:Em; cbn [bind] in H; try discriminate.
  destruct (hash_ids_unique out'); [|discriminate]. inversion H. subst out'.
  apply mapM_Forall2 in Em. induction Em; constructor; auto. apply add_hash_spec. assumption.
Qed.

(* the two theorems together, for a chain: the suffix is the hash of the content whose data is the dictionary fold *)
Theorem chain_name_is_hash : forall sec name d below out,
  chain_for sec name (d :: below) ->
  build (chain_layer d below) = Ok out ->
  exists st, chain_sem d below = Ok st /\
             chain_data d below = Ok (option_map data_of st) /\
             (forall o, st = Some o -> g_secret o = sec) /\
             Forall2 hashed_from (opt_list st) out.
Proof.
  intros sec name d below out Hc Hb.
  destruct (accumulate_chain sec name below d Hc) as [H1 H2].
  destruct (build_name_is_hash _ _ Hb) as [rm [Ha Hf]].
  rewrite H1 in Ha. destruct (chain_sem d below) as [st| | |] eqn:Es; try discriminate.
  cbn in Ha. inversion Ha. subst rm. exists st. repeat split; try assumption.
  - rewrite <- chain_sem_data, Es. reflexivity.
  - intros o Ho. subst. destruct (H2 o eq_refl) as [Hs _]. exact Hs.
Qed.

(* C06_invariance: the suffix depends on kind, data, binaryData (and the Secret type) only *)
Lemma hash_invariance : forall o o',
  g_secret o = g_secret o' -> g_data o = g_data o' -> g_bin o = g_bin o' -> g_type o = g_type o' ->
  hash_content (content_of o) = hash_content (content_of o').
Proof. intros o o' H1 H2 H3 H4. unfold content_of. rewrite H1, H2, H3, H4. reflexivity. Qed.

(* no transformer of a kustomization changes what is hashed *)
Lemma xform1_content : forall d o, content_of (xform1 d o) = content_of o.
Proof.
  intros d o. unfold xform1, ns1, prefix1, suffix1.
  destruct (l_ns d), (l_prefix d), (l_suffix d); reflexivity.
Qed.

(* data and binaryData of ONE declaration never share a key ... *)
Lemma dict_set_keys : forall k v d x, In x (map fst (dict_set k v d)) -> x = k \/ In x (map fst d).
Proof.
  intros k v d x. induction d as [|[k1 v1] t IH]; cbn.
  - intros [H|[]]; auto.
  - destruct (String.compare k k1) eqn:E; cbn.
    + apply String.compare_eq_iff in E. subst. intros [H|H]; auto.
    + intros [H|[H|H]]; auto.
    + intros [H|H]; auto. destruct (IH H); auto.
Qed.

Lemma dict_get_none_notin : forall k d, dict_get k d = None -> ~ In k (map fst d).
Proof.
  intros k d. induction d as [|[k1 v1] t IH]; cbn; [tauto|].
  destruct (String.eqb_spec k k1); [discriminate|]. intros H [E|Hin]; [congruence|]. exact (IH H Hin).
Qed.

Lemma dict_set_nodup : forall k v d, NoDup (map fst d) -> ~ In k (map fst d) -> NoDup (map fst (dict_set k v d)).
Proof.
  intros k v d. induction d as [|[k1 v1] t IH]; cbn; intros Hn Hk.
  - constructor; [tauto|constructor].
  - inversion Hn as [|? ? Hk1 Ht]. subst.
    destruct (String.compare k k1) eqn:E; cbn.
    + apply String.compare_eq_iff in E. subst. tauto.
    + constructor; [cbn; tauto|assumption].
    + constructor.
      * intro Hin. apply dict_set_keys in Hin as [->|Hin]; tauto.
      * apply IH; tauto.
Qed.

Lemma validated_map_nodup : forall pairs acc m,
  NoDup (map fst acc) -> validated_map pairs acc = Ok m -> NoDup (map fst m).
Proof.
  induction pairs as [|[k v] t IH]; intros acc m Hn H; cbn in H.
  - inversion H. subst. assumption.
  - destruct (dict_get k acc) eqn:E; [discriminate|].
    apply (IH _ _ (dict_set_nodup k v acc Hn (dict_get_none_notin _ _ E)) H).
Qed.

Lemma split_data_keys : forall m d b, split_data m = (d, b) ->
  forall k, (In k (map fst d) -> In k (map fst m)) /\ (In k (map fst b) -> In k (map fst m)) /\
            (NoDup (map fst m) -> In k (map fst d) -> In k (map fst b) -> False).
Proof.
  induction m as [|[k1 v1] t IH]; intros d b H k; cbn in H.
  - inversion H. cbn. tauto.
  - destruct (split_data t) as [d0 b0] eqn:Es. specialize (IH d0 b0 eq_refl k) as [I1 [I2 I3]].
    destruct (valid_utf8 v1); inversion H; subst; cbn; (repeat split).
    + intros [E|Hin]; auto.
    + intro Hin; auto.
    + intros Hn [E|Hd] Hb; inversion Hn; subst; [apply H2; auto|apply I3; auto].
    + intro Hin; auto.
    + intros [E|Hin]; auto.
    + intros Hn Hd [E|Hb]; inversion Hn; subst; [apply H2; auto|apply I3; auto].
Qed.

Lemma make_generated_disjoint : forall files g a r k,
  make_generated files g a = Ok r ->
  In k (map fst (dict_of_opt (g_data r))) -> In k (map fst (g_bin r)) -> False.
Proof.
  intros files g a r k H. unfold make_generated in H.
  destruct (ga_name a) as [|c0 s0]; [discriminate|].
  destruct (kv_load files a) as [pairs| | |]; try discriminate. cbn [bind] in H.
  destruct (validated_map pairs []) as [m| | |] eqn:Ev; try discriminate. cbn [bind] in H.
  destruct (ga_secret a).
  - injection H as H. subst r. cbn. tauto.
  - destruct (split_data m) as [dd bb] eqn:Es. injection H as H. subst r. cbn [g_data g_bin].
    destruct (split_data_keys m dd bb Es k) as [_ [_ I3]].
    assert (Hn : NoDup (map fst m)) by (apply (validated_map_nodup pairs [] m); [constructor|exact Ev]).
    destruct dd; cbn [dict_of_opt]; [cbn; tauto|]. intros; eapply I3; eauto.
Qed.

(* ------------------------------------------------------------------ sources and options *)

Lemma split_first_app : forall k v, count_char "=" k = 0%nat -> split_first "=" (k ++ "=" ++ v) = Some (k, v).
Proof.
  induction k as [|c k IH]; intros v H; cbn in *; [reflexivity|].
  destruct (Ascii.eqb c "=") eqn:E; [cbn in H; lia|]. cbn in H. rewrite (IH v H). reflexivity.
Qed.

(* a literal is split at its FIRST '=': the value may contain further '=' signs; one pair of matching quotes is dropped *)
Lemma parse_literal_spec : forall k v, k <> "" -> count_char "=" k = 0%nat ->
  parse_literal (k ++ "=" ++ v) = Ok (k, remove_quotes v).
Proof.
  intros k v Hk Hc. unfold parse_literal. rewrite (split_first_app k v Hc).
  destruct k as [|c k']; [congruence|]. cbn [append].
  destruct (Ascii.eqb_spec c "=").
  - subst. cbn in Hc. discriminate.
  - destruct c as [[] [] [] [] [] [] [] []]; try reflexivity. congruence.
Qed.

Lemma new_behavior_spec : forall s,
  new_behavior s =
  if String.eqb s "replace" then BReplace else if String.eqb s "merge" then BMerge
  else if String.eqb s "create" then BCreate else BUnspecified.
Proof.
  intro s. unfold new_behavior. cbn [behavior_table assoc].
  destruct (String.eqb s "replace"); [reflexivity|].
  destruct (String.eqb s "merge"); [reflexivity|].
  destruct (String.eqb s "create"); reflexivity.
Qed.

(* MergeGlobalOptionsIntoLocal: local labels win, a disabled hash suffix cannot be re-enabled locally *)
Lemma merge_opts_spec : forall l g k,
  let m := merge_opts (Some l) (Some g) in
  match m with
  | Some o =>
      go_disable_hash o = go_disable_hash l || go_disable_hash g /\
      go_immutable o = go_immutable l || go_immutable g /\
      dict_get k (go_labels o) = match dict_get k (rev (go_labels l)) with Some v => Some v | None => dict_get k (go_labels g) end
  | None => False
  end.
Proof. intros l g k. cbn. repeat split. apply dict_get_override. Qed.

(* ------------------------------------------------------------------ generated tables the model relies on *)

Lemma Gen_hash_encode_table :
  hash_min_len = 10%N /\ hash_prefix_len = 10%N /\
  hash_subst_table = [(48, 103); (49, 104); (51, 107); (97, 109); (101, 116)]%N.
Proof. repeat split. Qed.

Lemma Gen_hash_cm_shape :
  hash_cm_paths = ["metadata/name"; "data"; "binaryData"] /\
  hash_cm_members = [("kind", MConst "ConfigMap"); ("name", MPath "metadata/name"); ("data", MPath "data")] /\
  hash_cm_optional = [("binaryData", MPath "binaryData")].
Proof. repeat split. Qed.

Lemma Gen_hash_secret_shape :
  hash_secret_paths = ["type"; "metadata/name"; "data"; "stringData"] /\
  hash_secret_members = [("kind", MConst "Secret"); ("type", MPath "type"); ("name", MPath "metadata/name"); ("data", MPath "data")] /\
  hash_secret_optional = [("stringData", MPath "stringData")].
Proof. repeat split. Qed.

(* every path is looked up as ONE field name (so "metadata/name" finds nothing and the name is not hashed) *)
Lemma Gen_hash_lookup : hash_lookup_single_field = true /\ hash_absent_is_empty_string = true.
Proof. split; reflexivity. Qed.

Lemma Gen_behavior_table :
  behavior_table = [("replace", "BehaviorReplace"); ("merge", "BehaviorMerge"); ("create", "BehaviorCreate")] /\
  behavior_default = "BehaviorUnspecified".
Proof. split; reflexivity. Qed.

(* the annotations CopyMergeMetaDataFieldsFrom takes from the OLD object *)
Lemma Gen_build_annotations :
  forallb (fun a => str_in a build_annotation_idents)
    ["utils.BuildAnnotationPreviousKinds"; "utils.BuildAnnotationPreviousNames"; "utils.BuildAnnotationPreviousNamespaces";
     "utils.BuildAnnotationPrefixes"; "utils.BuildAnnotationSuffixes";
     "utils.BuildAnnotationsGenBehavior"; "utils.BuildAnnotationsGenAddHashSuffix"] = true.
Proof. vm_compute. reflexivity. Qed.

Lemma Gen_absorb_table :
  absorb_table =
  [("0", "types.BehaviorMerge", "error"); ("0", "types.BehaviorReplace", "error"); ("0", "default", "append");
   ("1", "types.BehaviorReplace", "replace"); ("1", "types.BehaviorMerge", "merge"); ("1", "default", "error");
   ("many", "*", "error")].
Proof. reflexivity. Qed.

(* ------------------------------------------------------------------ witnesses *)

Definition ga (name beh : string) (lits files : list string) : genargs :=
  mkGenArgs false name "" beh [] lits files "" false [] [] false false.
Definition ld (files : list (string * string)) (gens : list genargs) (ns prefix suffix : string) : ldecl :=
  mkLdecl files gens [] false (mkGopts [] [] false false) ns prefix suffix [] [] false.

Definition ex_bottom : ldecl := ld [] [ga "cfg" "" ["a=1"; "b=2"] []] "" "p-" "".
Definition ex_mid : ldecl := ld [] [ga "cfg" "merge" ["b=3"; "c=4"] []] "ns1" "" "".
Definition ex_top : ldecl := ld [] [ga "cfg" "replace" ["z=9"] []] "" "" "-s".

(* non-vacuity: a three-layer chain meets the hypotheses of the chain theorems and builds *)
Example chain_example :
  chain_for false "cfg" [ex_mid; ex_bottom] /\
  exists o, build (chain_layer ex_mid [ex_bottom]) = Ok [o] /\
            g_data o = Some [("a", "1"); ("b", "3"); ("c", "4")] /\ g_ns o = "ns1" /\
            g_name o = "p-cfg-fbcmkbc66h".
Proof.
  split.
  - repeat constructor.
  - eexists. vm_compute. repeat split.
Qed.

Example chain_example3 :
  chain_for false "cfg" [ex_top; ex_mid; ex_bottom] /\
  chain_data ex_top [ex_mid; ex_bottom] = Ok (Some (Some [("z", "9")], [])) /\
  exists o, build (chain_layer ex_top [ex_mid; ex_bottom]) = Ok [o] /\ g_data o = Some [("z", "9")].
Proof.
  split; [repeat constructor|]. split; [vm_compute; reflexivity|]. eexists. vm_compute. split; reflexivity.
Qed.

(* the error laws are reachable *)
Example chain_error_examples :
  chain_data (ld [] [ga "cfg" "merge" ["a=1"] []] "" "" "") [] = Err /\
  chain_data (ld [] [ga "cfg" "replace" ["a=1"] []] "" "" "") [] = Err /\
  chain_data (ld [] [ga "cfg" "create" ["a=2"] []] "" "" "") [ex_bottom] = Err /\
  chain_data (ld [] [ga "cfg" "" ["a=2"] []] "" "" "") [ex_bottom] = Err.
Proof. repeat split. Qed.

Example ambiguous_example :
  build (Layer [Layer [] (ld [] [ga "cfg" "" ["a=1"] []] "" "x-" "");
                Layer [] (ld [] [ga "cfg" "" ["a=2"] []] "" "y-" "")]
               (ld [] [ga "cfg" "merge" ["b=1"] []] "" "" "")) = Err.
Proof. vm_compute. reflexivity. Qed.

(* regression (was the witness of merge-key-in-data-and-binaryData until the repair 0a87769 of MergeDataMapFrom /
   MergeBinaryDataMapFrom): a text value merged over a binary one leaves the key in data only *)
Definition stale_tree : layer :=
  Layer [Layer [] (ld [("bin.dat", sb [255; 254]%N)] [ga "cfg" "" [] ["k=bin.dat"]] "" "" "")]
        (ld [] [ga "cfg" "merge" ["k=text"] []] "" "" "").

Example keys_disjoint_regression :
  exists o, build stale_tree = Ok [o] /\
            dict_get "k" (dict_of_opt (g_data o)) = Some "text" /\ dict_get "k" (g_bin o) = None.
Proof. eexists. split; [vm_compute; reflexivity|]. vm_compute. split; reflexivity. Qed.

(* regression (was the witness of hash-yaml-roundtrip-leading-tab until the repair baa93c5): a file starting with a TAB, two lines, builds *)
Definition tab_tree : layer :=
  Layer [] (ld [("f.txt", sb [9; 120; 10; 121]%N)] [ga "cfg" "" [] ["k=f.txt"]] "" "" "").

Example leading_tab_regression :
  exists o, build tab_tree = Ok [o] /\ g_data o = Some [("k", sb [9; 120; 10; 121]%N)] /\ g_name o = "cfg-k2mh79m426".
Proof. eexists. split; [vm_compute; reflexivity|]. vm_compute. split; reflexivity. Qed.

(* finding hash-yaml-roundtrip-merge-key: a well-formed declaration that cannot be built *)
Definition merge_key_tree : layer :=
  Layer [] (ld [] [ga "cfg" "" ["<<=v"] []] "" "" "").

Lemma build_total_refuted :
  (exists o, accumulate merge_key_tree = Ok [o] /\ g_data o = Some [("<<", "v")]) /\ build merge_key_tree = Err.
Proof. split; [eexists; vm_compute; split; reflexivity|vm_compute; reflexivity]. Qed.

(* finding hash-ignores-null-named-keys: the data changes, the name does not *)
Definition null_tree (v : string) : layer :=
  Layer [] (ld [] [ga "cfg" "" ["null=" ++ v; "k=v"] []] "" "" "").

Lemma fresh_name_refuted :
  exists o o', build (null_tree "a") = Ok [o] /\ build (null_tree "b") = Ok [o'] /\
               g_data o <> g_data o' /\ g_name o = g_name o'.
Proof. do 2 eexists. vm_compute. repeat split. discriminate. Qed.
