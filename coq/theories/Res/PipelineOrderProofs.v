(* C01 (whole build): the name-reference pass does not depend on the order in which Go's map iteration
   visits the referrers.  [visit_order] (Res/Pipeline.v) is the pass with the order as a parameter;
   [nameref_transform] (Res/NameRef.v, the function the correspondence evaluates) is the list-order instance. *)
From KV Require Import Res.Pipeline Res.NameRefProofs Res.C03Facts Yaml.FieldSpecSpec.
From Coq Require Import Sorting.Permutation.
Local Open Scope string_scope.

Ltac inv H := inversion H; subst; clear H.

(* ---------- list facts ---------- *)

Lemma replace_nth_length {A} i (x : A) l : List.length (replace_nth i x l) = List.length l.
Proof. revert i. induction l as [|y t IH]; intros [|i]; cbn; auto. Qed.

Lemma nth_error_replace_same {A} i (x : A) l y :
  nth_error l i = Some y -> nth_error (replace_nth i x l) i = Some x.
Proof. revert i. induction l as [|z t IH]; intros [|i]; cbn; try discriminate; auto. Qed.

Lemma nth_error_replace_other {A} i j (x : A) l :
  i <> j -> nth_error (replace_nth i x l) j = nth_error l j.
Proof.
  revert i j. induction l as [|z t IH]; intros [|i] [|j] H; cbn; try reflexivity; try congruence.
  apply IH. congruence.
Qed.

Lemma replace_nth_comm {A} i j (x y : A) l :
  i <> j -> replace_nth i x (replace_nth j y l) = replace_nth j y (replace_nth i x l).
Proof.
  revert i j. induction l as [|z t IH]; intros [|i] [|j] H; cbn; try reflexivity; try congruence.
  f_equal. apply IH. congruence.
Qed.

Lemma replace_nth_app {A} (a : list A) r r' t :
  replace_nth (List.length a) r' (a ++ r :: t) = (a ++ r' :: t)%list.
Proof. induction a as [|x a IH]; cbn; [reflexivity|now rewrite IH]. Qed.

Lemma Forall2_firstn {A B} (R : A -> B -> Prop) n : forall l l', Forall2 R l l' -> Forall2 R (firstn n l) (firstn n l').
Proof. induction n as [|n IH]; intros l l' H; cbn; [constructor|]. destruct H; constructor; auto. Qed.

Lemma Forall2_skipn {A B} (R : A -> B -> Prop) n : forall l l', Forall2 R l l' -> Forall2 R (skipn n l) (skipn n l').
Proof. induction n as [|n IH]; intros l l' H; cbn; [exact H|]. destruct H; [constructor|auto]. Qed.

Lemma Forall2_replace {A} (R : A -> A -> Prop) i x y l :
  (forall a, R a a) -> nth_error l i = Some x -> R x y -> Forall2 R l (replace_nth i y l).
Proof.
  intros Hr. revert i. induction l as [|z t IH]; intros [|i] H1 H2; cbn in *; try discriminate.
  - inv H1. constructor; [exact H2|]. clear -Hr. induction t; constructor; auto.
  - constructor; [apply Hr|]. apply IH; auto.
Qed.

Lemma mapM_length {A B} (f : A -> res B) l l' : mapM f l = Ok l' -> List.length l' = List.length l.
Proof.
  revert l'. induction l as [|x t IH]; intros l' H; cbn in H; [now inv H|].
  destruct (f x); cbn in H; try discriminate. destruct (mapM f t); cbn in H; try discriminate.
  inv H. cbn. now rewrite (IH _ eq_refl).
Qed.

(* ---------- what a visit reads of the other resources is identity and rename history only ---------- *)

Section Order.
  Variable nonstr : string -> bool.
  Notation cs := pipe_cs.

  Lemma ident_inj n n' :
    ident n' = ident n ->
    get_api_version n' = get_api_version n /\ get_kind n' = get_kind n /\
    get_name n' = get_name n /\ get_namespace n' = get_namespace n.
  Proof. unfold ident. intros H. inversion H. auto. Qed.

  Lemma cur_id_same r r' : same_identity r r' -> cur_id cs r' = cur_id cs r.
  Proof.
    intros [H _]. apply ident_inj in H as (H1 & H2 & H3 & H4).
    unfold cur_id, cur_gvk. now rewrite H1, H2, H3, H4.
  Qed.

  Lemma view_same r r' : same_identity r r' -> view cs r' = view cs r.
  Proof.
    intros HS. pose proof (cur_id_same _ _ HS) as HC. destruct HS as [H (B1 & B2 & B3 & B4 & B5 & B6)].
    apply ident_inj in H as (H1 & H2 & H3 & H4).
    unfold view, prev_ids, name_prefixes, name_suffixes. rewrite B1, B2, B3, B4, B5, H1, H2, H3, H4, HC. reflexivity.
  Qed.

  Lemma select_view_same flags : forall l l',
    Forall2 same_identity l l' ->
    mapM (view cs) (select_by flags l') = mapM (view cs) (select_by flags l).
  Proof.
    induction flags as [|b fl IH]; intros l l' H; [reflexivity|].
    destruct H as [|x y t t' Hxy Ht]; [destruct b; reflexivity|].
    destruct b; cbn [select_by]; [|apply IH; exact Ht].
    cbn [mapM]. rewrite (view_same _ _ Hxy). destruct (view cs x); cbn [bind]; try reflexivity.
    rewrite (IH _ _ Ht). reflexivity.
  Qed.

  Lemma Forall2_app_mid (mb mb' ma ma' : list resource) r :
    Forall2 same_identity mb mb' -> Forall2 same_identity ma ma' ->
    Forall2 same_identity (mb ++ r :: ma) (mb' ++ r :: ma').
  Proof.
    intros H1 H2. apply Forall2_app; [exact H1|]. constructor; [apply same_identity_refl|exact H2].
  Qed.

  Lemma apply_rules_congr mb mb' ma ma' flags fl : forall r,
    Forall2 same_identity mb mb' -> Forall2 same_identity ma ma' ->
    apply_rules cs nonstr mb' ma' flags fl r = apply_rules cs nonstr mb ma flags fl r.
  Proof.
    induction fl as [|[fs tg] t IH]; intros r H1 H2; [reflexivity|].
    cbn [apply_rules]. rewrite (select_view_same flags _ _ (Forall2_app_mid _ _ _ _ r H1 H2)).
    destruct (mapM (view cs) _); cbn [bind]; try reflexivity.
    destruct (apply_rule cs nonstr a fs tg r); cbn [bind]; try reflexivity. apply IH; assumption.
  Qed.

  Lemma referencable_congr m m' r :
    Forall2 same_identity m m' -> referencable cs m' r = referencable cs m r.
  Proof.
    intros H. unfold referencable.
    assert (L : forall (f : resource -> bool) (g : resource -> bool),
               (forall x y, same_identity x y -> g y = f x) -> map g m' = map f m).
    { intros f g Hfg. induction H; cbn; [reflexivity|]. f_equal; auto. }
    destruct (id_cluster_scoped (cur_id cs r)).
    - f_equal. apply L. reflexivity.
    - destruct (rolebinding_namespaces (r_node r)); cbn [bind]; try reflexivity.
      f_equal. apply L. intros x y Hxy. cbv beta. rewrite (cur_id_same _ _ Hxy).
      destruct Hxy as [Hi _]. apply ident_inj in Hi as (_ & _ & _ & H4).
      rewrite H4. reflexivity.
  Qed.

  Variable rules : list nbr.
  Hypothesis rules_ok : forall b f, In b rules -> In f (nb_referrers b) -> rule_ok f.
  Variable orgs : list resid.

  Lemma visit_core_congr m m' i :
    Forall2 same_identity m m' -> nth_error m' i = nth_error m i ->
    visit_core nonstr rules orgs m' i = visit_core nonstr rules orgs m i.
  Proof.
    intros H Hn. unfold visit_core. rewrite Hn.
    destruct (nth_error m i) as [r|]; [|reflexivity].
    destruct (nth_error orgs i) as [org|]; [|reflexivity].
    destruct (filters_for rules org) as [|f0 fl]; [reflexivity|].
    rewrite (referencable_congr _ _ r H). destruct (referencable cs m r); cbn [bind]; try reflexivity.
    rewrite (apply_rules_congr (firstn i m) (firstn i m') (skipn (S i) m) (skipn (S i) m'));
      [reflexivity|apply Forall2_firstn; exact H|apply Forall2_skipn; exact H].
  Qed.

  Lemma visit_core_identity m i r' :
    visit_core nonstr rules orgs m i = Ok (Some r') ->
    exists r, nth_error m i = Some r /\ same_identity r r'.
  Proof.
    unfold visit_core. destruct (nth_error m i) as [r|]; [|discriminate].
    destruct (nth_error orgs i) as [org|]; [|discriminate].
    pose proof (filters_for_ok rules org rules_ok) as Hok.
    destruct (filters_for rules org) as [|f0 fl]; [discriminate|].
    destruct (referencable cs m r); cbn [bind]; try discriminate.
    destruct (apply_rules cs nonstr _ _ a (f0 :: fl) r) as [r1| | |] eqn:E; cbn [bind]; try discriminate.
    intros H. inv H. exists r. split; [reflexivity|]. eapply apply_rules_identity; eauto.
  Qed.

  (* a visit leaves a map with the same identities, changed at most at the visited position *)
  Lemma visit_at_spec m i m' :
    visit_at nonstr rules orgs m i = Ok m' ->
    Forall2 same_identity m m' /\ (forall j, j <> i -> nth_error m' j = nth_error m j).
  Proof.
    unfold visit_at. destruct (visit_core nonstr rules orgs m i) as [[r'|]| | |] eqn:E; cbn [bind]; try discriminate.
    - intros H. inv H. destruct (visit_core_identity _ _ _ E) as (r & Hr & Hs).
      split; [eapply Forall2_replace; eauto using same_identity_refl|].
      intros j Hj. apply nth_error_replace_other. congruence.
    - intros H. inv H. split; [|reflexivity]. clear. induction m'; constructor; auto using same_identity_refl.
  Qed.

  (* two visits of different positions commute *)
  Lemma visit_at_comm m i j m1 m2 :
    i <> j ->
    visit_at nonstr rules orgs m i = Ok m1 -> visit_at nonstr rules orgs m1 j = Ok m2 ->
    exists m1', visit_at nonstr rules orgs m j = Ok m1' /\ visit_at nonstr rules orgs m1' i = Ok m2.
  Proof.
    intros Hij H1 H2.
    destruct (visit_at_spec _ _ _ H1) as [S1 N1].
    assert (Cj : visit_core nonstr rules orgs m1 j = visit_core nonstr rules orgs m j)
      by (apply visit_core_congr; [exact S1|apply N1; congruence]).
    unfold visit_at in H2. rewrite Cj in H2.
    destruct (visit_core nonstr rules orgs m j) as [oj| | |] eqn:Ej; cbn [bind] in H2; try discriminate.
    inv H2.
    set (m1' := match oj with Some r' => replace_nth j r' m | None => m end).
    assert (Hv : visit_at nonstr rules orgs m j = Ok m1') by (unfold visit_at; rewrite Ej; reflexivity).
    exists m1'. split; [exact Hv|].
    destruct (visit_at_spec _ _ _ Hv) as [S2 N2].
    assert (Ci : visit_core nonstr rules orgs m1' i = visit_core nonstr rules orgs m i)
      by (apply visit_core_congr; [exact S2|apply N2; exact Hij]).
    unfold visit_at in H1 |- *. rewrite Ci.
    destruct (visit_core nonstr rules orgs m i) as [oi| | |] eqn:Ei; cbn [bind] in H1 |- *; try discriminate.
    inv H1. f_equal. unfold m1'. destruct oi as [ri|], oj as [rj|]; try reflexivity.
    apply replace_nth_comm. exact Hij.
  Qed.

  (* the pass over any permutation of a visiting order *)
  Lemma visit_order_perm o1 o2 :
    Permutation o1 o2 -> forall m out,
    visit_order nonstr rules orgs o1 m = Ok out -> visit_order nonstr rules orgs o2 m = Ok out.
  Proof.
    induction 1 as [|x l l' _ IH|x y l|l1 l2 l3 _ IH1 _ IH2]; intros m out H.
    - exact H.
    - cbn [visit_order] in *. destruct (visit_at nonstr rules orgs m x); cbn [bind] in *; try discriminate. auto.
    - cbn [visit_order] in *.
      destruct (visit_at nonstr rules orgs m y) as [m1| | |] eqn:E1; cbn [bind] in H; try discriminate.
      destruct (visit_at nonstr rules orgs m1 x) as [m2| | |] eqn:E2; cbn [bind] in H; try discriminate.
      destruct (Nat.eq_dec y x) as [->|Hne].
      + rewrite E1. cbn [bind]. rewrite E2. exact H.
      + destruct (visit_at_comm _ _ _ _ _ Hne E1 E2) as (m1' & F1 & F2).
        rewrite F1. cbn [bind]. rewrite F2. exact H.
    - auto.
  Qed.

  (* the list-order pass of Res/NameRef.v is the instance [seq 0 n] *)
  Lemma transform_loop_is_visit_order : forall todo done out,
    List.length orgs = List.length (done ++ todo) ->
    transform_loop cs nonstr (map (filters_for rules) (skipn (List.length done) orgs)) done todo = Ok out <->
    visit_order nonstr rules orgs (seq (List.length done) (List.length todo)) (done ++ todo) = Ok out.
  Proof.
    induction todo as [|r t IH]; intros done out HL.
    - cbn. rewrite app_nil_r. destruct (map _ _); reflexivity.
    - assert (Hlt : List.length done < List.length orgs) by (rewrite HL, app_length; cbn; lia).
      destruct (nth_error orgs (List.length done)) as [org|] eqn:EO;
        [|apply nth_error_None in EO; lia].
      assert (ES : skipn (List.length done) orgs = org :: skipn (S (List.length done)) orgs).
      { clear -EO. revert EO. generalize (List.length done). intros n. revert orgs.
        induction n as [|n IHn]; intros [|o os] H; cbn in *; try discriminate; [now inv H|auto]. }
      rewrite ES. cbn [map transform_loop seq List.length visit_order].
      assert (HN : nth_error (done ++ r :: t) (List.length done) = Some r)
        by (rewrite nth_error_app2 by lia; now rewrite Nat.sub_diag).
      assert (HF : firstn (List.length done) (done ++ r :: t) = done)
        by (rewrite firstn_app, Nat.sub_diag, firstn_all; cbn; now rewrite app_nil_r).
      assert (HS : skipn (S (List.length done)) (done ++ r :: t) = t).
      { rewrite skipn_app. replace (S (List.length done) - List.length done) with 1 by lia.
        rewrite skipn_all2 by lia. reflexivity. }
      unfold visit_at, visit_core. rewrite HN, EO, HF, HS.
      assert (HL' : List.length orgs = List.length ((done ++ [r]) ++ t)) by (rewrite <- app_assoc; exact HL).
      assert (E1 : S (List.length done) = List.length (done ++ [r])) by (rewrite app_length; cbn; lia).
      destruct (filters_for rules org) as [|f0 fl].
      + cbn [bind]. rewrite E1. rewrite (IH (done ++ [r])%list out HL'). rewrite <- app_assoc. reflexivity.
      + destruct (referencable cs (done ++ r :: t) r) as [flags| | |]; cbn [bind]; try (split; discriminate).
        destruct (apply_rules cs nonstr done t flags (f0 :: fl) r) as [r'| | |]; cbn [bind]; try (split; discriminate).
        rewrite replace_nth_app. rewrite E1.
        assert (HL2 : List.length orgs = List.length ((done ++ [r']) ++ t))
          by (rewrite HL, <- app_assoc, !app_length; reflexivity).
        assert (E2 : List.length (done ++ [r]) = List.length (done ++ [r'])) by (rewrite !app_length; reflexivity).
        rewrite E2. rewrite (IH (done ++ [r'])%list out HL2). rewrite <- app_assoc. reflexivity.
  Qed.
End Order.

(* PIPE_nameref_order_independent: with the generated rule table, visiting the referrers in ANY order that
   visits each exactly once gives, on success, the result of the list-order pass the model (and the
   correspondence) uses; in particular any two such orders agree. *)
Theorem nameref_order_independent nonstr rules order m out :
  effective_rules gen_gvk_order_first gen_gvk_order_last gen_nameref_raw = Ok rules ->
  Permutation order (seq 0 (List.length m)) ->
  nameref_in_order nonstr rules order m = Ok out ->
  nameref_transform pipe_cs nonstr rules m = Ok out.
Proof.
  intros HR HP H. unfold nameref_in_order in H. unfold nameref_transform.
  destruct (mapM (org_id pipe_cs) m) as [orgs| | |] eqn:EO; cbn [bind] in H |- *; try discriminate H.
  assert (Hok : forall b f, In b rules -> In f (nb_referrers b) -> rule_ok f)
    by (intros b f; apply gen_rule_ok; exact HR).
  apply (visit_order_perm nonstr rules Hok orgs _ _ HP) in H.
  apply (transform_loop_is_visit_order nonstr rules orgs m [] out); [cbn; apply (mapM_length _ _ _ EO)|exact H].
Qed.

Theorem nameref_order_independent_conv nonstr rules order m out :
  effective_rules gen_gvk_order_first gen_gvk_order_last gen_nameref_raw = Ok rules ->
  Permutation order (seq 0 (List.length m)) ->
  nameref_transform pipe_cs nonstr rules m = Ok out ->
  nameref_in_order nonstr rules order m = Ok out.
Proof.
  intros HR HP H. unfold nameref_in_order. unfold nameref_transform in H.
  destruct (mapM (org_id pipe_cs) m) as [orgs| | |] eqn:EO; cbn [bind] in H |- *; try discriminate H.
  assert (Hok : forall b f, In b rules -> In f (nb_referrers b) -> rule_ok f)
    by (intros b f; apply gen_rule_ok; exact HR).
  apply (visit_order_perm nonstr rules Hok orgs _ _ (Permutation_sym HP)).
  apply (transform_loop_is_visit_order nonstr rules orgs m [] out); [cbn; apply (mapM_length _ _ _ EO)|exact H].
Qed.

(* non-vacuity: two referrers of a renamed ConfigMap, visited in the reverse order - same result, and the
   references did follow the rename *)
Definition order_example_map : res (list resource) :=
  accumulate (fun _ => false)
    (PDir "d" (mkPDirs "" "p-" "" [] [] [] [] [])
       [PFile [Map [("apiVersion", Scalar TStr SPlain "v1"); ("kind", Scalar TStr SPlain "ConfigMap");
                    ("metadata", Map [("name", Scalar TStr SPlain "cfg")])];
               Map [("apiVersion", Scalar TStr SPlain "v1"); ("kind", Scalar TStr SPlain "Pod");
                    ("metadata", Map [("name", Scalar TStr SPlain "a")]);
                    ("spec", Map [("volumes", Seq [Map [("configMap", Map [("name", Scalar TStr SPlain "cfg")])]])])];
               Map [("apiVersion", Scalar TStr SPlain "v1"); ("kind", Scalar TStr SPlain "Pod");
                    ("metadata", Map [("name", Scalar TStr SPlain "b")]);
                    ("spec", Map [("volumes", Seq [Map [("configMap", Map [("name", Scalar TStr SPlain "cfg")])]])])]]]).

Definition order_example_m : list resource :=
  Eval vm_compute in match order_example_map with Ok m => m | _ => [] end.
Definition order_example_rules : list nbr :=
  Eval vm_compute in match pipe_rules with Ok l => l | _ => [] end.

Example order_example :
  nameref_in_order (fun _ => false) order_example_rules [2; 0; 1] order_example_m =
  nameref_transform pipe_cs (fun _ => false) order_example_rules order_example_m /\
  match nameref_in_order (fun _ => false) order_example_rules [2; 0; 1] order_example_m with
  | Ok out =>
      map (fun r => get_at [JKey "spec"; JKey "volumes"; JIdx 0; JKey "configMap"; JKey "name"] (r_node r)) out
  | _ => []
  end = [None; Some (Scalar TNone SPlain "p-cfg"); Some (Scalar TNone SPlain "p-cfg")].
Proof. vm_compute. split; reflexivity. Qed.
